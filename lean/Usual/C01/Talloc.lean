/-!
# Executable model of `usual/talloc.c` (properties C01 and C19)

Pointers are replaced by ids (index into `State.heap`, never reused).  Every chunk that
`talloc.c` allocates is an object of the model: user objects (`Kind.plain`), the per-reference
`struct TRef` chunks (`Kind.ref target`) and the hidden `.memlimit` chunk (`Kind.limit`).
The functions mirror the C functions of the same name branch by branch; where C loops or
recurses the model uses explicit fuel and records exhaustion in `State.oof` (the driver prints
it, the theorems are stated for runs that did not exhaust it).

`Cfg` selects, defect by defect, between the code as pinned (`Cfg.old`) and the repaired code
(`Cfg.fixed` = pinned + fixes/F14 + fixes/F15).  The theorems are about `Cfg.fixed`; the
`…_old_counterexample` theorems evaluate `Cfg.old`.
-/
namespace Usual.C01

abbrev Id := Nat

/-- sizeof(struct THeader) on LP64 -/
def THSIZE : Nat := 88
/-- sizeof(struct TRef), sizeof(struct TLimit) -/
def REFSIZE : Nat := 24
def LIMSIZE : Nat := 16
def MAXLEN : Nat := 0x10000000

/-- `ALIGN(x)` = round up to sizeof(long) -/
def alignUp (n : Nat) : Nat := (n + 7) / 8 * 8
/-- `total_size(alloc)` -/
def totalSize (n : Nat) : Nat := alignUp n + THSIZE

inductive Kind
  | plain
  | ref (target : Id)
  | limit
deriving DecidableEq, Repr, Inhabited

/-- scripted destructor: `refuse (n+1)` returns -1 and becomes `refuse n`; `refuse 0` accepts;
`reenter` calls `talloc_free(self)` from inside the destructor (answered `0` by the
FLAG_PENDING guard, which is a no-op in the model) and accepts -/
inductive Dtor
  | none
  | accept
  | refuse (n : Nat)
  | reenter
deriving DecidableEq, Repr, Inhabited

structure Obj where
  parent : Option Id := none
  children : List Id := []
  refs : List Id := []
  kind : Kind := .plain
  size : Nat := 0
  dtor : Dtor := .none
  pending : Bool := false
  useLim : Bool := false
  hasLim : Bool := false
  cx : Nat := 0
  lmax : Nat := 0
  lcur : Nat := 0
deriving DecidableEq, Repr, Inhabited

inductive Event
  | dtorOk (o : Id)
  | dtorRefuse (o : Id)
  | release (o : Id)
deriving DecidableEq, Repr, Inhabited

/-- which repairs are applied -/
structure Cfg where
  /-- F15: `throw_child` moves the child itself (`move_child`) instead of asking
  `talloc_reparent`, which may refuse (cx check) -/
  fixCx : Bool
  /-- F14a: `memlimit_walk` counts `total_size(size)` -/
  fixWalk : Bool
  /-- F14b: `_talloc_realloc` charges the difference of `total_size` -/
  fixRealloc : Bool
  /-- F14c: `talloc_set_memlimit` charges existing children and passes the flag down -/
  fixSet : Bool
  /-- F14d: `_talloc_unlink` moves the charge when it promotes a reference -/
  fixPromote : Bool
  /-- F14e: `apply_memlimit_marked` goes on to the outer limits when the TLimit is gone -/
  fixGone : Bool
  /-- F14f: roll-back after `cx_realloc` failure is forced -/
  fixRollback : Bool
deriving DecidableEq, Repr

def Cfg.fixed : Cfg := ⟨true, true, true, true, true, true, true⟩
def Cfg.old : Cfg := ⟨false, false, false, false, false, false, false⟩

structure State where
  heap : List (Option Obj) := []
  nullCtx : Option Id := none
  /-- newest first -/
  log : List Event := []
  /-- fuel of a recursive model function exhausted (ghost; never set in any run seen) -/
  oof : Bool := false
  /-- ghost assertion of the `list_for_each_safe` protocol failed: the prefetched element had
  left the child list, or children were left under a context at the moment it is released -/
  stuck : Bool := false
deriving DecidableEq, Repr, Inhabited

namespace State

def get (s : State) (i : Id) : Option Obj := (s.heap[i]?).join

def modify (s : State) (i : Id) (f : Obj → Obj) : State :=
  { s with heap := s.heap.modify i (Option.map f) }

def remove (s : State) (i : Id) : State :=
  { s with heap := s.heap.modify i (fun _ => none) }

def push (s : State) (o : Obj) : State :=
  { s with heap := s.heap ++ [some o] }

def addLog (s : State) (e : Event) : State := { s with log := e :: s.log }

def setOof (s : State) : State := { s with oof := true }

def setStuck (s : State) : State := { s with stuck := true }

def live (s : State) (i : Id) : Bool := (s.get i).isSome

/-- a fuel that is larger than any chain or any number of loop iterations in `s` -/
def fuel (s : State) : Nat := 8 * s.heap.length + 16

end State

def isRef (o : Obj) : Bool := match o.kind with | .ref _ => true | _ => false
def isLimit (o : Obj) : Bool := match o.kind with | .limit => true | _ => false

/-- `ptr2hdr(parent ? parent : null_context)` -/
def orNull (s : State) (p : Option Id) : Option Id :=
  match p with
  | some x => some x
  | none => s.nullCtx

/-! ## child list primitives -/

/-- `list_del(&t->node)` -/
def detach (s : State) (t : Id) : State :=
  match s.get t with
  | none => s
  | some o =>
    match o.parent with
    | none => s
    | some p => s.modify p fun po => { po with children := po.children.erase t }

/-- `add_child(parent, child)`: refs to start, others to end -/
def addChild (s : State) (p : Option Id) (t : Id) (front : Bool) : State :=
  match p with
  | none => s
  | some p => s.modify p fun po =>
      { po with children := if front then t :: po.children else po.children ++ [t] }

/-- successor of `c` in a list (`none` = list head reached) -/
def succOf : List Id → Id → Option Id
  | [], _ => none
  | x :: xs, c => if x = c then xs.head? else succOf xs c

/-! ## memlimit -/

/-- the `.memlimit` child of a node -/
def findLim (s : State) : List Id → Option Id
  | [] => none
  | c :: cs =>
    match s.get c with
    | some co => if isLimit co then some c else findLim s cs
    | none => findLim s cs

/-- `apply_memlimit(parent, delta, force)`; `none` = refused -/
def applyLim (cfg : Cfg) : Nat → State → Option Id → Int → Bool → Option State
  | 0, s, _, _, _ => some s.setOof
  | f + 1, s, t, d, force =>
    match t with
    | none => some s
    | some t =>
      match s.get t with
      | none => some s
      | some o =>
        if !o.useLim then some s
        else if !o.hasLim then applyLim cfg f s o.parent d force
        else
          match findLim s o.children with
          | none => if cfg.fixGone then applyLim cfg f s o.parent d force else some s
          | some l =>
            match s.get l with
            | none => some s
            | some lo =>
              if decide (d > 0) && !force && decide ((lo.lcur : Int) + d > (lo.lmax : Int)) then none
              else
                match applyLim cfg f s o.parent d force with
                | none => none
                | some s' =>
                  some (s'.modify l fun x => { x with lcur := ((x.lcur : Int) + d).toNat })

inductive WOp
  | none
  | set
  | clear
deriving DecidableEq, Repr

/-- what `memlimit_walk` adds for one node -/
def walkCharge (cfg : Cfg) (size : Nat) : Nat := if cfg.fixWalk then totalSize size else size

/-- "sync memlimit flags" of `memlimit_walk`: new state and the op passed to the children -/
def walkSync (s : State) (t : Id) (o : Obj) : WOp → State × WOp
  | .set => (s.modify t fun x => { x with useLim := true }, WOp.set)
  | .clear =>
    if o.hasLim then (s, WOp.none)
    else (s.modify t fun x => { x with useLim := false }, WOp.clear)
  | .none => (s, WOp.none)

/-- `memlimit_walk(t, depth, op)`: syncs the USE flag, returns the counted bytes.
(The PENDING marks it sets and clears as cycle guard are not modelled.) -/
def walk (cfg : Cfg) : Nat → State → Id → WOp → State × Nat
  | 0, s, _, _ => (s.setOof, 0)
  | f + 1, s, t, op =>
    match s.get t with
    | none => (s, 0)
    | some o =>
      if o.pending then (s, 0)
      else
        let p := walkSync s t o op
        let r := o.children.foldl
          (fun (acc : State × Nat) c =>
            let r := walk cfg f acc.1 c p.2
            (r.1, acc.2 + r.2)) (p.1, 0)
        (r.1, r.2 + walkCharge cfg o.size)

def hasUse (s : State) (p : Option Id) : Bool :=
  match p with
  | none => false
  | some p => match s.get p with
    | some o => o.useLim
    | none => false

/-- which flag sync `move_memlimit` asks `memlimit_walk` for -/
def moveWalkOp (oldlim newlim : Bool) : WOp :=
  if oldlim && !newlim then WOp.clear else if newlim && !oldlim then WOp.set else WOp.none

/-- second half of `move_memlimit`: subtract from the old parent, add to the new one, fix the flag
of the moved chunk -/
def moveApply (cfg : Cfg) (fuel : Nat) (s1 : State) (t : Id) (newp oldp : Option Id)
    (oldlim newlim : Bool) (delta : Nat) : State :=
  let s2 := if oldlim then (applyLim cfg fuel s1 oldp (-(delta : Int)) true).getD s1 else s1
  if newlim then
    let s3 := (applyLim cfg fuel s2 newp (delta : Int) true).getD s2
    s3.modify t fun x => { x with useLim := true }
  else
    match s2.get t with
    | some o => if !o.hasLim then s2.modify t fun x => { x with useLim := false } else s2
    | none => s2

/-- `move_memlimit(t, new_parent, old_parent)` -/
def moveMemlimit (cfg : Cfg) (s : State) (t : Id) (newp oldp : Option Id) : State :=
  let newlim := hasUse s newp
  let oldlim := hasUse s oldp
  if !oldlim && !newlim then s
  else
    let w := walk cfg s.fuel s t (moveWalkOp oldlim newlim)
    moveApply cfg s.fuel w.1 t newp oldp oldlim newlim w.2

/-! ## references -/

/-- `find_ref_by_parent(t, tparent)` over `t->ref_list` -/
def findRefByParent (s : State) (tparent : Option Id) : List Id → Option Id
  | [] => none
  | r :: rs =>
    match s.get r with
    | some ro => if ro.parent = tparent then some r else findRefByParent s tparent rs
    | none => findRefByParent s tparent rs

def allRefsUnder (s : State) (tparent : Option Id) : List Id → Bool
  | [] => true
  | r :: rs =>
    match s.get r with
    | some ro => ro.parent = tparent && allRefsUnder s tparent rs
    | none => false

/-! ## reparent -/

/-- `parent ? parent->cx : NULL` -/
def cxOf (s : State) (p : Option Id) : Nat :=
  match p with
  | none => 0
  | some p => match s.get p with
    | some o => o.cx
    | none => 0


/-- `move_child(t, tnew, told)`: list_del, add_child, parent, move_memlimit -/
def moveChild (cfg : Cfg) (s : State) (t : Id) (tnew told : Option Id) : State :=
  match s.get t with
  | none => s
  | some tb =>
    let s1 := detach s t
    let s2 := addChild s1 tnew t (isRef tb)
    let s3 := s2.modify t fun x => { x with parent := tnew }
    moveMemlimit cfg s3 t tnew told

/-- `talloc_reparent(old_parent, new_parent, ptr)`; `true` = returned `ptr` -/
def reparent (cfg : Cfg) (s : State) (oldp newp : Option Id) (o : Id) : State × Bool :=
  match s.get o with
  | none => (s, false)
  | some ob =>
    let tnew := orNull s newp
    let told := orNull s oldp
    if tnew = some o || tnew = told then (s, true)
    else
      -- find ref to change parent of
      let t? : Option Id := if told ≠ ob.parent then findRefByParent s told ob.refs else some o
      match t? with
      | none => (s, false)
      | some t =>
        match s.get t with
        | none => (s, false)
        | some tb =>
          -- check cx change
          if tb.cx ≠ cxOf s tnew then (s, false)
          else (moveChild cfg s t tnew told, true)

/-- first non-pending ancestor; outer `none` = fuel exhausted -/
def climbPending : Nat → State → Option Id → Option (Option Id)
  | 0, _, _ => none
  | f + 1, s, p =>
    match p with
    | none => some none
    | some p' =>
      match s.get p' with
      | some o => if o.pending then climbPending f s o.parent else some (some p')
      | none => some (some p')

/-- `throw_child(t)`: attach undying child to live parent -/
def throwChild (cfg : Cfg) (s : State) (t : Id) : State :=
  match s.get t with
  | none => s
  | some tb =>
    match climbPending s.fuel s tb.parent with
    | none => s.setOof
    | some parent =>
      if cfg.fixCx then
        let parent := orNull s parent
        -- old parent goes away, so this must not fail like talloc_reparent() can
        if parent ≠ tb.parent then moveChild cfg s t parent tb.parent else s
      else (reparent cfg s tb.parent parent t).1

/-! ## free / unlink / free_children -/

inductive Call
  | free (o : Id)
  | unlink (ctx : Option Id) (o : Id)
  /-- the `list_for_each_safe` loop of `free_children(o, free_name)` standing at `cur` -/
  | loop (o : Id) (freeName : Bool) (cur : Option Id)
deriving DecidableEq, Repr

/-- one call of the destructor slot: (accepted, new script, logged?) -/
def dtorStep : Dtor → Bool × Dtor × Bool
  | .none => (true, .none, false)
  | .accept => (true, .accept, true)
  | .refuse 0 => (true, .refuse 0, true)
  | .refuse (n + 1) => (false, .refuse n, true)
  | .reenter => (true, .reenter, true)

def childrenOf (s : State) (o : Id) : List Id :=
  match s.get o with
  | some ob => ob.children
  | none => []

/-- start of an accepted `_talloc_free`: FLAG_PENDING set, destructor has run (a TRef's
`ref_destructor` takes it out of its target's `ref_list`), `list_del(&t->node)` -/
def freeBegin (s : State) (o : Id) (ob : Obj) (d' : Dtor) (logged : Bool) : State :=
  let s0 := s.modify o fun x => { x with dtor := d', pending := true }
  let s0 := if logged then s0.addLog (.dtorOk o) else s0
  let s1 := match ob.kind with
    | .ref tgt => s0.modify tgt fun x => { x with refs := x.refs.erase o }
    | _ => s0
  detach s1 o

/-- end of `_talloc_free` after `free_children(ptr, true)`: `cx_free`, un-charge the parent -/
def freeEnd (cfg : Cfg) (s3 : State) (o : Id) : State × Int :=
  match s3.get o with
  | none => (s3, 0)
  | some ob3 =>
    -- ghost assertion: free_children(ptr, true) left nothing behind
    let s3 := if ob3.children.isEmpty then s3 else s3.setStuck
    let s4 := (s3.remove o).addLog (.release o)
    let s5 := (applyLim cfg s4.fuel s4 ob3.parent (-(totalSize ob3.size : Int)) false).getD s4
    (s5, 0)

/-- `_talloc_unlink`, "main parent but refs": the first reference `r` gives the new parent -/
def promoteMove (cfg : Cfg) (s : State) (o : Id) (ob : Obj) (rb : Obj) (rest : List Id)
    (tparent : Option Id) : State :=
  let s1 := s.modify o fun x => { x with refs := rest }
  let s2 := detach s1 o
  let s3 := s2.modify o fun x => { x with parent := rb.parent }
  let s4 := addChild s3 rb.parent o (isRef ob)
  if cfg.fixPromote then moveMemlimit cfg s4 o rb.parent tparent else s4

/-- ghost assertion of the loop: the element the cursor stands on is still in the list -/
def loopEnter (s : State) (o c : Id) : State :=
  if (childrenOf s o).contains c then s else s.setStuck

/-- `_talloc_free`, `_talloc_unlink`, `free_children`; result code `0` / `-1` -/
def run (cfg : Cfg) : Nat → State → Call → State × Int
  | 0, s, _ => (s.setOof, 0)
  | f + 1, s, .free o =>
    match s.get o with
    | none => (s, -1)
    | some ob =>
      if ob.refs ≠ [] then
        -- free_with_refs
        if ob.parent = none || ob.parent = s.nullCtx then
          -- `_talloc_unlink(NULL, hdr2ptr(t->parent))`: NULL, or the null context which
          -- nobody references
          (s, -1)
        else if allRefsUnder s ob.parent ob.refs then
          match ob.refs.getLast? with
          | some r => run cfg f s (.free r)
          | none => (s, -1)
        else (s, -1)
      else if ob.pending then (s, 0)
      else
        match dtorStep ob.dtor with
        | (false, d', _) =>
          ((s.modify o fun x => { x with dtor := d' }).addLog (.dtorRefuse o), -1)
        | (true, d', logged) =>
          let s2 := freeBegin s o ob d' logged
          freeEnd cfg (run cfg f s2 (.loop o true (childrenOf s2 o).head?)).1 o
  | f + 1, s, .unlink ctx o =>
    match s.get o with
    | none => (s, -1)
    | some ob =>
      let tparent := orNull s ctx
      if ob.parent ≠ tparent then
        -- ref is not primary
        match findRefByParent s tparent ob.refs with
        | some r => run cfg f s (.free r)
        | none => (s, -1)
      else
        match ob.refs with
        | [] => run cfg f s (.free o)
        | r :: rest =>
          -- main parent but refs: first ref gives the new parent
          match s.get r with
          | none => (s, -1)
          | some rb => run cfg f (promoteMove cfg s o ob rb rest tparent) (.free r)
  | f + 1, s, .loop o freeName cur =>
    match cur with
    | none => (s, 0)
    | some c =>
      let s := loopEnter s o c
      let tmp := succOf (childrenOf s o) c
      match s.get c with
      | none => (s, 0)
      | some cb =>
        if !freeName && isLimit cb then run cfg f s (.loop o freeName tmp)
        else
          let r := run cfg f s (.unlink (some o) c)
          let s2 := if r.2 ≠ 0 then throwChild cfg r.1 c else r.1
          run cfg f s2 (.loop o freeName tmp)

/-! ## public operations -/

inductive Op
  /-- `talloc_named_const(parent, size, ..)` / `talloc_from_cx(&cx, size, ..)` when `fromCx` -/
  | alloc (parent : Option Id) (size : Nat) (fromCx : Bool) (fail : Bool)
  | free (o : Id)
  | freeChildren (o : Id)
  | reference (ctx : Option Id) (o : Id) (fail : Bool)
  | unlink (ctx : Option Id) (o : Id)
  | steal (newp : Option Id) (o : Id)
  | reparent (oldp newp : Option Id) (o : Id)
  | realloc (parent : Option Id) (o : Id) (size : Nat) (fail : Bool)
  | setDtor (o : Id) (d : Dtor)
  | setLimit (o : Id) (max : Nat) (fail : Bool)
  | nullOn (fail : Bool)
  | nullOff
deriving DecidableEq, Repr

/-- `hdr_alloc_cx(cx, parent, len, prepend)`; the new object's id is `s.heap.length` -/
def hdrAlloc (cfg : Cfg) (s : State) (cx : Nat) (parent : Option Id) (len : Nat) (prepend : Bool)
    (kind : Kind) (fail : Bool) : State × Bool :=
  if len > MAXLEN then (s, false)
  else
    let parent := orNull s parent
    match applyLim cfg s.fuel s parent (totalSize len : Int) false with
    | none => (s, false)
    | some s1 =>
      if fail then
        ((applyLim cfg s1.fuel s1 parent (-(totalSize len : Int)) false).getD s1, false)
      else
        let id := s1.heap.length
        let use := hasUse s1 parent
        let s2 := s1.push { parent := parent, kind := kind, size := len, cx := cx, useLim := use }
        (addChild s2 parent id prepend, true)

/-- `talloc_set_memlimit`, "configure": max, cur, flags; the repaired code then charges the
children that exist already and passes the USE flag down to them -/
def setLimitConfigure (cfg : Cfg) (s : State) (o l : Id) (max : Nat) : State :=
  let s2 := s.modify l fun x => { x with lmax := max, lcur := 0 }
  let s3 := s2.modify o fun x => { x with useLim := true, hasLim := true }
  if cfg.fixSet then
    let r := (childrenOf s3 o).foldl
      (fun (acc : State × Nat) c =>
        match acc.1.get c with
        | some cb =>
          if isLimit cb then acc
          else ((walk cfg acc.1.fuel acc.1 c WOp.set).1, acc.2 + (walk cfg acc.1.fuel acc.1 c WOp.set).2)
        | none => acc) (s3, 0)
    r.1.modify l fun x => { x with lcur := r.2 }
  else s3

/-- `talloc_set_memlimit(ptr, max_size)` -/
def setLimit (cfg : Cfg) (s : State) (o : Id) (max : Nat) (fail : Bool) : State × Int :=
  match s.get o with
  | none => (s, -1)
  | some ob =>
    let lim? := if ob.hasLim then findLim s ob.children else none
    if max = 0 then
      let s1 := s.modify o fun x => { x with hasLim := false }
      match lim? with
      | some l => ((run cfg s1.fuel s1 (.free l)).1, 0)
      | none => (s1, 0)
    else
      match lim? with
      | some l => (setLimitConfigure cfg s o l max, 0)
      | none =>
        -- allocate new object
        let r := hdrAlloc cfg s ob.cx (some o) LIMSIZE true .limit fail
        if r.2 then (setLimitConfigure cfg r.1 o s.heap.length max, 0) else (r.1, -1)

def step (cfg : Cfg) (s : State) : Op → State × Int
  | .alloc parent size fromCx fail =>
    let cx := match parent with
      | some _ => cxOf s parent
      | none => if fromCx then 1 else 0
    let (s1, ok) := hdrAlloc cfg s cx parent size false .plain fail
    (s1, if ok then 0 else -1)
  | .free o => run cfg s.fuel s (.free o)
  | .freeChildren o => ((run cfg s.fuel s (.loop o false (childrenOf s o).head?)).1, 0)
  | .reference ctx o fail =>
    match s.get o with
    | none => (s, -1)
    | some _ =>
      let id := s.heap.length
      let (s1, ok) := hdrAlloc cfg s (cxOf s ctx) ctx REFSIZE true (.ref o) fail
      if ok then (s1.modify o fun x => { x with refs := x.refs ++ [id] }, 0) else (s1, -1)
  | .unlink ctx o => run cfg s.fuel s (.unlink ctx o)
  | .steal newp o =>
    match s.get o with
    | none => (s, -1)
    | some ob =>
      if ob.refs ≠ [] then (s, -1)
      else
        let (s1, ok) := reparent cfg s ob.parent newp o
        (s1, if ok then 0 else -1)
  | .reparent oldp newp o =>
    let (s1, ok) := reparent cfg s oldp newp o
    (s1, if ok then 0 else -1)
  | .realloc parent o size fail =>
    if size > MAXLEN then (s, -1)
    else if size = 0 then
      -- `talloc_unlink(parent, ptr)`, result ignored, returns NULL by contract (code `1`)
      ((run cfg s.fuel s (.unlink parent o)).1, 1)
    else
      match s.get o with
      | none => (s, -1)
      | some ob =>
        if ob.refs ≠ [] then (s, -1)
        else if size = ob.size then (s, 0)
        else
          let delta : Int :=
            if cfg.fixRealloc then (totalSize size : Int) - (totalSize ob.size : Int)
            else (size : Int) - (ob.size : Int)
          match applyLim cfg s.fuel s ob.parent delta false with
          | none => (s, -1)
          | some s1 =>
            if fail then
              ((applyLim cfg s1.fuel s1 ob.parent (-delta) cfg.fixRollback).getD s1, -1)
            else (s1.modify o fun x => { x with size := size }, 0)
  | .setDtor o d =>
    match s.get o with
    | none => (s, -1)
    | some _ => (s.modify o fun x => { x with dtor := d }, 0)
  | .setLimit o max fail => setLimit cfg s o max fail
  | .nullOn fail =>
    match s.nullCtx with
    | some _ => (s, 0)
    | none =>
      let id := s.heap.length
      let (s1, ok) := hdrAlloc cfg s 0 none 0 false .plain fail
      if ok then ({ s1 with nullCtx := some id }, 0) else (s1, 0)
  | .nullOff =>
    match s.nullCtx with
    | none => (s, 0)
    | some n =>
      -- move childs away from null context
      let s1 := (childrenOf s n).foldl
        (fun (acc : State) c => acc.modify c fun x => { x with parent := none }) s
      let s2 := s1.modify n fun x => { x with children := [] }
      let s3 := (run cfg s2.fuel s2 (.free n)).1
      ({ s3 with nullCtx := none }, 0)

/-- `talloc_move(new_parent, &slot)`: `talloc_steal` of what the caller's variable points to; the
variable is set to NULL if and only if the move worked.  Result: state, returned pointer, value
of the caller's variable afterwards. -/
def moveOp (cfg : Cfg) (s : State) (newp : Option Id) (slot : Id) : State × Option Id × Option Id :=
  let r := step cfg s (.steal newp slot)
  if r.2 = 0 then (r.1, some slot, none) else (r.1, none, some slot)

def runOps (cfg : Cfg) (s : State) : List Op → State
  | [] => s
  | op :: ops => runOps cfg (step cfg s op).1 ops

end Usual.C01
