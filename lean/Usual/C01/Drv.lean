import Usual.Common
import Usual.C01.Talloc
import Usual.C01.Observe
/-! Line-protocol front end of the talloc model (used by Driver/C01.lean and by the history
generator).  Not part of any theorem. -/
namespace Usual.C01.Drv
open Usual Usual.C01

structure DSt where
  s : State := {}
  /-- slot ↦ id of every user object allocated so far -/
  slots : List (Nat × Id) := []
  cfg : Cfg := Cfg.fixed
  /-- `stat` mode of the driver: print the branch / outcome tags of each op instead of the dump -/
  stat : Bool := false
  /-- the static `autofree_ctx` of talloc.c: the autofree context is an ordinary top-level object;
  the slot is empty again once that object is released (its destructor clears it) -/
  autofree : Option Id := none

def slotId (d : DSt) (slot : Nat) : Option Id :=
  match d.slots.find? (·.1 == slot) with
  | some (_, i) => if d.s.live i then some i else none
  | none => none

def idSlot (d : DSt) (i : Id) : Option Nat :=
  (d.slots.find? (·.2 == i)).map (·.1)

/-- `-` = NULL, else a live slot; outer none = dead/garbage -/
def optSlot (d : DSt) (w : String) : Option (Option Id) :=
  if w == "-" then some none
  else match w.toNat? with
    | some n => (slotId d n).map some
    | none => none

def insSorted (x : Nat) : List Nat → List Nat
  | [] => [x]
  | y :: ys => if x ≤ y then x :: y :: ys else y :: insSorted x ys

def sortNat (l : List Nat) : List Nat := l.foldl (fun acc x => insSorted x acc) []

def joinNat (sep : String) (l : List Nat) : String :=
  if l.isEmpty then "-" else sep.intercalate (l.map toString)

def nameOf (d : DSt) (i : Id) : String :=
  if d.s.nullCtx == some i then "N"
  else match idSlot d i with
    | some n => toString n
    | none => "?"

def parentStr (d : DSt) (o : Obj) : String :=
  match o.parent with
  | none => "-"
  | some p => nameOf d p

def childStr (d : DSt) (c : Id) : String :=
  match d.s.get c with
  | none => "!"
  | some co =>
    match co.kind with
    | .ref t => ">" ++ nameOf d t
    | .limit => "L"
    | .plain => nameOf d c

def insSlot (x : Nat × Id) : List (Nat × Id) → List (Nat × Id)
  | [] => [x]
  | y :: ys => if x.1 ≤ y.1 then x :: y :: ys else y :: insSlot x ys

/-- live user objects in slot order -/
def userIds (d : DSt) : List (Nat × Id) :=
  (d.slots.filter fun p => d.s.live p.2).foldl (fun acc x => insSlot x acc) []

def objEntry (d : DSt) (slot : String) (i : Id) (o : Obj) : String :=
  let t := totals d.s.fuel d.s i
  let anc := (userIds d).filter fun p => isParent d.s.fuel d.s p.2 i
  s!"{slot}:{parentStr d o}:{o.refs.length}:{o.size}:{t.1}:{t.2}:{joinNat "." (anc.map (·.1))}"

def intEntry (d : DSt) (slot : String) (o : Obj) : String :=
  let cs := ".".intercalate (o.children.map (childStr d))
  let fl := (if o.useLim then "U" else "") ++ (if o.hasLim then "H" else "")
  let lim := match findLim d.s o.children with
    | some l => (match d.s.get l with
        | some lo => s!"({lo.lcur}/{lo.lmax})"
        | none => "")
    | none => ""
  s!"{slot}[{cs}]{fl}{lim}"

def b01 (b : Bool) : String := if b then "1" else "0"

/-- the state dump that follows the result code -/
def dump (d : DSt) (newEvents : List Event) : String :=
  let evs := newEvents.reverse
  let oks := sortNat (evs.filterMap fun e => match e with
    | .dtorOk i => idSlot d i
    | _ => none)
  let nos := sortNat (evs.filterMap fun e => match e with
    | .dtorRefuse i => idSlot d i
    | _ => none)
  let ord := String.join (evs.filterMap fun e => match e with
    | .dtorOk i => (idSlot d i).map fun n => s!"+{n}"
    | .dtorRefuse i => (idSlot d i).map fun n => s!"-{n}"
    | .release i => (idSlot d i).map fun n => s!"f{n}")
  let us := userIds d
  let objs := us.filterMap fun p => (d.s.get p.2).map fun o => objEntry d (toString p.1) p.2 o
  let ints := us.filterMap fun p => (d.s.get p.2).map fun o => intEntry d (toString p.1) o
  let (nobj, nint) := match d.s.nullCtx with
    | some n => (match d.s.get n with
        | some o => ([objEntry d "N" n o], [intEntry d "N" o])
        | none => (["N:dead"], []))
    | none => ([], [])
  let inv := b01 (wfOK d.s) ++ b01 (acyclicOK d.s) ++ b01 (acctOK d.s) ++ b01 (flagsOK d.s)
  s!"ok={joinNat "," oks} no={joinNat "," nos} | {" ".intercalate (nobj ++ objs)} | " ++
  s!"bal={liveRegions d.s 0},{liveRegions d.s 1} ## ord={ord} {" ".intercalate (nint ++ ints)} " ++
  s!"inv={inv} oof={b01 d.s.oof}{b01 d.s.stuck}"

def parseDtor : List String → Option Dtor
  | ["none"] => some .none
  | ["accept"] => some .accept
  | ["reenter"] => some .reenter
  | ["refuse", n] => n.toNat?.map Dtor.refuse
  | _ => none

def failFlag : List String → Option Bool
  | [] => some false
  | ["F"] => some true
  | _ => none

/-! ## branch / outcome tags (coverage statistics of the generator; not compared with the code) -/

/-- index of the first limit on the way up that would refuse `d` more bytes -/
def refusingLevel (cfg : Cfg) (s : State) (p : Option Id) (d : Int) : Option Nat :=
  let ls := limitsAbove cfg s.fuel s (orNull s p)
  (ls.zipIdx.find? fun (l, _) => !fits s d l).map (·.2)

def depthTag (cfg : Cfg) (s : State) (p : Option Id) : String :=
  let n := (limitsAbove cfg s.fuel s (orNull s p)).length
  if n == 0 then "unlimited" else s!"under{min n 3}limits"

def levelTag (cfg : Cfg) (s : State) (p : Option Id) (d : Int) : String :=
  match refusingLevel cfg s p d with
  | some k => s!"refused@level{min k 3}"
  | none => "refused"

/-- plain objects whose parent changed during the op: thrown (their destructor refused in this op)
or promoted to a referencing context -/
def moveTags (s s' : State) (evs : List Event) : List String :=
  (ids s).foldl (fun acc z =>
    match s.get z, s'.get z with
    | some a, some b =>
      if a.kind == .plain && a.parent != b.parent then
        (if evs.contains (.dtorRefuse z) then "move:throw_child" else
          if b.refs.length + 2 ≤ a.refs.length then "move:promotion-repeated-or-with-reference-loss"
          else if b.refs.length < a.refs.length then "move:promotion" else "move:reparent") :: acc
      else acc
    | _, _ => acc) []

def opTags (cfg : Cfg) (s : State) (op : Op) (s' : State) (rc : Int) (evs : List Event) : List String :=
  let nRefuse := (evs.filter fun e => match e with | .dtorRefuse _ => true | _ => false).length
  let nRel := (evs.filter fun e => match e with | .release _ => true | _ => false).length
  let common := (if nRefuse > 0 then [s!"dtor-refusals-in-op:{min nRefuse 3}"] else []) ++
    (if nRel > 1 then [s!"releases-in-op:{if nRel > 8 then "9+" else if nRel > 3 then "4-8" else "2-3"}"] else []) ++
    moveTags s s' evs
  let own := match op with
    | .alloc p sz _ fl =>
      if rc == 0 then ["alloc:ok:" ++ depthTag cfg s p]
      else if sz > MAXLEN then ["alloc:toobig"]
      else if fl && admits cfg s p sz then ["alloc:enomem:" ++ depthTag cfg s p]
      else ["alloc:" ++ levelTag cfg s p (totalSize sz)]
    | .free o =>
      (match s.get o with
        | some ob =>
          if ob.refs != [] then
            (if rc == 0 then ["free:with-refs:drops-last-reference"] else
              if ob.parent == none || ob.parent == s.nullCtx then ["free:with-refs:toplevel-denied"]
              else ["free:with-refs:other-holders-denied"])
          else if rc == 0 then
            [if ob.children.isEmpty then "free:ok:leaf" else "free:ok:subtree"] ++
            (if (s'.get o).isSome then ["free:answered0-but-alive"] else [])
          else ["free:destructor-refused"]
        | none => ["free:dead"])
    | .freeChildren o =>
      (match s.get o with
        | some ob =>
          ["fchildren"] ++
          (if ob.children.any (fun c => match s.get c with | some cb => cb.refs != [] | none => false)
            then ["fchildren:referenced-child"] else []) ++
          (if ob.children.any (fun c => match s.get c with | some cb => isRef cb | none => false)
            then ["fchildren:holds-references"] else []) ++
          (if ob.hasLim then ["fchildren:keeps-limit-chunk"] else [])
        | none => ["fchildren:dead"])
    | .reference ctx o fl =>
      if rc == 0 then ["ref:ok:" ++ depthTag cfg s ctx]
      else if fl && admits cfg s ctx REFSIZE then ["ref:enomem"] else ["ref:" ++ levelTag cfg s ctx (totalSize REFSIZE)]
    | .unlink ctx o =>
      (match s.get o with
        | some ob =>
          if ob.parent == orNull s ctx then
            (if ob.refs == [] then [if rc == 0 then "unlink:last-link" else "unlink:last-link:refused"]
             else ["unlink:primary-with-refs:promote"])
          else if rc == 0 then ["unlink:drops-reference"] else ["unlink:not-a-holder"]
        | none => ["unlink:dead"])
    | .steal np o =>
      (match s.get o with
        | some ob =>
          if rc != 0 then [if ob.refs != [] then "steal:has-refs-denied" else "steal:cx-mismatch-denied"]
          else if orNull s np == ob.parent then ["steal:same-parent"]
          else ["steal:ok:" ++ (if hasUse s ob.parent then "from-limited" else "from-unlimited") ++ "-" ++
            (if hasUse s (orNull s np) then "to-limited" else "to-unlimited")]
        | none => ["steal:dead"])
    | .reparent oldp np o =>
      (match s.get o with
        | some ob =>
          if rc != 0 then ["reparent:denied"]
          else if orNull s oldp == ob.parent then ["reparent:object"] else ["reparent:reference-chunk"]
        | none => ["reparent:dead"])
    | .realloc p o sz fl =>
      (match s.get o with
        | some ob =>
          if sz > MAXLEN then ["realloc:toobig"]
          else if sz == 0 then ["realloc:size0-unlinks"]
          else if ob.refs != [] then ["realloc:has-refs-denied"]
          else if sz == ob.size then ["realloc:same-size"]
          else
            let dir := if sz > ob.size then "grow" else "shrink"
            let lim := if hasUse s ob.parent then "limited" else "unlimited"
            if rc == 0 then [s!"realloc:{dir}:{lim}:ok"]
            else if fl then [s!"realloc:{dir}:{lim}:enomem-rollback"]
            else [s!"realloc:{dir}:" ++ levelTag cfg s ob.parent ((totalSize sz : Int) - (totalSize ob.size : Int))]
        | none => ["realloc:dead"])
    | .setDtor _ d =>
      [match d with | .none => "dtor:none" | .accept => "dtor:accept" | .refuse _ => "dtor:refuse" | .reenter => "dtor:reenter"]
    | .setLimit o mx _ =>
      (match s.get o with
        | some ob =>
          let has := ob.hasLim && (findLim s ob.children).isSome
          if mx == 0 then [if has then "limit:lift" else "limit:lift-nothing"]
          else if has then ["limit:reconfigure"]
          else if rc != 0 then ["limit:new:denied"]
          else [if ob.children.isEmpty then "limit:new:empty-context" else "limit:new:populated-context"] ++
            (if hasUse s (some o) then ["limit:nested-under-limit"] else [])
        | none => ["limit:dead"])
    | .nullOn _ => [if s.nullCtx.isSome then "nullon:already" else "nullon"]
    | .nullOff => [if s.nullCtx.isSome then "nulloff" else "nulloff:not-on"]
  own ++ common

/-- apply a model op, print `rc=… dump` -/
def doOp (d : DSt) (op : Op) (newSlot : Option Nat := none) : DSt × String :=
  let id := d.s.heap.length
  let n0 := d.s.log.length
  let (s', rc) := step d.cfg d.s op
  let d' := { d with s := s' }
  let d' := match newSlot with
    | some slot => if rc == 0 then { d' with slots := d'.slots ++ [(slot, id)] } else d'
    | none => d'
  -- dump names objects freed in this op by the slots they had
  let evs := s'.log.take (s'.log.length - n0)
  if d.stat then (d', "tags " ++ " ".intercalate (opTags d.cfg d.s op s' rc evs))
  else (d', s!"rc={rc} " ++ dump d' evs)

def stepLine (d : DSt) (line : String) : DSt × String :=
  match words line with
  | ["#case"] => ({ cfg := d.cfg, stat := d.stat }, "#case")
  | "alloc" :: slot :: par :: size :: cx :: rest =>
    match slot.toNat?, optSlot d par, size.toNat?, cx.toNat?, failFlag rest with
    | some sl, some p, some sz, some c, some fl =>
      if (d.slots.find? (·.1 == sl)).isSome then (d, "bad-op")
      else doOp d (.alloc p sz (c == 1) fl) (some sl)
    | some _, none, some _, some _, some _ => (d, "dead")
    | _, _, _, _, _ => (d, "bad-op")
  | ["free", o] =>
    match o.toNat? with
    | some n => (match slotId d n with
        | some i => doOp d (.free i)
        | none => (d, "dead"))
    | none => (d, "bad-op")
  | ["fchildren", o] =>
    match o.toNat? with
    | some n => (match slotId d n with
        | some i => doOp d (.freeChildren i)
        | none => (d, "dead"))
    | none => (d, "bad-op")
  | "ref" :: ctx :: o :: rest =>
    match o.toNat?, failFlag rest with
    | some n, some fl =>
      (match optSlot d ctx, slotId d n with
        | some c, some i => doOp d (.reference c i fl)
        | _, _ => (d, "dead"))
    | _, _ => (d, "bad-op")
  | ["unlink", ctx, o] =>
    match o.toNat? with
    | some n =>
      (match optSlot d ctx, slotId d n with
        | some c, some i => doOp d (.unlink c i)
        | _, _ => (d, "dead"))
    | none => (d, "bad-op")
  | ["steal", np, o] =>
    match o.toNat? with
    | some n =>
      (match optSlot d np, slotId d n with
        | some c, some i => doOp d (.steal c i)
        | _, _ => (d, "dead"))
    | none => (d, "bad-op")
  | ["move", np, o] =>
    -- talloc_move(np, &var) with var = the object: result pointer and var afterwards are printed
    match o.toNat? with
    | some n =>
      (match optSlot d np, slotId d n with
        | some c, some i =>
          let (d', out) := doOp d (.steal c i)
          if d.stat then (d', out.replace "steal:" "move:")
          else
            let (_, res, var) := moveOp d.cfg d.s c i
            let w := fun (x : Option Id) => if x.isSome then "ptr" else "null"
            (d', s!"mv={w res},{w var} " ++ out)
        | _, _ => (d, "dead"))
    | none => (d, "bad-op")
  | ["reparent", op, np, o] =>
    match o.toNat? with
    | some n =>
      (match optSlot d op, optSlot d np, slotId d n with
        | some a, some c, some i => doOp d (.reparent a c i)
        | _, _, _ => (d, "dead"))
    | none => (d, "bad-op")
  | "realloc" :: par :: o :: size :: rest =>
    match o.toNat?, size.toNat?, failFlag rest with
    | some n, some sz, some fl =>
      (match optSlot d par, slotId d n with
        | some p, some i => doOp d (.realloc p i sz fl)
        | _, _ => (d, "dead"))
    | _, _, _ => (d, "bad-op")
  | "dtor" :: o :: rest =>
    match o.toNat?, parseDtor rest with
    | some n, some dt =>
      (match slotId d n with
        | some i => doOp d (.setDtor i dt)
        | none => (d, "dead"))
    | _, _ => (d, "bad-op")
  | "limit" :: o :: mx :: rest =>
    match o.toNat?, mx.toNat?, failFlag rest with
    | some n, some m, some fl =>
      (match slotId d n with
        | some i => doOp d (.setLimit i m fl)
        | none => (d, "dead"))
    | _, _, _ => (d, "bad-op")
  | ["autofree", slot] =>
    match slot.toNat? with
    | some sl =>
      (match d.autofree.filter (fun i => d.s.live i) with
        | some i =>
          if d.stat then (d, "tags autofree:same")
          else (d, s!"af=same:{(idSlot d i).getD 0} rc=0 " ++ dump d [])
        | none =>
          if (d.slots.find? (·.1 == sl)).isSome then (d, "bad-op")
          else
            let id := d.s.heap.length
            let (d', out) := doOp d (.alloc none 0 false false) (some sl)
            let d' := { d' with autofree := if d'.s.live id then some id else none }
            if d.stat then (d', "tags autofree:new") else (d', "af=new " ++ out))
    | none => (d, "bad-op")
  | ["exit"] => (d, if d.stat then "tags exit" else "exit=0,0")
  | "nullon" :: rest =>
    match failFlag rest with
    | some fl => doOp d (.nullOn fl)
    | none => (d, "bad-op")
  | ["nulloff"] => doOp d .nullOff
  | ["probe", ctx] =>
    match optSlot d ctx with
    | some c =>
      let r := match maxAdmissible d.cfg d.s c with
        | none => "none"
        | some n => if n ≥ PROBE_HI then "inf" else toString n
      (d, s!"adm={r}")
    | none => (d, "dead")
  | _ => (d, "bad-op")


end Usual.C01.Drv
