/-!
# C07 — model of `usual/aatree.c`

Transcription of the AA-tree of libusual.  Pointers are replaced by an inductive tree; the
shared `NIL` sentinel (`left = right = NIL`, `level = 0`) is the constructor `nil`, so
`lvl nil = 0`, `left nil = right nil = nil` exactly as reads through `NIL` behave in C.
Stores (`x->left = …`) become rebuilding of the node; a store whose target would be `NIL`
is not representable — `rebalNilWrite`/`…NW` below say where the C code would perform
one, and `UsualProofs` shows that it never does on a reachable state.

The comparator is a parameter `cmp value nodeKey : Ordering` (`.gt` ⇔ C's `cmp > 0`,
`.lt` ⇔ `cmp < 0`, `.eq` ⇔ `0`).  `tree->count` (a C `int`) is an `Int` that is bumped
exactly where the code bumps it; the release callback is a log of keys (append = one call).

Core Lean only (this file is linked into the driver `drv_c07`).
-/
namespace Usual.C07

/-- `struct AANode` (+ the key kept in the embedding structure). -/
inductive T (α : Type) where
  | nil : T α
  | node (l : T α) (k : α) (lvl : Nat) (r : T α) : T α
deriving Repr

open T

variable {α : Type}

/-- `n->level` (reads through NIL give 0) -/
def lvl : T α → Nat
  | nil => 0
  | node _ _ v _ => v

/-- `n->left` (NIL->left == NIL) -/
def left : T α → T α
  | nil => nil
  | node l _ _ _ => l

/-- `n->right` (NIL->right == NIL) -/
def right : T α → T α
  | nil => nil
  | node _ _ _ r => r

def isNil : T α → Bool
  | nil => true
  | node .. => false

/-- `n->level = v` -/
def setLvl : T α → Nat → T α
  | nil, _ => nil
  | node l k _ r, v => node l k v r

/-- `n->right = r` -/
def setRight : T α → T α → T α
  | nil, _ => nil
  | node l k v _, r => node l k v r

/-! ## Rebalancing primitives -/

/-- `skew`: `if (x->level == x->left->level && x != NIL)` rotate right.
    (For `x->left == NIL` the test can only succeed with `x->level == 0`, which the
    pattern below leaves alone; see `skewNW`.) -/
def skew : T α → T α
  | node (node a ky ly b) kx lx c =>
      if lx = ly then node a ky ly (node b kx lx c) else node (node a ky ly b) kx lx c
  | t => t

/-- `split`: `if (x->level == x->right->right->level && x != NIL)` rotate left, `y->level++`. -/
def split : T α → T α
  | node a kx lx (node b ky ly (node c kz lz d)) =>
      if lx = lz then node (node a kx lx b) ky (ly + 1) (node c kz lz d)
      else node a kx lx (node b ky ly (node c kz lz d))
  | t => t

/-- `rebalance_on_insert` -/
def rebalInsert (t : T α) : T α := split (skew t)

/-- `rebalance_on_remove`, statement by statement -/
def rebalRemove (t : T α) : T α :=
  match t with
  | nil => nil
  | node l k v r =>
    -- if (current->left->level < current->level - 1 || current->right->level < current->level - 1)
    if lvl l + 1 < v ∨ lvl r + 1 < v then
      let v' := v - 1                                            -- current->level--
      let r1 := if lvl r > v' then setLvl r v' else r            -- clamp right level
      let c1 := skew (node l k v' r1)                            -- current = skew(current)
      let c2 := setRight c1 (skew (right c1))                    -- current->right = skew(current->right)
      let c3 := setRight c2 (setRight (right c2) (skew (right (right c2))))
      let c4 := split c3                                         -- current = split(current)
      setRight c4 (split (right c4))                             -- current->right = split(current->right)
    else t

/-! ### Where would the C code store through `NIL`?

`NIL` is a `static const` object; a store to it is undefined behaviour (a fault in
practice).  The predicates say, for each primitive, whether the call executes such a store
(or, for `split`, leaves the shapes on which the pattern-matching definition is the C code).
Both can only happen at a real node of level 0; `UsualProofs` shows there is none. -/

/-- `skew(x)` stores into `y = x->left`; that is NIL only if `x` is a real node of level 0
    without left child. -/
def skewNW : T α → Bool
  | node nil _ v _ => v == 0
  | _ => false

/-- `split(x)` stores into `y = x->right`; NIL only if `x` is a real node of level 0
    whose right child is NIL.  Second clause: for a real `x` of level 0 with a real right
    child whose own right child is NIL the C test `x->level == y->right->level` (0 == 0)
    succeeds and C rotates, which the pattern of `split` above does not represent — flagged
    here as well, so that `…NW = false` means "no store through NIL *and* the model function
    is exactly what the C code does". -/
def splitNW : T α → Bool
  | node _ _ v nil => v == 0
  | node _ _ v (node _ _ _ nil) => v == 0
  | _ => false

/-- does `rebalance_on_remove(t)` store through NIL? -/
def rebalNilWrite (t : T α) : Bool :=
  match t with
  | nil => false
  | node l k v r =>
    if lvl l + 1 < v ∨ lvl r + 1 < v then
      let v' := v - 1
      let r1 := if lvl r > v' then setLvl r v' else r
      let c1 := skew (node l k v' r1)
      let c2 := setRight c1 (skew (right c1))
      let c3 := setRight c2 (setRight (right c2) (skew (right (right c2))))
      let c4 := split c3
      -- `current->right->level = …` is guarded by `right->level > level ≥ 0`, so right ≠ NIL
      skewNW (node l k v' r1) || skewNW (right c1)
        || isNil (right c2)                       -- current->right->right = … with right == NIL
        || skewNW (right (right c2)) || splitNW c3 || splitNW (right c4)
    else false

/-- does `rebalance_on_insert(t)` store through NIL? -/
def rebalInsertNilWrite (t : T α) : Bool := skewNW t || splitNW (skew t)

/-! ## Pure tree functions (shape only) -/

/-- `insert_sub`, tree result -/
def ins (cmp : α → α → Ordering) (cur : T α) (value : α) : T α :=
  match cur with
  | nil => node nil value 1 nil
  | node l x v r =>
    match cmp value x with
    | .gt => rebalInsert (node l x v (ins cmp r value))
    | .lt => rebalInsert (node (ins cmp l value) x v r)
    | .eq => node l x v r

/-- `steal_leftmost(current)` for `current = node l k v r`: (remaining tree, `*save_p`'s key) -/
def stealLeftmost : (l : T α) → (k : α) → (v : Nat) → (r : T α) → T α × α
  | nil, k, _, r => (r, k)
  | node a b c d, k, v, r =>
      let p := stealLeftmost a b c d
      (rebalRemove (node p.1 k v r), p.2)

/-- `drop_this_node(old)`, tree result: the node that takes `old`'s place -/
def dropThis : T α → T α
  | nil => nil
  | node nil _ _ r => r                       -- old->left == NIL
  | node l _ _ nil => l                       -- old->right == NIL
  | node l _ v (node ra rk rv rb) =>
      let p := stealLeftmost ra rk rv rb      -- old->right = steal_leftmost(old->right, &new)
      node l p.2 v p.1                        -- *new = *old

/-- `remove_sub`, tree result -/
def del (cmp : α → α → Ordering) (cur : T α) (value : α) : T α :=
  match cur with
  | nil => nil
  | node l x v r =>
    match cmp value x with
    | .gt => rebalRemove (node l x v (del cmp r value))
    | .lt => rebalRemove (node (del cmp l value) x v r)
    | .eq => rebalRemove (dropThis (node l x v r))

/-! ### stores through `NIL` along a whole insert / remove (instrumented copies of the recursions) -/

/-- does `insert_sub(cur, value)` store through NIL anywhere? -/
def insNilWrite (cmp : α → α → Ordering) : T α → α → Bool
  | nil, _ => false                 -- the stores go to the caller's fresh node
  | node l x v r, value =>
    match cmp value x with
    | .gt => insNilWrite cmp r value || rebalInsertNilWrite (node l x v (ins cmp r value))
    | .lt => insNilWrite cmp l value || rebalInsertNilWrite (node (ins cmp l value) x v r)
    | .eq => false

/-- does `steal_leftmost(node l k v r)` store through NIL anywhere? -/
def stealNilWrite : (l : T α) → (k : α) → (v : Nat) → (r : T α) → Bool
  | nil, _, _, _ => false
  | node a b c d, k, v, r =>
      stealNilWrite a b c d || rebalNilWrite (node (stealLeftmost a b c d).1 k v r)

/-- does `drop_this_node(old)` store through NIL?  (`*new = *old` targets the stolen node) -/
def dropNilWrite : T α → Bool
  | node (node _ _ _ _) _ _ (node ra rk rv rb) => stealNilWrite ra rk rv rb
  | _ => false

/-- does `remove_sub(cur, value)` store through NIL anywhere? -/
def delNilWrite (cmp : α → α → Ordering) : T α → α → Bool
  | nil, _ => false
  | node l x v r, value =>
    match cmp value x with
    | .gt => delNilWrite cmp r value || rebalNilWrite (node l x v (del cmp r value))
    | .lt => delNilWrite cmp l value || rebalNilWrite (node (del cmp l value) x v r)
    | .eq => dropNilWrite (node l x v r) || rebalNilWrite (dropThis (node l x v r))

/-- `aatree_search`: key of the node found -/
def search (cmp : α → α → Ordering) : T α → α → Option α
  | nil, _ => none
  | node l x _ r, value =>
    match cmp value x with
    | .gt => search cmp r value
    | .lt => search cmp l value
    | .eq => some x

inductive Walk where
  | inOrder | preOrder | postOrder
deriving Repr, DecidableEq

/-- `walk_sub`: the sequence of walker calls (keys of the nodes passed) -/
def walkSub : T α → Walk → List α
  | nil, _ => []
  | node l k _ r, .inOrder => walkSub l .inOrder ++ k :: walkSub r .inOrder
  | node l k _ r, .postOrder => walkSub l .postOrder ++ (walkSub r .postOrder ++ [k])
  | node l k _ r, .preOrder => k :: (walkSub l .preOrder ++ walkSub r .preOrder)

/-! ## The code with its side effects (`tree->count`, release callback) -/

/-- `insert_sub` threading `tree->count` -/
def insertSub (cmp : α → α → Ordering) (cur : T α) (value : α) (count : Int) : T α × Int :=
  match cur with
  | nil => (node nil value 1 nil, count + 1)                       -- tree->count++
  | node l x v r =>
    match cmp value x with
    | .gt => let p := insertSub cmp r value count; (rebalInsert (node l x v p.1), p.2)
    | .lt => let p := insertSub cmp l value count; (rebalInsert (node p.1 x v r), p.2)
    | .eq => (node l x v r, count)                                  -- already exists

/-- side effects of the tree header: `count` and the calls of `release_cb` so far -/
structure Eff (α : Type) where
  count : Int
  log : List α
deriving Repr

/-- `drop_this_node`: release_cb(old) then count-- -/
def dropThisNode (old : T α) (e : Eff α) : T α × Eff α :=
  match old with
  | nil => (nil, e)       -- not reached: callers pass a real node
  | node l k v r => (dropThis (node l k v r), { count := e.count - 1, log := e.log ++ [k] })

/-- `remove_sub` threading the header's side effects -/
def removeSub (cmp : α → α → Ordering) (cur : T α) (value : α) (e : Eff α) : T α × Eff α :=
  match cur with
  | nil => (nil, e)
  | node l x v r =>
    match cmp value x with
    | .gt => let p := removeSub cmp r value e; (rebalRemove (node l x v p.1), p.2)
    | .lt => let p := removeSub cmp l value e; (rebalRemove (node p.1 x v r), p.2)
    | .eq => let p := dropThisNode (node l x v r) e; (rebalRemove p.1, p.2)

/-- `struct AATree` + the log of release callbacks (cumulative, in call order) -/
structure State (α : Type) where
  root : T α
  count : Int
  log : List α
deriving Repr

/-- `aatree_init` -/
def init : State α := { root := nil, count := 0, log := [] }

inductive Op (α : Type) where
  | ins (k : α)
  | rem (k : α)
  | find (k : α)
  | walk (w : Walk)
  | destroy
  | count
deriving Repr

inductive Out (α : Type) where
  | linked (b : Bool)          -- insert: was the caller's node linked into the tree
  | unit
  | found (r : Option α)
  | keys (l : List α)
  | num (n : Int)
deriving Repr

/-- does the operation store through NIL? -/
def opNilWrite (cmp : α → α → Ordering) (t : T α) : Op α → Bool
  | .ins k => insNilWrite cmp t k
  | .rem k => delNilWrite cmp t k
  | _ => false

def step (cmp : α → α → Ordering) (s : State α) : Op α → State α × Out α
  | .ins k =>
      let p := insertSub cmp s.root k s.count
      ({ s with root := p.1, count := p.2 }, .linked (search cmp s.root k).isNone)
  | .rem k =>
      let p := removeSub cmp s.root k { count := s.count, log := s.log }
      ({ root := p.1, count := p.2.count, log := p.2.log }, .unit)
  | .find k => (s, .found (search cmp s.root k))
  | .walk w => (s, .keys (walkSub s.root w))
  | .destroy =>
      -- walk_sub(root, POST_ORDER, release_cb); root = NIL; count = 0
      ({ root := nil, count := 0, log := s.log ++ walkSub s.root .postOrder }, .unit)
  | .count => (s, .num s.count)

/-- run a history from `aatree_init` -/
def run (cmp : α → α → Ordering) (ops : List (Op α)) : State α :=
  ops.foldl (fun s o => (step cmp s o).1) init

/-! ## Measures and invariants (Bool-valued: evaluated by the driver, subject of the theorems) -/

def toList : T α → List α
  | nil => []
  | node l k _ r => toList l ++ k :: toList r

def size : T α → Nat
  | nil => 0
  | node l _ _ r => size l + 1 + size r

def height : T α → Nat
  | nil => 0
  | node l _ _ r => max (height l) (height r) + 1

/-- the AA level rules -/
def aa : T α → Bool
  | nil => true
  | node l _ v r =>
      aa l && aa r &&
      (lvl l + 1 == v) &&                     -- left child exactly one below
      (lvl r == v || lvl r + 1 == v) &&       -- right child same level (red) or one below
      (lvl (right r) < v)                     -- no two reds in a row on the right

/-- the balance bound of the property -/
def heightOk (t : T α) : Bool := height t ≤ 2 * Nat.log2 (size t + 1)

/-- a comparator the property calls *consistent*: a strict total order whose `.eq` is equality -/
structure Consistent (cmp : α → α → Ordering) : Prop where
  eq_iff : ∀ a b, cmp a b = .eq ↔ a = b
  gt_iff : ∀ a b, cmp a b = .gt ↔ cmp b a = .lt
  lt_trans : ∀ a b c, cmp a b = .lt → cmp b c = .lt → cmp a c = .lt

/-! ## Reference: a strictly ascending list -/

def specInsert (cmp : α → α → Ordering) (k : α) : List α → List α
  | [] => [k]
  | x :: xs =>
    match cmp k x with
    | .lt => k :: x :: xs
    | .eq => x :: xs
    | .gt => x :: specInsert cmp k xs

def specErase (cmp : α → α → Ordering) (k : α) : List α → List α
  | [] => []
  | x :: xs =>
    match cmp k x with
    | .lt => x :: xs
    | .eq => xs
    | .gt => x :: specErase cmp k xs

/-- reference contents after a history -/
def refStep (cmp : α → α → Ordering) (l : List α) : Op α → List α
  | .ins k => specInsert cmp k l
  | .rem k => specErase cmp k l
  | .destroy => []
  | _ => l

def refKeys (cmp : α → α → Ordering) (ops : List (Op α)) : List α :=
  ops.foldl (refStep cmp) []

/-- is a key equal (w.r.t. the comparator) to an element of the list -/
def present (cmp : α → α → Ordering) (k : α) (l : List α) : Bool := l.any (fun x => cmp k x == .eq)

/-- the key whose node gets linked by this operation (contents before = `l`) -/
def linkedStep (cmp : α → α → Ordering) (l : List α) : Op α → List α
  | .ins k => if present cmp k l then [] else [k]
  | _ => []

/-- keys of all nodes linked into the tree by a history starting from contents `l` -/
def linkedFrom (cmp : α → α → Ordering) (l : List α) : List (Op α) → List α
  | [] => []
  | o :: ops => linkedStep cmp l o ++ linkedFrom cmp (refStep cmp l o) ops

def linkedKeys (cmp : α → α → Ordering) (ops : List (Op α)) : List α := linkedFrom cmp [] ops

end Usual.C07
