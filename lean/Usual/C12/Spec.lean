import Usual.C12.MBuf
/-!
# C12 — what the property says, in terms of the model

* `AllInv s`          every slot satisfies `inv`
* `StepSafe s op`  the accesses of one call are inside the buffers; fixed buffers / readers kept
* `StepUnchanged`  a call that returns false changes nothing
* `StepRefines`    seen as byte vectors (`abs`), a successful call does what `specStep` says and
                   delivers `specBytes` / `specVal`; where the vector view determines the return
                   value (`specRet`) the call returns exactly that
* `AlongRun P`     `P` holds at every step of a history
-/
namespace Usual.C12

def AllInv (s : State) : Prop := ∀ i, inv (s i) = true

/-- accesses of one call judged against the buffers before (`s`) and after (`s'`) it -/
def StepSafe (s : State) (op : Op) : Prop :=
  (∀ p ∈ (step s op).2.acc, accOk (s p.1) ((step s op).1 p.1) p.2 = true) ∧
  (∀ j, op.reinits j = false → keepsFixed (s j) ((step s op).1 j) = true)

def StepUnchanged (s : State) (op : Op) : Prop :=
  (step s op).2.ok = false → ∀ j, (step s op).1 j = s j

/-- `P` holds at every step of the history `ops` started in `s` -/
def AlongRun (P : State → Op → Prop) : State → List Op → Prop
  | _, [] => True
  | s, op :: rest => P s op ∧ AlongRun P (step s op).1 rest

/-! ## byte-vector specification of the calls -/

abbrev VState := Nat → Vec

def VState.set (v : VState) (i : Nat) (x : Vec) : VState := fun j => if j = i then x else v j

def absS (s : State) : VState := fun i => abs (s i)

/-- index of the first NUL in the unread part -/
def Vec.nul? (v : Vec) : Option Nat := v.unread.findIdx? (· == 0)

/-- effect of a **successful** call on the vectors (for `free` see `specOk`) -/
def specStep (v : VState) : Op → VState
  | .initReader i len gen => v.set i (Vec.view (srcBytes gen len.toNat))
  | .initWriter i _ _ => v.set i Vec.empty
  | .initDynamic i => v.set i Vec.empty
  | .free _ => v
  | .rewindReader i => v.set i { v i with rpos := 0 }
  | .rewindWriter i => v.set i (if (v i).ro then v i else Vec.empty)
  | .availRead _ => v
  | .availWrite _ => v
  | .written _ => v
  | .consumed _ => v
  | .eq _ _ => v
  | .eqStr _ _ => v
  | .getByte i => v.set i ((v i).get 1).1
  | .getChar i => v.set i ((v i).get 1).1
  | .getU16 i => v.set i ((v i).get 2).1
  | .getU32 i => v.set i ((v i).get 4).1
  | .getU64 i => v.set i ((v i).get 8).1
  | .getBytes i len => v.set i ((v i).get len.toNat).1
  | .getChars i len => v.set i ((v i).get len.toNat).1
  | .getString i =>
    match (v i).nul? with
    | some k => v.set i ((v i).get (k + 1)).1
    | none => v
  | .makeRoom _ _ _ => v
  | .writeByte i x _ => v.set i ((v i).append [x])
  | .write i src len _ => v.set i ((v i).append (srcBytes src len.toNat))
  | .fill i x len _ => v.set i ((v i).append (List.replicate len.toNat x))
  | .writeRaw d c _ => v.set d ((v d).append (v c).bytes)
  | .writeMbuf d c len _ =>
    (v.set d ((v d).append ((v c).get len.toNat).2)).set c ((v c).get len.toNat).1
  | .cut i ofs len => v.set i ((v i).cut ofs.toNat len.toNat)
  | .copy c d => v.set d (v c)
  | .slice c len d =>
    if c = d then v.set c { bytes := ((v c).get len.toNat).2, rpos := len.toNat, ro := true }
    else (v.set d (Vec.view ((v c).get len.toNat).2)).set c ((v c).get len.toNat).1

/-- allowed results of a successful call.  `mbuf_free` is a no-op on a buffer without
storage (whether an empty buffer has storage is not visible in the vector view), so for it
only "empty afterwards" is specified. -/
def specOk (v : VState) (op : Op) (v' : VState) : Prop :=
  match op with
  | .free i => ∃ ro, v' = v.set i { bytes := [], rpos := 0, ro := ro }
  | op => v' = specStep v op

/-- bytes handed to the caller by a successful call -/
def specBytes (v : VState) : Op → List UInt8
  | .getByte i => ((v i).get 1).2
  | .getChar i => ((v i).get 1).2
  | .getU16 i => ((v i).get 2).2
  | .getU32 i => ((v i).get 4).2
  | .getU64 i => ((v i).get 8).2
  | .getBytes i len => ((v i).get len.toNat).2
  | .getChars i len => ((v i).get len.toNat).2
  | .getString i =>
    match (v i).nul? with
    | some k => (v i).unread.take k
    | none => []
  | .slice c len _ => ((v c).get len.toNat).2
  | _ => []

/-- numeric result of a successful call, where the vector view determines it: big-endian
value for the integer getters, offset of the delivered pointer for the byte getters -/
def specVal (v : VState) : Op → Option Nat
  | .availRead i => some (v i).unread.length
  | .written i => some (v i).bytes.length
  | .consumed i => some (v i).rpos
  | .getByte i => some (beNat ((v i).get 1).2)
  | .getChar i => some (beNat ((v i).get 1).2)
  | .getU16 i => some (beNat ((v i).get 2).2)
  | .getU32 i => some (beNat ((v i).get 4).2)
  | .getU64 i => some (beNat ((v i).get 8).2)
  | .getBytes i _ => some (v i).rpos
  | .getChars i _ => some (v i).rpos
  | .getString i => some (v i).rpos
  | .slice c _ _ => some (v c).rpos
  | _ => none

/-- return value, where the vector view determines it (readers: enough unread bytes;
`mbuf_eq`: same bytes; `mbuf_cut`: not read-only).  Writers depend on capacity / realloc. -/
def specRet (v : VState) : Op → Option Bool
  | .getByte i => some (decide (1 ≤ (v i).unread.length))
  | .getChar i => some (decide (1 ≤ (v i).unread.length))
  | .getU16 i => some (decide (2 ≤ (v i).unread.length))
  | .getU32 i => some (decide (4 ≤ (v i).unread.length))
  | .getU64 i => some (decide (8 ≤ (v i).unread.length))
  | .getBytes i len => some (decide (len.toNat ≤ (v i).unread.length))
  | .getChars i len => some (decide (len.toNat ≤ (v i).unread.length))
  | .getString i => some ((v i).nul?.isSome)
  | .slice c len _ => some (decide (len.toNat ≤ (v c).unread.length))
  | .eq i j => some (decide ((v i).bytes = (v j).bytes))
  | .cut i _ _ => some (!(v i).ro)
  | _ => none

def StepRefines (s : State) (op : Op) : Prop :=
  ((step s op).2.ok = true →
    specOk (absS s) op (absS (step s op).1) ∧
    (step s op).2.bytes = specBytes (absS s) op ∧
    (∀ n, specVal (absS s) op = some n → (step s op).2.val = n)) ∧
  ((step s op).2.ok = false → absS (step s op).1 = absS s ∧ (step s op).2.bytes = []) ∧
  (∀ r, specRet (absS s) op = some r → (step s op).2.ok = r)

end Usual.C12
