import Usual.Common
/-!
# C12 — model of `usual/mbuf.h` + `usual/mbuf.c` (the code *with* fixes F01, F01b, F01c)

`struct MBuf` is a record with **32-bit** cursors (`UInt32`, C's `unsigned`), so every
`+`/`-`/`*` below wraps exactly as the C arithmetic does.  The `data` pointer is replaced by
the byte list it points to (`data.length = alloc_len` is part of the invariant) plus one
bit `isNull` (`mbuf_free` and `mbuf_slice` look at the pointer itself).

Every function of the two files is here, same branch order as the source.  Besides the C
result each function returns the list of *memory accesses* it performs on the buffer's
data (`kind`, first offset, length — computed in `Nat`, so an access that would lie beyond
4 GiB is still seen as such), and the bytes/values it hands to the caller.

`realloc` is a parameter: `ora : UInt32 → Bool` says whether a request of that size succeeds.

The functions named `…Old` transcribe the comparisons of the *unchanged* tree; they are
used only for the counterexample theorems.
-/
namespace Usual.C12

structure Buf where
  data : List UInt8
  readPos : UInt32
  writePos : UInt32
  allocLen : UInt32
  reader : Bool
  fixed : Bool
  /-- the C `data` pointer is NULL -/
  isNull : Bool
deriving DecidableEq, Repr

inductive Kind | rd | wr
deriving DecidableEq, Repr

/-- one memory access on a buffer's data: bytes `[lo, lo+len)` -/
structure Access where
  kind : Kind
  lo : Nat
  len : Nat
deriving DecidableEq, Repr

/-- result of a function working on one buffer -/
structure Res where
  ok : Bool
  buf : Buf
  acc : List Access := []
  bytes : List UInt8 := []
  val : Nat := 0

/-- result of a function working on two buffers -/
structure Res2 where
  ok : Bool
  dst : Buf
  src : Buf
  accDst : List Access := []
  accSrc : List Access := []
  bytes : List UInt8 := []
  val : Nat := 0

/-! ## memory primitives -/

/-- bytes `[lo, lo+n)` of `d` -/
def slice (d : List UInt8) (lo n : Nat) : List UInt8 := (d.drop lo).take n

/-- `d` with `xs` stored at offset `lo` (memcpy/memset/memmove target) -/
def splice (d : List UInt8) (lo : Nat) (xs : List UInt8) : List UInt8 :=
  d.take lo ++ xs ++ d.drop (lo + xs.length)

/-- `len` bytes read through a caller-supplied pointer (`src k` = byte at offset `k`) -/
def srcBytes (src : Nat → UInt8) (len : Nat) : List UInt8 := (List.range len).map src

def rdAt (d : List UInt8) (i : Nat) : UInt8 := d.getD i 0

/-! ## init / free / reset -/

def initFixedReader (len : UInt32) (gen : Nat → UInt8) : Buf :=
  { data := srcBytes gen len.toNat, readPos := 0, writePos := len, allocLen := len,
    reader := true, fixed := true, isNull := false }

def initFixedWriter (len : UInt32) (gen : Nat → UInt8) : Buf :=
  { data := srcBytes gen len.toNat, readPos := 0, writePos := 0, allocLen := len,
    reader := false, fixed := true, isNull := false }

def initDynamic : Buf :=
  { data := [], readPos := 0, writePos := 0, allocLen := 0,
    reader := false, fixed := false, isNull := true }

/-- `mbuf_free`: `if (buf->data) { if (!fixed) free(data); memset(buf, 0, sizeof *buf); }` -/
def free (b : Buf) : Buf := if b.isNull then b else initDynamic

def rewindReader (b : Buf) : Buf := { b with readPos := 0 }

def rewindWriter (b : Buf) : Buf :=
  if b.reader then b else { b with readPos := 0, writePos := 0 }

/-! ## info -/

def availRead (b : Buf) : UInt32 := b.writePos - b.readPos

def availWrite (b : Buf) : UInt32 :=
  if b.reader = false ∧ b.allocLen > b.writePos then b.allocLen - b.writePos else 0

def written (b : Buf) : UInt32 := b.writePos
def consumed (b : Buf) : UInt32 := b.readPos

/-- `mbuf_eq` for two distinct non-NULL struct pointers -/
def eq (a b : Buf) : Res2 :=
  if a.writePos ≠ b.writePos then { ok := false, dst := a, src := b }
  else { ok := decide (slice a.data 0 a.writePos.toNat = slice b.data 0 a.writePos.toNat),
         dst := a, src := b,
         accDst := [⟨.rd, 0, a.writePos.toNat⟩], accSrc := [⟨.rd, 0, a.writePos.toNat⟩] }

/-- `mbuf_eq_str`: `s` = the string's bytes before the NUL (`strlen s = s.length`) -/
def eqStr (a : Buf) (s : List UInt8) : Res :=
  let tmp := initFixedReader (UInt32.ofNat s.length) (fun k => s.getD k 0)
  let r := eq a tmp
  { ok := r.ok, buf := a, acc := r.accDst }

/-! ## readers -/

def fail (b : Buf) : Res := { ok := false, buf := b }

def getByte (b : Buf) : Res :=
  if availRead b < 1 then fail b
  else { ok := true, buf := { b with readPos := b.readPos + 1 },
         acc := [⟨.rd, b.readPos.toNat, 1⟩],
         bytes := [rdAt b.data b.readPos.toNat],
         val := (rdAt b.data b.readPos.toNat).toNat }

/-- `mbuf_get_char` — same code as `mbuf_get_byte`, destination is a `char` -/
def getChar (b : Buf) : Res := getByte b

def getU16 (b : Buf) : Res :=
  if availRead b < 2 then fail b
  else
    let p0 := b.readPos
    let p1 := p0 + 1
    let x := (rdAt b.data p0.toNat).toUInt32
    let y := (rdAt b.data p1.toNat).toUInt32
    { ok := true, buf := { b with readPos := p1 + 1 },
      acc := [⟨.rd, p0.toNat, 1⟩, ⟨.rd, p1.toNat, 1⟩],
      bytes := [rdAt b.data p0.toNat, rdAt b.data p1.toNat],
      val := (((x <<< 8) ||| y).toUInt16).toNat }

def getU32 (b : Buf) : Res :=
  if availRead b < 4 then fail b
  else
    let p0 := b.readPos
    let p1 := p0 + 1
    let p2 := p1 + 1
    let p3 := p2 + 1
    let x := (rdAt b.data p0.toNat).toUInt32
    let y := (rdAt b.data p1.toNat).toUInt32
    let z := (rdAt b.data p2.toNat).toUInt32
    let w := (rdAt b.data p3.toNat).toUInt32
    { ok := true, buf := { b with readPos := p3 + 1 },
      acc := [⟨.rd, p0.toNat, 1⟩, ⟨.rd, p1.toNat, 1⟩, ⟨.rd, p2.toNat, 1⟩, ⟨.rd, p3.toNat, 1⟩],
      bytes := [rdAt b.data p0.toNat, rdAt b.data p1.toNat, rdAt b.data p2.toNat,
                rdAt b.data p3.toNat],
      val := ((x <<< 24) ||| (y <<< 16) ||| (z <<< 8) ||| w).toNat }

def getU64 (b : Buf) : Res :=
  if availRead b < 8 then fail b
  else
    let r1 := getU32 b
    if r1.ok = false then fail r1.buf
    else
      let r2 := getU32 r1.buf
      if r2.ok = false then { fail r2.buf with acc := r1.acc }
      else
        { ok := true, buf := r2.buf, acc := r1.acc ++ r2.acc, bytes := r1.bytes ++ r2.bytes,
          val := (((UInt64.ofNat r1.val) <<< 32) ||| (UInt64.ofNat r2.val)).toNat }

/-- `mbuf_get_bytes`: yields pointer `data + read_pos` (reported as `val`) for `len` bytes -/
def getBytes (b : Buf) (len : UInt32) : Res :=
  if len > availRead b then fail b
  else { ok := true, buf := { b with readPos := b.readPos + len },
         acc := [⟨.rd, b.readPos.toNat, len.toNat⟩],
         bytes := slice b.data b.readPos.toNat len.toNat,
         val := b.readPos.toNat }

def getChars (b : Buf) (len : UInt32) : Res := getBytes b len

/-- the window `memchr` searches: `avail_for_read` bytes from the read cursor -/
def strWin (b : Buf) : List UInt8 := slice b.data b.readPos.toNat (availRead b).toNat

/-- `mbuf_get_string`: `memchr(data + read_pos, 0, avail)`; on success the string (without
the NUL) is delivered and the cursor moves behind the NUL -/
def getString (b : Buf) : Res :=
  match (strWin b).findIdx? (· == 0) with
  | none => { ok := false, buf := b, acc := [⟨.rd, b.readPos.toNat, (availRead b).toNat⟩] }
  | some k =>
    { ok := true, buf := { b with readPos := b.readPos + UInt32.ofNat k + 1 },
      acc := [⟨.rd, b.readPos.toNat, k + 1⟩],
      bytes := (strWin b).take k,
      val := b.readPos.toNat }

/-! ## `mbuf_make_room` (mbuf.c) -/

/-- the doubling loop `while (new_alloc < need) { if (new_alloc > UINT_MAX/2) return false;
new_alloc *= 2; }`.  `none` = `return false`.  `fuel` = 33 iterations always suffice when
`na ≠ 0` (theorem `grow_fuel`); running out of fuel is reported as `some 0`, a value the
real loop can never return because `need > 0` there. -/
def grow : (fuel : Nat) → (na need : UInt32) → Option UInt32
  | 0, _, _ => some 0
  | fuel + 1, na, need =>
    if na < need then
      if na > 0xFFFFFFFF / 2 then none else grow fuel (na * 2) need
    else some na

/-- `new_alloc = buf->alloc_len; if (new_alloc == 0) new_alloc = 128;` -/
def startAlloc (b : Buf) : UInt32 := if b.allocLen = 0 then 128 else b.allocLen

def makeRoom (b : Buf) (len : UInt32) (ora : UInt32 → Bool) : Bool × Buf :=
  if b.reader = true ∨ b.fixed = true then (false, b)
  else if len ≤ availWrite b then (true, b)
  else if len > 0xFFFFFFFF - b.writePos then (false, b)
  else
    match grow 33 (startAlloc b) (b.writePos + len) with
    | none => (false, b)
    | some na =>
      if ora na then
        (true, { b with data := b.data ++ List.replicate (na.toNat - b.data.length) 0xDD,
                        allocLen := na, isNull := false })
      else (false, b)

/-- `if (len > mbuf_avail_for_write(buf) && !mbuf_make_room(buf, len)) return false;` -/
def ensure (b : Buf) (len : UInt32) (ora : UInt32 → Bool) : Option Buf :=
  if len > availWrite b then
    (if (makeRoom b len ora).1 then some (makeRoom b len ora).2 else none)
  else some b

/-! ## writers -/

def writeByte (b : Buf) (v : UInt8) (ora : UInt32 → Bool) : Res :=
  match ensure b 1 ora with
  | none => fail b
  | some b1 =>
    { ok := true,
      buf := { b1 with data := splice b1.data b1.writePos.toNat [v], writePos := b1.writePos + 1 },
      acc := [⟨.wr, b1.writePos.toNat, 1⟩] }

def write (b : Buf) (src : Nat → UInt8) (len : UInt32) (ora : UInt32 → Bool) : Res :=
  match ensure b len ora with
  | none => fail b
  | some b1 =>
    { ok := true,
      buf := { b1 with data := splice b1.data b1.writePos.toNat (srcBytes src len.toNat),
                       writePos := b1.writePos + len },
      acc := if len > 0 then [⟨.wr, b1.writePos.toNat, len.toNat⟩] else [] }

def fill (b : Buf) (byte : UInt8) (len : UInt32) (ora : UInt32 → Bool) : Res :=
  match ensure b len ora with
  | none => fail b
  | some b1 =>
    { ok := true,
      buf := { b1 with data := splice b1.data b1.writePos.toNat (List.replicate len.toNat byte),
                       writePos := b1.writePos + len },
      acc := [⟨.wr, b1.writePos.toNat, len.toNat⟩] }

/-- `mbuf_write_raw_mbuf(dst, src)` = `mbuf_write(dst, src->data, src->write_pos)`
(`dst` and `src` distinct objects) -/
def writeRaw (dst src : Buf) (ora : UInt32 → Bool) : Res2 :=
  let r := write dst (fun k => rdAt src.data k) src.writePos ora
  { ok := r.ok, dst := r.buf, src := src, accDst := r.acc,
    accSrc := if r.ok = true ∧ src.writePos > 0 then [⟨.rd, 0, src.writePos.toNat⟩] else [] }

/-- `mbuf_write_mbuf(dst, src, len)` (`dst` and `src` distinct objects) -/
def writeMbuf (dst src : Buf) (len : UInt32) (ora : UInt32 → Bool) : Res2 :=
  let g := getBytes src len
  if g.ok = false then { ok := false, dst := dst, src := src }
  else
    let ofs := src.readPos.toNat
    let r := write dst (fun k => rdAt src.data (ofs + k)) len ora
    if r.ok = false then
      { ok := false, dst := dst, src := { g.buf with readPos := g.buf.readPos - len } }
    else
      { ok := true, dst := r.buf, src := g.buf, accDst := r.acc,
        accSrc := if len > 0 then [⟨.rd, ofs, len.toNat⟩] else [] }

/-- `mbuf_cut` (with F01 and F01b) -/
def cut (b : Buf) (ofs len : UInt32) : Res :=
  if b.reader then fail b
  else if ofs < b.writePos ∧ len < b.writePos - ofs then
    let endofs := ofs + len
    let n := b.writePos - endofs
    let rp := if b.readPos ≥ endofs then b.readPos - len
              else if b.readPos > ofs then ofs else b.readPos
    { ok := true,
      buf := { b with data := splice b.data ofs.toNat (slice b.data endofs.toNat n.toNat),
                      writePos := b.writePos - len, readPos := rp },
      acc := [⟨.rd, endofs.toNat, n.toNat⟩, ⟨.wr, ofs.toNat, n.toNat⟩] }
  else if ofs < b.writePos then
    { ok := true,
      buf := { b with writePos := ofs, readPos := if b.readPos > ofs then ofs else b.readPos } }
  else { ok := true, buf := b }

/-- `mbuf_copy`: `*dst = *src` -/
def copy (src : Buf) : Buf := src

/-- `mbuf_slice(src, len, dst)` for `dst ≠ src`; `val` = offset of the slice in `src` -/
def sliceOp (src : Buf) (len : UInt32) (dst : Buf) : Res2 :=
  if len > availRead src then { ok := false, dst := dst, src := src }
  else
    { ok := true,
      dst := { data := slice src.data src.readPos.toNat len.toNat, readPos := 0,
               writePos := len, allocLen := len, reader := true, fixed := true,
               isNull := src.isNull },
      src := { src with readPos := src.readPos + len },
      accSrc := [⟨.rd, src.readPos.toNat, len.toNat⟩],
      bytes := slice src.data src.readPos.toNat len.toNat,
      val := src.readPos.toNat }

/-- `mbuf_slice(b, len, b)` (same object as source and destination; defined behaviour in C:
the object is re-initialised as a reader over the slice and *then* `read_pos += len`) -/
def sliceSelf (b : Buf) (len : UInt32) : Res :=
  if len > availRead b then fail b
  else
    { ok := true,
      buf := { data := slice b.data b.readPos.toNat len.toNat, readPos := 0 + len,
               writePos := len, allocLen := len, reader := true, fixed := true,
               isNull := b.isNull },
      acc := [⟨.rd, b.readPos.toNat, len.toNat⟩],
      bytes := slice b.data b.readPos.toNat len.toNat,
      val := b.readPos.toNat }

/-! ## the comparisons of the unchanged tree (for the counterexample theorems only) -/

def getBytesOld (b : Buf) (len : UInt32) : Res :=
  if b.readPos + len > b.writePos then fail b
  else { ok := true, buf := { b with readPos := b.readPos + len },
         acc := [⟨.rd, b.readPos.toNat, len.toNat⟩],
         bytes := slice b.data b.readPos.toNat len.toNat, val := b.readPos.toNat }

/-- unchanged `mbuf_write`/`mbuf_fill` on a buffer that cannot grow (`make_room` = false) -/
def fillOldFixed (b : Buf) (byte : UInt8) (len : UInt32) : Res :=
  if b.writePos + len > b.allocLen then fail b
  else { ok := true,
         buf := { b with data := splice b.data b.writePos.toNat (List.replicate len.toNat byte),
                         writePos := b.writePos + len },
         acc := [⟨.wr, b.writePos.toNat, len.toNat⟩] }

def cutOld (b : Buf) (ofs len : UInt32) : Res :=
  if b.reader then fail b
  else if ofs + len < b.writePos then
    let endofs := ofs + len
    let n := b.writePos - endofs
    { ok := true,
      buf := { b with data := splice b.data ofs.toNat (slice b.data endofs.toNat n.toNat),
                      writePos := b.writePos - len },
      acc := [⟨.rd, endofs.toNat, n.toNat⟩, ⟨.wr, ofs.toNat, n.toNat⟩] }
  else if ofs < b.writePos then { ok := true, buf := { b with writePos := ofs } }
  else { ok := true, buf := b }

/-- unchanged `mbuf_get_uint64be`: no look-ahead, the first half stays consumed -/
def getU64Old (b : Buf) : Res :=
  let r1 := getU32 b
  if r1.ok = false then fail r1.buf
  else
    let r2 := getU32 r1.buf
    if r2.ok = false then { fail r2.buf with acc := r1.acc }
    else { ok := true, buf := r2.buf, acc := r1.acc ++ r2.acc, bytes := r1.bytes ++ r2.bytes }

/-- one iteration of the unchanged doubling loop `while (new_alloc < need) new_alloc *= 2` -/
def growOldIter (need : UInt32) : Nat → UInt32 → Option UInt32
  | 0, _ => none                    -- still looping after all the fuel
  | k + 1, na => if na < need then growOldIter need k (na * 2) else some na

/-! ## invariant and access bounds (Bool-valued: evaluated by the driver, subject of the
theorems) -/

def inv (b : Buf) : Bool :=
  decide (b.readPos ≤ b.writePos) && decide (b.writePos ≤ b.allocLen) &&
  decide (b.data.length = b.allocLen.toNat) &&
  (!b.reader || (b.fixed && decide (b.writePos = b.allocLen))) &&
  (!b.isNull || decide (b.allocLen = 0))

/-- the written region `[0, write_pos)` -/
def contents (b : Buf) : List UInt8 := b.data.take b.writePos.toNat

/-- `pre` = the buffer when the function was entered, `post` = when it returned.
A read must lie in the written region of `pre`; a write inside the allocation of `post`
(= of `pre` unless a dynamic buffer grew) and must be empty on a reader. -/
def accOk (pre post : Buf) (a : Access) : Bool :=
  match a.kind with
  | .rd => decide (a.lo + a.len ≤ pre.writePos.toNat)
  | .wr => decide (a.lo + a.len ≤ post.allocLen.toNat) && (decide (a.len = 0) || !pre.reader)

def accAllOk (pre post : Buf) (l : List Access) : Bool := l.all (accOk pre post)

/-- a fixed buffer keeps its allocation, a reader additionally its contents and write cursor -/
def keepsFixed (pre post : Buf) : Bool :=
  (!pre.fixed || (post.fixed && decide (post.allocLen = pre.allocLen) &&
                  decide (post.data.length = pre.data.length) && (post.isNull == pre.isNull))) &&
  (!pre.reader || (post.reader && decide (post.data = pre.data) &&
                   decide (post.writePos = pre.writePos)))

/-! ## state machine over buffer slots -/

abbrev State := Nat → Buf

def State.set (s : State) (i : Nat) (b : Buf) : State := fun j => if j = i then b else s j

def State.init : State := fun _ => initDynamic

inductive Op
  | initReader (i : Nat) (len : UInt32) (gen : Nat → UInt8)
  | initWriter (i : Nat) (len : UInt32) (gen : Nat → UInt8)
  | initDynamic (i : Nat)
  | free (i : Nat)
  | rewindReader (i : Nat)
  | rewindWriter (i : Nat)
  | availRead (i : Nat)
  | availWrite (i : Nat)
  | written (i : Nat)
  | consumed (i : Nat)
  | eq (i j : Nat)
  | eqStr (i : Nat) (s : List UInt8)
  | getByte (i : Nat)
  | getChar (i : Nat)
  | getU16 (i : Nat)
  | getU32 (i : Nat)
  | getU64 (i : Nat)
  | getBytes (i : Nat) (len : UInt32)
  | getChars (i : Nat) (len : UInt32)
  | getString (i : Nat)
  | makeRoom (i : Nat) (len : UInt32) (ora : UInt32 → Bool)
  | writeByte (i : Nat) (v : UInt8) (ora : UInt32 → Bool)
  | write (i : Nat) (src : Nat → UInt8) (len : UInt32) (ora : UInt32 → Bool)
  | fill (i : Nat) (byte : UInt8) (len : UInt32) (ora : UInt32 → Bool)
  | writeRaw (dst src : Nat) (ora : UInt32 → Bool)
  | writeMbuf (dst src : Nat) (len : UInt32) (ora : UInt32 → Bool)
  | cut (i : Nat) (ofs len : UInt32)
  | copy (src dst : Nat)
  | slice (src : Nat) (len : UInt32) (dst : Nat)

/-- what one call hands back: C return value (`true` for `void` functions), numeric result,
bytes delivered, and the accesses as (slot, access) -/
structure Out where
  ok : Bool := true
  val : Nat := 0
  bytes : List UInt8 := []
  acc : List (Nat × Access) := []

def tag (i : Nat) (l : List Access) : List (Nat × Access) := l.map fun a => (i, a)

def ofRes (s : State) (i : Nat) (r : Res) : State × Out :=
  (s.set i r.buf, { ok := r.ok, val := r.val, bytes := r.bytes, acc := tag i r.acc })

/-- two-buffer result for distinct slots `d ≠ c` -/
def ofRes2 (s : State) (d c : Nat) (r : Res2) : State × Out :=
  ((s.set d r.dst).set c r.src,
   { ok := r.ok, val := r.val, bytes := r.bytes, acc := tag d r.accDst ++ tag c r.accSrc })

/-- calls that the C API does not allow (source and destination of `mbuf_write_raw_mbuf` /
`mbuf_write_mbuf` are the same object: the source pointer may be freed by the `realloc`
inside) are rejected by model and harness alike: no state change, `ok = false`. -/
def rejected (s : State) : State × Out := (s, { ok := false })

def step (s : State) : Op → State × Out
  | .initReader i len gen => (s.set i (initFixedReader len gen), {})
  | .initWriter i len gen => (s.set i (initFixedWriter len gen), {})
  | .initDynamic i => (s.set i Usual.C12.initDynamic, {})
  | .free i => (s.set i (Usual.C12.free (s i)), {})
  | .rewindReader i => (s.set i (Usual.C12.rewindReader (s i)), {})
  | .rewindWriter i => (s.set i (Usual.C12.rewindWriter (s i)), {})
  | .availRead i => (s, { val := (Usual.C12.availRead (s i)).toNat })
  | .availWrite i => (s, { val := (Usual.C12.availWrite (s i)).toNat })
  | .written i => (s, { val := (Usual.C12.written (s i)).toNat })
  | .consumed i => (s, { val := (Usual.C12.consumed (s i)).toNat })
  | .eq i j =>
    if i = j then (s, { ok := true })
    else
      let r := Usual.C12.eq (s i) (s j)
      (s, { ok := r.ok, acc := tag i r.accDst ++ tag j r.accSrc })
  | .eqStr i str => let r := Usual.C12.eqStr (s i) str; (s, { ok := r.ok, acc := tag i r.acc })
  | .getByte i => ofRes s i (Usual.C12.getByte (s i))
  | .getChar i => ofRes s i (Usual.C12.getChar (s i))
  | .getU16 i => ofRes s i (Usual.C12.getU16 (s i))
  | .getU32 i => ofRes s i (Usual.C12.getU32 (s i))
  | .getU64 i => ofRes s i (Usual.C12.getU64 (s i))
  | .getBytes i len => ofRes s i (Usual.C12.getBytes (s i) len)
  | .getChars i len => ofRes s i (Usual.C12.getChars (s i) len)
  | .getString i => ofRes s i (Usual.C12.getString (s i))
  | .makeRoom i len ora =>
    (s.set i (Usual.C12.makeRoom (s i) len ora).2, { ok := (Usual.C12.makeRoom (s i) len ora).1 })
  | .writeByte i v ora => ofRes s i (Usual.C12.writeByte (s i) v ora)
  | .write i src len ora => ofRes s i (Usual.C12.write (s i) src len ora)
  | .fill i byte len ora => ofRes s i (Usual.C12.fill (s i) byte len ora)
  | .writeRaw d c ora =>
    if d = c then rejected s else ofRes2 s d c (Usual.C12.writeRaw (s d) (s c) ora)
  | .writeMbuf d c len ora =>
    if d = c then rejected s else ofRes2 s d c (Usual.C12.writeMbuf (s d) (s c) len ora)
  | .cut i ofs len => ofRes s i (Usual.C12.cut (s i) ofs len)
  | .copy c d => (s.set d (Usual.C12.copy (s c)), {})
  | .slice c len d =>
    if c = d then ofRes s c (Usual.C12.sliceSelf (s c) len)
    else ofRes2 s d c (Usual.C12.sliceOp (s c) len (s d))

/-- slots that an op (re-)initialises: their old mode flags say nothing about the new value -/
def Op.reinits : Op → Nat → Bool
  | .initReader i _ _, j => i == j
  | .initWriter i _ _, j => i == j
  | .initDynamic i, j => i == j
  | .free i, j => i == j
  | .copy _ d, j => d == j
  | .slice _ _ d, j => d == j
  | _, _ => false

/-- run a whole history; outputs in order -/
def run (s : State) : List Op → State × List Out
  | [] => (s, [])
  | op :: rest =>
    let r := step s op
    let rr := run r.1 rest
    (rr.1, r.2 :: rr.2)

/-! ## the byte-vector specification (`S` of the design): contents + read cursor, unbounded
naturals, no capacity, no wrap-around -/

structure Vec where
  bytes : List UInt8
  rpos : Nat
  /-- read-only view (fixed reader / slice) -/
  ro : Bool
deriving DecidableEq, Repr

def abs (b : Buf) : Vec := { bytes := contents b, rpos := b.readPos.toNat, ro := b.reader }

/-- big-endian value of a byte string -/
def beNat (l : List UInt8) : Nat := l.foldl (fun acc x => acc * 256 + x.toNat) 0

namespace Vec
def unread (v : Vec) : List UInt8 := v.bytes.drop v.rpos
def get (v : Vec) (n : Nat) : Vec × List UInt8 := ({ v with rpos := v.rpos + n }, v.unread.take n)
def append (v : Vec) (xs : List UInt8) : Vec := { v with bytes := v.bytes ++ xs }
/-- remove `[ofs, ofs+len)`; the read cursor stays on the same unread byte -/
def cut (v : Vec) (ofs len : Nat) : Vec :=
  if ofs < v.bytes.length then
    { bytes := v.bytes.take ofs ++ v.bytes.drop (ofs + len),
      rpos := if ofs + len ≤ v.rpos then v.rpos - len
              else if ofs < v.rpos then ofs else v.rpos,
      ro := v.ro }
  else v
/-- the empty read-write vector -/
def empty : Vec := { bytes := [], rpos := 0, ro := false }
/-- a read-only view of `xs` -/
def view (xs : List UInt8) : Vec := { bytes := xs, rpos := 0, ro := true }
end Vec

end Usual.C12
