import Usual.Common
/-! # C17 model, part (i): `struct tls_config`, every `tls_config_*` setter, `tls_config_equal`

Mirrors usual/tls/tls_internal.h (`struct tls_config`, `struct tls_keypair`),
usual/tls/tls_config.c (setters, `tls_config_new`, `tls_config_clear_keys`,
`tls_config_parse_protocols`) and usual/tls/tls.c (`tls_mem_equal`, `tls_keypair_equal`,
`tls_keypair_list_equal`, `tls_config_equal`).

Representation
* a C string field is `Option Bytes` (`none` = NULL); C strings contain no NUL, so `strcmp == 0`
  is list equality;
* a `(char *mem, size_t len)` pair is `Mem`: `set_mem(dest, destlen, src, srclen)` leaves either
  `(NULL, srclen)` (when `src == NULL`; the length is stored *whatever it is*) or a private copy of
  exactly `srclen` bytes.  Those are the only reachable shapes, hence the two constructors;
* `int` fields are `Int`, `uint32_t protocols` is `UInt32`;
* the `error` member is not a configurable field; the drivers carry a flag for it separately.
-/
namespace Usual.C17

abbrev Bytes := List UInt8
abbrev CStr := Option Bytes

/-- what `set_mem` leaves in a `(pointer, length)` pair -/
inductive Mem
  | null (len : Nat)        -- pointer NULL, length as passed by the caller
  | buf (d : Bytes)         -- malloc'ed copy of d.length bytes (also for 0 bytes: glibc malloc(0) ≠ NULL)
  deriving DecidableEq, Repr

def Mem.len : Mem → Nat
  | .null n => n
  | .buf d => d.length

def Mem.isNull : Mem → Bool
  | .null _ => true
  | .buf _ => false

structure Keypair where
  certFile : CStr
  certMem : Mem
  keyFile : CStr
  keyMem : Mem
  deriving DecidableEq, Repr

structure Config where
  caFile : CStr
  caPath : CStr
  caMem : Mem
  ciphers : CStr
  ciphersServer : Int
  dheparams : Int
  ecdhecurve : Int
  keypair : List Keypair        -- linked list through `next`; tls_config_new makes one element
  ocspFile : CStr
  ocspMem : Mem
  protocols : UInt32
  verifyCert : Int
  verifyClient : Int
  verifyDepth : Int
  verifyName : Int
  verifyTime : Int
  deriving DecidableEq, Repr

/-! ## equality (tls.c) -/

/-- usual/string.c `strcmpeq` -/
def strcmpeq : CStr → CStr → Bool
  | none, none => true
  | none, some _ => false
  | some _, none => false
  | some a, some b => a == b

/-- `tls_mem_equal` as it is in the pinned tree: a NULL pointer on either side skips the
    content comparison, so `(NULL, n)` equals every buffer of `n` bytes. -/
def memEqualOld (m1 m2 : Mem) : Bool :=
  if m1.len != m2.len then false
  else match m1, m2 with
    | .buf a, .buf b => a == b          -- mem1 && mem2 && memcmp(...) != 0 → false
    | _, _ => true

/-- `tls_mem_equal` after fix F34 (lengths equal, NULL-ness equal, contents equal) -/
def memEqual (m1 m2 : Mem) : Bool :=
  if m1.len != m2.len then false
  else if m1.isNull != m2.isNull then false
  else match m1, m2 with
    | .buf a, .buf b => a == b
    | _, _ => true

/-- `tls_keypair_equal`, parameterised by the memory comparison -/
def keypairEqualWith (meq : Mem → Mem → Bool) (k1 k2 : Keypair) : Bool :=
  if !strcmpeq k1.certFile k2.certFile then false
  else if !meq k1.certMem k2.certMem then false
  else if !strcmpeq k1.keyFile k2.keyFile then false
  else if !meq k1.keyMem k2.keyMem then false
  else true

/-- `tls_keypair_list_equal`: walk both lists in step; equal iff both end together -/
def keypairListEqualWith (meq : Mem → Mem → Bool) : List Keypair → List Keypair → Bool
  | [], [] => true
  | a :: as, b :: bs => if !keypairEqualWith meq a b then false else keypairListEqualWith meq as bs
  | _, _ => false

/-- `tls_config_equal`, same order of comparisons as the C function -/
def configEqualWith (meq : Mem → Mem → Bool) (a b : Config) : Bool :=
  if !strcmpeq a.caFile b.caFile then false
  else if !strcmpeq a.caPath b.caPath then false
  else if !meq a.caMem b.caMem then false
  else if !strcmpeq a.ciphers b.ciphers then false
  else if a.ciphersServer != b.ciphersServer then false
  else if a.dheparams != b.dheparams then false
  else if a.ecdhecurve != b.ecdhecurve then false
  else if !keypairListEqualWith meq a.keypair b.keypair then false
  else if !strcmpeq a.ocspFile b.ocspFile then false
  else if !meq a.ocspMem b.ocspMem then false
  else if a.protocols != b.protocols then false
  else if a.verifyCert != b.verifyCert then false
  else if a.verifyClient != b.verifyClient then false
  else if a.verifyDepth != b.verifyDepth then false
  else if a.verifyName != b.verifyName then false
  else if a.verifyTime != b.verifyTime then false
  else true

def keypairEqual := keypairEqualWith memEqual
def keypairListEqual := keypairListEqualWith memEqual
/-- the repaired `tls_config_equal` -/
def configEqual := configEqualWith memEqual
/-- `tls_config_equal` of the pinned tree -/
def configEqualOld := configEqualWith memEqualOld

/-! ## the configurable fields, one by one (the reading of "every configurable field") -/

inductive Field
  | caFile | caPath | caMem | ciphers | ciphersServer | dheparams | ecdhecurve | keypairs
  | ocspFile | ocspMem | protocols | verifyCert | verifyClient | verifyDepth | verifyName | verifyTime
  deriving DecidableEq, Repr

inductive Value
  | str (s : CStr)
  | mem (m : Mem)
  | int (i : Int)
  | u32 (n : UInt32)
  | kps (l : List Keypair)
  deriving DecidableEq, Repr

def Config.get (c : Config) : Field → Value
  | .caFile => .str c.caFile
  | .caPath => .str c.caPath
  | .caMem => .mem c.caMem
  | .ciphers => .str c.ciphers
  | .ciphersServer => .int c.ciphersServer
  | .dheparams => .int c.dheparams
  | .ecdhecurve => .int c.ecdhecurve
  | .keypairs => .kps c.keypair
  | .ocspFile => .str c.ocspFile
  | .ocspMem => .mem c.ocspMem
  | .protocols => .u32 c.protocols
  | .verifyCert => .int c.verifyCert
  | .verifyClient => .int c.verifyClient
  | .verifyDepth => .int c.verifyDepth
  | .verifyName => .int c.verifyName
  | .verifyTime => .int c.verifyTime

/-- functional update of one field (ill-typed values leave the record alone) -/
def Config.put (c : Config) : Field → Value → Config
  | .caFile, .str s => { c with caFile := s }
  | .caPath, .str s => { c with caPath := s }
  | .caMem, .mem m => { c with caMem := m }
  | .ciphers, .str s => { c with ciphers := s }
  | .ciphersServer, .int i => { c with ciphersServer := i }
  | .dheparams, .int i => { c with dheparams := i }
  | .ecdhecurve, .int i => { c with ecdhecurve := i }
  | .keypairs, .kps l => { c with keypair := l }
  | .ocspFile, .str s => { c with ocspFile := s }
  | .ocspMem, .mem m => { c with ocspMem := m }
  | .protocols, .u32 n => { c with protocols := n }
  | .verifyCert, .int i => { c with verifyCert := i }
  | .verifyClient, .int i => { c with verifyClient := i }
  | .verifyDepth, .int i => { c with verifyDepth := i }
  | .verifyName, .int i => { c with verifyName := i }
  | .verifyTime, .int i => { c with verifyTime := i }
  | _, _ => c

def Config.putAll (c : Config) : List (Field × Value) → Config
  | [] => c
  | (f, v) :: rest => (c.put f v).putAll rest

/-! ## setters (tls_config.c) -/

def TLS_PROTOCOL_TLSv1_0 : UInt32 := 2
def TLS_PROTOCOL_TLSv1_1 : UInt32 := 4
def TLS_PROTOCOL_TLSv1_2 : UInt32 := 8
def TLS_PROTOCOL_TLSv1_3 : UInt32 := 16
def TLS_PROTOCOLS_ALL : UInt32 := 30
def TLS_PROTOCOLS_DEFAULT : UInt32 := 24

def lower (c : UInt8) : UInt8 := if 65 ≤ c ∧ c ≤ 90 then c + 32 else c
/-- `strcasecmp(a, b) == 0` (ASCII) -/
def eqi (a b : Bytes) : Bool := a.map lower == b.map lower
/-- keywords are written as explicit byte lists (so that the kernel can evaluate them); `kw` documents the text -/
def kw (_text : String) (bytes : Bytes) : Bytes := bytes

/-- the four obsolete cipher keywords of `tls_config_set_ciphers` -/
def isCipherKeyword (s : Bytes) : Bool :=
  eqi s (kw "default" [100, 101, 102, 97, 117, 108, 116]) || eqi s (kw "secure" [115, 101, 99, 117, 114, 101]) || eqi s (kw "normal" [110, 111, 114, 109, 97, 108]) || eqi s (kw "fast" [102, 97, 115, 116])

/-- split at every byte in `seps` the way successive `strsep` calls do (n separators → n+1 tokens) -/
def splitSep (seps : Bytes) : Bytes → Bytes → List Bytes
  | [], cur => [cur.reverse]
  | c :: rest, cur =>
    if seps.contains c then cur.reverse :: splitSep seps rest [] else splitSep seps rest (c :: cur)

def skipBlanks : Bytes → Bytes
  | c :: rest => if c = 32 ∨ c = 9 then skipBlanks rest else c :: rest
  | [] => []

/-- the keyword table of `tls_config_parse_protocols` (0 = unknown) -/
def protoKeyword (p : Bytes) : UInt32 :=
  let proto : UInt32 :=
    if eqi p (kw "all" [97, 108, 108]) then TLS_PROTOCOLS_ALL
    else if eqi p (kw "default" [100, 101, 102, 97, 117, 108, 116]) || eqi p (kw "secure" [115, 101, 99, 117, 114, 101]) then TLS_PROTOCOLS_DEFAULT
    else 0
  if eqi p (kw "tlsv1" [116, 108, 115, 118, 49]) then TLS_PROTOCOLS_ALL
  else if eqi p (kw "tlsv1.0" [116, 108, 115, 118, 49, 46, 48]) then TLS_PROTOCOL_TLSv1_0
  else if eqi p (kw "tlsv1.1" [116, 108, 115, 118, 49, 46, 49]) then TLS_PROTOCOL_TLSv1_1
  else if eqi p (kw "tlsv1.2" [116, 108, 115, 118, 49, 46, 50]) then TLS_PROTOCOL_TLSv1_2
  else if eqi p (kw "tlsv1.3" [116, 108, 115, 118, 49, 46, 51]) then TLS_PROTOCOL_TLSv1_3
  else proto

/-- loop body of `tls_config_parse_protocols` over the `strsep` tokens -/
def parseProtoLoop : List Bytes → UInt32 → Option UInt32
  | [], protos => some protos
  | tok :: rest, protos =>
    let p := skipBlanks tok
    let (negate, p) := match p with
      | 33 :: q => (true, q)            -- '!'
      | _ => (false, p)
    let protos := if negate && protos == 0 then TLS_PROTOCOLS_ALL else protos
    let proto := protoKeyword p
    if proto == 0 then none
    else parseProtoLoop rest (if negate then protos &&& ~~~proto else protos ||| proto)

/-- `tls_config_parse_protocols`: `none` = return −1 -/
def parseProtocols (s : Bytes) : Option UInt32 :=
  parseProtoLoop (splitSep [44, 58] s []) 0      -- ",:"

inductive Setter
  | caFile (s : CStr) | caPath (s : CStr) | caMem (m : Mem)
  | certFile (s : CStr) | certMem (m : Mem) | keyFile (s : CStr) | keyMem (m : Mem)
  | keypairFile (c k : CStr) | keypairMem (c k : Mem)
  | ciphers (s : CStr) (valid : Bool)          -- `valid`: OpenSSL accepts the custom cipher string
  | dheparams (s : CStr)
  | ecdhecurve (s : CStr) (nid : Int)          -- `nid`: OBJ_txt2nid of the name (0 = NID_undef)
  | ocspFile (s : CStr) | ocspMem (m : Mem)
  | protocols (p : UInt32) | verifyDepth (d : Int)
  | parseProto (s : Bytes)                     -- tls_config_parse_protocols + set_protocols on success
  | preferClient | preferServer
  | noVerifyCert | noVerifyName | noVerifyTime | verify
  | verifyClient | verifyClientOptional
  | clearKeys
  deriving DecidableEq, Repr

/-- update the first keypair (`config->keypair`; never NULL after `tls_config_new`) -/
def Config.onKeypair (c : Config) (f : Keypair → Keypair) : Config :=
  match c.keypair with
  | [] => c
  | k :: ks => { c with keypair := f k :: ks }

/-- `tls_keypair_clear` -/
def Keypair.clear (k : Keypair) : Keypair := { k with certMem := .null 0, keyMem := .null 0 }

/-- result of a setter: new config, return value (99 for the `void` ones), error text set -/
structure SetRes where
  cfg : Config
  rv : Int
  err : Bool

def setOk (c : Config) : SetRes := ⟨c, 0, false⟩
def setVoid (c : Config) : SetRes := ⟨c, 99, false⟩
def setFail (c : Config) : SetRes := ⟨c, -1, true⟩

def Setter.apply (c : Config) : Setter → SetRes
  | .caFile s => setOk { c with caFile := s }
  | .caPath s => setOk { c with caPath := s }
  | .caMem m => setOk { c with caMem := m }
  | .certFile s => setOk (c.onKeypair fun k => { k with certFile := s })
  | .certMem m => setOk (c.onKeypair fun k => { k with certMem := m })
  | .keyFile s => setOk (c.onKeypair fun k => { k with keyFile := s })
  | .keyMem m => setOk (c.onKeypair fun k => { k with keyMem := m })
  | .keypairFile cf kf => setOk (c.onKeypair fun k => { k with certFile := cf, keyFile := kf })
  | .keypairMem cm km => setOk (c.onKeypair fun k => { k with certMem := cm, keyMem := km })
  | .ciphers s valid =>
    match s with
    | none => setOk { c with ciphers := none }
    | some t => if isCipherKeyword t || valid then setOk { c with ciphers := some t } else setFail c
  | .dheparams s =>
    match s with
    | none => setOk { c with dheparams := 0 }
    | some t =>
      if eqi t (kw "none" [110, 111, 110, 101]) then setOk { c with dheparams := 0 }
      else if eqi t (kw "auto" [97, 117, 116, 111]) then setOk { c with dheparams := -1 }
      else setFail c
  | .ecdhecurve s nid =>
    match s with
    | none => setOk { c with ecdhecurve := 0 }
    | some t =>
      if eqi t (kw "none" [110, 111, 110, 101]) then setOk { c with ecdhecurve := 0 }
      else if eqi t (kw "auto" [97, 117, 116, 111]) then setOk { c with ecdhecurve := -1 }
      else if nid == 0 then setFail c
      else setOk { c with ecdhecurve := nid }
  | .ocspFile s =>
    -- if (blob_file != NULL) tls_config_set_ocsp_stapling_mem(config, NULL, 0);
    match s with
    | none => setOk { c with ocspFile := none }
    | some t => setOk { c with ocspMem := .null 0, ocspFile := some t }
  | .ocspMem m =>
    -- if (blob != NULL) tls_config_set_ocsp_stapling_file(config, NULL);
    match m with
    | .null n => setOk { c with ocspMem := .null n }
    | .buf d => setOk { c with ocspFile := none, ocspMem := .buf d }
  | .protocols p => setVoid { c with protocols := p }
  | .verifyDepth d => setVoid { c with verifyDepth := d }
  | .parseProto s =>
    match parseProtocols s with
    | none => ⟨c, -1, false⟩
    | some p => setOk { c with protocols := p }
  | .preferClient => setVoid { c with ciphersServer := 0 }
  | .preferServer => setVoid { c with ciphersServer := 1 }
  | .noVerifyCert => setVoid { c with verifyCert := 0 }
  | .noVerifyName => setVoid { c with verifyName := 0 }
  | .noVerifyTime => setVoid { c with verifyTime := 0 }
  | .verify => setVoid { c with verifyCert := 1, verifyName := 1, verifyTime := 1 }
  | .verifyClient => setVoid { c with verifyClient := 1 }
  | .verifyClientOptional => setVoid { c with verifyClient := 2 }
  | .clearKeys => setVoid { c with keypair := c.keypair.map Keypair.clear, caMem := .null 0 }

/-- `tls_config_new` (`ca0` = USUAL_TLS_CA_FILE of the configured tree) -/
def Config.new (ca0 : Bytes) : Config :=
  { caFile := some ca0, caPath := none, caMem := .null 0,
    ciphers := some (kw "secure" [115, 101, 99, 117, 114, 101]), ciphersServer := 1, dheparams := 0, ecdhecurve := -1,
    keypair := [⟨none, .null 0, none, .null 0⟩],
    ocspFile := none, ocspMem := .null 0,
    protocols := TLS_PROTOCOLS_DEFAULT,
    verifyCert := 1, verifyClient := 0, verifyDepth := 6, verifyName := 1, verifyTime := 1 }

/-- run a sequence of setters; collects return values and whether an error text was ever set -/
def applyAll : List Setter → Config → Config × List Int × Bool
  | [], c => (c, [], false)
  | s :: rest, c =>
    let r := s.apply c
    let (c', rvs, e) := applyAll rest r.cfg
    (c', r.rv :: rvs, r.err || e)

/-- the configuration alone -/
def runSetters (l : List Setter) (c : Config) : Config := (applyAll l c).1

/-! ### the documented effect of each setter as a list of field assignments

`Setter.spec c s` is the abstract reading of the API: which configurable fields the call assigns
and to what (depending on the current value only for the keypair list, whose head is edited in
place).  `setters_commute_with_model` (Props) states `apply = putAll ∘ spec`. -/
def Setter.spec (c : Config) : Setter → List (Field × Value)
  | .caFile s => [(.caFile, .str s)]
  | .caPath s => [(.caPath, .str s)]
  | .caMem m => [(.caMem, .mem m)]
  | .certFile s => [(.keypairs, .kps (c.onKeypair fun k => { k with certFile := s }).keypair)]
  | .certMem m => [(.keypairs, .kps (c.onKeypair fun k => { k with certMem := m }).keypair)]
  | .keyFile s => [(.keypairs, .kps (c.onKeypair fun k => { k with keyFile := s }).keypair)]
  | .keyMem m => [(.keypairs, .kps (c.onKeypair fun k => { k with keyMem := m }).keypair)]
  | .keypairFile cf kf =>
    [(.keypairs, .kps (c.onKeypair fun k => { k with certFile := cf, keyFile := kf }).keypair)]
  | .keypairMem cm km =>
    [(.keypairs, .kps (c.onKeypair fun k => { k with certMem := cm, keyMem := km }).keypair)]
  | .ciphers s valid =>
    match s with
    | none => [(.ciphers, .str none)]
    | some t => if isCipherKeyword t || valid then [(.ciphers, .str (some t))] else []
  | .dheparams s =>
    match s with
    | none => [(.dheparams, .int 0)]
    | some t =>
      if eqi t (kw "none" [110, 111, 110, 101]) then [(.dheparams, .int 0)]
      else if eqi t (kw "auto" [97, 117, 116, 111]) then [(.dheparams, .int (-1))]
      else []
  | .ecdhecurve s nid =>
    match s with
    | none => [(.ecdhecurve, .int 0)]
    | some t =>
      if eqi t (kw "none" [110, 111, 110, 101]) then [(.ecdhecurve, .int 0)]
      else if eqi t (kw "auto" [97, 117, 116, 111]) then [(.ecdhecurve, .int (-1))]
      else if nid == 0 then []
      else [(.ecdhecurve, .int nid)]
  | .ocspFile s =>
    match s with
    | none => [(.ocspFile, .str none)]
    | some t => [(.ocspMem, .mem (.null 0)), (.ocspFile, .str (some t))]
  | .ocspMem m =>
    match m with
    | .null n => [(.ocspMem, .mem (.null n))]
    | .buf d => [(.ocspFile, .str none), (.ocspMem, .mem (.buf d))]
  | .protocols p => [(.protocols, .u32 p)]
  | .verifyDepth d => [(.verifyDepth, .int d)]
  | .parseProto s =>
    match parseProtocols s with
    | none => []
    | some p => [(.protocols, .u32 p)]
  | .preferClient => [(.ciphersServer, .int 0)]
  | .preferServer => [(.ciphersServer, .int 1)]
  | .noVerifyCert => [(.verifyCert, .int 0)]
  | .noVerifyName => [(.verifyName, .int 0)]
  | .noVerifyTime => [(.verifyTime, .int 0)]
  | .verify => [(.verifyCert, .int 1), (.verifyName, .int 1), (.verifyTime, .int 1)]
  | .verifyClient => [(.verifyClient, .int 1)]
  | .verifyClientOptional => [(.verifyClient, .int 2)]
  | .clearKeys => [(.keypairs, .kps (c.keypair.map Keypair.clear)), (.caMem, .mem (.null 0))]

end Usual.C17
