import Usual.C17.Tls
import Usual.C08.TlsName
/-! Op-line interface of the C17 model driver: same op lines as harness/C17/h.c, one output line
    per input line.  `nameCovered` of the policy is computed by the C08 model
    (`Usual.C08.checkName`) from the certificate names and the server name on the op line. -/
namespace Usual.C17.Run
open Usual.C17

/-! ### parsing helpers -/

def parseStr (w : String) : Option CStr :=
  if w == "~" then some none else
  match Usual.parseHex w with
  | some d => if d.contains 0 then none else some (some d)
  | none => none

def parseMem (w : String) : Option Mem :=
  if w.startsWith "~" then
    match (w.drop 1).toString.toNat? with
    | some n => some (.null n)
    | none => none
  else match Usual.parseHex w with
    | some d => some (.buf d)
    | none => none

def parseSetter (w : String) : Option Setter :=
  match w.splitOn ":" with
  | ["cafile", a] => (parseStr a).map .caFile
  | ["capath", a] => (parseStr a).map .caPath
  | ["camem", a] => (parseMem a).map .caMem
  | ["certfile", a] => (parseStr a).map .certFile
  | ["certmem", a] => (parseMem a).map .certMem
  | ["keyfile", a] => (parseStr a).map .keyFile
  | ["keymem", a] => (parseMem a).map .keyMem
  | ["kpfile", a, b] => do let x ← parseStr a; let y ← parseStr b; pure (.keypairFile x y)
  | ["kpmem", a, b] => do let x ← parseMem a; let y ← parseMem b; pure (.keypairMem x y)
  | ["ciphers", a, v] =>
    if v == "0" || v == "1" then (parseStr a).map (fun s => .ciphers s (v == "1")) else none
  | ["dhe", a] => (parseStr a).map .dheparams
  | ["ecdhe", a, n] => do let x ← parseStr a; let i ← n.toInt?; pure (.ecdhecurve x i)
  | ["ocspfile", a] => (parseStr a).map .ocspFile
  | ["ocspmem", a] => (parseMem a).map .ocspMem
  | ["proto", a] =>
    match a.toNat? with
    | some n => if n ≤ 0xffffffff then some (.protocols (UInt32.ofNat n)) else none
    | none => none
  | ["depth", a] =>
    match a.toInt? with
    | some i => if -2147483648 ≤ i ∧ i ≤ 2147483647 then some (.verifyDepth i) else none
    | none => none
  | ["parseproto", a] =>
    match parseStr a with
    | some (some s) => some (.parseProto s)
    | _ => none
  | ["prefc"] => some .preferClient
  | ["prefs"] => some .preferServer
  | ["nocert"] => some .noVerifyCert
  | ["noname"] => some .noVerifyName
  | ["notime"] => some .noVerifyTime
  | ["verify"] => some .verify
  | ["vclient"] => some .verifyClient
  | ["vclientopt"] => some .verifyClientOptional
  | ["clear"] => some .clearKeys
  | _ => none

def parseSetters : List String → Option (List Setter)
  | [] => some []
  | w :: ws => do let s ← parseSetter w; let r ← parseSetters ws; pure (s :: r)

/-! ### dumps (same text as `dump_cfg` of the harness) -/

def dumpStr : CStr → String
  | none => "~"
  | some d => Usual.toHex d

def dumpMem : Mem → String
  | .null n => s!"~{n}"
  | .buf d => Usual.toHex d

def dumpKeypair (k : Keypair) : String :=
  s!"cf={dumpStr k.certFile} cm={dumpMem k.certMem} kf={dumpStr k.keyFile} km={dumpMem k.keyMem}"

def dumpCfg (c : Config) (err : Bool) : String :=
  s!"caf={dumpStr c.caFile} cap={dumpStr c.caPath} cam={dumpMem c.caMem} ci={dumpStr c.ciphers} " ++
  s!"cs={c.ciphersServer} dh={c.dheparams} ec={c.ecdhecurve} kp=[" ++
  ";".intercalate (c.keypair.map dumpKeypair) ++
  s!"] of={dumpStr c.ocspFile} om={dumpMem c.ocspMem} pr={c.protocols.toNat} vc={c.verifyCert} " ++
  s!"vcl={c.verifyClient} vd={c.verifyDepth} vn={c.verifyName} vt={c.verifyTime} " ++
  s!"e={if err then "set" else "none"}"

def rvList (l : List Int) : String :=
  if l.isEmpty then "-" else ",".intercalate (l.map toString)

def b01 (b : Bool) : String := if b then "1" else "0"

def runCfg (ws : List String) : String :=
  match ws with
  | ca0w :: rest =>
    match ca0w.splitOn ":" with
    | ["ca0", h] =>
      match Usual.parseHex h with
      | none => "bad-op"
      | some ca0 =>
        let (aw, bw) := rest.span (· != "|")
        match bw with
        | "|" :: bw =>
          if bw.contains "|" then "bad-op" else
          match parseSetters aw, parseSetters bw with
          | some sa, some sb =>
            let (ca, ra, ea) := applyAll sa (Config.new ca0)
            let (cb, rb, eb) := applyAll sb (Config.new ca0)
            let eq := configEqual ca cb
            let sym := configEqual cb ca == eq
            let refl := configEqual ca ca && configEqual cb cb
            s!"eq={b01 eq} sym={b01 sym} refl={b01 refl} ## A\{{dumpCfg ca ea}} B\{{dumpCfg cb eb}} " ++
            s!"rv={rvList ra}|{rvList rb}"
          | _, _ => "bad-op"
        | _ => "bad-op"
    | _ => "bad-op"
  | _ => "bad-op"

/-! ### `inj` -/

def kvOf (ws : List String) : List (String × String) :=
  ws.filterMap fun w =>
    match w.splitOn "=" with
    | k :: v :: rest => some (k, "=".intercalate (v :: rest))
    | _ => none

def kvGet (kv : List (String × String)) (k : String) : Option String :=
  (kv.find? (·.1 == k)).map (·.2)

def parseFlag (kv : List (String × String)) (k : String) : Option Bool :=
  match kvGet kv k with
  | some "0" => some false
  | some "1" => some true
  | _ => none

def parseSslErr : String → Option SslErr
  | "none" => some .none | "zero" => some .zeroReturn | "wr" => some .wantRead
  | "ww" => some .wantWrite | "sys" => some .syscall | "ssl" => some .ssl
  | "wc" => some .wantConnect | "wa" => some .wantAccept | "wx" => some .wantX509
  | "other" => some .other | _ => none

def parseTriple (w : String) : Option SslRes :=
  match w.splitOn ":" with
  | [a, b, c] =>
    match a.toInt?, parseSslErr b with
    | some r, some e =>
      if -2 ≤ r ∧ r ≤ 64 ∧ (c == "0" || c == "1") then some ⟨r, e, c == "1"⟩ else none
    | _, _ => none
  | _ => none

def parseTriples : List String → Option (List SslRes)
  | [] => some []
  | w :: ws => do let s ← parseTriple w; let r ← parseTriples ws; pure (s :: r)

def runInj (ws : List String) : String :=
  match ws with
  | fn :: rest =>
    if rest.length < 7 then "bad-op" else
    if !(fn == "read" || fn == "write" || fn == "close" || fn == "handshake" || fn == "hswrite" || fn == "hsread")
      then "bad-op" else
    let kv := kvOf (rest.take 7)
    let role := kvGet kv "role"
    let len : Option Nat := match kvGet kv "len" with
      | some "big" => some (INT_MAX + 1)
      | some s => match s.toNat? with
        | some n => if n ≤ 64 then some n else none
        | none => none
      | none => none
    let sock : Option (Option SockEnv) := match kvGet kv "sock" with
      | some "none" => some none
      | some "ok" => some (some ⟨true, false, true⟩)
      | some "notconn" => some (some ⟨false, true, true⟩)
      | some "bad" => some (some ⟨false, false, false⟩)
      | _ => none
    match role, parseFlag kv "hc", parseFlag kv "ab", parseFlag kv "ef", parseFlag kv "vn", len, sock,
          parseTriples (rest.drop 7) with
    | some role, some hc, some ab, some ef, some vn, some len, some sock, some script =>
      if !(role == "c" || role == "s") || script.length > 16 then "bad-op" else
      let c : Conn := { roleValid := true, isServer := role == "s", hc, eofNoNotify := ef,
                        doAbort := ab, verifyName := vn, peerCert := false, nameOk := false,
                        err := .unchanged }
      if fn == "hswrite" || fn == "hsread" then
        -- tls_handshake, then one I/O call on the same context whatever the handshake said
        let h := tlsHandshake c script
        let o := if fn == "hswrite" then tlsWrite h.st h.rest len else tlsRead h.st h.rest len
        s!"rv={h.rv},{o.rv} ## st={b01 o.st.hc}{b01 o.st.eofNoNotify}{b01 o.st.doAbort} " ++
        s!"used={script.length - o.rest.length} err={o.st.err.str}"
      else
      let o : Out :=
        if fn == "read" then tlsRead c script len
        else if fn == "write" then tlsWrite c script len
        else if fn == "close" then tlsClose c script sock
        else tlsHandshake c script
      s!"rv={o.rv} ## st={b01 o.st.hc}{b01 o.st.eofNoNotify}{b01 o.st.doAbort} " ++
      s!"used={script.length - o.rest.length} err={o.st.err.str}"
    | _, _, _, _, _, _, _, _ => "bad-op"
  | _ => "bad-op"

/-! ### `hs` -/

structure CertDesc where
  ca : Nat
  timeValid : Int → Bool                -- valid at the given time (v/e/f: fixed answer)
  window : Option (Int × Int)
  server : Bool
  names : Usual.C08.Cert

def parseSans : List String → Option (List Usual.C08.SanEntry)
  | [] => some []
  | w :: ws =>
    let body := (w.drop 1).toString
    match Usual.parseHex body, parseSans ws with
    | some d, some r =>
      if w.startsWith "d" then some (.dns d :: r)
      else if w.startsWith "i" then some (.ip d :: r)
      else none
    | _, _ => none

def parseCert (w : String) : Option CertDesc :=
  match w.splitOn ":" with
  | [ca, t, k, cn, sans] =>
    match ca.toNat?, parseStr cn with
    | some ca, some cn =>
      let win : Option (Int × Int) :=
        if t.startsWith "w" then
          match (t.drop 1).toString.splitOn "_" with
          | [a, b] => match a.toInt?, b.toInt? with
            | some x, some y =>
              if -2000000000 ≤ x ∧ x ≤ 253402300799 ∧ -2000000000 ≤ y ∧ y ≤ 253402300799 then some (x, y) else none
            | _, _ => none
          | _ => none
        else none
      if ca > 2 || !(t == "v" || t == "e" || t == "f" || win.isSome) || !(k == "s" || k == "c") then none else
      let sl := if sans == "-" || sans == "" then some [] else parseSans (sans.splitOn ",")
      match sl with
      | some sl => some ⟨ca, (match win with
                              | some (nb, na) => fun now => validAt now nb na
                              | none => fun _ => t == "v"), win, k == "s",
                         ⟨sl, match cn with | some c => [c] | none => []⟩⟩
      | none => none
    | _, _ => none
  | _ => none

def smNext (st : UInt64) : UInt64 × UInt64 :=
  let st := st + 0x9E3779B97F4A7C15
  let z := st
  let z := (z ^^^ (z >>> 30)) * 0xBF58476D1CE4E5B9
  let z := (z ^^^ (z >>> 27)) * 0x94D049BB133111EB
  (st, z ^^^ (z >>> 31))

/-- FNV-1a over the first `n` bytes of the stream seeded by `st` (8 bytes per splitmix word, LSB first) -/
def hashStream : Nat → UInt64 → UInt64 → Nat → UInt64 → UInt64
  | 0, _, _, _, h => h
  | n + 1, st, word, have_, h =>
    if have_ == 0 then
      let (st, w) := smNext st
      hashStream n st (w >>> 8) 7 ((h ^^^ (w &&& 0xff)) * 0x100000001b3)
    else
      hashStream n st (word >>> 8) (have_ - 1) ((h ^^^ (word &&& 0xff)) * 0x100000001b3)

def hex16 (v : UInt64) : String :=
  String.ofList ((List.range 16).map fun i =>
    Usual.hexDigit ((v >>> (4 * (15 - i).toUInt64)) &&& 0xf).toNat)

def natIn (kv : List (String × String)) (k : String) (lo hi : Nat) : Option Nat :=
  match kvGet kv k with
  | some s => match s.toNat? with
    | some n => if lo ≤ n ∧ n ≤ hi then some n else none
    | none => none
  | none => none

def runHs (ws : List String) : String :=
  let kv := kvOf ws
  let g := natIn kv
  match g "ciph" 0 1, g "cp" 0 30, g "sp" 0 30, g "perm" 0 30, g "vc" 0 1, g "vn" 0 1, g "vt" 0 1,
        g "svc" 0 2, g "svt" 0 1, g "cca" 1 2, g "sca" 1 2 with
  | some _, some cp, some sp, some perm, some vc, some vn, some vt, some svc, some svt, some cca, some sca =>
    -- where CA / certificate / key come from (file, memory, directory) is not an input of the decision:
    -- the fields are range-checked and otherwise ignored (frame condition of the model)
    match g "cam" 0 2, g "sam" 0 2, g "kpm" 0 1, g "first" 0 1, g "cut" 0 4, g "bias" 1 255,
          g "burst" 1 64, g "buf" 0 1048576, g "n" 0 67108864, g "chunk" 1 65536, g "seed" 0 (2^64 - 1) with
    | some _, some _, some _, some _, some cut, some _, some _, some _, some n, some _, some seed =>
      -- optional `noise=<0..255>`: unrelated failing library calls between the steps; no-op for the session
      let noiseOk := match kvGet kv "noise" with
        | none => true
        | some _ => (natIn kv "noise" 0 255).isSome
      let srcOk := ["scs", "sks", "ccs", "cks"].all fun k => match kvGet kv k with
        | none => true
        | some _ => (natIn kv k 0 1).isSome
      if cp % 2 == 1 || sp % 2 == 1 || !noiseOk || !srcOk then "bad-op" else
      let scert := (kvGet kv "scert").bind parseCert
      let ccertW := kvGet kv "ccert"
      let ccert : Option (Option CertDesc) := match ccertW with
        | some "none" => some none
        | some w => (parseCert w).map some
        | none => none
      let host := (kvGet kv "host").bind parseStr
      let strict : Option Bool := match kvGet kv "pton" with
        | some "g" => some true | some "c" => some false | _ => none
      match scert, ccert, host, strict with
      | some sc, some cc, some host, some strict =>
        let needNow := sc.window.isSome || (match cc with | some c => c.window.isSome | none => false)
        let nowO : Option Int := match kvGet kv "now" with
          | some v => v.toInt?
          | none => if needNow then none else some 0
        match nowO with
        | none => "bad-op"
        | some now =>
        let covered := match host with
          | some h => Usual.C08.checkName (Usual.C08.ipLit strict) sc.names h == .ok
          | none => false
        -- the configs are produced by the same setter calls as in the harness (build_cfgs); the CA set a
        -- config trusts is encoded as its one-byte `ca_file`
        let mkC (cp vc vn vt ca : Nat) := runSetters ([.protocols (UInt32.ofNat cp), .caFile (some [UInt8.ofNat ca])] ++
          (if vc == 0 then [.noVerifyCert] else []) ++
          (if vn == 0 then [.noVerifyName] else []) ++ (if vt == 0 then [.noVerifyTime] else [])) (Config.new [])
        let mkS (sp svt svc ca : Nat) := runSetters ([.protocols (UInt32.ofNat sp), .caFile (some [UInt8.ofNat ca])] ++
          (if svt == 0 then [.noVerifyTime] else []) ++
          (if svc == 1 then [.verifyClient] else if svc == 2 then [.verifyClientOptional] else [])) (Config.new [])
        let cfgC := mkC cp vc vn vt cca
        let cfgS := mkS sp svt svc sca
        -- reconfigure family: first configuration A (defaults as in the harness), then the one above
        let o (k : String) (lo hi d : Nat) : Option Nat := match kvGet kv k with
          | none => some d
          | some _ => natIn kv k lo hi
        let oi (k : String) : Bool := match kvGet kv k with        -- depth / adepth: -1..100, ignored by the decision
          | none => true
          | some v => match v.toInt? with
            | some i => decide (-1 ≤ i) && decide (i ≤ 100)
            | none => false
        match o "rc" 0 2 0, o "acp" 0 30 24, o "asp" 0 30 24, o "avc" 0 1 1, o "avn" 0 1 1, o "avt" 0 1 1,
              o "asvc" 0 2 0, o "asvt" 0 1 1, o "acca" 1 2 1, o "asca" 1 2 1, o "aciph" 0 2 0, o "akp" 0 1 0 with
        | some rc, some acp, some asp, some avc, some avn, some avt, some asvc, some asvt, some acca, some asca,
          some _, some _ =>
        if acp % 2 == 1 || asp % 2 == 1 || !oi "depth" || !oi "adepth" then "bad-op" else
        let tc0 := TlsCtx.new false []
        let ts0 := TlsCtx.new true []
        let tc := if rc == 0 then tc0 else if rc == 1 then tc0.configure (mkC acp avc avn avt acca)
                  else ((tc0.configure (mkC acp avc avn avt acca)).connect).reset
        let ts := if rc == 0 then ts0 else if rc == 1 then ts0.configure (mkS asp asvt asvc asca)
                  else (ts0.configure (mkS asp asvt asvc asca)).reset
        let tc := (tc.configure cfgC).connect
        let ts := ts.configure cfgS
        let trusts (x : Option SslCtx) (ca : Nat) : Bool := match x with
          | some k => k.caFile == some [UInt8.ofNat ca] && ca != 0
          | none => false
        (match Policy.ofCtxs tc ts host.isSome ⟨trusts tc.sslCtx sc.ca && sc.server, sc.timeValid now⟩ covered
                (cc.map fun c => ⟨trusts ts.sslCtx c.ca && !c.server, c.timeValid now⟩),
              tc.sslCtx, ts.sslCtx with
        | some p, some cctx, some sctx =>
        let pb := verBits perm
        let cb := verBits cctx.protocols.toNat
        let sb := verBits sctx.protocols.toNat
        if established p pb cb sb then
          let ver := match negotiated pb cb sb with
            | some v => verName v | none => "?"
          let s := UInt64.ofNat seed
          let h1 := hashStream n (s ^^^ 0xC2500000C2500000) 0 0 0xcbf29ce484222325
          let h2 := hashStream n (s ^^^ 0x52C0000052C00000) 0 0 0xcbf29ce484222325
          let tail := if cut == 0 then "eof=0 close=0,0 cut=-" else "eof=- close=-,- cut=err"
          let pt1 := match sc.window with | some (a, b) => s!"{a},{b}" | none => "-"
          let pt2 := match cc with
            | some c => (match c.window with | some (a, b) => if svc != 0 then s!"{a},{b}" else "-" | none => "-")
            | none => "-"
          s!"est=1 ver={ver} rvs=ok want=ok data=ok h={hex16 h1},{hex16 h2} {tail} pt={pt1}/{pt2} after=ok"
        -- refused: every later I/O call on the refused context fails again, nothing crosses (`refused_stays_refused`)
        else "est=0 ver=- rvs=ok want=ok data=- h=-,- eof=- close=-,- cut=- pt=- after=ok"
        | _, _, _ => "bad-op")
        | _, _, _, _, _, _, _, _, _, _, _, _ => "bad-op"
      | _, _, _, _ => "bad-op"
    | _, _, _, _, _, _, _, _, _, _, _ => "bad-op"
  | _, _, _, _, _, _, _, _, _, _, _ => "bad-op"

def runLine (line : String) : String :=
  if line.trimAscii.toString == "#case" then "#case" else
  match Usual.words line with
  | "cfg" :: rest => runCfg rest
  | "inj" :: rest => runInj rest
  | "hs" :: rest => runHs rest
  | _ => "bad-op"

end Usual.C17.Run
