import Usual.C17.Config
/-! # C17 model, parts (ii)–(v)

(ii)  `sslErrorMap` = `tls_ssl_error` (usual/tls/tls.c) and the wrappers `tls_handshake`,
      `tls_read`, `tls_write`, `tls_close`, `tls_do_abort` around an *abstract SSL object*: a
      script of results `(ret, SSL_get_error class, ERR_peek_error ≠ 0)` that the OpenSSL entry
      points `SSL_connect/accept/read/write/shutdown` hand out in call order;
(iii) protocol versions: what `tls_configure_ssl` turns `config->protocols` into
      (`SSL_OP_NO_TLSv1_x` per cleared bit) and what the linked OpenSSL makes of such option sets
      (client: `ssl_get_min_max_version`'s walk over the version table; server: each version on
      its own; the TLS 1.3 downgrade sentinel) — `negotiated`;
(iv)  `decision`: the session-setup policy as configured by `tls_connect_fds`,
      `tls_configure_server`, `tls_configure_ssl`, `tls_handshake_client`;
(v)   an abstract duplex channel: per direction a FIFO of bytes in flight between the
      application data still to be written and the bytes already delivered, moved by an arbitrary
      schedule of bounded `write`/`read` steps.
-/
namespace Usual.C17

def TLS_WANT_POLLIN : Int := -2
def TLS_WANT_POLLOUT : Int := -3
def INT_MAX : Nat := 2147483647

/-! ## (ii) error mapping and wrappers -/

/-- classes of `SSL_get_error` results, in the order of the `switch` in `tls_ssl_error` -/
inductive SslErr
  | none | zeroReturn | wantRead | wantWrite | syscall | ssl
  | wantConnect | wantAccept | wantX509 | other
  deriving DecidableEq, Repr

/-- one result of an SSL_* entry point -/
structure SslRes where
  ret : Int
  err : SslErr
  queued : Bool          -- ERR_peek_error() != 0
  deriving DecidableEq, Repr

/-- class of the text left in `ctx->error` -/
inductive ErrText
  | unchanged | errq | eofUnexpected | errno | unknown | code | abort | buflen | invalidOp
  | noCert | name | eofNoNotify | sock
  deriving DecidableEq, Repr

def ErrText.str : ErrText → String
  | .unchanged => "none" | .errq => "errq" | .eofUnexpected => "eof-unexpected" | .errno => "errno"
  | .unknown => "unknown" | .code => "code" | .abort => "abort" | .buflen => "buflen"
  | .invalidOp => "invalid-op" | .noCert => "no-cert" | .name => "name"
  | .eofNoNotify => "eof-no-notify" | .sock => "sock"

/-- `tls_ssl_error`: return value, whether TLS_EOF_NO_CLOSE_NOTIFY gets set, error text class -/
def sslErrorMap (e : SslErr) (ret : Int) (queued : Bool) (handshakeComplete : Bool) :
    Int × Bool × ErrText :=
  match e with
  | .none | .zeroReturn => (0, false, .unchanged)
  | .wantRead => (TLS_WANT_POLLIN, false, .unchanged)
  | .wantWrite => (TLS_WANT_POLLOUT, false, .unchanged)
  | .syscall =>
    if queued then (-1, false, .errq)
    else if ret == 0 then
      if handshakeComplete then (0, true, .unchanged)
      else (-1, false, .eofUnexpected)
    else if ret == -1 then (-1, false, .errno)
    else (-1, false, .unknown)
  | .ssl => if queued then (-1, false, .errq) else (-1, false, .unknown)
  | .wantConnect | .wantAccept | .wantX509 | .other => (-1, false, .code)

/-- the part of `struct tls` the wrappers look at -/
structure Conn where
  roleValid : Bool        -- flags & (TLS_CLIENT | TLS_SERVER_CONN)
  isServer : Bool         -- TLS_SERVER_CONN
  hc : Bool               -- TLS_HANDSHAKE_COMPLETE
  eofNoNotify : Bool      -- TLS_EOF_NO_CLOSE_NOTIFY
  doAbort : Bool          -- TLS_DO_ABORT
  verifyName : Bool       -- config->verify_name
  peerCert : Bool         -- SSL_get_peer_certificate != NULL after the handshake
  nameOk : Bool           -- tls_check_name(...) == 0   (C08's model decides)
  err : ErrText
  deriving DecidableEq, Repr

/-- what `shutdown(2)`/`close(2)` on `ctx->socket` do (absent for the `_fds` entry points) -/
structure SockEnv where
  shutdownOk : Bool
  shutdownIgnorable : Bool   -- errno ∈ {ENOTCONN, ECONNRESET}
  closeOk : Bool
  deriving DecidableEq, Repr

structure Out where
  rv : Int
  st : Conn
  rest : List SslRes
  deriving DecidableEq, Repr

/-- next scripted result; an exhausted script answers a fatal error (as the harness does) -/
def pop : List SslRes → SslRes × List SslRes
  | [] => (⟨-1, .ssl, true⟩, [])
  | r :: rest => (r, rest)

/-- apply `tls_ssl_error` to a result in state `c` -/
def mapErr (c : Conn) (r : SslRes) : Int × Conn :=
  let (rv, eof, txt) := sslErrorMap r.err r.ret r.queued c.hc
  (rv, { c with eofNoNotify := c.eofNoNotify || eof,
                err := if txt == .unchanged then c.err else txt })

/-- `tls_handshake` (client: `tls_handshake_client`, server: `tls_handshake_server`) -/
def tlsHandshake (c : Conn) (script : List SslRes) : Out :=
  if !c.roleValid then ⟨-1, { c with err := .invalidOp }, script⟩
  else
    let (r, rest) := pop script                      -- SSL_connect / SSL_accept
    if r.ret != 1 then
      let (rv, c') := mapErr c r
      ⟨rv, c', rest⟩
    else if c.isServer then ⟨0, { c with hc := true }, rest⟩
    else if c.verifyName then
      if !c.peerCert then ⟨-1, { c with err := .noCert }, rest⟩
      else if !c.nameOk then ⟨-1, { c with err := .name }, rest⟩     -- rv = -1 (fix F18)
      else ⟨0, { c with hc := true }, rest⟩
    else ⟨0, { c with hc := true }, rest⟩

/-- `tls_do_abort` -/
def tlsDoAbort (c : Conn) (script : List SslRes) : Out :=
  let (r, rest) := pop script                        -- SSL_shutdown
  let (rv, c') := if r.ret < 0 then mapErr c r else (0, c)
  if r.ret < 0 && (rv == TLS_WANT_POLLIN || rv == TLS_WANT_POLLOUT) then ⟨rv, c', rest⟩
  else ⟨-1, { c' with err := .abort }, rest⟩

/-- common body of `tls_read` / `tls_write` (they differ in the entry point only) -/
def tlsIO (c : Conn) (script : List SslRes) (buflen : Nat) : Out :=
  if c.doAbort then tlsDoAbort c script
  else
    let h : Out := if !c.hc then tlsHandshake c script else ⟨0, c, script⟩
    if h.rv != 0 then h
    else if buflen > INT_MAX then ⟨-1, { h.st with err := .buflen }, h.rest⟩      -- rv = -1 (fix F29)
    else
      let (r, rest) := pop h.rest                    -- SSL_read / SSL_write
      if r.ret > 0 then ⟨r.ret, h.st, rest⟩
      else
        let (rv, c') := mapErr h.st r
        ⟨rv, c', rest⟩

def tlsRead := tlsIO
def tlsWrite := tlsIO

/-- `tls_read` / `tls_write` of the pinned tree (before fix F29): the oversize test jumps to `out`
    with `rv` as the handshake left it, i.e. 0 when the handshake was completed by this very call -/
def tlsIOOld (c : Conn) (script : List SslRes) (buflen : Nat) : Out :=
  if c.doAbort then tlsDoAbort c script
  else
    let h : Out := if !c.hc then tlsHandshake c script else ⟨0, c, script⟩
    if h.rv != 0 then h
    else if buflen > INT_MAX then ⟨if c.hc then -1 else 0, { h.st with err := .buflen }, h.rest⟩
    else
      let (r, rest) := pop h.rest
      if r.ret > 0 then ⟨r.ret, h.st, rest⟩
      else
        let (rv, c') := mapErr h.st r
        ⟨rv, c', rest⟩

/-- `tls_close` -/
def tlsClose (c : Conn) (script : List SslRes) (sock : Option SockEnv) : Out :=
  if !c.roleValid then ⟨-1, { c with err := .invalidOp }, script⟩
  else
    let (r, rest) := pop script                      -- SSL_shutdown
    let (rv, c1) := if r.ret < 0 then mapErr c r else (0, c)
    if r.ret < 0 && (rv == TLS_WANT_POLLIN || rv == TLS_WANT_POLLOUT) then ⟨rv, c1, rest⟩
    else
      let (rv, c2) := match sock with
        | none => (rv, c1)
        | some s =>
          let (rv, c1) :=
            if !s.shutdownOk && rv == 0 && !s.shutdownIgnorable then (-1, { c1 with err := .sock })
            else (rv, c1)
          if !s.closeOk && rv == 0 then (-1, { c1 with err := .sock }) else (rv, c1)
      if c2.eofNoNotify then ⟨-1, { c2 with err := .eofNoNotify }, rest⟩
      else ⟨rv, c2, rest⟩

/-! ## (iii) protocol versions -/

/-- versions 0..3 = TLS 1.0 .. 1.3; a version set is the 4-bit number whose bit `v` says
    "version v is in"; `verBits` extracts it from a `TLS_PROTOCOL_*` mask (bits 1..4) -/
def verBits (protocols : Nat) : Nat := (protocols / 2) % 16
def hasVer (set : Nat) (v : Nat) : Bool := (set / 2 ^ v) % 2 == 1

/-- `ssl_get_min_max_version` of the linked OpenSSL: walk the version table from TLS 1.3 down;
    state = (hole, version, min).  A version disabled by SSL_OP_NO_* starts a hole; the first enabled
    version after a hole *restarts* the range.  Result: `(min, max)` of the lowest contiguous run. -/
def minMaxLoop (set : Nat) : List Nat → Bool → Option Nat → Option Nat → Option Nat × Option Nat
  | [], _, version, mn => (mn, version)
  | v :: rest, hole, version, mn =>
    if !hasVer set v then minMaxLoop set rest true version mn
    else if !hole then minMaxLoop set rest false version (some v)
    else minMaxLoop set rest false (some v) (some v)

def clientRange (set : Nat) : Option Nat × Option Nat := minMaxLoop set [3, 2, 1, 0] true none none

/-- versions a client with option set `set` offers, under the security policy `perm` -/
def effectiveClient (perm set : Nat) (v : Nat) : Bool :=
  match clientRange set with
  | (some mn, some mx) => decide (mn ≤ v) && decide (v ≤ mx) && hasVer perm v && decide (v < 4)
  | _ => false

/-- versions a server accepts: every enabled one that the policy permits (no range rule) -/
def effectiveServer (perm set : Nat) (v : Nat) : Bool := hasVer set v && hasVer perm v && decide (v < 4)

def common (perm c s : Nat) (v : Nat) : Bool := effectiveClient perm c v && effectiveServer perm s v

/-- highest version satisfying `p` among 3,2,1,0 -/
def highest (p : Nat → Bool) : Option Nat :=
  if p 3 then some 3 else if p 2 then some 2 else if p 1 then some 1 else if p 0 then some 0 else none

/-- `check_for_downgrade` (server) + the client's sentinel test: the server marks its ServerHello
    when it chose `v` although it supports something newer (1.2 with 1.3 on, or < 1.2 with 1.2 on);
    a client whose own maximum is above `v` then aborts (“inappropriate fallback”). -/
def downgradeAbort (perm c s : Nat) (v : Nat) : Bool :=
  let cmax := highest (effectiveClient perm c)
  let marked := (v == 2 && effectiveServer perm s 3) || (decide (v < 2) && effectiveServer perm s 2)
  match cmax with
  | some mx => decide (v < mx) && marked
  | none => false

/-- the version both ends agree on (`none` = handshake fails) -/
def negotiated (perm c s : Nat) : Option Nat :=
  match highest (common perm c s) with
  | none => none
  | some v => if downgradeAbort perm c s v then none else some v

def verName : Nat → String
  | 0 => "TLSv1" | 1 => "TLSv1.1" | 2 => "TLSv1.2" | 3 => "TLSv1.3" | _ => "?"

/-! ## (iv) policy -/

inductive ClientVerify | off | required | optional
  deriving DecidableEq, Repr

/-- facts about a presented certificate that the verifier's OpenSSL establishes -/
structure PeerCert where
  trusted : Bool          -- chain ends in a CA of the verifier's store, purpose fits the role
  timeValid : Bool        -- now ∈ [notBefore, notAfter]
  deriving DecidableEq, Repr

structure Policy where
  verifyCert : Bool       -- client config
  verifyName : Bool
  verifyTime : Bool
  serverNameGiven : Bool  -- tls_connect_fds got a servername
  serverCert : PeerCert
  nameCovered : Bool      -- tls_check_name == 0, decided by the C08 model
  verifyClient : ClientVerify
  serverVerifyTime : Bool
  clientCert : Option PeerCert
  deriving DecidableEq, Repr

/-- `tls_configure_server`: `verify_client != 0` → SSL_VERIFY_PEER, `== 1` adds FAIL_IF_NO_PEER_CERT -/
def clientVerifyOf (verifyClient : Int) : ClientVerify :=
  if verifyClient == 0 then .off else if verifyClient == 1 then .required else .optional

/-- the policy two configs and the certificate facts amount to -/
def Policy.ofConfigs (cc sc : Config) (serverNameGiven : Bool) (serverCert : PeerCert)
    (nameCovered : Bool) (clientCert : Option PeerCert) : Policy :=
  { verifyCert := cc.verifyCert != 0, verifyName := cc.verifyName != 0,
    verifyTime := cc.verifyTime != 0, serverNameGiven, serverCert, nameCovered,
    verifyClient := clientVerifyOf sc.verifyClient, serverVerifyTime := sc.verifyTime != 0,
    clientCert }

/-- a certificate is within its validity period at `now` (all three in seconds since the epoch, any sign) -/
def validAt (now notBefore notAfter : Int) : Bool := decide (notBefore ≤ now) && decide (now ≤ notAfter)

/-- the facts about a certificate with the given validity window, looked at at time `now` -/
def PeerCert.ofWindow (trusted : Bool) (now notBefore notAfter : Int) : PeerCert :=
  ⟨trusted, validAt now notBefore notAfter⟩

/-- X509 chain verification with `X509_V_FLAG_NO_CHECK_TIME` set iff `verify_time == 0` -/
def chainOk (verifyTime : Bool) (c : PeerCert) : Bool := c.trusted && (c.timeValid || !verifyTime)

/-- client side: SSL_VERIFY_PEER iff verify_cert; name check after the handshake iff verify_name
    (which needs a server name: `tls_connect_fds` refuses otherwise) -/
def clientAccepts (p : Policy) : Bool :=
  (!p.verifyCert || chainOk p.verifyTime p.serverCert) &&
  (!p.verifyName || (p.serverNameGiven && p.nameCovered))

def serverAccepts (p : Policy) : Bool :=
  match p.verifyClient with
  | .off => true
  | .required => match p.clientCert with
    | none => false
    | some c => chainOk p.serverVerifyTime c
  | .optional => match p.clientCert with
    | none => true
    | some c => chainOk p.serverVerifyTime c

def decision (p : Policy) : Bool := clientAccepts p && serverAccepts p

/-- session established: policy satisfied and a protocol version agreed -/
def established (p : Policy) (perm c s : Nat) : Bool := decision p && (negotiated perm c s).isSome

/-! ### configure / connect / reset as state replacement

`tls_configure(ctx, config)` stores the config pointer and, for a server context, builds a *fresh*
`SSL_CTX` (`SSL_CTX_new`) from that config alone (`tls_configure_server` → `tls_configure_ssl`,
`tls_configure_keypair`, `tls_configure_ssl_verify`); for a client the fresh `SSL_CTX` is built by
`tls_connect_fds` from `ctx->config`.  `tls_reset` drops the `SSL_CTX` and keeps the config.
Nothing of an earlier configuration survives — that is what `SslCtx.ofServerConfig` /
`ofClientConfig` taking only the config as argument says. -/

/-- the settings a library context hands to OpenSSL in its `SSL_CTX` -/
structure SslCtx where
  protocols : UInt32          -- SSL_OP_NO_TLSv1_x for every cleared bit
  ciphers : CStr              -- SSL_CTX_set_cipher_list unless NULL / one of the four keywords
  noCheckTime : Bool          -- X509_V_FLAG_NO_CHECK_TIME
  verifyPeer : Bool           -- SSL_VERIFY_PEER
  failIfNoPeerCert : Bool     -- SSL_VERIFY_FAIL_IF_NO_PEER_CERT
  caFile : CStr               -- the trust store: loaded only when verifyPeer
  caPath : CStr
  caMem : Mem
  verifyDepth : Int
  keypair : List Keypair
  serverPreference : Bool     -- SSL_OP_CIPHER_SERVER_PREFERENCE
  deriving DecidableEq, Repr

def SslCtx.ofServerConfig (c : Config) : SslCtx :=
  { protocols := c.protocols, ciphers := c.ciphers, noCheckTime := c.verifyTime == 0,
    verifyPeer := c.verifyClient != 0, failIfNoPeerCert := c.verifyClient == 1,
    caFile := c.caFile, caPath := c.caPath, caMem := c.caMem, verifyDepth := c.verifyDepth,
    keypair := c.keypair, serverPreference := c.ciphersServer == 1 }

def SslCtx.ofClientConfig (c : Config) : SslCtx :=
  { protocols := c.protocols, ciphers := c.ciphers, noCheckTime := c.verifyTime == 0,
    verifyPeer := c.verifyCert != 0, failIfNoPeerCert := false,
    caFile := c.caFile, caPath := c.caPath, caMem := c.caMem, verifyDepth := c.verifyDepth,
    keypair := c.keypair, serverPreference := false }

/-- `struct tls` as far as configuration goes -/
structure TlsCtx where
  isServer : Bool             -- TLS_SERVER (else TLS_CLIENT)
  config : Config
  sslCtx : Option SslCtx
  deriving DecidableEq, Repr

/-- `tls_client()` / `tls_server()`: the default config, no SSL_CTX yet -/
def TlsCtx.new (isServer : Bool) (ca0 : Bytes) : TlsCtx := ⟨isServer, Config.new ca0, none⟩

/-- `tls_configure` -/
def TlsCtx.configure (t : TlsCtx) (c : Config) : TlsCtx :=
  if t.isServer then { t with config := c, sslCtx := some (SslCtx.ofServerConfig c) }
  else { t with config := c }

/-- `tls_connect_fds` (client): fresh SSL_CTX from the current config -/
def TlsCtx.connect (t : TlsCtx) : TlsCtx := { t with sslCtx := some (SslCtx.ofClientConfig t.config) }

/-- `tls_reset` -/
def TlsCtx.reset (t : TlsCtx) : TlsCtx := { t with sslCtx := none }

/-- the policy a connected client context and a configured server context amount to (read off
    the two `SSL_CTX` and, for the name check, the client's config) -/
def Policy.ofCtxs (tc ts : TlsCtx) (serverNameGiven : Bool) (serverCert : PeerCert)
    (nameCovered : Bool) (clientCert : Option PeerCert) : Option Policy :=
  match tc.sslCtx, ts.sslCtx with
  | some cs, some ss =>
    some { verifyCert := cs.verifyPeer, verifyName := tc.config.verifyName != 0,
           verifyTime := !cs.noCheckTime, serverNameGiven, serverCert, nameCovered,
           verifyClient := if !ss.verifyPeer then .off else if ss.failIfNoPeerCert then .required else .optional,
           serverVerifyTime := !ss.noCheckTime, clientCert }
  | _, _ => none

/-! ## (v) abstract duplex channel -/

structure Dir where
  pending : Bytes         -- application bytes tls_write has not accepted yet
  inflight : Bytes        -- accepted, on their way (records, socket buffers)
  recvd : Bytes           -- delivered by tls_read, in order
  closed : Bool           -- close_notify queued behind `inflight`
  deriving DecidableEq, Repr

structure Duplex where
  c2s : Dir
  s2c : Dir
  deriving DecidableEq, Repr

inductive Step
  | write (toServer : Bool) (j : Nat)      -- tls_write(buf, j) by the sender of that direction
  | read (fromClient : Bool) (j : Nat)     -- tls_read(buf, j) by the receiver of that direction
  | close (toServer : Bool)                -- tls_close by the sender
  deriving DecidableEq, Repr

/-- `tls_write` of at most `j` bytes: accepts `n = min j k room |pending|` bytes; nothing fits → WANT_POLLOUT -/
def Dir.write (cap k j : Nat) (d : Dir) : Dir × Int :=
  let n := min (min j k) (min (cap - d.inflight.length) d.pending.length)
  if d.closed then (d, -1)
  else if n == 0 then (d, TLS_WANT_POLLOUT)
  else ({ d with pending := d.pending.drop n, inflight := d.inflight ++ d.pending.take n }, n)

/-- `tls_read` into a buffer of `j` bytes: delivers `min j |inflight|` bytes from the head;
    nothing there → WANT_POLLIN, or 0 once the peer's close_notify is next -/
def Dir.read (j : Nat) (d : Dir) : Dir × Int :=
  let n := min j d.inflight.length
  if n == 0 then (d, if d.closed && d.inflight.isEmpty then 0 else TLS_WANT_POLLIN)
  else ({ d with inflight := d.inflight.drop n, recvd := d.recvd ++ d.inflight.take n }, n)

def Duplex.step (cap k : Nat) (x : Duplex) : Step → Duplex × Int
  | .write true j => let (d, rv) := x.c2s.write cap k j; ({ x with c2s := d }, rv)
  | .write false j => let (d, rv) := x.s2c.write cap k j; ({ x with s2c := d }, rv)
  | .read true j => let (d, rv) := x.c2s.read j; ({ x with c2s := d }, rv)
  | .read false j => let (d, rv) := x.s2c.read j; ({ x with s2c := d }, rv)
  | .close true => ({ x with c2s := { x.c2s with closed := true } }, 0)
  | .close false => ({ x with s2c := { x.s2c with closed := true } }, 0)

/-- run a whole schedule; collects the return values -/
def Duplex.run (cap k : Nat) : List Step → Duplex → Duplex × List Int
  | [], x => (x, [])
  | s :: rest, x =>
    let (x', rv) := x.step cap k s
    let (x'', rvs) := Duplex.run cap k rest x'
    (x'', rv :: rvs)

def Duplex.init (a b : Bytes) : Duplex :=
  { c2s := ⟨a, [], [], false⟩, s2c := ⟨b, [], [], false⟩ }

end Usual.C17
