import Usual.C04.Regex
import Usual.Gen.C04Tab
/-! # C04 — model of `usual_regcomp` (strict POSIX syntax, `usual/regex.c`)

Two stages, both mirroring the C code branch by branch:

* a lexer (`lexE` for `parse_posix_ext`, `lexB` for `parse_posix_basic`) that mirrors the
  character dispatch, `op_class / get_map_token / fill_class` (bracket expressions) and
  `op_count_full` (`{m,n}`, including what `strtoul` accepts).  Errors become tokens *at the
  position where the C code reports them*, so the first error wins exactly as in C;
* a parser over tokens (`pstep`, `prun`, `pfinish`) that mirrors `new_op / op_gstart / op_gend /
  op_or / op_count_simple / finish_branch` on a stack of frames and builds a `Re`.

`compile` = `usual_regcomp` : error code or (`Re`, `re_nsub`).  Back-references and the
`REG_RELAXED` extensions are outside property C04: `\1`-`\9` in a BRE yield `unsupported`.
Renderers `renderERE / renderBRE` produce the concrete syntax for well-formed trees
(`wfE / wfB`).  Core Lean only. -/

namespace Usual.C04

/-- `regcomp` error codes of `usual/regex.h` (numbers regenerated in `Usual.Gen.C04Tab`) -/
inductive Code where
  | badbr | badpat | badrpt | ebrace | ebrack | ectype | eescape | eparen | erange | unsupported
  deriving DecidableEq, Repr, Inhabited

def Code.num : Code → Nat
  | .badbr => Gen.C04.REG_BADBR
  | .badpat => Gen.C04.REG_BADPAT
  | .badrpt => Gen.C04.REG_BADRPT
  | .ebrace => Gen.C04.REG_EBRACE
  | .ebrack => Gen.C04.REG_EBRACK
  | .ectype => Gen.C04.REG_ECTYPE
  | .eescape => Gen.C04.REG_EESCAPE
  | .eparen => Gen.C04.REG_EPAREN
  | .erange => Gen.C04.REG_ERANGE
  | .unsupported => 99

/-- compile-time flags that shape the tree -/
structure PFlags where
  icase : Bool := false
  newline : Bool := false
  deriving DecidableEq, Repr

/-! ## character classes of the C locale -/

def isDigitN (c : Nat) : Bool := 48 ≤ c && c ≤ 57
def isUpperN (c : Nat) : Bool := 65 ≤ c && c ≤ 90
def isLowerN (c : Nat) : Bool := 97 ≤ c && c ≤ 122
def isAlphaN (c : Nat) : Bool := isUpperN c || isLowerN c
def isAlnumN (c : Nat) : Bool := isAlphaN c || isDigitN c
def isSpaceN (c : Nat) : Bool := c == 32 || (9 ≤ c && c ≤ 13)
def isGraphN (c : Nat) : Bool := 33 ≤ c && c ≤ 126

/-- the predicates of `ctype_list`, by name -/
def classPred (name : String) (c : Nat) : Bool :=
  match name with
  | "alnum" => isAlnumN c
  | "alpha" => isAlphaN c
  | "blank" => c == 32 || c == 9
  | "cntrl" => c < 32 || c == 127
  | "digit" => isDigitN c
  | "graph" => isGraphN c
  | "lower" => isLowerN c
  | "print" => 32 ≤ c && c ≤ 126
  | "punct" => isGraphN c && !isAlnumN c
  | "space" => isSpaceN c
  | "upper" => isUpperN c
  | "xdigit" => isDigitN c || (65 ≤ c && c ≤ 70) || (97 ≤ c && c ≤ 102)
  | _ => false

def lowerN (c : Nat) : Nat := if isUpperN c then c + 32 else c
def upperN (c : Nat) : Nat := if isLowerN c then c - 32 else c

/-- `op_char`: literal, lower-cased under `REG_ICASE` -/
def foldc (fl : PFlags) (c : UInt8) : UInt8 := if fl.icase then lower c else c

/-! ## bitmaps (`struct ClassData`) -/

def setBit (bm c : Nat) : Nat := bm ||| (1 <<< c)

/-- `add_char` -/
def addChar (icase : Bool) (bm c : Nat) : Nat :=
  if icase && isAlphaN c then setBit (setBit bm (lowerN c)) (upperN c) else setBit bm c

/-- `for (c = lo; c <= hi; c++) add_char(cd, c, icase)` with `n = hi + 1 - lo` steps -/
def addRange (icase : Bool) : Nat → Nat → Nat → Nat
  | 0, _, bm => bm
  | n + 1, lo, bm => addRange icase n (lo + 1) (addChar icase bm lo)

/-- `class_negate`: set bit 0, then flip all 256 bits -/
def negate (bm : Nat) : Nat := (setBit bm 0) ^^^ (2 ^ 256 - 1)

/-- fill the map from a named class: `for (c = 1; c < 256; c++) if (check(c)) add_char(..)` -/
def fillNamed (icase : Bool) (name : String) (bm : Nat) : Nat :=
  (List.range 256).foldl (fun acc c => if c ≠ 0 && classPred name c then addChar icase acc c else acc) bm

def startsWith (l p : List UInt8) : Bool :=
  match p, l with
  | [], _ => true
  | _ :: _, [] => false
  | a :: p', b :: l' => a == b && startsWith l' p'

/-- `fill_class`: `name` is the text after `[:`.  Walk `ctype_list`; at the first name that is
a prefix, demand `:]` after it. -/
def fillClass (icase : Bool) (bm : Nat) (name : List UInt8) :
    List (String × List UInt8) → Except Code (Nat × List UInt8)
  | [] => if name.isEmpty then .error .ebrack else .error .ectype
  | (cn, cb) :: more =>
    if startsWith name cb then
      let rest := name.drop cb.length
      match rest with
      | 58 :: 93 :: rest' => .ok (fillNamed icase cn bm, rest')      -- ":]"
      | [] => .error .ebrack
      | _ => .error .ectype
    else fillClass icase bm name more

/-- result of `get_map_token` -/
inductive MapTok where
  | range | fin | other | ch (c : Nat)
  deriving DecidableEq, Repr

/-- `get_map_token` (returns token, updated bitmap, remaining input) -/
def getMapToken (icase : Bool) (bm : Nat) (start : Bool) : List UInt8 → Except Code (MapTok × Nat × List UInt8)
  | [] => .error .ebrack
  | 45 :: t =>                                        -- '-'
      if start || t.head? == some 93 then .ok (.ch 45, bm, t) else .ok (.range, bm, t)
  | 93 :: t =>                                        -- ']'
      if !start then .ok (.fin, bm, t) else .ok (.ch 93, bm, t)
  | 91 :: t =>                                        -- '['
      match t with
      | 58 :: t2 =>                                   -- "[:"
          match fillClass icase bm t2 Gen.C04.classTable with
          | .ok (bm', rest) => .ok (.other, bm', rest)
          | .error c => .error c
      | 46 :: _ => .error .badpat                     -- "[."
      | 61 :: _ => .error .badpat                     -- "[="
      | _ => .ok (.ch 91, bm, t)
  | c :: t => .ok (.ch c.toNat, bm, t)

/-- the `while (*s)` loop of `op_class`; `prev = 0` encodes "no pending character" -/
def classLoop (icase : Bool) : Nat → Nat → Nat → Bool → Bool → List UInt8 → Except Code (Nat × List UInt8)
  | 0, _, _, _, _, _ => .error .ebrack
  | _, _, _, _, _, [] => .error .ebrack
  | fuel + 1, bm, prev, isRange, start, s@(_ :: _) =>
    match getMapToken icase bm start s with
    | .error c => .error c
    | .ok (tk, bm, rest) =>
      match tk with
      | .fin => .ok (if prev ≠ 0 then addChar icase bm prev else bm, rest)
      | .other =>
          if isRange then .error .erange
          else classLoop icase fuel (if prev ≠ 0 then addChar icase bm prev else bm) 0 false false rest
      | .range =>
          if prev = 0 then .error .erange else classLoop icase fuel bm prev true false rest
      | .ch c =>
          if isRange then
            if c < prev then .error .erange
            else classLoop icase fuel (addRange icase (c + 1 - prev) prev bm) 0 false false rest
          else classLoop icase fuel (if prev ≠ 0 then addChar icase bm prev else bm) c false false rest

/-- `op_class`: input is the text after `[` -/
def parseClass (fl : PFlags) (s : List UInt8) : Except Code (Nat × List UInt8) :=
  let neg := s.head? == some 94                       -- '^'
  let s1 := if neg then s.tail else s
  let bm0 := if neg && fl.newline then setBit 0 10 else 0
  match classLoop fl.icase (s1.length + 1) bm0 0 false true s1 with
  | .error c => .error c
  | .ok (bm, rest) => .ok (if neg then negate bm else bm, rest)

/-! ## `{m,n}` -/

def isSpaceB (b : UInt8) : Bool := isSpaceN b.toNat
def isDigitB (b : UInt8) : Bool := isDigitN b.toNat

/-- `strtoul(s, &end, 10)` as an `unsigned long` (LP64): optional white space, optional
sign, at least one digit; saturates at `2^64-1`; a minus sign negates modulo `2^64`.
`none` = no conversion (`end == s`). -/
def decVal (ds : List UInt8) : Nat := ds.foldl (fun a d => a * 10 + (d.toNat - 48)) 0

/-- sign handling of `strtoul`: `(negative, rest)` -/
def signOf (s1 : List UInt8) : Bool × List UInt8 :=
  match s1 with
  | [] => (false, s1)
  | c :: t => if c = 45 then (true, t) else if c = 43 then (false, t) else (false, s1)

def strtoul (s : List UInt8) : Option (Nat × List UInt8) :=
  let s1 := s.dropWhile isSpaceB
  let neg := (signOf s1).1
  let s2 := (signOf s1).2
  let ds := s2.takeWhile isDigitB
  if ds.isEmpty then none else
  let v : Nat := decVal ds
  let v' : Nat := if v ≥ 2 ^ 64 then 2 ^ 64 - 1 else if neg then (2 ^ 64 - v) % 2 ^ 64 else v
  some (v', s2.dropWhile isDigitB)

/-- the optional `,max` part: `(b, end)` -/
def upperOf (a : Nat) (e1 : List UInt8) : Nat × List UInt8 :=
  match e1 with
  | [] => (a, e1)
  | c :: t =>
    if c = 44 then                                     -- ','
      match strtoul t with
      | some (b, e) => (b, e)
      | none => (Gen.C04.MAX_COUNT, t)
    else (a, e1)

/-- range check and terminator of `op_count_full` -/
def countTail (ext : Bool) (a : Nat) (be : Nat × List UInt8) : Except Code (Nat × Option Nat × List UInt8) :=
  let b := be.1
  let e2 := be.2
  if a > b || b > Gen.C04.MAX_COUNT || a ≥ Gen.C04.MAX_COUNT then .error .badbr
  else
    let n := if b = Gen.C04.MAX_COUNT then none else some b
    let bad : Except Code (Nat × Option Nat × List UInt8) :=
      if e2.contains 125 then .error .badbr else .error .ebrace
    if ext then
      match e2 with
      | [] => bad
      | c :: r => if c = 125 then .ok (a, n, r) else bad   -- '}'
    else
      match e2 with
      | c :: d :: r => if c = 92 ∧ d = 125 then .ok (a, n, r) else bad   -- "\}"
      | _ => bad

/-- `op_count_full` after its `op_count_simple` sanity check: text after `{` (or `\{`) -/
def parseCount (ext : Bool) (s : List UInt8) : Except Code (Nat × Option Nat × List UInt8) :=
  match strtoul s with
  | none => .error .ebrace
  | some (a, e1) => countTail ext a (upperOf a e1)


/-! ## lexers -/

inductive Tok where
  | lparen | rparen | bar | star | plus | quest
  | count (m : Nat) (n : Option Nat)
  | countErr (c : Code)
  | cls (bm : Nat)
  | dot | caret | dollar
  | chr (c : UInt8)
  | err (c : Code)
  deriving DecidableEq, Repr

/-- character dispatch of `parse_posix_ext` -/
def lexE (fl : PFlags) : Nat → List UInt8 → List Tok
  | 0, _ => []
  | _, [] => []
  | f + 1, c :: rest =>
    if c = 40 then .lparen :: lexE fl f rest
    else if c = 41 then .rparen :: lexE fl f rest
    else if c = 124 then .bar :: lexE fl f rest
    else if c = 42 then .star :: lexE fl f rest
    else if c = 63 then .quest :: lexE fl f rest
    else if c = 43 then .plus :: lexE fl f rest
    else if c = 91 then
      match parseClass fl rest with
      | .ok (bm, rest') => .cls bm :: lexE fl f rest'
      | .error code => [.err code]
    else if c = 123 then
      match parseCount true rest with
      | .ok (m, n, rest') => .count m n :: lexE fl f rest'
      | .error code => [.countErr code]
    else if c = 46 then .dot :: lexE fl f rest
    else if c = 94 then .caret :: lexE fl f rest
    else if c = 36 then .dollar :: lexE fl f rest
    else if c = 92 then
      match rest with
      | [] => [.err .eescape]
      | d :: rest' =>
        if isDigitN d.toNat then [.err .badpat]            -- strict: no back-references in ERE
        else if isAlphaN d.toNat then [.err .badpat]       -- strict: no relaxed escapes
        else .chr (foldc fl d) :: lexE fl f rest'
    else .chr (foldc fl c) :: lexE fl f rest

/-- character dispatch of `parse_posix_basic`.  `*` and `^` are context dependent and are
resolved by the parser; `$` depends on look-ahead only and is resolved here. -/
def lexB (fl : PFlags) : Nat → List UInt8 → List Tok
  | 0, _ => []
  | _, [] => []
  | f + 1, c :: rest =>
    if c = 42 then .star :: lexB fl f rest
    else if c = 46 then .dot :: lexB fl f rest
    else if c = 91 then
      match parseClass fl rest with
      | .ok (bm, rest') => .cls bm :: lexB fl f rest'
      | .error code => [.err code]
    else if c = 94 then .caret :: lexB fl f rest
    else if c = 36 then
      (if rest.isEmpty || startsWith rest [92, 41] then .dollar else .chr 36) :: lexB fl f rest
    else if c = 92 then
      match rest with
      | [] => [.err .eescape]
      | d :: rest' =>
        if d = 40 then .lparen :: lexB fl f rest'
        else if d = 41 then .rparen :: lexB fl f rest'
        else if d = 123 then
          match parseCount false rest' with
          | .ok (m, n, rest'') => .count m n :: lexB fl f rest''
          | .error code => [.countErr code]
        else if d = 46 || d = 94 || d = 36 || d = 42 || d = 91 || d = 93 || d = 92 then
          .chr d :: lexB fl f rest'
        else if 49 ≤ d.toNat && d.toNat ≤ 57 then [.err .unsupported]   -- back-reference
        else [.err .badpat]                                -- `\|` and relaxed escapes: strict
    else .chr (foldc fl c) :: lexB fl f rest

/-! ## parser over tokens -/

/-- one open group: finished branches (newest first), items of the current branch (newest
first), and whether the current branch was opened by `|` (`last_andlist != NULL`) -/
structure Frame where
  alts : List Re := []
  cur : List Re := []
  afterOr : Bool := false
  deriving DecidableEq, Repr

structure PSt where
  top : Frame := {}
  stack : List Frame := []
  gotcnt : Bool := false
  nsub : Nat := 0
  deriving DecidableEq, Repr

def mkCat : List Re → Re
  | [] => .empty
  | [x] => x
  | x :: y :: xs => .cat x (mkCat (y :: xs))

def mkAlt : List Re → Re
  | [] => .empty
  | [x] => x
  | x :: y :: xs => .alt x (mkAlt (y :: xs))

/-- the tree of a finished group body -/
def closeFrame (f : Frame) : Re := mkAlt ((mkCat f.cur.reverse :: f.alts).reverse)

/-- `new_op` for a non-group op -/
def push (st : PSt) (x : Re) : PSt :=
  { st with top := { st.top with cur := x :: st.top.cur }, gotcnt := false }

/-- `op_count_simple` -/
def applyCount (st : PSt) (m : Nat) (n : Option Nat) : Except Code PSt :=
  match st.top.cur with
  | [] => .error .badrpt
  | x :: xs =>
    if st.gotcnt then .error .badrpt
    else if x = .bol || x = .eol then .error .badrpt
    else .ok { st with top := { st.top with cur := .rep x m n :: xs }, gotcnt := true }

/-- `finish_branch`'s strict check -/
def branchBad (f : Frame) : Bool := f.cur.isEmpty && f.afterOr

def pstep (ere : Bool) (st : PSt) : Tok → Except Code PSt
  | .lparen =>
      if st.nsub + 1 ≥ Gen.C04.MAX_GROUPS then .error .badpat
      else .ok { top := {}, stack := st.top :: st.stack, gotcnt := false, nsub := st.nsub + 1 }
  | .rparen =>
      match st.stack with
      | [] => if ere then .ok (push st (.chr 41)) else .error .eparen
      | parent :: more =>
        if branchBad st.top then .error .badpat
        else .ok { top := { parent with cur := .group (closeFrame st.top) :: parent.cur },
                   stack := more, gotcnt := false, nsub := st.nsub }
  | .bar =>
      if st.top.cur.isEmpty then .error .badpat
      else .ok { st with top := { alts := mkCat st.top.cur.reverse :: st.top.alts, cur := [], afterOr := true },
                         gotcnt := false }
  | .star =>
      if ere then applyCount st 0 none
      else match st.top.cur with
        | [] => .ok (push st (.chr 42))
        | x :: _ => if x = .bol then .ok (push st (.chr 42)) else applyCount st 0 none
  | .plus => applyCount st 1 none
  | .quest => applyCount st 0 (some 1)
  | .count m n => applyCount st m n
  | .countErr c =>
      match applyCount st 1 (some 1) with
      | .error c' => .error c'
      | .ok _ => .error c
  | .cls bm => .ok (push st (.cls bm))
  | .dot => .ok (push st .any)
  | .caret =>
      if ere then .ok (push st .bol)
      else if st.top.cur.isEmpty then .ok (push st .bol) else .ok (push st (.chr 94))
  | .dollar => .ok (push st .eol)
  | .chr c => .ok (push st (.chr c))
  | .err c => .error c

def prun (ere : Bool) : PSt → List Tok → Except Code PSt
  | st, [] => .ok st
  | st, t :: ts =>
    match pstep ere st t with
    | .ok st' => prun ere st' ts
    | .error c => .error c

/-- end of pattern: `glevel` check of the parse loop, then `finish_branch` of group 0 -/
def pfinish (st : PSt) : Except Code (Re × Nat) :=
  if !st.stack.isEmpty then .error .eparen
  else if branchBad st.top then .error .badpat
  else .ok (closeFrame st.top, st.nsub)

def parseToks (ere : Bool) (toks : List Tok) : Except Code (Re × Nat) :=
  match prun ere {} toks with
  | .ok st => pfinish st
  | .error c => .error c

/-- `parse_posix_ext` on a non-empty pattern -/
def parseERE (fl : PFlags) (pat : List UInt8) : Except Code (Re × Nat) :=
  if pat.isEmpty then .error .badpat else parseToks true (lexE fl pat.length pat)

/-- `parse_posix_basic` on a non-empty pattern -/
def parseBRE (fl : PFlags) (pat : List UInt8) : Except Code (Re × Nat) :=
  if pat.isEmpty then .error .badpat else parseToks false (lexB fl pat.length pat)

/-- `usual_regcomp(rx, pat, cflags)` with `cflags` ⊆ EXTENDED|ICASE|NOSUB|NEWLINE:
error code, or the tree and `re_nsub` -/
def compile (cflags : Nat) (pat : List UInt8) : Except Code (Re × Nat) :=
  let fl : PFlags := { icase := cflags.testBit 1, newline := cflags.testBit 3 }
  match (if cflags.testBit 0 then parseERE fl pat else parseBRE fl pat) with
  | .error c => .error c
  | .ok (r, nsub) => .ok (r, if cflags.testBit 2 then 0 else nsub)

/-! ## renderers (concrete syntax of a tree) -/

/-- decimal digits, most significant first (`fuel > n` suffices) -/
def digitsF : Nat → Nat → List UInt8
  | 0, _ => []
  | f + 1, n =>
    if n < 10 then [UInt8.ofNat (48 + n)] else digitsF f (n / 10) ++ [UInt8.ofNat (48 + n % 10)]

def digits (n : Nat) : List UInt8 := digitsF (n + 1) n

/-- the text between the braces -/
def countBody (m : Nat) (n : Option Nat) : List UInt8 :=
  match n with
  | none => digits m ++ [44]
  | some n' => if n' = m then digits m else digits m ++ [44] ++ digits n'

def specialE (c : UInt8) : Bool :=
  c = 40 || c = 41 || c = 124 || c = 42 || c = 63 || c = 43 || c = 91 || c = 123 ||
  c = 46 || c = 94 || c = 36 || c = 92

def specialB (c : UInt8) : Bool :=
  c = 46 || c = 94 || c = 36 || c = 42 || c = 91 || c = 92

def quantE (m : Nat) (n : Option Nat) : List UInt8 :=
  if m = 0 ∧ n = none then [42]
  else if m = 1 ∧ n = none then [43]
  else if m = 0 ∧ n = some 1 then [63]
  else [123] ++ countBody m n ++ [125]

def quantB (m : Nat) (n : Option Nat) : List UInt8 :=
  if m = 0 ∧ n = none then [42]
  else [92, 123] ++ countBody m n ++ [92, 125]

/-! ### bracket expressions from bitmaps -/

/-- bitmap of a named class without flags -/
def classBm (name : String) : Nat := fillNamed false name 0

/-- member that may be part of a run: `-`, `[`, `]` and `^` are placed separately -/
def inRun (bm c : Nat) : Bool := bm.testBit c && c != 45 && c != 91 && c != 93 && c != 94

/-- maximal runs `(lo, hi)` of run members, scanning `c, c+1, …` (`fuel` positions); `op` is the
start of the run that is open at `c` -/
def runsAux (bm : Nat) : Nat → Nat → Option Nat → List (Nat × Nat)
  | 0, c, some lo => [(lo, c - 1)]
  | 0, _, none => []
  | f + 1, c, op =>
    if inRun bm c then runsAux bm f (c + 1) (some (op.getD c))
    else match op with
      | some lo => (lo, c - 1) :: runsAux bm f (c + 1) none
      | none => runsAux bm f (c + 1) none

def runs (bm : Nat) : List (Nat × Nat) := runsAux bm 255 1 none

/-- a run as text: one byte, or `lo-hi` -/
def elemText (r : Nat × Nat) : List UInt8 :=
  if r.1 = r.2 then [UInt8.ofNat r.1] else [UInt8.ofNat r.1, 45, UInt8.ofNat r.2]

/-- the special members after the runs: `[` (never followed by `.`, `:` or `=` here), `^`
(never first), `-` (last, so it is a literal) -/
def listingPost (bm : Nat) : List UInt8 :=
  (if bm.testBit 91 then [91] else []) ++ (if bm.testBit 94 then [94] else []) ++
  (if bm.testBit 45 then [45] else [])

/-- members of a bracket expression as text: `]` first, then the runs in increasing order,
then `[`, `^`, and `-` last -/
def listing (bm : Nat) : List UInt8 :=
  (if bm.testBit 93 then [93] else []) ++ ((runs bm).flatMap elemText ++ listingPost bm)

/-- the bitmap `op_class` accumulates while reading `listing bm` (starting from `acc`) -/
def addRuns (icase : Bool) (acc : Nat) (rs : List (Nat × Nat)) : Nat :=
  rs.foldl (fun a r => addRange icase (r.2 + 1 - r.1) r.1 a) acc

def addPost (icase : Bool) (acc bm : Nat) : Nat :=
  let a3 := if bm.testBit 91 then addChar icase acc 91 else acc
  let a4 := if bm.testBit 94 then addChar icase a3 94 else a3
  if bm.testBit 45 then addChar icase a4 45 else a4

def listingBm (icase : Bool) (acc bm : Nat) : Nat :=
  addPost icase (addRuns icase (if bm.testBit 93 then addChar icase acc 93 else acc) (runs bm)) bm

/-- complement within bytes 1..255 -/
def complBm (bm : Nat) : Nat := bm ^^^ (2 ^ 256 - 2)

/-- how a bitmap is written -/
inductive ClsForm where
  | named (name : String) (bytes : List UInt8)
  | negNamed (name : String) (bytes : List UInt8)
  | negList          -- `[^…]` listing the complement: the empty class and the class `{^}`
  | dashCaret        -- the class `{-, ^}` is written `[-^]`
  | posList
  deriving Repr

def clsForm (bm : Nat) : ClsForm :=
  match Gen.C04.classTable.find? (fun p => classBm p.1 == bm) with
  | some p => .named p.1 p.2
  | none =>
    match Gen.C04.classTable.find? (fun p => negate (classBm p.1) == bm) with
    | some p => .negNamed p.1 p.2
    | none =>
      if bm = 0 ∨ bm = 2 ^ 94 then .negList
      else if bm = 2 ^ 45 + 2 ^ 94 then .dashCaret
      else .posList

/-- the text after the opening `[` up to and including the closing `]` -/
def clsBody (bm : Nat) : List UInt8 :=
  match clsForm bm with
  | .named _ bytes => [91, 58] ++ bytes ++ [58, 93, 93]
  | .negNamed _ bytes => [94, 91, 58] ++ bytes ++ [58, 93, 93]
  | .negList => [94] ++ listing (complBm bm) ++ [93]
  | .dashCaret => [45, 94, 93]
  | .posList => listing bm ++ [93]

def renderCls (bm : Nat) : List UInt8 := 91 :: clsBody bm

/-- what `regcomp` stores for the text `renderCls bm` under the flags: identity without flags -/
def normCls (fl : PFlags) (bm : Nat) : Nat :=
  match clsForm bm with
  | .named name _ => fillNamed fl.icase name 0
  | .negNamed name _ => negate (fillNamed fl.icase name (if fl.newline then setBit 0 10 else 0))
  | .negList => bm
  | .dashCaret => bm
  | .posList => listingBm fl.icase 0 bm

/-- ERE text of a tree. -/
def renderERE : Re → List UInt8
  | .empty => []
  | .chr c => if specialE c then [92, c] else [c]
  | .any => [46]
  | .cls bm => renderCls bm
  | .bol => [94]
  | .eol => [36]
  | .cat a b => renderERE a ++ renderERE b
  | .alt a b => renderERE a ++ [124] ++ renderERE b
  | .rep r m n => renderERE r ++ quantE m n
  | .group r => [40] ++ renderERE r ++ [41]

def renderBRE : Re → List UInt8
  | .empty => []
  | .chr c => if specialB c then [92, c] else [c]
  | .any => [46]
  | .cls bm => renderCls bm
  | .bol => [94]
  | .eol => [36]
  | .cat a b => renderBRE a ++ renderBRE b
  | .alt a b => renderBRE a ++ [92, 124] ++ renderBRE b
  | .rep r m n => renderBRE r ++ quantB m n
  | .group r => [92, 40] ++ renderBRE r ++ [92, 41]

/-! ### well-formed trees: the shapes the grammar can express without inserting groups -/

/-- countable atom -/
def Re.isAtom : Re → Bool
  | .chr _ | .any | .cls _ | .group _ => true
  | _ => false

def countOk (m : Nat) (n : Option Nat) : Bool :=
  m < Gen.C04.MAX_COUNT &&
  match n with
  | none => true
  | some n' => m ≤ n' && n' < Gen.C04.MAX_COUNT

/-- `wfL lvl r`: `r` is expressible at grammar level `lvl` without inserting groups
(0 = item of a branch, 1 = branch = right-nested concatenation of items, 2 = alternation of
branches, 3 = group body = empty or alternation).  A bracket expression is any bitmap over the
bytes 1..255. -/
def wfL : Nat → Re → Bool
  | lvl, .empty => lvl == 3
  | lvl, .alt a b => decide (2 ≤ lvl) && wfL 1 a && wfL 2 b
  | lvl, .cat a b => decide (1 ≤ lvl) && wfL 0 a && wfL 1 b
  | _, .chr c => c != 0
  | _, .any => true
  | _, .bol => true
  | _, .eol => true
  | _, .cls bm => decide (bm < 2 ^ 256) && !bm.testBit 0
  | _, .rep r m n => r.isAtom && wfL 0 r && countOk m n
  | _, .group r => wfL 3 r

/-- the ERE trees of `parse_render_ere`: parser shape, fewer than `MAX_GROUPS` groups -/
def wfE (r : Re) : Bool := wfL 2 r && decide (r.groups + 1 < Gen.C04.MAX_GROUPS)

/-- BRE counterpart of `wfL`: no alternation (strict BRE has none); `^` is an anchor only as
the first item of a (sub)pattern (`first`), `$` only as the last one (`last`) -/
def wfBL : Nat → Bool → Bool → Re → Bool
  | lvl, _, _, .empty => lvl == 3
  | _, _, _, .alt _ _ => false
  | lvl, first, last, .cat a b => decide (1 ≤ lvl) && wfBL 0 first false a && wfBL 1 false last b
  | _, _, _, .chr c => c != 0
  | _, _, _, .any => true
  | _, first, _, .bol => first
  | _, _, last, .eol => last
  | _, _, _, .cls bm => decide (bm < 2 ^ 256) && !bm.testBit 0
  | _, _, _, .rep r m n => r.isAtom && wfBL 0 false false r && countOk m n
  | _, _, _, .group r => wfBL 3 true true r

/-- the BRE trees of `parse_render_bre` -/
def wfB (r : Re) : Bool := wfBL 1 true true r && decide (r.groups + 1 < Gen.C04.MAX_GROUPS)

/-- what `regcomp` stores for a tree: literals folded under `REG_ICASE` -/
def foldRe (fl : PFlags) : Re → Re
  | .chr c => .chr (foldc fl c)
  | .cls bm => .cls (normCls fl bm)
  | .cat a b => .cat (foldRe fl a) (foldRe fl b)
  | .alt a b => .alt (foldRe fl a) (foldRe fl b)
  | .rep r m n => .rep (foldRe fl r) m n
  | .group r => .group (foldRe fl r)
  | r => r

end Usual.C04
