import Usual.C04.Regex
import Usual.C04.Parse
/-! # C04 — model of the C back-tracking matcher (`usual_regexec`, `usual/regex.c`)

Unlike `Usual.C04.Regex` (a proved *reference*), this file is a **transcription of the
algorithm**: the compiled op tree (`struct Op` / `AndList`), the continuation-passing matchers
`match_char / match_any / match_class / match_bol / match_eol / scan_next / match_group /
match_gend` (with the repaired `minok` logic), and the POSIX weighting `got_full_match /
gm_resolve_tie / cmp_gmatches / gmatch_hist_cmp / fill_history / publish_gm`, branch by branch.

C pointers become: subject positions (`Nat`), `NULL`-able positions (`Option Nat`), and frame ids
(index into `St.frames`) for `struct GMatch *` — the only pointer *identity* the C code uses is
`gm->parent != ctx->gm_cache[pno]` in `publish_gm`.  Recursion is bounded by `fuel` (depth) and
a step `budget` (the matcher is exponential); running out of either is reported, never guessed.
Back-references are outside the model (`has_refs` is false).  Core Lean only. -/

namespace Usual.C04.CM
open Usual.C04

/-- compiled op (`struct Op`): simple atoms carry `mincnt/maxcnt`; a group carries its number,
its OR-list of AND-lists (without the terminating `OP_GMATCH / OP_FULLMATCH`, which is the end
of the list here) and its counts -/
inductive COp where
  | chr (c : UInt8) (min max : Nat)
  | any (min max : Nat)
  | cls (bm : Nat) (min max : Nat)
  | bol
  | eol
  | group (gno : Nat) (alts : List (List COp)) (min max : Nat)
  deriving Inhabited, Repr

def MAXC : Nat := Gen.C04.MAX_COUNT

/-! ## compilation of a parsed tree (what `new_op / op_count_* / op_gstart / op_gend` build) -/

/-- Structural compiler.  The result is always an OR-list: an item yields `[[op]]`, a branch
`[ops]`, an alternation all its branches; `mn mx` are the counts to put on the item (`1 1`
unless it is the body of a `rep`); `n` = groups opened so far (`re_nsub`).  Trees that are not in
the parser's shape (alternation inside a concatenation without a group, nested `rep`, …) yield
`none`. -/
def compR : Re → Nat → Nat → Nat → Option (List (List COp) × Nat)
  | .empty, _, _, n => some ([[]], n)
  | .chr c, mn, mx, n => some ([[.chr c mn mx]], n)
  | .any, mn, mx, n => some ([[.any mn mx]], n)
  | .cls bm, mn, mx, n => some ([[.cls bm mn mx]], n)
  | .bol, _, _, n => some ([[.bol]], n)
  | .eol, _, _, n => some ([[.eol]], n)
  | .group body, mn, mx, n =>
      match compR body 1 1 (n + 1) with
      | some (alts, n') => some ([[.group (n + 1) alts mn mx]], n')
      | none => none
  | .rep r m k, _, _, n =>
      match r with
      | .chr c => some ([[.chr c m (k.getD MAXC)]], n)
      | .any => some ([[.any m (k.getD MAXC)]], n)
      | .cls bm => some ([[.cls bm m (k.getD MAXC)]], n)
      | .group body =>
          match compR body 1 1 (n + 1) with
          | some (alts, n') => some ([[.group (n + 1) alts m (k.getD MAXC)]], n')
          | none => none
      | _ => none
  | .cat a b, _, _, n =>
      match compR a 1 1 n with
      | some ([[op]], n1) =>
          match compR b 1 1 n1 with
          | some ([ops], n2) => some ([op :: ops], n2)
          | _ => none
      | _ => none
  | .alt a b, _, _, n =>
      match compR a 1 1 n with
      | some ([opsA], n1) =>
          match compR b 1 1 n1 with
          | some (altsB, n2) => some (opsA :: altsB, n2)
          | none => none
      | _ => none

/-- group #0 with the whole pattern as its body -/
def compileOps (r : Re) : Option (List (List COp) × Nat) := compR r 1 1 0

/-! ## execution state -/

/-- `struct HMatch` -/
structure HM where
  hs : Option Nat := none
  he : Option Nat := none
  rep : Int := 0
  deriving Inhabited, Repr

/-- `struct GMatch` plus the fields of its owner `Op` that the matchers read through
`gm->owner` (`grp_no`, `or_list`, `mincnt`, `maxcnt`, `next`) -/
structure Frame where
  gno : Nat
  alts : List (List COp)
  min : Nat
  max : Nat
  next : List COp
  start : Nat
  end_ : Option Nat := none
  prev : Option Nat := none
  hmNext : HM := {}
  count : Nat := 0
  minok : Bool := false
  parent : Option Nat := none
  deriving Inhabited

/-- the mutable part of `struct ExecCtx` -/
structure St where
  frames : Array Frame := #[]
  stacks : Array (Option Nat)
  hmFirst : Array HM
  cache : Array (Option Nat)
  pm : Array (Int × Int)
  lastEnd : Option Nat := none
  budget : Nat

/-- the constant part -/
structure Cx where
  env : Env
  nmatch : Nat
  strict : Bool

def NOMATCH : Nat := 1
def OUT_OF_BUDGET : Nat := 98
def OUT_OF_FUEL : Nat := 99

def St.fr (st : St) (g : Nat) : Frame := st.frames[g]!
def St.setFr (st : St) (g : Nat) (f : Frame) : St := { st with frames := st.frames.set! g f }

/-- greedy count of a simple atom: `for (i = 0; i < maxcnt && ok(str[i]); i++)` -/
def countWhile (e : Env) (ok : UInt8 → Bool) : Nat → Nat → Nat → Nat → Nat
  | 0, _, _, i => i
  | f + 1, str, mx, i =>
    if i < mx then
      match e.s[str + i]? with
      | some b => if ok b then countWhile e ok f str mx (i + 1) else i
      | none => i
    else i

def simpleMax (mx : Nat) : Nat := if mx = MAXC then 0x7FFFFFFF else mx

/-! ## the POSIX weighting -/

def optLen (s e : Option Nat) (dflt : Int) : Int :=
  match e with
  | some e' => (e' : Int) - ((s.getD 0 : Nat) : Int)
  | none => dflt

/-- `gmatch_hist_cmp` -/
def histCmp (st : St) (gno : Nat) (g : Nat) (replen : Int) : Int :=
  let gm := st.fr g
  let hm := match gm.prev with
    | some p => (st.fr p).hmNext
    | none => st.hmFirst[gno]!
  let gmlen : Int := match gm.end_ with
    | some e => (e : Int) - gm.start
    | none => -1
  let hmlen : Int := match hm.he with
    | some e => (e : Int) - ((hm.hs.getD 0 : Nat) : Int)
    | none => -1
  let gmreplen := if gmlen ≥ 0 then gmlen + replen else replen
  let hmreplen := (if hmlen ≥ 0 then hmlen else 0) + hm.rep
  let gmofs : Int := if gm.end_.isSome then (gm.start : Int) else -1
  let hmofs : Int := match hm.hs with
    | some s => (s : Int)
    | none => -1
  let res := gmofs - hmofs
  let res := if res == 0 && gm.count == 0 then gmreplen - hmreplen else res
  if res == 0 then gmlen - hmlen else res

/-- `cmp_gmatches` (recursion along `prevgm`) -/
def cmpGm (st : St) (gno : Nat) : Nat → Option Nat → Int → Int
  | 0, _, _ => 0
  | _, none, _ => 0
  | f + 1, some g, replen =>
    let gm := st.fr g
    let gmlen : Int := match gm.end_ with
      | some e => (e : Int) - gm.start
      | none => 0
    let c := cmpGm st gno f gm.prev (if gm.count == 0 then 0 else replen + gmlen)
    if c != 0 then c else histCmp st gno g replen

/-- `gm_resolve_tie` -/
def resolveTie (st : St) (gno : Nat) : Int :=
  match st.stacks[gno]! with
  | none => if (st.hmFirst[gno]!).hs.isSome then -1 else 0
  | some g => cmpGm st gno (st.frames.size + 1) (some g) 0

/-- `fill_history` -/
def fillHist (gno : Nat) : Nat → Option Nat → Int → St → St
  | 0, _, _, st => st
  | _, none, _, st => st
  | f + 1, some g, replen, st =>
    let gm := st.fr g
    let h : HM := { hs := some gm.start, he := gm.end_, rep := replen }
    let st := match gm.prev with
      | some p => st.setFr p { st.fr p with hmNext := h }
      | none => { st with hmFirst := st.hmFirst.set! gno h }
    let gmlen : Int := match gm.end_ with
      | some e => (e : Int) - gm.start
      | none => 0
    let replen := if gm.count == 0 then 0 else replen + gmlen
    fillHist gno f gm.prev replen st

/-- skip stack entries without a match (`while (gm && !gm->end) gm = gm->prevgm`) -/
def skipUnmatched (st : St) : Nat → Option Nat → Option Nat
  | 0, _ => none
  | _, none => none
  | f + 1, some g => if (st.fr g).end_.isSome then some g else skipUnmatched st f (st.fr g).prev

/-- `publish_gm` -/
def publish (st : St) (gno : Nat) : St :=
  let gm := skipUnmatched st (st.frames.size + 1) (st.stacks[gno]!)
  let gm := match gm with
    | some g =>
      match (st.fr g).parent with
      | some p => if st.cache[(st.fr p).gno]! != some p then none else some g
      | none => some g
    | none => none
  let st := { st with cache := st.cache.set! gno gm }
  match gm with
  | some g => { st with pm := st.pm.set! gno (((st.fr g).start : Int), (((st.fr g).end_.getD 0 : Nat) : Int)) }
  | none => { st with pm := st.pm.set! gno (-1, -1) }

def publishAll (cx : Cx) : Nat → Nat → St → St
  | 0, _, st => st
  | f + 1, gno, st =>
    if gno < cx.nmatch then
      let st := publish st gno
      let st := if cx.strict then fillHist gno (st.frames.size + 1) (st.stacks[gno]!) 0 st else st
      publishAll cx f (gno + 1) st
    else st

/-- the tie loop of `got_full_match`: `true` = better match -/
def tieLoop (cx : Cx) (st : St) : Nat → Nat → Bool
  | 0, _ => false
  | f + 1, gno =>
    if gno < cx.nmatch then
      let c := resolveTie st gno
      if c < 0 then false else if c > 0 then true else tieLoop cx st f (gno + 1)
    else false

/-- `got_full_match` -/
def gotFull (cx : Cx) (str : Nat) (g : Nat) (st : St) : Nat × St :=
  let st := st.setFr g { st.fr g with end_ := some str }
  let better : Option St :=
    match st.lastEnd with
    | none => some { st with lastEnd := some str }
    | some le =>
      if str < le then none
      else if str > le then some { st with lastEnd := some str }
      else if cx.strict && cx.nmatch > 1 then
        (if tieLoop cx st cx.nmatch 0 then some st else none)
      else none
  match better with
  | none => (0, st)
  | some st => (0, publishAll cx cx.nmatch 0 st)

/-! ## the matchers -/

mutual
/-- `do_match(op, str, gm)` where `ops` is the rest of the current AND-list; the empty list is
the terminating `OP_GMATCH` (→ `match_gend`) or `OP_FULLMATCH` (→ `got_full_match`) -/
def doOps (cx : Cx) : Nat → List COp → Nat → Option Nat → St → Nat × St
  | 0, _, _, _, st => (OUT_OF_FUEL, st)
  | f + 1, ops, str, gm, st =>
    if st.budget = 0 then (OUT_OF_BUDGET, st) else
    let st := { st with budget := st.budget - 1 }
    match ops with
    | [] =>
      match gm with
      | none => (OUT_OF_FUEL, st)
      | some g => if (st.fr g).gno = 0 then gotFull cx str g st else matchGend cx f str g st
    | .chr c mn mx :: rest =>
      let i := countWhile cx.env (fun b => chrOk cx.env c b) (cx.env.s.size + 1) str (simpleMax mx) 0
      scanNext cx f rest (str + i) gm i mn st
    | .any mn mx :: rest =>
      let i := countWhile cx.env (fun b => anyOk cx.env b) (cx.env.s.size + 1) str (simpleMax mx) 0
      scanNext cx f rest (str + i) gm i mn st
    | .cls bm mn mx :: rest =>
      let i := countWhile cx.env (fun b => clsOk bm b) (cx.env.s.size + 1) str (simpleMax mx) 0
      scanNext cx f rest (str + i) gm i mn st
    | .bol :: rest => if bolOk cx.env str then doOps cx f rest str gm st else (NOMATCH, st)
    | .eol :: rest => if eolOk cx.env str then doOps cx f rest str gm st else (NOMATCH, st)
    | .group gno alts mn mx :: rest => matchGroup cx f gno alts mn mx rest str gm st

/-- `scan_next` -/
def scanNext (cx : Cx) : Nat → List COp → Nat → Option Nat → Nat → Nat → St → Nat × St
  | 0, _, _, _, _, _, st => (OUT_OF_FUEL, st)
  | f + 1, rest, str, gm, cur, mn, st =>
    if cur = mn then doOps cx f rest str gm st
    else if cur < mn then (NOMATCH, st)
    else scanLoop cx f rest str gm cur mn false st

/-- the `for (; curcnt >= mincnt; curcnt--)` loop of `scan_next` -/
def scanLoop (cx : Cx) : Nat → List COp → Nat → Option Nat → Nat → Nat → Bool → St → Nat × St
  | 0, _, _, _, _, _, _, st => (OUT_OF_FUEL, st)
  | f + 1, rest, str, gm, cur, mn, got, st =>
    match doOps cx f rest str gm st with
    | (err, st) =>
      if cx.strict && err = 0 then
        (if cur = mn then (0, st) else scanLoop cx f rest (str - 1) gm (cur - 1) mn true st)
      else if err ≠ NOMATCH then (err, st)
      else if cur = mn then ((if got then 0 else NOMATCH), st)
      else scanLoop cx f rest (str - 1) gm (cur - 1) mn got st

/-- `match_group` -/
def matchGroup (cx : Cx) : Nat → Nat → List (List COp) → Nat → Nat → List COp → Nat → Option Nat → St → Nat × St
  | 0, _, _, _, _, _, _, _, st => (OUT_OF_FUEL, st)
  | f + 1, gno, alts, mn, mx, next, str, gm, st =>
    let reentry : Option Frame := match gm with
      | some g => if (st.fr g).gno = gno then some (st.fr g) else none
      | none => none
    let id := st.frames.size
    let fr : Frame :=
      match reentry with
      | some pf => { gno := gno, alts := alts, min := mn, max := mx, next := next, start := str,
                     prev := st.stacks[gno]!, parent := pf.parent, count := pf.count + 1,
                     minok := pf.minok || pf.end_ == some pf.start }
      | none => { gno := gno, alts := alts, min := mn, max := mx, next := next, start := str,
                  prev := st.stacks[gno]!, parent := gm }
    let st := { st with frames := st.frames.push fr, stacks := st.stacks.set! gno (some id) }
    match (if mx > 0 then altLoop cx f alts str id NOMATCH false st else (NOMATCH, false, st)) with
    | (err, got, st) =>
      let (err, st) :=
        if mn = 0 ∧ fr.count = 0 ∧ (err = NOMATCH ∨ (err = 0 ∧ cx.strict)) then
          doOps cx f next str fr.parent (st.setFr id { st.fr id with end_ := none })
        else (err, st)
      let st := { st with stacks := st.stacks.set! gno fr.prev }
      -- (an abort of the model itself — fuel/budget — is never masked by `gotmatch`)
      ((if got ∧ err ≠ OUT_OF_BUDGET ∧ err ≠ OUT_OF_FUEL then 0 else err), st)

/-- the `while (alist)` loop of `match_group`: returns the last `err` and `gotmatch` -/
def altLoop (cx : Cx) : Nat → List (List COp) → Nat → Nat → Nat → Bool → St → Nat × Bool × St
  | 0, _, _, _, _, got, st => (OUT_OF_FUEL, got, st)
  | _ + 1, [], _, _, err, got, st => (err, got, st)
  | f + 1, a :: more, str, id, _, got, st =>
    match doOps cx f a str (some id) st with
    | (err, st) =>
      if err = 0 ∧ cx.strict then
        altLoop cx f more str id err true (st.setFr id { st.fr id with end_ := none })
      else if err ≠ NOMATCH then (err, got, st)
      else altLoop cx f more str id err got st

/-- `match_gend` -/
def matchGend (cx : Cx) : Nat → Nat → Nat → St → Nat × St
  | 0, _, _, st => (OUT_OF_FUEL, st)
  | f + 1, str, g, st =>
    let fr := st.fr g
    let zero := str == fr.start
    if zero && fr.count > 0 && fr.count ≥ fr.min then (NOMATCH, st) else
    let st := st.setFr g { fr with end_ := some str }
    let more := fr.count + 1 < fr.max && (!zero || (fr.count + 1 < fr.min && !fr.minok))
    match (if more then matchGroup cx f fr.gno fr.alts fr.min fr.max fr.next str (some g) st else (NOMATCH, st)) with
    | (err, st) =>
      let got := more && err = 0 && cx.strict
      if more && !got && err ≠ NOMATCH then (err, st)
      else if !zero && !fr.minok && fr.count + 1 < fr.min then (err, st)
      else
        match doOps cx f fr.next str fr.parent st with
        | (err2, st) => ((if err2 = NOMATCH ∧ got then 0 else err2), st)
end

/-! ## `usual_regexec` -/

/-- the start-position loop: `do { str++; err = do_match(root) } while (err == NOMATCH && *str)` -/
def startLoop (cx : Cx) (alts : List (List COp)) (fuel : Nat) : Nat → Nat → St → Nat × Nat × St
  | 0, str, st => (NOMATCH, str, st)
  | k + 1, str, st =>
    match matchGroup cx fuel 0 alts 1 1 [] str none st with
    | (err, st) =>
      if err = NOMATCH ∧ str < cx.env.s.size then startLoop cx alts fuel k (str + 1) st else (err, str, st)

structure Result where
  rc : Nat
  pm : List (Int × Int)
  /-- start position at which the loop stopped, and `ctx.last_endpos` -/
  start : Nat
  last : Option Nat
  stepsLeft : Nat

/-- `memset(&ctx, 0, sizeof(ctx))` and the reset of the `pmatch` area -/
def initSt (nsub : Nat) (nosub : Bool) (nmatch budget : Nat) : St :=
  { stacks := Array.replicate (nsub + 2) none, hmFirst := Array.replicate (nsub + 2) {},
    cache := Array.replicate (nsub + 2) none,
    pm := Array.replicate (if nosub then 0 else nmatch) (-1, -1), budget := budget }

/-- the part of `pmatch` that is used, and strictness -/
def mkCx (e : Env) (nsub : Nat) (nosub : Bool) (nmatch : Nat) : Cx :=
  let nm := if nosub then 0 else if nmatch > nsub + 1 then nsub + 1 else nmatch
  { env := e, nmatch := nm, strict := !nosub && nm > 0 }

/-- `usual_regexec(rx, subject, nmatch, pmatch, eflags)` for a compiled pattern.
`nosub` = REG_NOSUB at compile time (forces relaxed matching, ignores `pmatch`) -/
def cExec (alts : List (List COp)) (nsub : Nat) (nosub : Bool) (e : Env) (nmatch : Nat) (budget fuel : Nat) : Result :=
  match startLoop (mkCx e nsub nosub nmatch) alts fuel (e.s.size + 1) 0 (initSt nsub nosub nmatch budget) with
  | (rc, str, st) => { rc := rc, pm := st.pm.toList, start := str, last := st.lastEnd, stepsLeft := st.budget }

end Usual.C04.CM
