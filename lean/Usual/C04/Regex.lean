/-! # C04 — regular expressions: abstract syntax, declarative semantics, reference matcher

This file is the *specification side* of property C04.  It is **not** a transcription of the
back-tracking matcher in `usual/regex.c` (`scan_next / match_group / match_gend /
gm_resolve_tie`): it defines

* `Re` — the abstract syntax the parser models in `Usual.C04.Parse` produce,
* `Matches env r i j` — "the substring `[i, j)` of the subject belongs to the language of `r`
  in the context `env`" (anchors look at the neighbouring bytes and at
  `REG_NOTBOL / REG_NOTEOL / REG_NEWLINE`; `REG_ICASE` folds ASCII letters),
* `ends env r i` — an executable function listing *all* end positions,
* `llmatch env r` — the POSIX answer: leftmost start, then longest end.

`UsualProofs/Props/C04.lean` proves `ends` sound and complete for `Matches` and `llmatch`
equal to the leftmost-longest characterisation.  The C matcher is compared against `llmatch`
on results only (correspondence run).  Core Lean only. -/

namespace Usual.C04

/-- abstract syntax.  `cls bm`: bit `b` of `bm` set ↔ byte `b` is in the bracket expression
(the parser has already applied negation, `REG_ICASE` and `REG_NEWLINE` to the bitmap, as
`op_class` does).  `rep r m none` is "at least m", `rep r m (some n)` is "m to n". -/
inductive Re where
  | empty
  | chr (c : UInt8)
  | any
  | cls (bm : Nat)
  | bol
  | eol
  | cat (a b : Re)
  | alt (a b : Re)
  | rep (r : Re) (m : Nat) (n : Option Nat)
  | group (r : Re)
  deriving DecidableEq, Repr, Inhabited

/-- matching context: the subject and the flags that influence matching -/
structure Env where
  s : Array UInt8
  icase : Bool := false
  newline : Bool := false
  notbol : Bool := false
  noteol : Bool := false

/-- ASCII lower-casing (`tolower` in the C locale) -/
def lower (b : UInt8) : UInt8 := if 65 ≤ b ∧ b ≤ 90 then b + 32 else b

/-- literal: equal bytes, or equal after ASCII case folding under `REG_ICASE` -/
def chrOk (e : Env) (c b : UInt8) : Bool := if e.icase then lower b == lower c else b == c

/-- `.` : any byte except NUL, and except newline under `REG_NEWLINE` -/
def anyOk (e : Env) (b : UInt8) : Bool := b != 0 && !(e.newline && b == 10)

def clsOk (bm : Nat) (b : UInt8) : Bool := bm.testBit b.toNat

/-- `^` matches at offset 0 unless `REG_NOTBOL`, and after a newline under `REG_NEWLINE` -/
def bolOk (e : Env) (i : Nat) : Bool :=
  (i == 0 && !e.notbol) || (i != 0 && e.newline && e.s[i - 1]? == some 10)

/-- `$` matches at the end unless `REG_NOTEOL`, and before a newline under `REG_NEWLINE` -/
def eolOk (e : Env) (i : Nat) : Bool :=
  (e.newline && e.s[i]? == some 10) || (i == e.s.size && !e.noteol)

/-- `Iter P c i j`: `c` consecutive `P`-steps lead from `i` to `j` -/
inductive Iter (P : Nat → Nat → Prop) : Nat → Nat → Nat → Prop
  | zero (i : Nat) : Iter P 0 i i
  | succ {c i k j : Nat} : P i k → Iter P c k j → Iter P (c + 1) i j

/-- **Declarative semantics.**  `Matches e r i j`: bytes `i .. j-1` of the subject `e.s`
form a word of the language of `r`, in context. -/
def Matches (e : Env) : Re → Nat → Nat → Prop
  | .empty, i, j => j = i ∧ i ≤ e.s.size
  | .chr c, i, j => j = i + 1 ∧ ∃ b, e.s[i]? = some b ∧ chrOk e c b = true
  | .any, i, j => j = i + 1 ∧ ∃ b, e.s[i]? = some b ∧ anyOk e b = true
  | .cls bm, i, j => j = i + 1 ∧ ∃ b, e.s[i]? = some b ∧ clsOk bm b = true
  | .bol, i, j => j = i ∧ i ≤ e.s.size ∧ bolOk e i = true
  | .eol, i, j => j = i ∧ i ≤ e.s.size ∧ eolOk e i = true
  | .cat a b, i, j => ∃ k, Matches e a i k ∧ Matches e b k j
  | .alt a b, i, j => Matches e a i j ∨ Matches e b i j
  | .group r, i, j => Matches e r i j
  | .rep r m n, i, j =>
      i ≤ e.s.size ∧ ∃ c, m ≤ c ∧ (∀ n', n = some n' → c ≤ n') ∧ Iter (Matches e r) c i j

/-! ## executable reference -/

/-- union of two position lists without introducing duplicates of the first -/
def uni (a b : List Nat) : List Nat := a ++ b.filter (fun x => !a.contains x)

/-- all positions reachable by one `f`-step from a position in the list -/
def stepSet (f : Nat → List Nat) : List Nat → List Nat
  | [] => []
  | k :: S => uni (f k) (stepSet f S)

/-- `repGo f hi lo cur`: `cur` are the positions reached so far; still `lo` iterations are
mandatory and at most `hi` more are allowed.  Collects every position reached after a
permitted number of iterations. -/
def repGo (f : Nat → List Nat) : Nat → Nat → List Nat → List Nat
  | 0, lo, cur => if lo = 0 then cur else []
  | hi + 1, 0, cur => uni cur (repGo f hi 0 (stepSet f cur))
  | hi + 1, lo + 1, cur => repGo f hi lo (stepSet f cur)

/-- number of iterations worth trying from a position with `d` bytes left: iterations that
consume nothing can be dropped, so `m + d` always suffices -/
def hiOf (m : Nat) (n : Option Nat) (d : Nat) : Nat :=
  match n with
  | none => m + d
  | some n' => min n' (m + d)

/-- all end positions `j` such that `[i, j)` matches `r` -/
def ends (e : Env) : Re → Nat → List Nat
  | .empty, i => if i ≤ e.s.size then [i] else []
  | .chr c, i => match e.s[i]? with
      | some b => if chrOk e c b then [i + 1] else []
      | none => []
  | .any, i => match e.s[i]? with
      | some b => if anyOk e b then [i + 1] else []
      | none => []
  | .cls bm, i => match e.s[i]? with
      | some b => if clsOk bm b then [i + 1] else []
      | none => []
  | .bol, i => if i ≤ e.s.size ∧ bolOk e i = true then [i] else []
  | .eol, i => if i ≤ e.s.size ∧ eolOk e i = true then [i] else []
  | .cat a b, i => stepSet (ends e b) (ends e a i)
  | .alt a b, i => uni (ends e a i) (ends e b i)
  | .group r, i => ends e r i
  | .rep r m n, i =>
      if i ≤ e.s.size then repGo (ends e r) (hiOf m n (e.s.size - i)) m [i] else []

def maxOf : List Nat → Option Nat
  | [] => none
  | x :: xs => match maxOf xs with
      | none => some x
      | some y => some (max x y)

/-- try start positions `i, i+1, …` (`fuel` of them); at the first one where something
matches report the longest end -/
def scan (e : Env) (r : Re) : Nat → Nat → Option (Nat × Nat)
  | 0, _ => none
  | fuel + 1, i => match maxOf (ends e r i) with
      | some j => some (i, j)
      | none => scan e r fuel (i + 1)

/-- **the POSIX overall match**: leftmost, then longest -/
def llmatch (e : Env) (r : Re) : Option (Nat × Nat) := scan e r (e.s.size + 1) 0

/-! ## the sub-match clause as a checker (applied to the implementation's output) -/

/-- `pmatchOk len nsub pm`: `pm[0]` is an ordered range inside the subject; every further
entry is either `(-1,-1)` or an ordered range inside `pm[0]`; entries past `nsub` are unset -/
def pmatchOk (len nsub : Nat) (pm : List (Int × Int)) : Bool :=
  match pm with
  | [] => true
  | (so0, eo0) :: rest =>
    (0 ≤ so0 && so0 ≤ eo0 && eo0 ≤ (len : Int)) &&
    (rest.zipIdx.all fun ((so, eo), idx) =>
      (so == -1 && eo == -1) ||
      (idx + 1 ≤ nsub && so0 ≤ so && so ≤ eo && eo ≤ eo0))

/-- number of `group` nodes = `re_nsub` -/
def Re.groups : Re → Nat
  | .cat a b => a.groups + b.groups
  | .alt a b => a.groups + b.groups
  | .rep r _ _ => r.groups
  | .group r => r.groups + 1
  | _ => 0

end Usual.C04
