import Usual.C05.MDInst
import Usual.C05.Sha3
import Usual.C05.Hmac
/-! C05: the `DigestInfo` records of usual/crypto (what `digest_MD5()` … `digest_SHAKE256()` return),
    as `Hmac.Digest` values over the models. -/
namespace Usual.C05

/-- `DigestInfo` of an MD-family digest: `{reset, update, final, …, result_len, block_len}` -/
def mdDigest {σ : Type} (A : MD.Alg σ) (rlen : Nat) : Hmac.Digest (MD.Ctx σ) :=
  { blockLen := A.B, resultLen := rlen, init := MD.reset A, update := MD.update A, final := MD.final A }

/-- `DigestInfo` of a SHA-3 / SHAKE digest; `params` = (capacity bits, output bytes, pad byte) -/
def sha3Digest (f : Keccak.Bytes → Keccak.Bytes) (params : Nat × Nat × UInt8) : Hmac.Digest Sha3.Ctx :=
  { blockLen := (1600 - params.1) / 8, resultLen := params.2.1, init := Sha3.reset params,
    update := Sha3.update f, final := fun c => (Sha3.final f c).1 }

end Usual.C05
