/-! C05: usual/crypto/hmac.c over the DigestInfo interface of usual/crypto/digest.c, and
    HMAC as defined by RFC 2104 / FIPS 198-1. -/
namespace Usual.C05.Hmac

abbrev Bytes := List UInt8

/-- `struct DigestInfo` seen functionally (`init`, `update`, `final`, `result_len`, `block_len`) -/
structure Digest (δ : Type) where
  blockLen : Nat
  resultLen : Nat
  init : δ
  update : δ → Bytes → δ
  final : δ → Bytes

variable {δ : Type}

/-- `struct HMAC` -/
structure Ctx (δ : Type) where
  hash : δ
  ipad : Bytes
  opad : Bytes

/-- `hmac_new`: pads live in zeroed memory (`cx_alloc0`) of `block_len` bytes each; a key longer
    than a block is replaced by its digest -/
def new (D : Digest δ) (key : Bytes) : Ctx δ :=
  let bs := D.blockLen
  let k0 := if key.length > bs then D.final (D.update D.init key) else key
  let kz := (k0 ++ List.replicate (bs - k0.length) 0).take bs
  let ipad := kz.map (· ^^^ 0x36)
  let opad := kz.map (· ^^^ 0x5c)
  { hash := D.update D.init ipad, ipad := ipad, opad := opad }

/-- `hmac_reset` -/
def reset (D : Digest δ) (c : Ctx δ) : Ctx δ := { c with hash := D.update D.init c.ipad }

/-- `hmac_update` -/
def update (D : Digest δ) (c : Ctx δ) (data : Bytes) : Ctx δ := { c with hash := D.update c.hash data }

/-- `hmac_final` -/
def final (D : Digest δ) (c : Ctx δ) : Bytes :=
  let inner := D.final c.hash
  D.final (D.update (D.update D.init c.opad) inner)

/-! ## RFC 2104 -/

/-- `K0`: the key brought to block length -/
def key0 (H : Bytes → Bytes) (B : Nat) (key : Bytes) : Bytes :=
  let k := if key.length > B then H key else key
  (k ++ List.replicate (B - k.length) 0).take B

/-- `HMAC(K, m) = H((K0 ⊕ opad) ‖ H((K0 ⊕ ipad) ‖ m))` -/
def hmacSpec (H : Bytes → Bytes) (B : Nat) (key msg : Bytes) : Bytes :=
  let k0 := key0 H B key
  H (k0.map (· ^^^ 0x5c) ++ H (k0.map (· ^^^ 0x36) ++ msg))

end Usual.C05.Hmac
