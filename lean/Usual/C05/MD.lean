/-! C05: generic streaming model of the Merkle–Damgård digests of usual/crypto
    (md5.c, sha1.c, sha256.c, sha512.c share one update/final shape) and the one-shot
    specification of the standards (RFC 1321, FIPS 180-4): pad, cut into blocks, fold. -/
namespace Usual.C05.MD

/-- What distinguishes one digest from another. -/
structure Alg (σ : Type) where
  /-- block size in bytes (`*_BLOCK_SIZE`): 64 or 128 -/
  B : Nat
  /-- bytes reserved for the message length at the end of the last block: 8, or 16 for SHA-384/512 -/
  lenBytes : Nat
  /-- length is stored big-endian (SHA family) or little-endian (MD5) -/
  bigEndian : Bool
  /-- initial chaining value (`*_reset`) -/
  init : σ
  /-- compression function: chaining value and one block of `B` bytes (`md5_mix`, `sha1_core`, …) -/
  compress : σ → List UInt8 → σ
  /-- encoding of the final chaining value, truncated for SHA-224/384 -/
  out : σ → List UInt8

variable {σ : Type}

/-! ## Length encodings -/

/-- `k` little-endian base-256 digits of `n` (digits beyond `k` are dropped) -/
def leBytes : Nat → Nat → List UInt8
  | 0, _ => []
  | k + 1, n => UInt8.ofNat (n % 256) :: leBytes k (n / 256)

def beBytes (k n : Nat) : List UInt8 := (leBytes k n).reverse

/-- the standard's length field: the bit length as a `lenBytes`-byte integer -/
def encLenSpec (A : Alg σ) (nbits : Nat) : List UInt8 :=
  if A.bigEndian then beBytes A.lenBytes nbits else leBytes A.lenBytes nbits

/-- what the C code stores: `uint64_t nbits = ctx->nbytes * 8` in the last 8 bytes
    (`buf[14]`,`buf[15]` resp. `words[15]`), and for the 16-byte field of SHA-512 `words[14] = 0` -/
def encLenC (A : Alg σ) (nbytes : Nat) : List UInt8 :=
  let nbits := (nbytes * 8) % 2 ^ 64
  if A.bigEndian then List.replicate (A.lenBytes - 8) 0 ++ beBytes 8 nbits
  else leBytes 8 nbits ++ List.replicate (A.lenBytes - 8) 0

/-! ## The streaming context (`struct sha256_ctx` etc.) -/

structure Ctx (σ : Type) where
  /-- chaining value (`ctx->state` / `a,b,c,d,e`) -/
  st : σ
  /-- the filled part of `ctx->buf`: the last `nbytes % B` bytes fed -/
  buf : List UInt8
  /-- `ctx->nbytes` -/
  nbytes : Nat

/-- `*_reset` -/
def reset (A : Alg σ) : Ctx σ := { st := A.init, buf := [], nbytes := 0 }

/-- `*_reset(ctx)` on a context with any history: every field the later code reads is overwritten -/
def resetCtx (A : Alg σ) (_old : Ctx σ) : Ctx σ := reset A

/-- `*_update`: `while (len > 0) { n = B - bufpos; if (n > len) n = len; memcpy(buf + bufpos, src, n);
    src += n; len -= n; nbytes += n; if (bufpos == 0) core(); }` — one loop iteration per unit of fuel -/
def updateF (A : Alg σ) : Nat → Ctx σ → List UInt8 → Ctx σ
  | 0, c, _ => c
  | fuel + 1, c, data =>
    if data = [] then c else
    let n := min (A.B - c.buf.length) data.length
    let buf' := c.buf ++ data.take n
    let c' : Ctx σ :=
      if buf'.length = A.B then { st := A.compress c.st buf', buf := [], nbytes := c.nbytes + n }
      else { st := c.st, buf := buf', nbytes := c.nbytes + n }
    updateF A fuel c' (data.drop n)

/-- `*_update(ctx, data, len)` (every iteration consumes at least one byte) -/
def update (A : Alg σ) (c : Ctx σ) (data : List UInt8) : Ctx σ :=
  updateF A (data.length + 1) c data

/-- `pad_len = B - lenBytes - pos; if (pad_len <= 0) pad_len += B;` (in ℕ: `B - lenBytes ≤ pos`) -/
def padLen (A : Alg σ) (pos : Nat) : Nat :=
  if A.B - A.lenBytes ≤ pos then A.B - A.lenBytes + A.B - pos else A.B - A.lenBytes - pos

/-- `static const uint8_t padding[B] = { 0x80 }` cut to `n` bytes -/
def padding (n : Nat) : List UInt8 := (0x80 :: List.replicate (n - 1) 0).take n

/-- `*_final`: feed the padding through `update`, store the bit length in the tail of the
    buffer, run the core once more, encode the chaining value. Returns digest and final state. -/
def finalCtx (A : Alg σ) (c : Ctx σ) : σ :=
  let pos := c.buf.length
  let c1 := update A c (padding (padLen A pos))
  A.compress c1.st (c1.buf ++ encLenC A c.nbytes)

def final (A : Alg σ) (c : Ctx σ) : List UInt8 := A.out (finalCtx A c)

/-! ## Specification (the standards' one-shot definition) -/

/-- repeatedly take a block of `B` bytes and compress it until fewer than `B` bytes remain;
    returns the chaining value and the unprocessed tail -/
def absorb (A : Alg σ) : Nat → σ → List UInt8 → σ × List UInt8
  | 0, st, p => (st, p)
  | fuel + 1, st, p =>
    if p.length < A.B then (st, p)
    else absorb A fuel (A.compress st (p.take A.B)) (p.drop A.B)

def absorbAll (A : Alg σ) (st : σ) (p : List UInt8) : σ × List UInt8 :=
  absorb A (p.length + 1) st p

/-- number of zero bytes after the 0x80 byte: the least `k ≥ 0` with
    `len + 1 + k + lenBytes ≡ 0 (mod B)` -/
def padZeros (A : Alg σ) (len : Nat) : Nat :=
  (A.B - (len + 1 + A.lenBytes) % A.B) % A.B

/-- message padding of the standard: 0x80, zeros, bit length -/
def mdPad (A : Alg σ) (len : Nat) : List UInt8 :=
  0x80 :: List.replicate (padZeros A len) 0 ++ encLenSpec A (8 * len)

/-- the digest of a whole message -/
def mdSpec (A : Alg σ) (msg : List UInt8) : List UInt8 :=
  A.out (absorbAll A A.init (msg ++ mdPad A msg.length)).1

end Usual.C05.MD
