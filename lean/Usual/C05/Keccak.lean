import Usual.Gen.C05Tables
/-! C05: the sponge bookkeeping of usual/crypto/keccak.c, parametric in the permutation `f`,
    on the canonical byte view of the 1600-bit state (byte `8*lane + k` = bits `8k..8k+7` of
    the lane; this is the memory image of `state64` on a little-endian machine and what
    `xor_lane`/`extract` present on every build), an executable Keccak-f[1600], and the
    sponge construction of FIPS 202 as one-shot specification. -/
namespace Usual.C05.Keccak

abbrev Bytes := List UInt8

/-! ## byte-level primitives -/

/-- xor the bytes `bs` into `st` starting at byte offset `ofs` -/
def xorAt : Bytes → Nat → Bytes → Bytes
  | [], _, _ => []
  | s :: st, 0, [] => s :: st
  | s :: st, 0, b :: bs => (s ^^^ b) :: xorAt st 0 bs
  | s :: st, ofs + 1, bs => s :: xorAt st ofs bs

/-- `xor_byte(ctx, nbyte, val)`: `xor_lane(ctx, nbyte / 8, (uint64_t)val << (nbyte % 8 * 8))` -/
def xorByte (st : Bytes) (nbyte : Nat) (val : UInt8) : Bytes := xorAt st nbyte [val]

/-- `xor_lane(ctx, lane, le64dec(p))` where `w` are the 8 bytes at `p` -/
def xorLane (st : Bytes) (lane : Nat) (w : Bytes) : Bytes := xorAt st (8 * lane) w

/-- `extract(dst, ctx, startLane, laneCount)`: little-endian bytes of whole lanes -/
def extract (st : Bytes) (startLane laneCount : Nat) : Bytes :=
  (st.drop (8 * startLane)).take (8 * laneCount)

/-- `while (k--) xor_byte(ctx, ofs++, *p++);` -/
def xorBytesLoop : Bytes → Nat → Bytes → Bytes
  | st, _, [] => st
  | st, ofs, b :: p => xorBytesLoop (xorByte st ofs b) (ofs + 1) p

/-- `while (len >= 8) { w = le64dec(p); xor_lane(ctx, ofs / 8, w); ofs += 8; p += 8; len -= 8; }`
    returns state, `ofs` and the rest of `p` -/
def lanesLoop : Nat → Bytes → Nat → Bytes → Bytes × Nat × Bytes
  | 0, st, ofs, p => (st, ofs, p)
  | fuel + 1, st, ofs, p =>
    if 8 ≤ p.length then lanesLoop fuel (xorLane st (ofs / 8) (p.take 8)) (ofs + 8) (p.drop 8)
    else (st, ofs, p)

/-- `add_bytes(ctx, p, ofs, len)` with `p` the `len` bytes: partial lane, full lanes, partial lane -/
def addBytes (st : Bytes) (p : Bytes) (ofs : Nat) : Bytes :=
  let m := ofs % 8
  let m1 := if m ≠ 0 then min (8 - m) p.length else 0
  let st1 := xorBytesLoop st ofs (p.take m1)
  let r := lanesLoop p.length st1 (ofs + m1) (p.drop m1)
  xorBytesLoop r.1 r.2.1 r.2.2

/-- `extract_bytes(ctx, dst, ofs, count)`: unaligned head, whole lanes, tail -/
def extractBytes (st : Bytes) (ofs count : Nat) : Bytes :=
  let p1 : Bytes × Nat × Nat :=
    if ofs % 8 ≠ 0 ∨ count < 8 then
      let avail := 8 - ofs % 8
      let n := if avail > count then count else avail
      (((extract st (ofs / 8) 1).drop (ofs % 8)).take n, ofs + n, count - n)
    else ([], ofs, count)
  let p2 : Bytes × Nat × Nat :=
    if p1.2.2 > 8 then
      let n := p1.2.2 / 8
      (extract st (p1.2.1 / 8) n, p1.2.1 + n * 8, p1.2.2 - n * 8)
    else ([], p1.2.1, p1.2.2)
  let p3 : Bytes := if p2.2.2 > 0 then (extract st (p2.2.1 / 8) 1).take p2.2.2 else []
  p1.1 ++ p2.1 ++ p3

def xorBytes (a b : Bytes) : Bytes := List.zipWith (· ^^^ ·) a b

/-! ## the context and the public API -/

structure Ctx where
  /-- 200 bytes: canonical view of `u.state64` -/
  st : Bytes
  /-- `ctx->pos` -/
  pos : Nat
  /-- `ctx->rbytes` -/
  rbytes : Nat
deriving Repr, BEq

/-- `keccak_init`: capacity in bits, multiple of 8 in `8..1592` -/
def init (capacity : Nat) : Option Ctx :=
  if capacity % 8 ≠ 0 ∨ capacity < 8 ∨ capacity > 1600 - 8 then none
  else some { st := List.replicate 200 0, pos := 0, rbytes := (1600 - capacity) / 8 }

variable (f : Bytes → Bytes)

/-- `permute_if_needed` -/
def permuteIfNeeded (c : Ctx) : Ctx :=
  if c.pos = c.rbytes then { c with st := f c.st, pos := 0 } else c

/-- common loop of keccak_absorb / squeeze / squeeze_xor / encrypt / decrypt:
    `while (len > 0) { avail = rbytes - pos; n = (len > avail) ? avail : len; BODY(pos, n);
       pos += n; src += n; dst += n; len -= n; permute_if_needed(ctx); }`
    `body st pos chunk` returns the bytes written to `dst` and the new state bytes. -/
def loopF (body : Bytes → Nat → Bytes → Bytes × Bytes) : Nat → Ctx → Bytes → Bytes × Ctx
  | 0, c, _ => ([], c)
  | fuel + 1, c, data =>
    if data = [] then ([], c) else
    let avail := c.rbytes - c.pos
    let n := if data.length > avail then avail else data.length
    let r := body c.st c.pos (data.take n)
    let c' := permuteIfNeeded f { c with st := r.2, pos := c.pos + n }
    let rest := loopF body fuel c' (data.drop n)
    (r.1 ++ rest.1, rest.2)

/-- `add_bytes(ctx, src, ctx->pos, n);` -/
def bodyAbsorb (st : Bytes) (pos : Nat) (src : Bytes) : Bytes × Bytes :=
  ([], addBytes st src pos)

/-- `extract_bytes(ctx, dst, ctx->pos, n);` (`src` only carries the length) -/
def bodySqueeze (st : Bytes) (pos : Nat) (src : Bytes) : Bytes × Bytes :=
  (extractBytes st pos src.length, st)

/-- `extract_bytes(ctx, dst, ctx->pos, n); for (i…) dst[i] ^= src[i];` -/
def bodySqueezeXor (st : Bytes) (pos : Nat) (src : Bytes) : Bytes × Bytes :=
  (xorBytes (extractBytes st pos src.length) src, st)

/-- `add_bytes(ctx, src, ctx->pos, n); extract_bytes(ctx, dst, ctx->pos, n);` -/
def bodyEncrypt (st : Bytes) (pos : Nat) (src : Bytes) : Bytes × Bytes :=
  let st' := addBytes st src pos
  (extractBytes st' pos src.length, st')

/-- `extract_bytes(ctx, dst, ctx->pos, n); dst[i] ^= src[i]; add_bytes(ctx, dst, ctx->pos, n);` -/
def bodyDecrypt (st : Bytes) (pos : Nat) (src : Bytes) : Bytes × Bytes :=
  let dst := xorBytes (extractBytes st pos src.length) src
  (dst, addBytes st dst pos)

def absorb (c : Ctx) (data : Bytes) : Ctx := (loopF f bodyAbsorb (data.length + 1) c data).2

def squeeze (c : Ctx) (len : Nat) : Bytes × Ctx :=
  loopF f bodySqueeze (len + 1) c (List.replicate len 0)

def squeezeXor (c : Ctx) (data : Bytes) : Bytes × Ctx := loopF f bodySqueezeXor (data.length + 1) c data

def encrypt (c : Ctx) (data : Bytes) : Bytes × Ctx := loopF f bodyEncrypt (data.length + 1) c data

def decrypt (c : Ctx) (data : Bytes) : Bytes × Ctx := loopF f bodyDecrypt (data.length + 1) c data

/-- `keccak_pad(ctx, pad, len)` -/
def pad (c : Ctx) (p : Bytes) : Ctx :=
  let c1 :=
    if p.length > 0 then
      let c0 := if p.length > 1 then absorb f c (p.take (p.length - 1)) else c
      let st := xorByte c0.st c0.pos (p.getD (p.length - 1) 0)
      { c0 with st := xorByte st (c0.rbytes - 1) 0x80 }
    else c
  { c1 with st := f c1.st, pos := 0 }

/-- `keccak_rewind` -/
def rewind (c : Ctx) : Ctx := { c with pos := 0 }

/-- `keccak_forget`: `memset(state, 0, rbytes - rem)`, then extract + add the odd tail -/
def forget (c : Ctx) : Ctx :=
  let rem := c.rbytes % 8
  let st0 := List.replicate (c.rbytes - rem) 0 ++ c.st.drop (c.rbytes - rem)
  let st1 :=
    if rem ≠ 0 then addBytes st0 (extractBytes st0 (c.rbytes - rem) rem) (c.rbytes - rem)
    else st0
  { c with st := st1, pos := 0 }

/-! ## byte-at-a-time reading of the same operations (every chunking law is read off this) -/

/-- apply `g : state byte → input byte → (output byte, new state byte)` along `bs` from `ofs` -/
def mapAt (g : UInt8 → UInt8 → UInt8 × UInt8) : Bytes → Nat → Bytes → Bytes × Bytes
  | [], _, _ => ([], [])
  | s :: st, 0, [] => ([], s :: st)
  | s :: st, 0, b :: bs => ((g s b).1 :: (mapAt g st 0 bs).1, (g s b).2 :: (mapAt g st 0 bs).2)
  | s :: st, ofs + 1, bs => ((mapAt g st ofs bs).1, s :: (mapAt g st ofs bs).2)

def gAbsorb (s b : UInt8) : UInt8 × UInt8 := (0, s ^^^ b)
def gSqueeze (s _b : UInt8) : UInt8 × UInt8 := (s, s)
def gSqueezeXor (s b : UInt8) : UInt8 × UInt8 := (s ^^^ b, s)
def gEncrypt (s b : UInt8) : UInt8 × UInt8 := (s ^^^ b, s ^^^ b)
def gDecrypt (s b : UInt8) : UInt8 × UInt8 := (s ^^^ b, b)

/-- process one byte: act on the state byte at `pos`, advance, permute when the rate is used up -/
def step1 (g : UInt8 → UInt8 → UInt8 × UInt8) (c : Ctx) (b : UInt8) : Bytes × Ctx :=
  let r := mapAt g c.st c.pos [b]
  (r.1, permuteIfNeeded f { c with st := r.2, pos := c.pos + 1 })

def steps (g : UInt8 → UInt8 → UInt8 × UInt8) : Ctx → Bytes → Bytes × Ctx
  | c, [] => ([], c)
  | c, b :: bs =>
    let r := step1 f g c b
    let rest := steps g r.2 bs
    (r.1 ++ rest.1, rest.2)

/-! ## FIPS 202 sponge construction (byte-oriented), the one-shot specification -/

/-- multi-rate padding after a domain-separation byte `dom` (0x06 SHA-3, 0x1f SHAKE, 0x01 Keccak):
    `q = r - len % r` bytes, first `dom`, last `0x80` (combined when `q = 1`) -/
def padBytes (r : Nat) (dom : UInt8) (len : Nat) : Bytes :=
  let q := r - len % r
  if q ≤ 1 then [dom ^^^ 0x80] else dom :: List.replicate (q - 2) 0 ++ [0x80]

/-- absorbing phase: for every `r`-byte block `P_i`: `S ← f (S ⊕ (P_i ‖ 0^c))` -/
def absorbBlocks (r : Nat) : Nat → Bytes → Bytes → Bytes
  | 0, st, _ => st
  | fuel + 1, st, p =>
    if p.length < r ∨ r = 0 then st
    else absorbBlocks r fuel (f (xorAt st 0 (p.take r))) (p.drop r)

/-- squeezing phase: `Z ← Trunc_r(S)`; while more is needed `S ← f S; Z ← Z ‖ Trunc_r(S)` -/
def squeezeBlocks (r : Nat) : Nat → Bytes → Nat → Bytes
  | 0, _, _ => []
  | fuel + 1, st, n =>
    if n ≤ r then st.take n else st.take r ++ squeezeBlocks r fuel (f st) (n - r)

/-- `SPONGE[f, pad, r](msg ‖ suffix, n)` with a 200-byte state -/
def sponge (r : Nat) (dom : UInt8) (msg : Bytes) (n : Nat) : Bytes :=
  let p := msg ++ padBytes r dom msg.length
  squeezeBlocks f r (n + 1) (absorbBlocks f r (p.length + 1) (List.replicate 200 0) p) n

/-! ## executable Keccak-f[1600] (compact form, as the KECCAK_SMALL code path) -/

open Usual.Gen.C05

@[inline] def rol64 (x : UInt64) (n : Nat) : UInt64 :=
  (x <<< UInt64.ofNat n) ||| (x >>> UInt64.ofNat (64 - n))

def theta (a : Array UInt64) : Array UInt64 :=
  let c : Array UInt64 := ((List.range 5).map fun i =>
    a.getD i 0 ^^^ a.getD (i + 5) 0 ^^^ a.getD (i + 10) 0 ^^^ a.getD (i + 15) 0 ^^^ a.getD (i + 20) 0).toArray
  let d : Array UInt64 := ((List.range 5).map fun i =>
    c.getD ((i + 4) % 5) 0 ^^^ rol64 (c.getD ((i + 1) % 5) 0) 1).toArray
  ((List.range 25).map fun i => a.getD i 0 ^^^ d.getD (i % 5) 0).toArray

/-- `c1 = A[Pi[23]]; for i: c2 = A[Pi[i]]; A[Pi[i]] = rol64(c1, Rho[i]); c1 = c2;` -/
def rhoPi (a : Array UInt64) : Array UInt64 :=
  ((keccakPi.zip keccakRho).foldl (fun (s : Array UInt64 × UInt64) pr =>
      let c2 := s.1.getD pr.1 0
      (s.1.setIfInBounds pr.1 (rol64 s.2 pr.2), c2))
    (a, a.getD (keccakPi.getD 23 0) 0)).1

def chi (a : Array UInt64) : Array UInt64 :=
  ((List.range 25).map fun i =>
    let y := i / 5 * 5
    a.getD i 0 ^^^ (~~~ a.getD (y + (i + 1) % 5) 0 &&& a.getD (y + (i + 2) % 5) 0)).toArray

def round (a : Array UInt64) (rc : UInt64) : Array UInt64 :=
  let b := chi (rhoPi (theta a))
  b.setIfInBounds 0 (b.getD 0 0 ^^^ rc)

def keccakF (a : Array UInt64) : Array UInt64 := keccakRC.foldl round a

def le64 (b : Bytes) : UInt64 := b.reverse.foldl (fun acc x => (acc <<< 8) ||| x.toUInt64) 0

def lanesOfBytes (st : Bytes) : Array UInt64 :=
  ((List.range 25).map fun i => le64 ((st.drop (8 * i)).take 8)).toArray

def bytesOfLane (w : UInt64) : Bytes :=
  (List.range 8).map fun k => (w >>> UInt64.ofNat (8 * k)).toUInt8

def bytesOfLanes (a : Array UInt64) : Bytes :=
  (List.range 25).flatMap fun i => bytesOfLane (a.getD i 0)

/-- Keccak-f[1600] on the byte view -/
def fBytes (st : Bytes) : Bytes := bytesOfLanes (keccakF (lanesOfBytes st))

/-! ## lane interleaving of the 32-bit code path (for the RoundConstants32 table check) -/

/-- even bits of `w` into the low word, odd bits into the high word -/
def interleave (w : UInt64) : UInt32 × UInt32 :=
  let ev := (List.range 32).foldl (fun (acc : UInt32) i =>
    acc ||| (((w >>> UInt64.ofNat (2 * i)) &&& 1).toUInt32 <<< UInt32.ofNat i)) 0
  let od := (List.range 32).foldl (fun (acc : UInt32) i =>
    acc ||| (((w >>> UInt64.ofNat (2 * i + 1)) &&& 1).toUInt32 <<< UInt32.ofNat i)) 0
  (ev, od)

end Usual.C05.Keccak
