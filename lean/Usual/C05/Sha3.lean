import Usual.C05.Keccak
/-! C05: usual/crypto/sha3.c (SHA3-224/256/384/512, SHAKE128/256 on top of the sponge) and
    usual/crypto/keccak_prng.c, parametric in the permutation. -/
namespace Usual.C05.Sha3
open Usual.C05.Keccak

/-- `struct SHA3Context` -/
structure Ctx where
  k : Keccak.Ctx
  padded : Bool
  pad : UInt8
  obytes : Nat

/-- `sha3_*_reset` / `shake*_reset`; `params` = (capacity in bits, output bytes, pad byte)
    as found in sha3.h / sha3.c (`Usual.Gen.C05.*Params`) -/
def reset (params : Nat × Nat × UInt8) : Ctx :=
  { k := (Keccak.init params.1).getD { st := List.replicate 200 0, pos := 0, rbytes := 0 },
    padded := false, pad := params.2.2, obytes := params.2.1 }

variable (f : Bytes → Bytes)

/-- `sha3_update` / `shake_update` -/
def update (c : Ctx) (data : Bytes) : Ctx := { c with k := Keccak.absorb f c.k data }

/-- `if (!ctx->padded) { keccak_pad(&ctx->kctx, &ctx->pad, 1); ctx->padded = 1; }` -/
def padOnce (c : Ctx) : Ctx :=
  if c.padded then c else { c with k := Keccak.pad f c.k [c.pad], padded := true }

/-- `shake_extract(ctx, dst, count)` -/
def extract (c : Ctx) (count : Nat) : Bytes × Ctx :=
  let c1 := padOnce f c
  let r := Keccak.squeeze f c1.k count
  (r.1, { c1 with k := r.2 })

/-- `sha3_final(ctx, dst)` -/
def final (c : Ctx) : Bytes × Ctx := extract f c c.obytes

/-! ## keccak_prng.c -/

structure Prng where
  ctx : Keccak.Ctx
  extracting : Bool
  haveData : Bool

/-- `keccak_prng_init` -/
def prngInit (capacity : Nat) : Option Prng :=
  (Keccak.init capacity).map fun k => { ctx := k, extracting := false, haveData := false }

/-- `keccak_prng_add_data` -/
def prngAddData (p : Prng) (data : Bytes) : Prng :=
  let p1 := if p.extracting then { p with ctx := Keccak.rewind p.ctx, extracting := false } else p
  let p2 := { p1 with ctx := Keccak.absorb f p1.ctx data }
  if !p2.haveData && data.length > 0 then { p2 with haveData := true } else p2

/-- `keccak_prng_extract`: `none` = returned false -/
def prngExtract (p : Prng) (len : Nat) : Option Bytes × Prng :=
  if !p.haveData then (none, p) else
  let p1 := if !p.extracting then { p with ctx := Keccak.pad f p.ctx [0x01], extracting := true } else p
  let r := Keccak.squeeze f p1.ctx len
  (some r.1, { p1 with ctx := r.2 })

end Usual.C05.Sha3
