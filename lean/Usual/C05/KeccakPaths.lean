import Usual.Gen.C05Keccak
import Usual.Gen.C05Tables
/-! C05: the two unrolled code paths of keccak_f as loops over the translated round functions
    (`Usual.Gen.C05.f64Round*`, `f32Round*`: statement-by-statement translations of keccak.c), and the
    lane (de)interleaving of the 32-bit build (`xor_lane` / `extract`). -/
namespace Usual.C05.Keccak
open Usual.Gen.C05

/-- default 64-bit build: `for (i = 0; i < KECCAK_ROUNDS; i += 4) { …four rounds… }` -/
def f64 (s : L25 UInt64) : L25 UInt64 :=
  (List.range (keccakRounds / 4)).foldl (fun s b =>
    let rc := fun k => keccakRC.getD (4 * b + k) 0
    f64Round3 (rc 3) (f64Round2 (rc 2) (f64Round1 (rc 1) (f64Round0 (rc 0) s)))) s

/-- the body of the 32-bit loop for `i = 8*b`: four rounds, eight words of `RoundConstants32` -/
def f32Body (b : Nat) (w : L25 UInt32 × L25 UInt32) : L25 UInt32 × L25 UInt32 :=
  let rc := fun k => keccakRC32.getD (8 * b + k) 0
  let w := f32Round0 (rc 0) (rc 1) w.1 w.2
  let w := f32Round1 (rc 2) (rc 3) w.1 w.2
  let w := f32Round2 (rc 4) (rc 5) w.1 w.2
  f32Round3 (rc 6) (rc 7) w.1 w.2

/-- KECCAK_32BIT build: `for (i = 0; i < KECCAK_ROUNDS*2; i += 8) { …four rounds… }` on
    `state32[2k]` (first component) and `state32[2k+1]` (second component) -/
def f32 (w : L25 UInt32 × L25 UInt32) : L25 UInt32 × L25 UInt32 :=
  (List.range (keccakRounds * 2 / 8)).foldl (fun w b => f32Body b w) w

/-- the 32-bit build's representation of a state: every lane through the network of `xor_lane` -/
def interleaveAll (s : L25 UInt64) : L25 UInt32 × L25 UInt32 :=
  (L25.ofFn fun i => (interleave32 (s.get i)).1, L25.ofFn fun i => (interleave32 (s.get i)).2)

/-- what `extract` reads back from the 32-bit build's state -/
def deinterleaveAll (w : L25 UInt32 × L25 UInt32) : L25 UInt64 :=
  L25.ofFn fun i => deinterleave32 (w.1.get i) (w.2.get i)

end Usual.C05.Keccak
