import Usual.C05.Keccak
/-! C05: Keccak-f[1600] written after FIPS 202 §3.2 on 25 named lanes (lane `x + 5y`), next to
    the compact table-walking form of `Usual.C05.Keccak` (the KECCAK_SMALL code path). -/
namespace Usual.C05.Keccak

/-- 25 lanes, `l(x + 5y)` = lane `A[x, y]` -/
structure L25 (α : Type) where
  l0 : α
  l1 : α
  l2 : α
  l3 : α
  l4 : α
  l5 : α
  l6 : α
  l7 : α
  l8 : α
  l9 : α
  l10 : α
  l11 : α
  l12 : α
  l13 : α
  l14 : α
  l15 : α
  l16 : α
  l17 : α
  l18 : α
  l19 : α
  l20 : α
  l21 : α
  l22 : α
  l23 : α
  l24 : α
deriving Repr, BEq

variable {α : Type}

def L25.get (s : L25 α) : Nat → α
  | 0 => s.l0 | 1 => s.l1 | 2 => s.l2 | 3 => s.l3 | 4 => s.l4
  | 5 => s.l5 | 6 => s.l6 | 7 => s.l7 | 8 => s.l8 | 9 => s.l9
  | 10 => s.l10 | 11 => s.l11 | 12 => s.l12 | 13 => s.l13 | 14 => s.l14
  | 15 => s.l15 | 16 => s.l16 | 17 => s.l17 | 18 => s.l18 | 19 => s.l19
  | 20 => s.l20 | 21 => s.l21 | 22 => s.l22 | 23 => s.l23 | _ => s.l24

def L25.ofFn (f : Nat → α) : L25 α :=
  ⟨f 0, f 1, f 2, f 3, f 4, f 5, f 6, f 7, f 8, f 9, f 10, f 11, f 12, f 13, f 14, f 15, f 16, f 17, f 18,
   f 19, f 20, f 21, f 22, f 23, f 24⟩

def L25.toArray (s : L25 α) : Array α :=
  #[s.l0, s.l1, s.l2, s.l3, s.l4, s.l5, s.l6, s.l7, s.l8, s.l9, s.l10, s.l11, s.l12, s.l13, s.l14, s.l15,
    s.l16, s.l17, s.l18, s.l19, s.l20, s.l21, s.l22, s.l23, s.l24]

def L25.ofArray (a : Array UInt64) : L25 UInt64 := L25.ofFn fun i => a.getD i 0

/-- rho offsets `r[x, y]` of FIPS 202 Table 2 by lane index `x + 5y`
    (`(t+1)(t+2)/2 mod 64` for the `t`-th lane of the walk `(x,y) ← (y, 2x+3y)` from `(1,0)`; lane 0: 0) -/
def rhoOffset : Nat → Nat
  | 0 => 0 | 1 => 1 | 2 => 62 | 3 => 28 | 4 => 27
  | 5 => 36 | 6 => 44 | 7 => 6 | 8 => 55 | 9 => 20
  | 10 => 3 | 11 => 10 | 12 => 43 | 13 => 25 | 14 => 39
  | 15 => 41 | 16 => 45 | 17 => 15 | 18 => 21 | 19 => 8
  | 20 => 18 | 21 => 2 | 22 => 61 | 23 => 56 | _ => 14

@[inline] def rol32 (x : UInt32) (n : Nat) : UInt32 :=
  (x <<< UInt32.ofNat n) ||| (x >>> UInt32.ofNat (32 - n))

/-- rotation of a 64-bit lane by an offset `0 ≤ n < 64` (0: unchanged) -/
@[inline] def rot64 (x : UInt64) (n : Nat) : UInt64 := if n = 0 then x else rol64 x n

/-- rotation of a 32-bit word by `n mod 32` (0: unchanged) -/
@[inline] def rot32 (x : UInt32) (n : Nat) : UInt32 := if n % 32 = 0 then x else rol32 x (n % 32)

/-- what a round needs from a lane: xor, and, complement, rotation towards higher bit indices -/
structure LaneOps (α : Type) where
  xor : α → α → α
  and : α → α → α
  not : α → α
  rot : α → Nat → α

/-- 64-bit lanes -/
def ops64 : LaneOps UInt64 := ⟨(· ^^^ ·), (· &&& ·), (~~~ ·), rot64⟩

/-- a lane as the pair (even-indexed bits, odd-indexed bits) of 32-bit words: a rotation by `2k` rotates
    both words by `k`; a rotation by `2k+1` rotates the odd word by `k+1` into the even place and the
    even word by `k` into the odd place -/
def opsPair : LaneOps (UInt32 × UInt32) :=
  ⟨fun a b => (a.1 ^^^ b.1, a.2 ^^^ b.2), fun a b => (a.1 &&& b.1, a.2 &&& b.2), fun a => (~~~ a.1, ~~~ a.2),
   fun a n => if n % 2 = 0 then (rot32 a.1 (n / 2), rot32 a.2 (n / 2)) else (rot32 a.2 (n / 2 + 1), rot32 a.1 (n / 2))⟩

variable (O : LaneOps α)

/-- θ: `C[x] = ⊕_y A[x,y]`, `D[x] = C[x-1] ⊕ rot(C[x+1], 1)`, `A'[x,y] = A[x,y] ⊕ D[x]` -/
def gTheta (s : L25 α) : L25 α :=
  let c := fun x => O.xor (O.xor (O.xor (O.xor (s.get x) (s.get (x + 5))) (s.get (x + 10))) (s.get (x + 15))) (s.get (x + 20))
  let d := fun x => O.xor (c ((x + 4) % 5)) (O.rot (c ((x + 1) % 5)) 1)
  L25.ofFn fun i => O.xor (s.get i) (d (i % 5))

/-- ρ and π: `B[y, 2x+3y] = rot(A[x,y], r[x,y])`; for the target lane `(X, Y)`: `x = X + 3Y`, `y = X` -/
def gRhoPi (s : L25 α) : L25 α :=
  L25.ofFn fun i =>
    let bx := i % 5; let by_ := i / 5
    let src := (bx + 3 * by_) % 5 + 5 * bx
    O.rot (s.get src) (rhoOffset src)

/-- χ: `A'[x,y] = B[x,y] ⊕ (¬B[x+1,y] ∧ B[x+2,y])` -/
def gChi (s : L25 α) : L25 α :=
  L25.ofFn fun i =>
    let y := i / 5 * 5
    O.xor (s.get i) (O.and (O.not (s.get (y + (i + 1) % 5))) (s.get (y + (i + 2) % 5)))

/-- ι -/
def gIota (rc : α) (s : L25 α) : L25 α := { s with l0 := O.xor s.l0 rc }

/-- one round `Rnd = ι ∘ χ ∘ π ∘ ρ ∘ θ`, for any lane representation -/
def gRound (rc : α) (s : L25 α) : L25 α := gIota O rc (gChi O (gRhoPi O (gTheta O s)))

/-- the round of FIPS 202 on 64-bit lanes -/
def specRound (rc : UInt64) (s : L25 UInt64) : L25 UInt64 := gRound ops64 rc s

/-- Keccak-f[1600]: the rounds with the constants `RC[0..23]` in order -/
def specF (s : L25 UInt64) : L25 UInt64 := Usual.Gen.C05.keccakRC.toList.foldl (fun s rc => specRound rc s) s

end Usual.C05.Keccak
