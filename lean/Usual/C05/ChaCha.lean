import Usual.C05.MDInst
/-! C05: usual/crypto/chacha.c — ChaCha20 (D. J. Bernstein's original layout: 64-bit block
    counter in words 12,13, 64-bit nonce in words 14,15), keystream buffering with `pos`,
    and the stream the standard defines. -/
namespace Usual.C05.ChaCha
open Usual.Gen.C05 Usual.C05.MD

abbrev Bytes := List UInt8

/-! ## block function (executable) -/

/-- one QUARTERROUND on words `a b c d` of `x` -/
def qr (x : Array UInt32) (a b c d : Nat) : Array UInt32 :=
  let r0 := UInt32.ofNat (chachaRot.getD 0 0); let r1 := UInt32.ofNat (chachaRot.getD 1 0)
  let r2 := UInt32.ofNat (chachaRot.getD 2 0); let r3 := UInt32.ofNat (chachaRot.getD 3 0)
  let xa := x.getD a 0; let xb := x.getD b 0; let xc := x.getD c 0; let xd := x.getD d 0
  let xa := xa + xb; let xd := rol32 (xd ^^^ xa) r0
  let xc := xc + xd; let xb := rol32 (xb ^^^ xc) r1
  let xa := xa + xb; let xd := rol32 (xd ^^^ xa) r2
  let xc := xc + xd; let xb := rol32 (xb ^^^ xc) r3
  (((x.setIfInBounds a xa).setIfInBounds b xb).setIfInBounds c xc).setIfInBounds d xd

/-- column round followed by diagonal round -/
def doubleRound (x : Array UInt32) : Array UInt32 :=
  let x := qr x 0 4 8 12; let x := qr x 1 5 9 13; let x := qr x 2 6 10 14; let x := qr x 3 7 11 15
  let x := qr x 0 5 10 15; let x := qr x 1 6 11 12; let x := qr x 2 7 8 13; qr x 3 4 9 14

/-- the 64 output bytes for the input words: `chachaRounds/2` double rounds, add input, little endian -/
def block (input : Array UInt32) : Bytes :=
  let x := (List.range (chachaRounds / 2)).foldl (fun x _ => doubleRound x) input
  (List.range 16).flatMap fun i => bytesLE32 (x.getD i 0 + input.getD i 0)

/-! ## `struct ChaCha` -/

/-- the part of the context `chacha_mix`/`chacha_keystream*` work on, for a fixed key and nonce -/
structure Stream where
  /-- `state[12]`, `state[13]`: low and high half of the block counter -/
  lo : UInt32
  hi : UInt32
  /-- `u.output8`: the current keystream block -/
  out : Bytes
  /-- `ctx->pos`; `CHACHA_BLOCK_SIZE` = exhausted -/
  pos : Nat

/-- block function of a fixed key/nonce as a function of the counter words -/
abbrev BlockFn := UInt32 → UInt32 → Bytes

/-- `chacha_mix`: produce the block for the current counter, `pos = 0`,
    `state[12]++; if (!state[12]) state[13]++;` -/
def mix (bf : BlockFn) (s : Stream) : Stream :=
  let lo' := s.lo + 1
  { lo := lo', hi := if lo' = 0 then s.hi + 1 else s.hi, out := bf s.lo s.hi, pos := 0 }

/-- `chacha_keystream(ctx, stream, bytes)` -/
def keystreamF (bf : BlockFn) : Nat → Stream → Nat → Bytes × Stream
  | 0, s, _ => ([], s)
  | fuel + 1, s, n =>
    if n = 0 then ([], s) else
    let s1 := if s.pos ≥ 64 then mix bf s else s
    let avail := 64 - s1.pos
    let k := if n > avail then avail else n
    let o := (s1.out.drop s1.pos).take k
    let r := keystreamF bf fuel { s1 with pos := s1.pos + k } (n - k)
    (o ++ r.1, r.2)

def keystream (bf : BlockFn) (s : Stream) (n : Nat) : Bytes × Stream := keystreamF bf (n + 1) s n

def xorBytes (a b : Bytes) : Bytes := List.zipWith (· ^^^ ·) a b

/-- `chacha_keystream_xor(ctx, plain, encrypted, bytes)` with the repaired inner loop
    `dst[i] = src[i] ^ ks[ctx->pos + i]` (fixes/F09-chacha-xor-pos.patch) -/
def keystreamXorF (bf : BlockFn) : Nat → Stream → Bytes → Bytes × Stream
  | 0, s, _ => ([], s)
  | fuel + 1, s, src =>
    if src = [] then ([], s) else
    let s1 := if s.pos ≥ 64 then mix bf s else s
    let avail := 64 - s1.pos
    let k := if src.length > avail then avail else src.length
    let o := xorBytes (src.take k) ((s1.out.drop s1.pos).take k)
    let r := keystreamXorF bf fuel { s1 with pos := s1.pos + k } (src.drop k)
    (o ++ r.1, r.2)

def keystreamXor (bf : BlockFn) (s : Stream) (src : Bytes) : Bytes × Stream :=
  keystreamXorF bf (src.length + 1) s src

/-- the loop as it stood before the repair: `dst[i] = src[i] ^ ks[i]` (F9) -/
def keystreamXorOldF (bf : BlockFn) : Nat → Stream → Bytes → Bytes × Stream
  | 0, s, _ => ([], s)
  | fuel + 1, s, src =>
    if src = [] then ([], s) else
    let s1 := if s.pos ≥ 64 then mix bf s else s
    let avail := 64 - s1.pos
    let k := if src.length > avail then avail else src.length
    let o := xorBytes (src.take k) (s1.out.take k)
    let r := keystreamXorOldF bf fuel { s1 with pos := s1.pos + k } (src.drop k)
    (o ++ r.1, r.2)

/-! ## full context: key setup and nonce/seek -/

structure Ctx where
  /-- `state[0..11]`: sigma and key words -/
  key : List UInt32
  /-- `state[14]`, `state[15]` -/
  n0 : UInt32
  n1 : UInt32
  s : Stream

def inputWords (key : List UInt32) (n0 n1 : UInt32) (lo hi : UInt32) : Array UInt32 :=
  (key ++ [lo, hi, n0, n1]).toArray

def Ctx.bf (c : Ctx) : BlockFn := fun lo hi => block (inputWords c.key c.n0 c.n1 lo hi)

/-- `chacha_set_key_256` (32 key bytes); counter and nonce words keep their previous content -/
def setKey256 (c : Ctx) (key : Bytes) : Ctx :=
  { c with key := wordsLE32 (chachaSigma256 ++ key.take 32), s := { c.s with pos := chachaBlock } }

/-- `chacha_set_key_128` (16 key bytes, used twice) -/
def setKey128 (c : Ctx) (key : Bytes) : Ctx :=
  { c with key := wordsLE32 (chachaSigma128 ++ key.take 16 ++ key.take 16),
           s := { c.s with pos := chachaBlock } }

/-- `chacha_set_nonce(ctx, counter_low, counter_high, iv)`; `iv = NULL` keeps the nonce (seek) -/
def setNonce (c : Ctx) (lo hi : UInt32) (iv : Option Bytes) : Ctx :=
  let c1 := match iv with
    | some v => { c with n0 := (wordsLE32 (v.take 4)).getD 0 0, n1 := (wordsLE32 ((v.drop 4).take 4)).getD 0 0 }
    | none => c
  { c1 with s := { c1.s with lo := lo, hi := hi, pos := chachaBlock } }

def empty : Ctx := { key := List.replicate 12 0, n0 := 0, n1 := 0, s := { lo := 0, hi := 0, out := [], pos := 64 } }

/-! ## specification: the ChaCha20 key stream -/

/-- counter words as one 64-bit number -/
def ctrVal (lo hi : UInt32) : Nat := hi.toNat * 2 ^ 32 + lo.toNat

/-- block function as a function of the 64-bit counter -/
def blockAt (bf : BlockFn) (ctr : Nat) : Bytes :=
  bf (UInt32.ofNat (ctr % 2 ^ 32)) (UInt32.ofNat (ctr / 2 ^ 32 % 2 ^ 32))

/-- byte `i` of the key stream that starts at block counter `c0`: block `(c0 + i / 64) mod 2^64`, byte `i mod 64` -/
def streamByte (bf : BlockFn) (c0 : Nat) (i : Nat) : UInt8 :=
  (blockAt bf ((c0 + i / 64) % 2 ^ 64)).getD (i % 64) 0

/-- `n` key stream bytes from absolute offset `off` -/
def streamBytes (bf : BlockFn) (c0 off n : Nat) : Bytes :=
  (List.range n).map fun j => streamByte bf c0 (off + j)

end Usual.C05.ChaCha
