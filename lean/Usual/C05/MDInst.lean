import Usual.C05.MD
import Usual.Gen.C05Tables
/-! C05: the six Merkle–Damgård digests of usual/crypto as instances of `MD.Alg`, with
    executable compression functions written after RFC 1321 / FIPS 180-4 (message schedule
    as a full `W` array; the C code keeps a rolling 16-word window — same function).
    All constants come from `Usual.Gen.C05` (regenerated from the C sources on every run). -/
namespace Usual.C05.MD
open Usual.Gen.C05

/-! ## word helpers -/

@[inline] def rol32 (x : UInt32) (n : UInt32) : UInt32 := (x <<< n) ||| (x >>> (32 - n))
@[inline] def ror32 (x : UInt32) (n : UInt32) : UInt32 := (x >>> n) ||| (x <<< (32 - n))
@[inline] def ror64 (x : UInt64) (n : UInt64) : UInt64 := (x >>> n) ||| (x <<< (64 - n))

def be32 (b0 b1 b2 b3 : UInt8) : UInt32 :=
  (b0.toUInt32 <<< 24) ||| (b1.toUInt32 <<< 16) ||| (b2.toUInt32 <<< 8) ||| b3.toUInt32

def le32 (b0 b1 b2 b3 : UInt8) : UInt32 := be32 b3 b2 b1 b0

/-- big-endian 32-bit words of a byte string (trailing partial word dropped) -/
def wordsBE32 : List UInt8 → List UInt32
  | b0 :: b1 :: b2 :: b3 :: rest => be32 b0 b1 b2 b3 :: wordsBE32 rest
  | _ => []

def wordsLE32 : List UInt8 → List UInt32
  | b0 :: b1 :: b2 :: b3 :: rest => le32 b0 b1 b2 b3 :: wordsLE32 rest
  | _ => []

def be64 (b : List UInt8) : UInt64 := b.foldl (fun acc x => (acc <<< 8) ||| x.toUInt64) 0

def wordsBE64 : List UInt8 → List UInt64
  | b0 :: b1 :: b2 :: b3 :: b4 :: b5 :: b6 :: b7 :: rest =>
    be64 [b0, b1, b2, b3, b4, b5, b6, b7] :: wordsBE64 rest
  | _ => []

def bytesBE32 (w : UInt32) : List UInt8 :=
  [(w >>> 24).toUInt8, (w >>> 16).toUInt8, (w >>> 8).toUInt8, w.toUInt8]

def bytesLE32 (w : UInt32) : List UInt8 := (bytesBE32 w).reverse

def bytesBE64 (w : UInt64) : List UInt8 :=
  [(w >>> 56).toUInt8, (w >>> 48).toUInt8, (w >>> 40).toUInt8, (w >>> 32).toUInt8,
   (w >>> 24).toUInt8, (w >>> 16).toUInt8, (w >>> 8).toUInt8, w.toUInt8]

/-! ## MD5 (RFC 1321) -/

def md5F (fn : Nat) (x y z : UInt32) : UInt32 :=
  match fn with
  | 0 => (x &&& y) ||| (~~~x &&& z)
  | 1 => (x &&& z) ||| (y &&& ~~~z)
  | 2 => x ^^^ y ^^^ z
  | _ => y ^^^ (x ||| ~~~z)

/-- one `OP(fn, r0, r1, r2, r3, k, s, T)`: `r0 = r1 + rol32(r0 + fn(r1, r2, r3) + X[k] + T, s)` -/
def md5Op (x : Array UInt32) (r : Array UInt32)
    (op : Nat × Nat × Nat × Nat × Nat × Nat × Nat × UInt32) : Array UInt32 :=
  let (fn, r0, r1, r2, r3, k, s, t) := op
  let v := r.getD r1 0 + rol32 (r.getD r0 0 + md5F fn (r.getD r1 0) (r.getD r2 0) (r.getD r3 0)
            + x.getD k 0 + t) (UInt32.ofNat s)
  r.setIfInBounds r0 v

def md5Compress (st : Array UInt32) (blk : List UInt8) : Array UInt32 :=
  let x := (wordsLE32 blk).toArray
  let r := md5Ops.foldl (md5Op x) st
  Array.zipWith (· + ·) st r

def md5 : Alg (Array UInt32) where
  B := md5Block
  lenBytes := 8
  bigEndian := false
  init := md5Init
  compress := md5Compress
  out := fun st => (st.toList.flatMap bytesLE32).take md5Digest

/-! ## SHA-1 (FIPS 180-4 §6.1) -/

def sha1Sched (w16 : List UInt32) : Array UInt32 :=
  (List.range 64).foldl (fun (w : Array UInt32) i =>
    let t := i + 16
    w.push (rol32 (w.getD (t - 3) 0 ^^^ w.getD (t - 8) 0 ^^^ w.getD (t - 14) 0 ^^^ w.getD (t - 16) 0) 1))
    w16.toArray

def sha1F (q : Nat) (b c d : UInt32) : UInt32 :=
  match q with
  | 0 => d ^^^ (b &&& (c ^^^ d))
  | 1 => b ^^^ c ^^^ d
  | 2 => (b &&& c) ||| (b &&& d) ||| (c &&& d)
  | _ => b ^^^ c ^^^ d

def sha1Round (w : Array UInt32) (v : Array UInt32) (t : Nat) : Array UInt32 :=
  let a := v.getD 0 0; let b := v.getD 1 0; let c := v.getD 2 0; let d := v.getD 3 0; let e := v.getD 4 0
  let tmp := rol32 a 5 + sha1F (t / 20) b c d + e + w.getD t 0 + sha1K.getD (t / 20) 0
  #[tmp, a, rol32 b 30, c, d]

def sha1Compress (st : Array UInt32) (blk : List UInt8) : Array UInt32 :=
  let w := sha1Sched (wordsBE32 blk)
  let r := (List.range 80).foldl (sha1Round w) st
  Array.zipWith (· + ·) st r

def sha1 : Alg (Array UInt32) where
  B := sha1Block
  lenBytes := 8
  bigEndian := true
  init := sha1Init
  compress := sha1Compress
  out := fun st => (st.toList.flatMap bytesBE32).take sha1Digest

/-! ## SHA-224 / SHA-256 (FIPS 180-4 §6.2) -/

def bsig0 (x : UInt32) : UInt32 := ror32 x 2 ^^^ ror32 x 13 ^^^ ror32 x 22
def bsig1 (x : UInt32) : UInt32 := ror32 x 6 ^^^ ror32 x 11 ^^^ ror32 x 25
def ssig0 (x : UInt32) : UInt32 := ror32 x 7 ^^^ ror32 x 18 ^^^ (x >>> 3)
def ssig1 (x : UInt32) : UInt32 := ror32 x 17 ^^^ ror32 x 19 ^^^ (x >>> 10)

def sha256Sched (w16 : List UInt32) : Array UInt32 :=
  (List.range 48).foldl (fun (w : Array UInt32) i =>
    let t := i + 16
    w.push (ssig1 (w.getD (t - 2) 0) + w.getD (t - 7) 0 + ssig0 (w.getD (t - 15) 0) + w.getD (t - 16) 0))
    w16.toArray

def sha256Round (w : Array UInt32) (v : Array UInt32) (t : Nat) : Array UInt32 :=
  let a := v.getD 0 0; let b := v.getD 1 0; let c := v.getD 2 0; let d := v.getD 3 0
  let e := v.getD 4 0; let f := v.getD 5 0; let g := v.getD 6 0; let h := v.getD 7 0
  let t1 := h + bsig1 e + ((e &&& f) ^^^ (~~~e &&& g)) + K256.getD t 0 + w.getD t 0
  let t2 := bsig0 a + ((a &&& b) ^^^ (a &&& c) ^^^ (b &&& c))
  #[t1 + t2, a, b, c, d + t1, e, f, g]

def sha256Compress (st : Array UInt32) (blk : List UInt8) : Array UInt32 :=
  let w := sha256Sched (wordsBE32 blk)
  let r := (List.range 64).foldl (sha256Round w) st
  Array.zipWith (· + ·) st r

def sha256 : Alg (Array UInt32) where
  B := sha256_block_size
  lenBytes := 8
  bigEndian := true
  init := sha256Init
  compress := sha256Compress
  out := fun st => (st.toList.flatMap bytesBE32).take sha256_digest_length

def sha224 : Alg (Array UInt32) where
  B := sha224_block_size
  lenBytes := 8
  bigEndian := true
  init := sha224Init
  compress := sha256Compress
  out := fun st => (st.toList.flatMap bytesBE32).take sha224_digest_length

/-! ## SHA-384 / SHA-512 (FIPS 180-4 §6.4) -/

def bSig0 (x : UInt64) : UInt64 := ror64 x 28 ^^^ ror64 x 34 ^^^ ror64 x 39
def bSig1 (x : UInt64) : UInt64 := ror64 x 14 ^^^ ror64 x 18 ^^^ ror64 x 41
def sSig0 (x : UInt64) : UInt64 := ror64 x 1 ^^^ ror64 x 8 ^^^ (x >>> 7)
def sSig1 (x : UInt64) : UInt64 := ror64 x 19 ^^^ ror64 x 61 ^^^ (x >>> 6)

def sha512Sched (w16 : List UInt64) : Array UInt64 :=
  (List.range 64).foldl (fun (w : Array UInt64) i =>
    let t := i + 16
    w.push (sSig1 (w.getD (t - 2) 0) + w.getD (t - 7) 0 + sSig0 (w.getD (t - 15) 0) + w.getD (t - 16) 0))
    w16.toArray

def sha512Round (w : Array UInt64) (v : Array UInt64) (t : Nat) : Array UInt64 :=
  let a := v.getD 0 0; let b := v.getD 1 0; let c := v.getD 2 0; let d := v.getD 3 0
  let e := v.getD 4 0; let f := v.getD 5 0; let g := v.getD 6 0; let h := v.getD 7 0
  let t1 := h + bSig1 e + ((e &&& f) ^^^ (~~~e &&& g)) + K512.getD t 0 + w.getD t 0
  let t2 := bSig0 a + ((a &&& b) ^^^ (a &&& c) ^^^ (b &&& c))
  #[t1 + t2, a, b, c, d + t1, e, f, g]

def sha512Compress (st : Array UInt64) (blk : List UInt8) : Array UInt64 :=
  let w := sha512Sched (wordsBE64 blk)
  let r := (List.range 80).foldl (sha512Round w) st
  Array.zipWith (· + ·) st r

def sha512 : Alg (Array UInt64) where
  B := sha512_block_size
  lenBytes := 16
  bigEndian := true
  init := sha512Init
  compress := sha512Compress
  out := fun st => (st.toList.flatMap bytesBE64).take sha512_digest_length

def sha384 : Alg (Array UInt64) where
  B := sha384_block_size
  lenBytes := 16
  bigEndian := true
  init := sha384Init
  compress := sha512Compress
  out := fun st => (st.toList.flatMap bytesBE64).take sha384_digest_length

end Usual.C05.MD
