import Usual.C10.CxPool
import Usual.C03.Build
/-!
# C10 — JSON builder and parser under allocation faults, on top of C03 (builder) and C09 (pool)

A `JsonContext` is the heap of value cells of `Usual.C03.Heap` (proved in C03: size = iteration
count, single attachment, render/parse round trip) living in a cx pool (`Usual.C09.Pool`).
Every `JsonValue`, key string, `struct CBTree` and tree node is a `cx_alloc` from that pool; the
pool asks its parent — the fault-injecting allocator — only when a segment is full.  How many
bytes each allocation takes is layout-dependent, so the sizes are parameters (`JSizes`) and every
theorem holds for all of them.

`opAllocs` lists, in the code's order, the pool allocations one public builder call makes in
the current heap (none when the call is refused before it allocates: wrong type, value already
attached, invalid UTF-8, out-of-range number …).  `jsStepA` makes them one after the other; if
one fails the call returns NULL / false and the heap is *not touched* (the pool may have grown:
those segments stay with the context until `json_free_context`); if all succeed the call does
exactly what `Usual.C03.Heap.step` (repairs F2 and — when `cyc` — F38 present) says.
-/
namespace Usual.C10
open Usual.C09 (Pool)
open Usual.C03 (Heap Op Ret Scalar Bytes JVal)

structure JCtx where
  heap : Heap
  pool : Pool

/-- byte counts of the pool allocations (layout-dependent: parameters of every theorem) -/
structure JSizes where
  ctx : Nat                    -- struct JsonContext
  scalar : Scalar → Nat        -- sizeof(struct JsonValue) (+ strlen + 1 for strings)
  list : Nat                   -- JsonValue + LIST_EXTRA
  dict : Nat                   -- JsonValue + DICT_EXTRA
  cbtree : Nat                 -- struct CBTree of a dict
  key : Bytes → Nat            -- the key's JSON string value
  node : Nat                   -- crit-bit tree node

/-- one `cx_alloc(ctx->pool, n)`; only the pool changes -/
def jalloc (c : JCtx) (n : Nat) (s : AS) : Option JCtx × AS :=
  match poolAllocA c.pool n s with
  | (none, s1) => (none, s1)
  | (some r, s1) => (some { c with pool := r.1 }, s1)

/-- a run of pool allocations; `false` = one of them returned NULL (the run stops there) -/
def runAllocs : List Nat → JCtx → AS → (Bool × JCtx) × AS
  | [], c, s => ((true, c), s)
  | n :: rest, c, s =>
    match jalloc c n s with
    | (none, s1) => ((false, c), s1)
    | (some c1, s1) => runAllocs rest c1 s1

/-- `json_new_*` for a scalar: `mk_value` is reached only when the value is acceptable -/
def scalarAllocs (sz : JSizes) (h : Heap) (sc : Scalar) : List Nat :=
  if (h.newScalar sc).2.isSome then [sz.scalar sc] else []

/-- `json_dict_put`: the key string once the arguments passed the checks, then the tree node
    when `cbtree_insert` has to link a new node (non-empty tree, key not present) -/
def putAllocs (sz : JSizes) (cyc : Bool) (h : Heap) (d : Option Nat) (k : Bytes) (v : Option Nat) : List Nat :=
  match v, h.get v with
  | some vi, some vc =>
    match d, h.get d with
    | some di, some ⟨.dict t _, _⟩ =>
      if vc.attached then []
      else if cyc && h.selfOrAncestor vi (h.cells.length + 1) di then []
      else if !Usual.C03.validString k then []
      else sz.key k ::
        (if k.length > Heap.jsonMaxKey then []
         else match Usual.C06.insert t ⟨k, vi⟩ with
           | none => []
           | some _ => if t.isSome then [sz.node] else [])
    | _, _ => []
  | _, _ => []

/-- the pool allocations of one builder call, in the code's order -/
def opAllocs (sz : JSizes) (cyc : Bool) (h : Heap) : Op → List Nat
  | .new sc => scalarAllocs sz h sc
  | .newList => [sz.list]
  | .newDict => [sz.dict, sz.cbtree]                     -- mk_value, then cbtree_create
  | .append _ _ => []
  | .appendS l sc => if h.hasContext l then scalarAllocs sz h sc else []
  | .put d k v => putAllocs sz cyc h d k v
  | .putS d k sc =>
    if h.hasContext d then
      scalarAllocs sz h sc ++ putAllocs sz cyc (h.newScalar sc).1 (some d) k (h.newScalar sc).2
    else []
  | .seal _ => []

/-- what a call answers when an allocation failed: NULL from the constructors, false otherwise -/
def failRet : Op → Ret
  | .new _ => .ptr none
  | .newList => .ptr none
  | .newDict => .ptr none
  | _ => .flag false

/-- one public builder call under faults: `(context', return value, an allocation failed)` -/
def jsStepA (sz : JSizes) (cyc : Bool) (c : JCtx) (op : Op) (s : AS) : (JCtx × Ret × Bool) × AS :=
  match runAllocs (opAllocs sz cyc c.heap op) c s with
  | ((false, c1), s1) => ((c1, failRet op, true), s1)
  | ((true, c1), s1) =>
    (({ c1 with heap := (c.heap.step true cyc op).1 }, (c.heap.step true cyc op).2, false), s1)

/-- `json_parse` of a text whose value is `v`: the parser allocates every value, key and tree
    node from the pool (`sizes`, in its own order — data- and layout-dependent, a parameter);
    NULL when one of them fails, and then no value of this parse is reachable; otherwise the heap
    gains exactly the cells of `v` (C03's `loadOps`, proved there to build `v` at id `base`) -/
def jsParseA (cyc : Bool) (sizes : List Nat) (v : JVal) (c : JCtx) (s : AS) :
    (JCtx × Option Nat × Bool) × AS :=
  match runAllocs sizes c s with
  | ((false, c1), s1) => ((c1, none, true), s1)
  | ((true, c1), s1) =>
    (({ c1 with heap := (c.heap.run true cyc (Usual.C03.loadOps v c.heap.cells.length)).1 },
      some c.heap.cells.length, false), s1)

/-- `json_new_context(cx, initial_mem)`: the pool, then the context struct from the pool; the
    pool is destroyed again when that fails -/
def jsNewA (sz : JSizes) (initial : Nat) (s : AS) : Option JCtx × AS :=
  match poolNewA initial 8 s with
  | (none, s1) => (none, s1)
  | (some p, s1) =>
    match poolAllocA p sz.ctx s1 with
    | (none, s2) => (none, poolDestroyA p s2)
    | (some r, s2) => (some { heap := {}, pool := r.1 }, s2)

/-- `json_free_context` -/
def jsFreeA (c : JCtx) (s : AS) : AS := poolDestroyA c.pool s

end Usual.C10
