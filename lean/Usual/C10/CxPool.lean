import Usual.C10.Alloc
import Usual.C09.MemPool
/-!
# C10 — cx pool and mempool under allocation faults, on top of the C09 models

`Usual.C09.Pool` / `Usual.C09.MemPool` (property C09, proved there) describe `cx_new_pool`,
`pool_alloc`, `pool_realloc`, `pool_free`, `pool_destroy` and `mempool_alloc`,
`mempool_destroy` with the parent allocator as an oracle: `…Req` says whether (and with which
size) the parent is asked, and the function takes the parent's answer `pa : Option Nat`.
Here the oracle is the fault-injecting allocator of C10: a request made by the C09 model is a
request `allocS`, its answer the address of the block obtained (`addrOf id`, regions 2^40 apart
as in `Usual.C09.World`) or NULL.  Nothing of the C09 models is copied.

`regcompA` is the allocation skeleton of `regcomp` (usual/regex.c): the parse makes a
data-dependent sequence of `mempool_alloc` calls (abstract: any list of sizes), any of them may
fail (REG_ESPACE) and a syntax error may end the parse early; both error paths go through
`regfree` = `mempool_destroy`.
-/
namespace Usual.C10
open Usual.C09 (Pool MemPool)

/-- address of the region behind block `id` -/
def addrOf (id : Id) : Nat := (id + 1) * 2 ^ 40
/-- block behind a region address -/
def idOf (a : Nat) : Id := a / 2 ^ 40 - 1

/-- the parent allocator seen by a C09 model: asked only when the model says so -/
def askParent (req : Option Nat) (s : AS) : Option Nat × AS :=
  match req with
  | none => (none, s)
  | some _ =>
    match allocS s with
    | (none, s1) => (none, s1)
    | (some b, s1) => (some (addrOf b), s1)

/-! ## cx pool -/

/-- blocks of the parent allocator a pool holds: one per segment -/
def poolOwned (p : Pool) : List Id := p.segs.map fun sg => idOf sg.base

/-- `cx_new_pool(parent, initial, align)` -/
def poolNewA (initial align : Nat) (s : AS) : Option Pool × AS :=
  match askParent (some (Usual.C09.newPoolReq initial)) s with
  | (pa, s1) => (Usual.C09.newPool initial align pa, s1)

/-- `cx_alloc(pool, len)` -/
def poolAllocA (p : Pool) (len : Nat) (s : AS) : Option (Pool × Nat) × AS :=
  match askParent (Usual.C09.cxAllocReq p len) s with
  | (pa, s1) => (Usual.C09.cxAlloc p len pa, s1)

/-- `cx_realloc(pool, ptr, len)` for `ptr ≠ NULL`, `len ≠ 0` -/
def poolReallocA (p : Pool) (ptr len : Nat) (s : AS) : Option (Pool × Nat × Nat) × AS :=
  match askParent (Usual.C09.reallocReq p ptr len) s with
  | (pa, s1) => (Usual.C09.realloc p ptr len pa, s1)

/-- `cx_destroy(pool)`: the regions `pool_destroy` hands to `cx_free(parent, …)` -/
def poolDestroyA (p : Pool) (s : AS) : AS :=
  freeAllS ((Usual.C09.destroy p).map fun r => idOf r.1) s

/-! ## mempool -/

def mpOwned (mp : MemPool) : List Id := mp.segs.map fun sg => idOf sg.base

/-- `mempool_alloc(&pool, size)` (the parent is libc `calloc`) -/
def mpAllocA (mp : MemPool) (size : Nat) (s : AS) : Option (MemPool × Nat) × AS :=
  match askParent (Usual.C09.mpAllocReq mp size) s with
  | (pa, s1) => (Usual.C09.mpAlloc mp size pa, s1)

/-- `mempool_destroy(&pool)` -/
def mpDestroyA (mp : MemPool) (s : AS) : AS :=
  freeAllS ((Usual.C09.mpDestroy mp).map fun r => idOf r.1) s

/-! ## regcomp / regfree -/

/-- a run of `mempool_alloc` calls made by the regex parser; on the first failure the caller
    (`regcomp`, label `failed:`) calls `regfree`, which destroys the pool -/
def rxAllocs : List Nat → MemPool → AS → Option MemPool × AS
  | [], mp, s => (some mp, s)
  | n :: rest, mp, s =>
    match mpAllocA mp n s with
    | (none, s1) => (none, mpDestroyA mp s1)
    | (some r, s1) => rxAllocs rest r.1 s1

/-- `regcomp`: the `RegexInt` first, then whatever the pattern needs (`sizes`); `syntaxErr` =
    the parser ends with an error code other than REG_ESPACE (then `regfree` as well).
    `none` = an error code was returned and `rx` is cleared. -/
def regcompA (rxiSize : Nat) (sizes : List Nat) (syntaxErr : Bool) (s : AS) : Option MemPool × AS :=
  match rxAllocs (rxiSize :: sizes) { segs := [] } s with
  | (none, s1) => (none, s1)
  | (some mp, s1) => if syntaxErr then (none, mpDestroyA mp s1) else (some mp, s1)

/-- `regfree` -/
def regfreeA (mp : MemPool) (s : AS) : AS := mpDestroyA mp s

end Usual.C10
