import Usual.C10.Alloc
import Usual.C06.Pools
/-!
# C10 — crit-bit tree, strpool and mdict with their allocations

The crit-bit tree of `Usual.C06` with the block id of every internal node (`new_node`) made
explicit.  `NT.erase` forgets the ids and gives the C06 tree, for which the refinement to a
finite map is proved (property C06); `UsualProofs/C10/Tree.lean` shows that the operations here
erase to the C06 operations, so "what the structure contains" is the C06 notion.

Every `…A` function performs the allocations of the C function of the same name in the code's
order and rolls back as the code does.  The user object of an entry (`Entry.obj`) is the id of
the block that holds it (`struct PStr`, `struct MDictElem`) where the object is allocated by the
module, and a plain number for the bare tree family.
-/
namespace Usual.C10
open Usual.C06

inductive NT where
  | leaf (e : Entry)
  | node (id : Id) (b : Nat) (l r : NT)
deriving Repr, DecidableEq

def NT.erase : NT → T
  | .leaf e => .leaf e
  | .node _ b l r => .node b l.erase r.erase

/-- blocks of the internal nodes, in `destroy_node` order (child 0, child 1, the node) -/
def NT.nodeIds : NT → List Id
  | .leaf _ => []
  | .node id _ l r => l.nodeIds ++ r.nodeIds ++ [id]

def NT.entries : NT → List Entry
  | .leaf e => [e]
  | .node _ _ l r => l.entries ++ r.entries

/-- `insert_at` after `new_node` returned block `id` -/
def NT.insertAt (t : NT) (n : Nat) (e : Entry) (id : Id) : NT :=
  match t with
  | .node i b l r =>
    if b < n then
      (if getBit e.key b then .node i b l (r.insertAt n e id) else .node i b (l.insertAt n e id) r)
    else
      (if getBit e.key n then .node id n t (.leaf e) else .node id n (.leaf e) t)
  | .leaf _ =>
      (if getBit e.key n then .node id n t (.leaf e) else .node id n (.leaf e) t)

/-- `cbtree_delete` below the root.  `some (e, none)`: the tree was the single leaf `e`;
    `some (e, some (j, t'))`: internal node block `j` was dropped and `t'` remains. -/
def NT.delete : NT → Key → Option (Entry × Option (Id × NT))
  | .leaf x, k => if keyMatches x k then some (x, none) else none
  | .node i b l r, k =>
    if getBit k b then
      match r.delete k with
      | none => none
      | some (e, none) => some (e, some (i, l))
      | some (e, some (j, r')) => some (e, some (j, .node i b l r'))
    else
      match l.delete k with
      | none => none
      | some (e, none) => some (e, some (i, r))
      | some (e, some (j, l')) => some (e, some (j, .node i b l' r))

/-! ## `struct CBTree` -/

structure CB where
  hdr : Id
  root : Option NT := none
deriving Repr, DecidableEq

def CB.eroot (t : CB) : Option T := t.root.map NT.erase

def CB.entries (t : CB) : List Entry :=
  match t.root with | none => [] | some r => r.entries

def CB.nodeIds (t : CB) : List Id :=
  match t.root with | none => [] | some r => r.nodeIds

def CB.owned (t : CB) : List Id := t.hdr :: t.nodeIds

/-- `cbtree_create` -/
def cbCreateA (s : AS) : Option CB × AS :=
  match allocS s with
  | (none, s1) => (none, s1)
  | (some h, s1) => (some { hdr := h }, s1)

/-- `cbtree_insert`: `(ok, tree')`.  `ok = false` is "refused" (same zero-padded key) or
    "allocation of the node failed"; in both cases the tree is returned unchanged. -/
def cbInsertA (t : CB) (e : Entry) (s : AS) : (Bool × CB) × AS :=
  match t.root with
  | none => ((true, { t with root := some (.leaf e) }), s)           -- insert_first: no allocation
  | some r =>
    match findCrit e.key (r.erase.rawLookup e.key).key with
    | none => ((false, t), s)                                         -- SAME_KEY
    | some n =>
      match allocS s with                                              -- new_node
      | (none, s1) => ((false, t), s1)
      | (some id, s1) => ((true, { t with root := some (r.insertAt n e id) }), s1)

/-- `cbtree_delete` (the object itself belongs to the caller / free callback) -/
def cbDeleteA (t : CB) (k : Key) (s : AS) : (Option Entry × CB) × AS :=
  match t.root with
  | none => ((none, t), s)
  | some r =>
    match r.delete k with
    | none => ((none, t), s)
    | some (e, none) => ((some e, { t with root := none }), s)
    | some (e, some (j, r')) => ((some e, { t with root := some r' }), freeS j s)

/-- `cbtree_destroy` (objects are released by the callback of the owning module) -/
def cbDestroyA (t : CB) (s : AS) : AS := freeS t.hdr (freeAllS t.nodeIds s)

/-! ## StrPool -/

structure SP where
  hdr : Id
  tree : CB
  count : Int := 0
  refs : List (Id × Nat) := []       -- block of each live `struct PStr` ↦ refcnt
deriving Repr, DecidableEq

def SP.owned (p : SP) : List Id := p.hdr :: (p.tree.owned ++ p.refs.map (·.1))

/-- `strpool_create`: pool struct, then the tree; the struct is released when the tree fails -/
def spCreateA (s : AS) : Option SP × AS :=
  match allocS s with
  | (none, s1) => (none, s1)
  | (some h, s1) =>
    match cbCreateA s1 with
    | (none, s2) => (none, freeS h s2)
    | (some t, s2) => (some { hdr := h, tree := t }, s2)

/-- `strpool_get`: `none` = NULL -/
def spGetA (p : SP) (k : Key) (s : AS) : (Option Id × SP) × AS :=
  match lookup p.tree.eroot k with
  | some e =>
    let n := (refOf p.refs e.obj).getD 0
    ((some e.obj, { p with refs := setRef p.refs e.obj (n + 1) }), s)
  | none =>
    match allocS s with                                   -- the PStr
    | (none, s1) => ((none, p), s1)
    | (some b, s1) =>
      match cbInsertA p.tree ⟨k, b⟩ s1 with
      | ((false, _), s2) => ((none, p), freeS b s2)        -- insert refused/failed: PStr released
      | ((true, t'), s2) =>
        ((some b, { p with tree := t', count := p.count + 1, refs := p.refs ++ [(b, 1)] }), s2)

def SP.strOf (p : SP) (id : Id) : Option Key :=
  (p.tree.entries.find? (·.obj == id)).map (·.key)

/-- `strpool_decref` of a live handle; returns whether the string was released -/
def spDecrefA (p : SP) (id : Id) (s : AS) : (Bool × SP) × AS :=
  match refOf p.refs id with
  | none => ((false, p), s)
  | some n =>
    if n > 1 then ((false, { p with refs := setRef p.refs id (n - 1) }), s)
    else
      match p.strOf id with
      | none => ((false, p), s)
      | some k =>
        match cbDeleteA p.tree k s with
        | ((_, t'), s1) =>
          ((true, { p with tree := t', count := p.count - 1,
                           refs := p.refs.eraseP (·.1 == id) }), freeS id s1)

/-- `strpool_free`: every string (walk order), the tree, the struct -/
def spFreeA (p : SP) (s : AS) : AS :=
  freeS p.hdr (cbDestroyA p.tree (freeAllS (p.tree.entries.map (·.obj)) s))

/-! ## MDict -/

structure MEl where
  el : Id                 -- `struct MDictElem`
  kblk : Id               -- key buffer
  vblk : Option Id        -- value buffer (`none` = NULL value)
  val : Val
deriving Repr, DecidableEq

structure MD where
  hdr : Id
  tree : CB
  els : List MEl := []
deriving Repr, DecidableEq

def MEl.blocks (m : MEl) : List Id :=
  m.kblk :: (match m.vblk with | none => [m.el] | some v => [v, m.el])

def MD.owned (d : MD) : List Id := d.hdr :: (d.tree.owned ++ d.els.flatMap MEl.blocks)

def MD.elOf (d : MD) (id : Id) : Option MEl := d.els.find? (·.el == id)

/-- key/value pairs in walk order -/
def MD.pairs (d : MD) : List (Key × Val) :=
  d.tree.entries.map fun e => (e.key, match d.elOf e.obj with | some m => m.val | none => none)

def mdNewA (s : AS) : Option MD × AS :=
  match allocS s with
  | (none, s1) => (none, s1)
  | (some h, s1) =>
    match cbCreateA s1 with
    | (none, s2) => (none, freeS h s2)
    | (some t, s2) => (some { hdr := h, tree := t }, s2)

/-- replace the value of the (first) element with id `id` -/
def updVal (id : Id) (vblk : Option Id) (v : Val) : List MEl → List MEl
  | [] => []
  | m :: ms => if m.el == id then { m with vblk := vblk, val := v } :: ms else m :: updVal id vblk v ms

def MD.setVal (d : MD) (id : Id) (vblk : Option Id) (v : Val) : MD :=
  { d with els := updVal id vblk v d.els }

def MD.oldVblk (d : MD) (id : Id) : Option Id :=
  match d.elOf id with | some m => m.vblk | none => none

/-- the copy of the value made first by `mdict_put_str`: `none` = allocation failed,
    `some none` = NULL value (no copy), `some (some b)` = copy in block `b` -/
def mdValCopyA (v : Val) (s : AS) : Option (Option Id) × AS :=
  match v with
  | none => (some none, s)
  | some _ =>
    match allocS s with
    | (none, s1) => (none, s1)
    | (some b, s1) => (some (some b), s1)

/-- `mdict_put_str` (with F10): value copy, lookup, then key copy, element, tree insert;
    on a later failure everything obtained in this call is released (`el`, `kptr`, `vptr`). -/
def mdPutA (d : MD) (k : Key) (v : Val) (s : AS) : (Bool × MD) × AS :=
  match mdValCopyA v s with
  | (none, s1) => ((false, d), s1)
  | (some vb, s1) =>
    match lookup d.tree.eroot k with
    | some e => ((true, d.setVal e.obj vb v), freeOptS (d.oldVblk e.obj) s1)
    | none =>
      match allocS s1 with                                   -- kptr
      | (none, s2) => ((false, d), freeOptS vb s2)
      | (some kb, s2) =>
        match allocS s2 with                                 -- el
        | (none, s3) => ((false, d), freeOptS vb (freeS kb s3))
        | (some eb, s3) =>
          match cbInsertA d.tree ⟨k, eb⟩ s3 with
          | ((false, _), s4) => ((false, d), freeOptS vb (freeS kb (freeS eb s4)))
          | ((true, t'), s4) =>
            ((true, { d with tree := t', els := d.els ++ [⟨eb, kb, vb, v⟩] }), s4)

/-- the blocks of element `id`: key buffer, value buffer, the element -/
def blocksOfL (els : List MEl) (id : Id) : List Id :=
  match els.find? (·.el == id) with | some m => m.blocks | none => []

def MD.blocksOf (d : MD) (id : Id) : List Id := blocksOfL d.els id

/-- `mdict_del_key`: the free callback releases key, value, element; then the node goes -/
def mdDelA (d : MD) (k : Key) (s : AS) : (Bool × MD) × AS :=
  match lookup d.tree.eroot k with
  | none => ((false, d), s)
  | some e =>
    match cbDeleteA d.tree k (freeAllS (d.blocksOf e.obj) s) with
    | ((_, t'), s1) => ((true, { d with tree := t', els := d.els.eraseP (·.el == e.obj) }), s1)

/-- `mdict_free` -/
def mdFreeA (d : MD) (s : AS) : AS :=
  freeS d.hdr (cbDestroyA d.tree (freeAllS (d.els.flatMap MEl.blocks) s))

/-- `urldec_str`: the buffer is requested first; a malformed `%XX` releases it again.
    `none` = NULL (allocation failure or malformed text). -/
def urldecStrA (src : List UInt8) (s : AS) : Option (Id × List UInt8 × List UInt8) × AS :=
  match allocS s with
  | (none, s1) => (none, s1)
  | (some b, s1) =>
    match urldecStr src with
    | none => (none, freeS b s1)
    | some (d, rest) => (some (b, d, rest), s1)

/-- the optional `=value` part of one pair: `none` = failure, else value block, value, rest -/
def urlValueA (r : List UInt8) (s : AS) : Option (Option Id × Val × List UInt8) × AS :=
  if r.head? = some 61 then
    match urldecStrA r.tail s with
    | (none, s2) => (none, s2)
    | (some (vb, v, r2), s2) => (some (some vb, some v, r2), s2)
  else (some (none, none, r), s)

/-- one round of the loop of `mdict_urldecode`: decode key (and value), then replace the value
    of an existing element or link a new one.  `none` = this pair failed (allocation or syntax);
    then everything obtained in this round was released again. -/
def mdUrlPairA (d : MD) (src : List UInt8) (s : AS) : Option (MD × List UInt8) × AS :=
  match urldecStrA src s with                                            -- key
  | (none, s1) => (none, s1)
  | (some (kb, k, r), s1) =>
    match urlValueA r s1 with
    | (none, s2) => (none, freeS kb s2)                                  -- fail: k released
    | (some (vb, v, r2), s2) =>
      let r3 := if r2.head? = some 38 then r2.tail else r2
      match lookup d.tree.eroot k with
      | some e =>
        -- old value released, new installed, decoded key released
        (some (d.setVal e.obj vb v, r3), freeS kb (freeOptS (d.oldVblk e.obj) s2))
      | none =>
        match allocS s2 with                                             -- el
        | (none, s3) => (none, freeOptS vb (freeS kb s3))
        | (some eb, s3) =>
          match cbInsertA d.tree ⟨k, eb⟩ s3 with
          | ((false, _), s4) => (none, freeS eb (freeOptS vb (freeS kb s4)))
          | ((true, t'), s4) =>
            (some ({ d with tree := t', els := d.els ++ [⟨eb, kb, vb, v⟩] }, r3), s4)

/-- `mdict_urldecode`.  Result: `(ok, dict')`.  Pairs completed before a failure stay in the
    dict (as in the code); the failing pair leaves no trace. -/
def mdUrldecodeA (fuel : Nat) (d : MD) (src : List UInt8) (s : AS) : (Bool × MD) × AS :=
  match fuel with
  | 0 => ((true, d), s)
  | fuel + 1 =>
    if src.isEmpty then ((true, d), s) else
    match mdUrlPairA d src s with
    | (none, s1) => ((false, d), s1)
    | (some (d1, rest), s1) => mdUrldecodeA fuel d1 rest s1

end Usual.C10
