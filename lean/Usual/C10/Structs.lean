import Usual.C10.Alloc
/-!
# C10 — hashtab, heap, strlist, mbuf, slab, cx tree, digest/HMAC contexts, pg_parse_array
with their allocations

Each `…A` function performs the allocations of the C function of the same name in the code's
order and rolls back as the code does.  What is *not* modelled is stated at each structure:
slot positions inside a hash table segment, the order of elements inside the heap array and the
bytes of digests are properties C15/C05; here the state carries what decides *when the code
allocates* and *what the structure contains*.
-/
namespace Usual.C10

/-! ## hashtab-impl.h

Slot level, because `hashtab_copy` walks the old segments in slot order and that order decides
which keys end up in which segment of the new chain (and so when the next segment is
allocated).  A slot is `(key, value)`, value `0` = empty. -/

/-- one `struct HashTab` segment -/
structure HSeg where
  id : Id
  size : Nat
  used : Nat := 0
  tab : List (Nat × Nat) := []          -- `size` slots
deriving Repr, DecidableEq

/-- `MAX_USED(h)` -/
def HSeg.maxUsed (h : HSeg) : Nat := h.size * 75 / 100

/-- `NEXT_POS` -/
def HSeg.next (h : HSeg) (pos : Nat) : Nat := (pos * 5 + 1) % h.size

def HSeg.slot (h : HSeg) (pos : Nat) : Nat × Nat := h.tab.getD pos (0, 0)

/-- stored items in slot order -/
def HSeg.items (h : HSeg) : List (Nat × Nat) := h.tab.filter (·.2 != 0)

/-- a chain of segments, head first -/
abbrev HT := List HSeg

def HT.owned (h : HT) : List Id := h.map (·.id)

/-- the probe loop of `hashtab_lookup` in one segment: `(some pos, _)` = key found at `pos`,
    `(none, pos)` = stopped at the empty slot `pos` -/
def HSeg.probe (h : HSeg) (key : Nat) : Nat → Nat → Option Nat × Nat
  | 0, pos => (none, pos)
  | fuel + 1, pos =>
    let s := h.slot pos
    if s.2 == 0 then (none, pos)
    else if s.1 == key then (some pos, pos)
    else h.probe key fuel (h.next pos)

def HSeg.find (h : HSeg) (key : Nat) : Option Nat × Nat := h.probe key (h.size + 1) (key % h.size)

def HT.find (h : HT) (key : Nat) : Option Nat :=
  match h with
  | [] => none
  | seg :: rest =>
    match seg.find key with
    | (some pos, _) => some (seg.slot pos).2
    | (none, _) => HT.find rest key

def HT.allItems (h : HT) : List (Nat × Nat) := h.flatMap (·.items)

/-- `hashtab_create` -/
def htCreateA (size : Nat) (s : AS) : Option HSeg × AS :=
  match allocS s with
  | (none, s1) => (none, s1)
  | (some b, s1) => (some { id := b, size := size, tab := List.replicate size (0, 0) }, s1)

def HSeg.put (h : HSeg) (pos key val : Nat) : HSeg :=
  { h with used := h.used + 1, tab := h.tab.set pos (key, val) }

/-- the insert part of `hashtab_lookup(h, key, true, arg)` once the key was not found, followed
    by the caller's `*slot = val`: always in the LAST segment of the chain, at the empty slot
    where its probe ended; a full last segment gets a successor first.
    `none` = NULL (allocation of the new segment failed; nothing changed). -/
def htInsertLast (key val : Nat) : HT → AS → (Option Unit × HT) × AS
  | [], s => ((none, []), s)                              -- no segment: not reachable from the API
  | [seg], s =>
    if seg.used ≥ seg.maxUsed then
      match htCreateA seg.size s with
      | (none, s1) => ((none, [seg]), s1)
      | (some n, s1) => ((some (), [seg, n.put (key % n.size) key val]), s1)
    else
      ((some (), [seg.put (seg.find key).2 key val]), s)
  | seg :: seg2 :: rest, s =>
    match htInsertLast key val (seg2 :: rest) s with
    | ((r, t), s1) => ((r, seg :: t), s1)

/-- `hashtab_lookup(h, key, true, arg)` + store, for a comparison callback that accepts every
    value with the same key: `none` = NULL, `some v` = value now stored under the key -/
def htPutA (h : HT) (key val : Nat) (s : AS) : (Option Nat × HT) × AS :=
  match h.find key with
  | some v => ((some v, h), s)
  | none =>
    match htInsertLast key val h s with
    | ((none, h'), s1) => ((none, h'), s1)
    | ((some _, h'), s1) => ((some val, h'), s1)

/-- `_hashtab_slot_can_move` -/
def HSeg.canMoveLoop (h : HSeg) (kpos src : Nat) : Nat → Nat → Bool
  | 0, _ => true
  | fuel + 1, pos =>
    if pos == src then true
    else if pos == kpos then false
    else h.canMoveLoop kpos src fuel (h.next pos)

def HSeg.canMove (h : HSeg) (dst src : Nat) : Bool :=
  let kpos := (h.slot src).1 % h.size
  if kpos == src then false
  else if kpos == dst then true
  else h.canMoveLoop kpos src (h.size + 1) (h.next dst)

/-- inner `for` of `hashtab_delete`: first movable slot after `dst` in probe order -/
def HSeg.scanMove (h : HSeg) (dst : Nat) : Nat → Nat → Option Nat
  | 0, _ => none
  | fuel + 1, pos =>
    if (h.slot pos).2 == 0 then none
    else if h.canMove dst pos then some pos
    else h.scanMove dst fuel (h.next pos)

/-- the compaction loop of `hashtab_delete` starting at the slot being vacated -/
def HSeg.compact (h : HSeg) : Nat → Nat → HSeg
  | 0, dst => { h with tab := h.tab.set dst (0, 0), used := h.used - 1 }
  | fuel + 1, dst =>
    match h.scanMove dst (h.size + 1) (h.next dst) with
    | some pos => HSeg.compact { h with tab := h.tab.set dst (h.slot pos) } fuel pos
    | none => { h with tab := h.tab.set dst (0, 0), used := h.used - 1 }

/-- `hashtab_delete` -/
def htDelete (key : Nat) : HT → HT
  | [] => []
  | seg :: rest =>
    match seg.find key with
    | (some pos, _) => seg.compact (seg.size + 1) pos :: rest
    | (none, _) => seg :: htDelete key rest

def htDestroyA (h : HT) (s : AS) : AS := freeAllS (h.map (·.id)) s

/-- the copy loop of `hashtab_copy`: insert every item into the new chain (`arg = NULL`:
    always a new slot).  `none` = an insert failed. -/
def htCopyLoop : List (Nat × Nat) → HT → AS → Option HT × AS
  | [], n, s => (some n, s)
  | (k, v) :: rest, n, s =>
    match htInsertLast k v n s with
    | ((none, n'), s1) => (none, htDestroyA n' s1)       -- err: hashtab_destroy(h_new)
    | ((some _, n'), s1) => htCopyLoop rest n' s1

/-- `hashtab_copy` (with F11: the result of `hashtab_create` is checked) -/
def htCopyA (h : HT) (newsize : Nat) (s : AS) : Option HT × AS :=
  match htCreateA newsize s with
  | (none, s1) => (none, s1)
  | (some n, s1) => htCopyLoop h.allItems [n] s1

/-- outcome of the UNCHANGED `hashtab_copy` (before fix F11): it uses the result of
    `hashtab_create` without a check, so with at least one item to copy the first
    `hashtab_lookup(h_new, …)` dereferences NULL -/
inductive CopyOut where
  | crash
  | res (r : Option HT)
deriving Repr, DecidableEq

def htCopyUnfixedA (h : HT) (newsize : Nat) (s : AS) : CopyOut × AS :=
  match htCreateA newsize s with
  | (none, s1) => if h.allItems.isEmpty then (.res none, s1) else (.crash, s1)
  | (some n, s1) => match htCopyLoop h.allItems [n] s1 with
    | (r, s2) => (.res r, s2)

/-! ## heap.c -/

structure HP where
  hdr : Id
  data : Option Id := none
  allocated : Nat := 0
  used : Nat := 0
  elems : List Nat := []        -- the stored objects (order inside the array is C15's business)
deriving Repr, DecidableEq

def HP.owned (h : HP) : List Id :=
  h.hdr :: (match h.data with | none => [] | some d => [d])

def hpCreateA (s : AS) : Option HP × AS :=
  match allocS s with
  | (none, s1) => (none, s1)
  | (some b, s1) => (some { hdr := b }, s1)

/-- `heap_reserve` -/
def hpReserveA (h : HP) (extra : Nat) (s : AS) : (Bool × HP) × AS :=
  if h.used + extra < h.allocated then ((true, h), s) else
  let n0 := h.allocated * 2
  let n1 := if n0 < 32 then 32 else n0
  let n2 := if n1 < h.used + extra then h.used + extra else n1
  match reallocOptS h.data s with
  | (none, s1) => ((false, h), s1)
  | (some d, s1) => ((true, { h with data := some d, allocated := n2 }), s1)

/-- `heap_push` -/
def hpPushA (h : HP) (x : Nat) (s : AS) : (Bool × HP) × AS :=
  if h.used ≥ h.allocated then
    match hpReserveA h 1 s with
    | ((false, h'), s1) => ((false, h'), s1)
    | ((true, h'), s1) => ((true, { h' with used := h'.used + 1, elems := x :: h'.elems }), s1)
  else ((true, { h with used := h.used + 1, elems := x :: h.elems }), s)

def listMin : List Nat → Option Nat
  | [] => none
  | x :: xs => match listMin xs with
    | none => some x
    | some m => some (if x ≤ m then x else m)

/-- `heap_pop` for the order "smaller number is better" -/
def hpPop (h : HP) : Option Nat × HP :=
  match listMin h.elems with
  | none => (none, h)
  | some m => (some m, { h with used := h.used - 1, elems := h.elems.erase m })

def hpDestroyA (h : HP) (s : AS) : AS := freeS h.hdr (freeOptS h.data s)

/-! ## StrList (string.c) -/

structure SItem where
  item : Id
  str : Option (Id × List UInt8)
deriving Repr, DecidableEq

structure SL where
  hdr : Id
  items : List SItem := []
deriving Repr, DecidableEq

def SItem.blocks (i : SItem) : List Id :=
  i.item :: (match i.str with | none => [] | some p => [p.1])

def SL.owned (l : SL) : List Id := l.hdr :: l.items.flatMap SItem.blocks

def SL.values (l : SL) : List (Option (List UInt8)) := l.items.map fun i => i.str.map (·.2)

def slNewA (s : AS) : Option SL × AS :=
  match allocS s with
  | (none, s1) => (none, s1)
  | (some b, s1) => (some { hdr := b }, s1)

/-- `strlist_append_ref` -/
def slAppendRefA (l : SL) (str : Option (Id × List UInt8)) (s : AS) : (Bool × SL) × AS :=
  match allocS s with
  | (none, s1) => ((false, l), s1)
  | (some b, s1) => ((true, { l with items := l.items ++ [⟨b, str⟩] }), s1)

/-- `strlist_append`: copy of the string first, then the item; the copy is released again when
    the item cannot be had -/
def slAppendA (l : SL) (str : Option (List UInt8)) (s : AS) : (Bool × SL) × AS :=
  match str with
  | none => slAppendRefA l none s
  | some bytes =>
    match allocS s with                                   -- cx_strdup
    | (none, s1) => ((false, l), s1)
    | (some nb, s1) =>
      match slAppendRefA l (some (nb, bytes)) s1 with
      | ((false, l'), s2) => ((false, l'), freeS nb s2)
      | ((true, l'), s2) => ((true, l'), s2)

/-- `strlist_pop` followed by the caller releasing the string it received -/
def slPopA (l : SL) (s : AS) : (Option (Option (List UInt8)) × SL) × AS :=
  match l.items with
  | [] => ((none, l), s)
  | i :: rest =>
    ((some (i.str.map (·.2)), { l with items := rest }),
      freeOptS (i.str.map (·.1)) (freeS i.item s))

def slFreeA (l : SL) (s : AS) : AS := freeS l.hdr (freeAllS (l.items.flatMap SItem.blocks) s)

/-! ## pg_parse_array (pgutil.c): the allocation skeleton over the list of element values -/

/-- `parse_value` for an element that is NULL (`none`) or a string -/
def pgValueA (l : SL) (v : Option (List UInt8)) (s : AS) : (Bool × SL) × AS :=
  match v with
  | none => slAppendRefA l none s
  | some bytes =>
    match allocS s with                                   -- str = cx_alloc(len + 1)
    | (none, s1) => ((false, l), s1)
    | (some b, s1) =>
      match slAppendRefA l (some (b, bytes)) s1 with
      | ((false, l'), s2) => ((false, l'), freeS b s2)
      | ((true, l'), s2) => ((true, l'), s2)

def pgLoopA : List (Option (List UInt8)) → SL → AS → Option SL × AS
  | [], l, s => (some l, s)
  | v :: rest, l, s =>
    match pgValueA l v s with
    | ((false, l'), s1) => (none, slFreeA l' s1)          -- failed: strlist_free(lst)
    | ((true, l'), s1) => pgLoopA rest l' s1

/-- `pg_parse_array` on a well-formed array text with these element values -/
def pgParseA (vals : List (Option (List UInt8))) (s : AS) : Option SL × AS :=
  match slNewA s with
  | (none, s1) => (none, s1)
  | (some l, s1) => pgLoopA vals l s1

/-! ## mbuf.c: growth of a dynamic buffer (libc `realloc`) -/

structure MB where
  data : Option Id := none
  allocLen : Nat := 0
  bytes : List UInt8 := []          -- written content; `write_pos = bytes.length`
deriving Repr, DecidableEq

def MB.owned (m : MB) : List Id := match m.data with | none => [] | some d => [d]

/-- the doubling loop of `mbuf_make_room` -/
def growTo (fuel cur need : Nat) : Nat :=
  match fuel with
  | 0 => cur
  | fuel + 1 => if cur < need then growTo fuel (cur * 2) need else cur

/-- `mbuf_make_room` -/
def mbMakeRoomA (m : MB) (len : Nat) (s : AS) : (Bool × MB) × AS :=
  if m.bytes.length + len ≤ m.allocLen then ((true, m), s) else
  let start := if m.allocLen = 0 then 128 else m.allocLen
  let na := growTo 64 start (m.bytes.length + len)
  match reallocOptS m.data s with
  | (none, s1) => ((false, m), s1)
  | (some d, s1) => ((true, { m with data := some d, allocLen := na }), s1)

/-- `mbuf_write` -/
def mbWriteA (m : MB) (b : List UInt8) (s : AS) : (Bool × MB) × AS :=
  match mbMakeRoomA m b.length s with
  | ((false, m'), s1) => ((false, m'), s1)
  | ((true, m'), s1) => ((true, { m' with bytes := m'.bytes ++ b }), s1)

def mbFreeA (m : MB) (s : AS) : AS := freeOptS m.data s

/-! ## slab.c -/

structure SB where
  hdr : Id
  finalSize : Nat
  total : Nat := 0
  free : Nat := 0
  frags : List Id := []
deriving Repr, DecidableEq

def SB.owned (b : SB) : List Id := b.hdr :: b.frags

/-- `init_slab` size rule for `align = 0`: `ALIGN(obj_size)`, at least `sizeof(struct List)` -/
def slabFinalSize (objSize : Nat) : Nat :=
  let a := (objSize + 7) / 8 * 8
  if a < 16 then 16 else a

def sbCreateA (objSize : Nat) (s : AS) : Option SB × AS :=
  match allocS s with
  | (none, s1) => (none, s1)
  | (some b, s1) => (some { hdr := b, finalSize := slabFinalSize objSize }, s1)

/-- objects added by one `grow` -/
def SB.growCount (b : SB) : Nat :=
  let c0 := b.total
  let c1 := if c0 < 50 then 16 * 1024 / b.finalSize else c0
  if c1 < 50 then 50 else c1

/-- `slab_alloc`: `false` = NULL -/
def sbAllocA (b : SB) (s : AS) : (Bool × SB) × AS :=
  if b.free > 0 then ((true, { b with free := b.free - 1 }), s) else
  match allocS s with                                     -- grow
  | (none, s1) => ((false, b), s1)
  | (some f, s1) =>
    let c := b.growCount
    ((true, { b with total := b.total + c, free := c - 1, frags := b.frags ++ [f] }), s1)

def sbFree (b : SB) : SB := { b with free := b.free + 1 }

def sbDestroyA (b : SB) (s : AS) : AS := freeS b.hdr (freeAllS b.frags s)

/-! ## cx tree allocator (cxextra.c), one level of sub-trees -/

structure CT where
  hdr : Id
  items : List Id := []
  subs : List (Id × List Id) := []       -- sub-tree struct ↦ its items
deriving Repr, DecidableEq

def CT.owned (t : CT) : List Id :=
  t.hdr :: (t.items ++ t.subs.flatMap fun p => p.1 :: p.2)

def ctNewA (s : AS) : Option CT × AS :=
  match allocS s with
  | (none, s1) => (none, s1)
  | (some b, s1) => (some { hdr := b }, s1)

/-- `cx_new_tree(parent tree)`: struct from the real allocator, registered at the parent -/
def ctNewSubA (t : CT) (s : AS) : (Option Id × CT) × AS :=
  match allocS s with
  | (none, s1) => ((none, t), s1)
  | (some b, s1) => ((some b, { t with subs := t.subs ++ [(b, [])] }), s1)

/-- apply `f` to the item list of the first sub-tree with struct block `sub` -/
def modSub (sub : Id) (f : List Id → List Id) : List (Id × List Id) → List (Id × List Id)
  | [] => []
  | p :: ps => if p.1 == sub then (p.1, f p.2) :: ps else p :: modSub sub f ps

def addToSub (subs : List (Id × List Id)) (sub blk : Id) : List (Id × List Id) :=
  modSub sub (· ++ [blk]) subs

def replInSub (subs : List (Id × List Id)) (sub old new : Id) : List (Id × List Id) :=
  modSub sub (fun l => l.erase old ++ [new]) subs

def delInSub (subs : List (Id × List Id)) (sub blk : Id) : List (Id × List Id) :=
  modSub sub (·.erase blk) subs

/-- `tree_alloc` in the top tree (`sub = none`) or in a sub-tree -/
def ctAllocA (t : CT) (sub : Option Id) (s : AS) : (Option Id × CT) × AS :=
  match allocS s with
  | (none, s1) => ((none, t), s1)
  | (some b, s1) =>
    match sub with
    | none => ((some b, { t with items := t.items ++ [b] }), s1)
    | some sid => ((some b, { t with subs := addToSub t.subs sid b }), s1)

/-- `tree_realloc`: unlink, realloc, link the new block — or the old one again on failure -/
def ctReallocA (t : CT) (sub : Option Id) (blk : Id) (s : AS) : (Option Id × CT) × AS :=
  match reallocS blk s with
  | (none, s1) => ((none, t), s1)
  | (some b, s1) =>
    match sub with
    | none => ((some b, { t with items := t.items.erase blk ++ [b] }), s1)
    | some sid => ((some b, { t with subs := replInSub t.subs sid blk b }), s1)

def ctFreeA (t : CT) (sub : Option Id) (blk : Id) (s : AS) : CT × AS :=
  match sub with
  | none => ({ t with items := t.items.erase blk }, freeS blk s)
  | some sid => ({ t with subs := delInSub t.subs sid blk }, freeS blk s)

/-- `cx_destroy` of a sub-tree -/
def ctDestroySubA (t : CT) (sid : Id) (s : AS) : CT × AS :=
  match t.subs.find? (·.1 == sid) with
  | none => (t, s)
  | some p => ({ t with subs := t.subs.eraseP (·.1 == sid) }, freeS p.1 (freeAllS p.2 s))

/-- `cx_destroy` of the top tree: items, sub-trees, the struct -/
def ctDestroyA (t : CT) (s : AS) : AS :=
  freeS t.hdr (freeAllS (t.subs.flatMap fun p => p.2 ++ [p.1]) (freeAllS t.items s))

/-! ## digest / HMAC contexts -/

structure HM where
  hash : Id
  ctx : Id
deriving Repr, DecidableEq

def HM.owned (h : HM) : List Id := [h.ctx, h.hash]

/-- `digest_new` -/
def dgNewA (s : AS) : Option Id × AS := allocS s

/-- `hmac_new`: digest context, then the HMAC struct; the digest is released when the struct
    cannot be had -/
def hmNewA (s : AS) : Option HM × AS :=
  match dgNewA s with
  | (none, s1) => (none, s1)
  | (some h, s1) =>
    match allocS s1 with
    | (none, s2) => (none, freeS h s2)
    | (some c, s2) => (some ⟨h, c⟩, s2)

def hmFreeA (h : HM) (s : AS) : AS := freeS h.ctx (freeS h.hash s)

end Usual.C10
