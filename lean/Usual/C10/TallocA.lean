import Usual.C10.Alloc
import Usual.C01.Talloc
/-!
# C10 — talloc under allocation faults, on top of the C01/C19 model

`Usual.C01.step` (proved in C01 / C19 for the repaired code `Cfg.fixed`) takes the answer of the
underlying `cx_alloc` / `cx_realloc` as an oracle flag `fail` on the operations that allocate
(`talloc_size`/`talloc_named_const`/`talloc_from_cx`, `talloc_reference`, `talloc_realloc`,
`talloc_set_memlimit`, `talloc_enable_null_tracking`).  Here the oracle is the fault-injecting
allocator: the underlying allocator is consulted exactly when its answer matters to the C01
model, the answer is `allocS` / `reallocS`, and every chunk of the C01 heap (user objects,
`TRef`s, `.memlimit` chunks) is backed by one block.  Nothing of the C01 model is copied.
-/
namespace Usual.C10
open Usual.C01 (State Op Cfg Dtor)

/-- a talloc call (the `Op` of C01 without its oracle flag) -/
inductive TaCall where
  | alloc (parent : Option Nat) (size : Nat) (fromCx : Bool)
  | free (o : Nat)
  | freeChildren (o : Nat)
  | reference (ctx : Option Nat) (o : Nat)
  | unlink (ctx : Option Nat) (o : Nat)
  | steal (newp : Option Nat) (o : Nat)
  | reparent (oldp newp : Option Nat) (o : Nat)
  | realloc (parent : Option Nat) (o : Nat) (size : Nat)
  | setDtor (o : Nat) (d : Dtor)
  | setLimit (o : Nat) (max : Nat)
  | nullOn
  | nullOff

def TaCall.toOp (c : TaCall) (fail : Bool) : Op :=
  match c with
  | .alloc p n f => .alloc p n f fail
  | .free o => .free o
  | .freeChildren o => .freeChildren o
  | .reference c o => .reference c o fail
  | .unlink c o => .unlink c o
  | .steal p o => .steal p o
  | .reparent a b o => .reparent a b o
  | .realloc p o n => .realloc p o n fail
  | .setDtor o d => .setDtor o d
  | .setLimit o m => .setLimit o m fail
  | .nullOn => .nullOn fail
  | .nullOff => .nullOff

/-- talloc state plus the block of the underlying allocator behind every live chunk -/
structure TaSt where
  t : State := {}
  blk : List (Nat × Id) := []

def TaSt.owned (x : TaSt) : List Id := x.blk.map (·.2)

/-- the underlying allocator is consulted exactly when its answer makes a difference -/
def taNeeds (t : State) (c : TaCall) : Bool :=
  decide (Usual.C01.step Cfg.fixed t (c.toOp false) ≠ Usual.C01.step Cfg.fixed t (c.toOp true))

/-- book-keeping after the C01 step: blocks of chunks that are gone are released, the new chunk
    (its id is the old heap length) gets the new block -/
def taFinish (x : TaSt) (t' : State) (newBlk : Option Id) (s : AS) : TaSt × AS :=
  let kept := x.blk.filter fun e => t'.live e.1
  let gone := x.blk.filter fun e => !t'.live e.1
  let s1 := freeAllS (gone.map (·.2)) s
  match newBlk with
  | none => ({ t := t', blk := kept }, s1)
  | some b =>
    if t'.live x.t.heap.length then ({ t := t', blk := (x.t.heap.length, b) :: kept }, s1)
    else ({ t := t', blk := kept }, freeS b s1)

def blkOf (blk : List (Nat × Id)) (o : Nat) : Option Id := (blk.find? (·.1 == o)).map (·.2)

def setBlk (o : Nat) (b : Id) : List (Nat × Id) → List (Nat × Id)
  | [] => []
  | e :: es => if e.1 == o then (o, b) :: es else e :: setBlk o b es

/-- a call that asks the underlying allocator for a new block -/
def taAllocBranch (x : TaSt) (c : TaCall) (s : AS) : (TaSt × Int × Bool) × AS :=
  match allocS s with
  | (none, s1) =>
    let r := Usual.C01.step Cfg.fixed x.t (c.toOp true)
    let f := taFinish x r.1 none s1
    ((f.1, r.2, true), f.2)
  | (some b, s1) =>
    let r := Usual.C01.step Cfg.fixed x.t (c.toOp false)
    let f := taFinish x r.1 (some b) s1
    ((f.1, r.2, false), f.2)

/-- `talloc_realloc` of chunk `o`: `cx_realloc` of its block -/
def taReallocBranch (x : TaSt) (c : TaCall) (o : Nat) (s : AS) : (TaSt × Int × Bool) × AS :=
  match blkOf x.blk o with
  | some b =>
    (match reallocS b s with
     | (none, s1) =>
       let r := Usual.C01.step Cfg.fixed x.t (c.toOp true)
       let f := taFinish x r.1 none s1
       ((f.1, r.2, true), f.2)
     | (some nb, s1) =>
       let r := Usual.C01.step Cfg.fixed x.t (c.toOp false)
       let f := taFinish { x with blk := setBlk o nb x.blk } r.1 none s1
       ((f.1, r.2, false), f.2))
  | none =>                               -- no block on record: not reachable from `{}`
    let r := Usual.C01.step Cfg.fixed x.t (c.toOp true)
    let f := taFinish x r.1 none s
    ((f.1, r.2, true), f.2)

/-- one talloc call under faults: `(state', return code of C01.step, an allocation failed)` -/
def taStepA (x : TaSt) (c : TaCall) (s : AS) : (TaSt × Int × Bool) × AS :=
  if !taNeeds x.t c then
    let r := Usual.C01.step Cfg.fixed x.t (c.toOp false)
    let f := taFinish x r.1 none s
    ((f.1, r.2, false), f.2)
  else
    match c with
    | .realloc _ o _ => taReallocBranch x c o s
    | _ => taAllocBranch x c s

/-- a history of calls -/
def taRun : List TaCall → TaSt → AS → TaSt × AS
  | [], x, s => (x, s)
  | c :: cs, x, s => taRun cs (taStepA x c s).1.1 (taStepA x c s).2

end Usual.C10
