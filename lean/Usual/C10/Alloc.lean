import Usual.Common
/-!
# C10 — allocator state with injected failures (explicit state passing)

`AS` is the state of the allocator every modelled operation threads through:

* `nextId`  the id the next successful request returns (ids stand for block addresses),
* `live`    blocks currently allocated,
* `count`   number of requests (alloc + realloc) made so far,
* `fails`   the request numbers (1-based) that are made to fail.

`fails = [k]` is the single-fault setting of the property, `fails = [k₁, k₂]` a double fault;
the theorems in `UsualProofs/Props/C10.lean` hold for *every* `fails`, so single, double and
arbitrary fault schedules are all covered by the same statements.

Plain functions returning pairs — no monad stack — so that theorems unfold them with
`simp`/`split` only.  The harness' allocator (`harness/C10/h.c`: a `CxMem` and the `--wrap`ped
libc entry points share one counter) implements exactly `allocS`/`reallocS`/`freeS`: a request
is counted whether or not it fails, a failed `realloc` leaves the old block allocated, a
successful one always moves (old id released, new id returned), `free` releases.
-/
namespace Usual.C10

abbrev Id := Nat

structure AS where
  nextId : Nat := 0
  live : List Id := []
  count : Nat := 0
  fails : List Nat := []
deriving Repr, DecidableEq

/-- will the next request fail? -/
def AS.nextFails (s : AS) : Bool := s.fails.contains (s.count + 1)

/-- `cx_alloc` / `malloc` / `calloc` / `strdup`: request number `count + 1` -/
def allocS (s : AS) : Option Id × AS :=
  if s.nextFails then (none, { s with count := s.count + 1 })
  else (some s.nextId,
        { s with count := s.count + 1, nextId := s.nextId + 1, live := s.nextId :: s.live })

/-- `cx_free` / `free` -/
def freeS (b : Id) (s : AS) : AS := { s with live := s.live.erase b }

/-- `free` of a possibly-NULL pointer -/
def freeOptS (b : Option Id) (s : AS) : AS :=
  match b with
  | none => s
  | some b => freeS b s

/-- `cx_realloc` / `realloc` of an existing block: on failure the old block stays allocated -/
def reallocS (b : Id) (s : AS) : Option Id × AS :=
  if s.nextFails then (none, { s with count := s.count + 1 })
  else (some s.nextId,
        { s with count := s.count + 1, nextId := s.nextId + 1,
                 live := s.nextId :: s.live.erase b })

/-- `realloc(NULL, n)` is `malloc(n)` -/
def reallocOptS (b : Option Id) (s : AS) : Option Id × AS :=
  match b with
  | none => allocS s
  | some b => reallocS b s

/-- free a list of blocks, in order -/
def freeAllS : List Id → AS → AS
  | [], s => s
  | b :: bs, s => freeAllS bs (freeS b s)

/-- number of injected failures that actually fired so far -/
def AS.fired (s : AS) : Nat := (s.fails.eraseDups.filter (fun k => 1 ≤ k ∧ k ≤ s.count)).length

end Usual.C10
