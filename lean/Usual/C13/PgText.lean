import Usual.C13.PgQuote
/-!
# C13: the text the quoting functions are expected to produce (buffer-free description)
Used to state `fits_iff` ("returns true ⇔ the needed length fits") and as the middle step of the
round-trip theorems: model output = this text, lexer (this text) = input.
-/
namespace Usual.C13

/-- inside of a string constant: quotes doubled; backslashes doubled in `E''` mode -/
def litBody (ext : Bool) : Bytes → Bytes
  | [] => []
  | c :: cs =>
    if c = cQ then cQ :: cQ :: litBody ext cs
    else if c = cBS ∧ ext then cBS :: cBS :: litBody ext cs
    else c :: litBody ext cs

/-- `'…'`, or `E'…'` when the input contains a backslash -/
def litText (s : Bytes) : Bytes :=
  if cBS ∈ s then cE :: cQ :: (litBody true s ++ [cQ]) else cQ :: (litBody false s ++ [cQ])

/-- bytes needed in the destination (text + NUL) -/
def litNeeded (s : Bytes) : Nat := (litText s).length + 1

/-- inside of a delimited identifier: double quotes doubled -/
def identBody : Bytes → Bytes
  | [] => []
  | c :: cs => if c = cDQ then cDQ :: cDQ :: identBody cs else c :: identBody cs

/-- may be written without quotes: `[a-z_][a-z0-9_]*` and not reserved -/
def bareOk (s : Bytes) : Bool := idStart (s.headD 0) ∧ s.all idBody ∧ !(isReserved s)

def identText (s : Bytes) : Bytes := if bareOk s then s else cDQ :: (identBody s ++ [cDQ])
def identNeeded (s : Bytes) : Nat := (identText s).length + 1

/-- schema and name parts of a possibly qualified name (default schema `public`) -/
def fqParts (s : Bytes) : Bytes × Bytes :=
  match splitDot s with
  | some (a, b) => (a, b)
  | none => (cPublic, s)

def fqText (s : Bytes) : Bytes := identText (fqParts s).1 ++ cDot :: identText (fqParts s).2
def fqNeeded (s : Bytes) : Nat := (fqText s).length + 1

end Usual.C13
