import Usual.Gen.C13Kw
/-!
# C13 model: `pg_quote_literal`, `pg_quote_ident`, `pg_quote_fqident`, `pg_is_reserved_word`
(usual/pgutil.c, with the repairs F07 applied; the unrepaired `pg_quote_ident` is kept as
`quoteIdentAtOld` for the counterexample theorem).

Bytes are `Nat`s.  The destination is a `Dst`: the buffer contents (a list of exactly `dstlen`
cells, initially `0xAA` as in the harness) and the log of **every index the code stores to**,
in-range or not: a store outside the buffer leaves `buf` unchanged but is still logged, so
"never writes outside the destination" is the statement `∀ i ∈ idx, i < dstlen`.
Pointers `dst`, `end` are offsets from `_dst`; `src` is the remaining input (the C string
without its terminator, hence `[]` ⇔ `*src == 0`).
-/
namespace Usual.C13

abbrev Bytes := List Nat

def cQ : Nat := 39        -- '
def cDQ : Nat := 34       -- "
def cBS : Nat := 92       -- \
def cE : Nat := 69        -- E
def cDot : Nat := 46      -- .
def cFill : Nat := 0xAA   -- initial content of destination cells (harness uses the same)

/-- destination buffer + log of stored indices -/
structure Dst where
  buf : Bytes
  idx : List Nat
deriving Repr, DecidableEq

def Dst.new (n : Nat) : Dst := ⟨List.replicate n cFill, []⟩

/-- `dst[i] = b` -/
def Dst.put (d : Dst) (i b : Nat) : Dst := ⟨d.buf.set i b, i :: d.idx⟩

/-- the C string stored at offset `base` of a buffer: bytes up to the first NUL
    (or up to the end of the buffer when there is none — then `terminated` is false) -/
def cstrAt (buf : Bytes) (base : Nat) : Bytes := (buf.drop base).takeWhile (· ≠ 0)
def cstr (buf : Bytes) : Bytes := cstrAt buf 0
def terminated (buf : Bytes) : Bool := buf.contains 0

/-! ## keyword lookup (gperf) -/
open Usual.Gen.C13Kw in
/-- `pg_keyword_lookup_hash` -/
def kwHash (str : Bytes) : Nat :=
  let len := str.length
  let h := hashSteps.foldl
    (fun h mp => if mp.1 ≤ len then h + assoValues.getD (str.getD mp.2 0) 0 else h) len
  h + assoValues.getD (str.getD (len - 1) 0) 0

open Usual.Gen.C13Kw in
/-- `pg_keyword_lookup_real` (`*str == *s && !strcmp(str+1, s+1)` is equality of C strings) -/
def kwLookup (str : Bytes) : Option Bytes :=
  let len := str.length
  if len ≤ maxWordLength ∧ minWordLength ≤ len then
    let key := kwHash str
    if key ≤ maxHashValue then
      match wordlist.getD key none with
      | some s => if str = s then some s else none
      | none => none
    else none
  else none

/-- `pg_is_reserved_word` -/
def isReserved (str : Bytes) : Bool := (kwLookup str).isSome

/-! ## pg_quote_literal -/

/-- outcome of the copy loop -/
inductive LoopOut where
  | retry (d : Dst)                              -- `goto retry_ext`
  | done (rest : Bytes) (pos : Nat) (d : Dst)    -- loop left with `src = rest`, `dst = pos`
deriving Repr

/-- `while (*src && dst < end) { … }` of pg_quote_literal; `ext = !stdquote` -/
def litLoop (ext : Bool) (e : Nat) : Bytes → Nat → Dst → LoopOut
  | [], p, d => .done [] p d
  | c :: cs, p, d =>
    if p < e then
      if c = cQ then litLoop ext e cs (p + 2) ((d.put p cQ).put (p + 1) c)
      else if c = cBS then
        if ext then litLoop ext e cs (p + 2) ((d.put p cBS).put (p + 1) c)
        else .retry d
      else litLoop ext e cs (p + 1) (d.put p c)
    else .done (c :: cs) p d

/-- code after the loop: `if (*src || dst > end) return false; *dst++ = '\''; *dst = 0;` -/
def litFinish (e : Nat) (rest : Bytes) (p : Nat) (d : Dst) : Bool × Dst :=
  if rest ≠ [] ∨ e < p then (false, d) else (true, (d.put p cQ).put (p + 1) 0)

/-- `pg_quote_literal(dst, src, dstlen)`; `src = none` is the NULL pointer -/
def quoteLiteral (src : Option Bytes) (n : Nat) : Bool × Dst :=
  let d := Dst.new n
  if n < 3 then (false, d) else
  match src with
  | none =>
    if n < 5 then (false, d)
    else (true, ((((d.put 0 78).put 1 85).put 2 76).put 3 76).put 4 0)     -- memcpy "NULL\0"
  | some s =>
    let e := n - 2
    match litLoop false e s 1 (d.put 0 cQ) with
    | .done rest p d1 => litFinish e rest p d1
    | .retry d1 =>
      match litLoop true e s 2 ((d1.put 0 cE).put 1 cQ) with
      | .done rest p d2 => litFinish e rest p d2
      | .retry d2 => (false, d2)       -- unreachable: `ext` never retries

/-! ## pg_quote_ident -/

def idStart (c : Nat) : Bool := (97 ≤ c ∧ c ≤ 122) ∨ c = 95
def idBody (c : Nat) : Bool := idStart c ∨ (48 ≤ c ∧ c ≤ 57)

/-- outcome of the bare-identifier loop -/
inductive BareOut where
  | needsQuoting (d : Dst)
  | done (rest : Bytes) (pos : Nat) (d : Dst)
deriving Repr

/-- `while (*src && dst < end) { if (!id_body(*src)) goto needs_quoting; *dst++ = *src++; }` -/
def bareLoop (base e : Nat) : Bytes → Nat → Dst → BareOut
  | [], p, d => .done [] p d
  | c :: cs, p, d =>
    if p < e then
      if idBody c then bareLoop base e cs (p + 1) (d.put (base + p) c)
      else .needsQuoting d
    else .done (c :: cs) p d

/-- `while (*src && dst < end) { if (*src == '"') *dst++ = *src; *dst++ = *src++; }` -/
def quotedLoop (base e : Nat) : Bytes → Nat → Dst → Bytes × Nat × Dst
  | [], p, d => ([], p, d)
  | c :: cs, p, d =>
    if p < e then
      if c = cDQ then quotedLoop base e cs (p + 2) ((d.put (base + p) c).put (base + p + 1) c)
      else quotedLoop base e cs (p + 1) (d.put (base + p) c)
    else (c :: cs, p, d)

/-- the `needs_quoting:` part.  `fixed = true` is the repaired test `if (*src || dst > end)`,
    `fixed = false` the original `if (*src)` -/
def identQuoted (fixed : Bool) (d : Dst) (base : Nat) (s : Bytes) (n : Nat) : Bool × Dst :=
  if n < 3 then (false, d) else
  let e := n - 2
  let (rest, p, d1) := quotedLoop base e s 1 (d.put base cDQ)
  if rest ≠ [] ∨ (fixed ∧ e < p) then (false, d1)
  else (true, (d1.put (base + p) cDQ).put (base + p + 1) 0)

/-- `pg_quote_ident(_dst = buffer + base, src, dstlen = n)` -/
def quoteIdentGen (fixed : Bool) (d : Dst) (base : Nat) (s : Bytes) (n : Nat) : Bool × Dst :=
  if n < 1 then (false, d) else
  if !(idStart (s.headD 0)) then identQuoted fixed d base s n else
  match bareLoop base (n - 1) s 0 d with
  | .needsQuoting d1 => identQuoted fixed d1 base s n
  | .done rest p d1 =>
    if rest ≠ [] then (false, d1) else
    let d2 := d1.put (base + p) 0
    if !(isReserved (cstrAt d2.buf base)) then (true, d2)
    else identQuoted fixed d2 base s n

def quoteIdentAt := quoteIdentGen true
def quoteIdentAtOld := quoteIdentGen false

def quoteIdent (s : Bytes) (n : Nat) : Bool × Dst := quoteIdentAt (Dst.new n) 0 s n
/-- the code as it is at the pinned commit (defect F7) -/
def quoteIdentOld (s : Bytes) (n : Nat) : Bool × Dst := quoteIdentAtOld (Dst.new n) 0 s n

/-! ## pg_quote_fqident -/

def cPublic : Bytes := [112, 117, 98, 108, 105, 99]

/-- `strchr(src, '.')`: `(before, after)` of the first dot -/
def splitDot : Bytes → Option (Bytes × Bytes)
  | [] => none
  | c :: cs => if c = cDot then some ([], cs) else
    match splitDot cs with
    | some (a, b) => some (c :: a, b)
    | none => none

/-- the part of `pg_quote_fqident` after the schema/name split -/
def fqGo (fixed : Bool) (scm name : Bytes) (n : Nat) : Bool × Dst :=
  match quoteIdentGen fixed (Dst.new n) 0 scm n with
  | (false, d1) => (false, d1)
  | (true, d1) =>
    let scmlen := (cstr d1.buf).length          -- strlen(_dst)
    let d2 := d1.put scmlen cDot
    quoteIdentGen fixed d2 (scmlen + 1) name (n - (scmlen + 1))

def quoteFqidentGen (fixed : Bool) (s : Bytes) (n : Nat) : Bool × Dst :=
  match splitDot s with
  | some (scm, name) =>
    if 128 ≤ scm.length then (false, Dst.new n)    -- sizeof(scmbuf)
    else fqGo fixed scm name n
  | none => fqGo fixed cPublic s n

def quoteFqident := quoteFqidentGen true
def quoteFqidentOld := quoteFqidentGen false

end Usual.C13
