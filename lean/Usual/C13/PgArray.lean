import Usual.C13.PgQuote
/-!
# C13 model: `pg_parse_array` / `parse_value` (usual/pgutil.c, with repair F08) and the
array-text renderer that serves as specification.

The input is the memory block `b : Bytes` the pointer `pgarr` points to; `b.getD i 0` is `pgarr[i]`.
**Every index the code reads is pushed onto a log** that is part of the result, so
"never reads outside its NUL-terminated input" is `∀ i ∈ log, i ≤ (index of the first NUL)`.
Pointers (`s`, `val`, `vend`) are indices.  Loops carry a `fuel` argument for termination
only; running out of fuel is the separate result `Res.oof`, proved unreachable for
NUL-terminated input (`parseArray_ne_oof`) — it is *not* mapped to "NULL".
Allocation failures (`cx_alloc`, `strlist_new/append` returning NULL) are not modelled.
`fixed = false` gives the code as it is at the pinned commit (defect F8).
-/
namespace Usual.C13

def cComma : Nat := 44
def cLBrace : Nat := 123
def cRBrace : Nat := 125
def cLBrack : Nat := 91
def cRBrack : Nat := 93
def cEq : Nat := 61

/-- `isspace` in the C locale -/
def isSpace (c : Nat) : Bool := c = 32 ∨ (9 ≤ c ∧ c ≤ 13)

/-- ASCII `tolower` -/
def lower (c : Nat) : Nat := if 65 ≤ c ∧ c ≤ 90 then c + 32 else c

/-- `len == 4 && !strncasecmp(val, "null", len)` -/
def isNullWord (w : Bytes) : Bool := w.length = 4 ∧ w.map lower = [110, 117, 108, 108]

inductive Res (α : Type) where
  | oof                -- model ran out of fuel (unreachable, see above)
  | fail               -- C: `return false` / `goto failed` / `return NULL`
  | ok (a : α)
deriving Repr, DecidableEq

abbrev Log := List Nat

/-- `while (val < vend && isspace(*val)) val++;` -/
def trimL (b : Bytes) : Nat → Nat → Nat → Log → Nat × Log
  | 0, val, _, log => (val, log)
  | f + 1, val, vend, log =>
    if val < vend then
      if isSpace (b.getD val 0) then trimL b f (val + 1) vend (val :: log) else (val, val :: log)
    else (val, log)

/-- `while (vend > val && isspace(vend[-1])) vend--;` -/
def trimR (b : Bytes) : Nat → Nat → Nat → Log → Nat × Log
  | 0, _, vend, log => (vend, log)
  | f + 1, val, vend, log =>
    if val < vend then
      if isSpace (b.getD (vend - 1) 0) then trimR b f val (vend - 1) ((vend - 1) :: log)
      else (vend, (vend - 1) :: log)
    else (vend, log)

/-- the inner `while (1)` of the unquote loop (after an opening `"`): returns the new `s`,
    the output so far and the log -/
def unqQ (b : Bytes) : Nat → Nat → Bytes → Log → Res (Nat × Bytes) × Log
  | 0, _, _, log => (.oof, log)
  | f + 1, s, acc, log =>
    let c := b.getD s 0                               -- c = *s++
    if c = cDQ then (.ok (s + 1, acc), s :: log)
    else if c = cBS then unqQ b f (s + 2) (acc ++ [b.getD (s + 1) 0]) ((s + 1) :: s :: log)
    else unqQ b f (s + 1) (acc ++ [c]) (s :: log)

/-- `while (s < vend) { … }`: unquote & copy -/
def unq (b : Bytes) : Nat → Nat → Nat → Bytes → Log → Res Bytes × Log
  | 0, _, _, _, log => (.oof, log)
  | f + 1, s, vend, acc, log =>
    if s < vend then
      let c := b.getD s 0
      if c = cDQ then
        match unqQ b f (s + 1) acc (s :: log) with
        | (.ok (s', acc'), log') => unq b f s' vend acc' log'
        | (.fail, log') => (.fail, log')
        | (.oof, log') => (.oof, log')
      else if c = cBS then unq b f (s + 2) vend (acc ++ [b.getD (s + 1) 0]) ((s + 1) :: s :: log)
      else unq b f (s + 1) vend (acc ++ [c]) (s :: log)
    else (.ok acc, log)

/-- bytes `b[i .. j)` -/
def slice (b : Bytes) (i j : Nat) : Bytes := (List.range (j - i)).map (fun k => b.getD (i + k) 0)

/-- `parse_value(arr, val, vend, cx)`: `ok none` appends NULL, `ok (some str)` appends `str` -/
def parseValue (b : Bytes) (val vend : Nat) (log : Log) : Res (Option Bytes) × Log :=
  let tl := trimL b (vend - val) val vend log
  let val1 := tl.1
  let tr := trimR b (vend - val1) val1 vend tl.2
  let vend1 := tr.1
  if val1 = vend1 then (.fail, tr.2) else
  -- strncasecmp(val, "null", 4) is only evaluated when len == 4; it reads at most val[0..3]
  let log3 := if vend1 - val1 = 4 then (val1 + 3) :: (val1 + 2) :: (val1 + 1) :: val1 :: tr.2 else tr.2
  if vend1 - val1 = 4 ∧ isNullWord (slice b val1 vend1) then (.ok none, log3)
  else
    match unq b (b.length + 1) val1 vend1 [] log3 with
    | (.ok str, log4) => (.ok (some str), log4)
    | (.fail, log4) => (.fail, log4)
    | (.oof, log4) => (.oof, log4)

/-- the quoted-element scan of `pg_parse_array` (after the opening `"`): new `s` -/
def scanQ (fixed : Bool) (b : Bytes) : Nat → Nat → Log → Res Nat × Log
  | 0, _, log => (.oof, log)
  | f + 1, s, log =>
    let c := b.getD s 0                               -- c = *s++
    if c = cDQ then (.ok (s + 1), s :: log)
    else if fixed ∧ c = 0 then (.fail, s :: log)      -- repair F08
    else if c = cBS then
      if b.getD (s + 1) 0 = 0 then (.fail, (s + 1) :: s :: log)
      else scanQ fixed b f (s + 2) ((s + 1) :: s :: log)
    else if b.getD (s + 1) 0 = 0 then (.fail, (s + 1) :: s :: log)
    else scanQ fixed b f (s + 1) ((s + 1) :: s :: log)

/-- `while (*s) { … }` of `pg_parse_array` and the code after it -/
def scan (fixed : Bool) (b : Bytes) :
    Nat → Nat → Option Nat → List (Option Bytes) → Log → Res (List (Option Bytes)) × Log
  | 0, _, _, _, log => (.oof, log)
  | f + 1, s, val, lst, log =>
    let c := b.getD s 0
    let log := s :: log
    if c = 0 then
      -- loop left: `if (s[-1] != '}') goto failed; return lst;`
      if b.getD (s - 1) 0 ≠ cRBrace then (.fail, (s - 1) :: log) else (.ok lst, (s - 1) :: log)
    else if c = cRBrace then
      if b.getD (s + 1) 0 ≠ 0 then (.fail, (s + 1) :: log)
      else
        match val with
        | some v =>
          match parseValue b v s ((s + 1) :: log) with
          | (.ok x, log') => (.ok (lst ++ [x]), log')
          | (.fail, log') => (.fail, log')
          | (.oof, log') => (.oof, log')
        | none => (.ok lst, (s + 1) :: log)
    else
      let v := val.getD s
      if c = cComma then
        match parseValue b v s log with
        | (.ok x, log') => scan fixed b f (s + 1) (some (s + 1)) (lst ++ [x]) log'
        | (.fail, log') => (.fail, log')
        | (.oof, log') => (.oof, log')
      else if c = cDQ then
        match scanQ fixed b (b.length + 1) (s + 1) log with
        | (.ok s', log') => scan fixed b f s' (some v) lst log'
        | (.fail, log') => (.fail, log')
        | (.oof, log') => (.oof, log')
      else if c = cBS then
        if b.getD (s + 1) 0 = 0 then (.fail, (s + 1) :: log)
        else scan fixed b f (s + 2) (some v) lst ((s + 1) :: log)
      else scan fixed b f (s + 1) (some v) lst log

/-- `strchr(s, ']')` from index `s`: index of the first `]`, or `none` when a NUL comes first -/
def findRBrack (b : Bytes) : Nat → Nat → Log → Res Nat × Log
  | 0, _, log => (.oof, log)
  | f + 1, s, log =>
    let c := b.getD s 0
    if c = cRBrack then (.ok s, s :: log)
    else if c = 0 then (.fail, s :: log)
    else findRBrack b f (s + 1) (s :: log)

/-- `pg_parse_array(pgarr, cx)`; `fail` is the NULL result -/
def parseArrayGen (fixed : Bool) (b : Bytes) : Res (List (Option Bytes)) × Log :=
  let fuel := b.length + 1
  let body (s : Nat) (log : Log) : Res (List (Option Bytes)) × Log :=
    if b.getD s 0 ≠ cLBrace then (.fail, s :: log)
    else scan fixed b fuel (s + 1) none [] (s :: log)
  if b.getD 0 0 = cLBrack then
    match findRBrack b fuel 0 [0] with
    | (.ok j, log) =>
      if b.getD (j + 1) 0 ≠ cEq then (.fail, (j + 1) :: log) else body (j + 2) ((j + 1) :: log)
    | (.fail, log) => (.fail, log)
    | (.oof, log) => (.oof, log)
  else body 0 [0]

def parseArray := parseArrayGen true
/-- the code as it is at the pinned commit (defect F8) -/
def parseArrayOld := parseArrayGen false

/-! ## Specification side: PostgreSQL array text -/

/-- one character of an element as written in the text: the byte and whether it is
    written with a backslash in front -/
structure Ch where
  b : Nat
  esc : Bool
deriving Repr, DecidableEq

def renderChars : List Ch → Bytes
  | [] => []
  | c :: r => if c.esc then cBS :: c.b :: renderChars r else c.b :: renderChars r

inductive Elem where
  | null (spelling : Bytes)          -- NULL in any letter case
  | bare (cs : List Ch)              -- unquoted element
  | quoted (cs : List Ch)            -- "…"
deriving Repr

def Elem.text : Elem → Bytes
  | .null sp => sp
  | .bare cs => renderChars cs
  | .quoted cs => cDQ :: (renderChars cs ++ [cDQ])

def Elem.value : Elem → Option Bytes
  | .null _ => none
  | .bare cs => some (cs.map (·.b))
  | .quoted cs => some (cs.map (·.b))

/-- the last character of a bare element is not an unescaped blank -/
def lastOk (cs : List Ch) : Bool :=
  match cs.getLast? with
  | some c => c.esc || !(isSpace c.b)
  | none => false

/-- what the text must satisfy to be array syntax for that element: NULL is the word `null` in
    any letter case; in a bare element NUL never occurs, `" \ , }` occur only escaped, the first
    byte is not a blank, a blank at the end is escaped, and the text is not the word `null`;
    in a quoted element NUL never occurs and `" \` occur only escaped -/
def Elem.valid : Elem → Bool
  | .null sp => isNullWord sp
  | .bare cs =>
      cs ≠ [] ∧ cs.all (fun c => c.b ≠ 0 ∧ (c.esc ∨ (c.b ≠ cDQ ∧ c.b ≠ cBS ∧ c.b ≠ cComma ∧ c.b ≠ cRBrace)))
      ∧ !(isSpace ((renderChars cs).headD 0))
      -- a blank at the very end must be escaped (an unescaped one would be trimmed)
      ∧ lastOk cs
      ∧ !(isNullWord (renderChars cs))
  | .quoted cs => cs.all (fun c => c.b ≠ 0 ∧ (c.esc ∨ (c.b ≠ cDQ ∧ c.b ≠ cBS)))

/-- element with blanks around it -/
structure Item where
  pre : Bytes
  e : Elem
  post : Bytes
deriving Repr

def Item.text (i : Item) : Bytes := i.pre ++ i.e.text ++ i.post
def Item.valid (i : Item) : Bool := i.pre.all isSpace ∧ i.post.all isSpace ∧ i.e.valid

def joinComma : List Bytes → Bytes
  | [] => []
  | [x] => x
  | x :: y :: r => x ++ cComma :: joinComma (y :: r)

/-- optional dimension prefix `[…]=` -/
def dimText : Option Bytes → Bytes
  | none => []
  | some d => cLBrack :: (d ++ [cRBrack, cEq])

def dimValid : Option Bytes → Bool
  | none => true
  | some d => d.all (fun c => c ≠ 0 ∧ c ≠ cRBrack)

/-- the array text (without the terminating NUL) -/
def renderArray (dim : Option Bytes) (items : List Item) : Bytes :=
  dimText dim ++ cLBrace :: (joinComma (items.map Item.text) ++ [cRBrace])

end Usual.C13
