import Usual.C13.PgQuote
/-!
# C13 spec: the PostgreSQL lexer rules for string constants and identifiers
(src/backend/parser/scan.l with `standard_conforming_strings = on`), as far as the property
needs them.  This file is the formal reading of "the server lexer decodes the token back to …".

* `'…'`      : `''` is a quote, every other byte (also backslash) stands for itself.
* `E'…'`     : `''` is a quote, `\c` is `c` for the bytes the quoting code can produce after a
               backslash here (a backslash or a quote; the C-style escapes `\n \t \b \f \r \x \u \0-7`
               are **not** plain bytes and make the lexer answer `none`, so that a round-trip
               theorem can not lean on them).
* identifier : bare `[A-Za-z\200-\377_][A-Za-z\200-\377_0-9$]*`, folded to lower case, and a
               word of the reserved list is a keyword token, not an identifier (→ `none`);
               or `"…"` with `""` for a quote and at least one character.
  (Truncation to NAMEDATALEN-1 = 63 bytes is not modelled: see the trusted-base notes.)

Every lexer returns the decoded value and the *unconsumed rest* of the input, so "exactly one
token, nothing escapes" is `rest = []`.
-/
namespace Usual.C13

/-- inside of a string constant after the opening quote -/
def lexBody (ext : Bool) : Nat → Bytes → Option (Bytes × Bytes)
  | 0, _ => none
  | fuel + 1, t =>
    match t with
    | [] => none                                          -- unterminated
    | c :: cs =>
      if c = cQ then
        match cs with
        | c2 :: cs2 =>
          if c2 = cQ then (lexBody ext fuel cs2).map (fun r => (cQ :: r.1, r.2)) else some ([], cs)
        | [] => some ([], [])
      else if c = cBS ∧ ext then
        match cs with
        | c2 :: cs2 =>
          -- C-style escapes are not "the byte itself"
          if c2 = cBS ∨ c2 = cQ then (lexBody ext fuel cs2).map (fun r => (c2 :: r.1, r.2)) else none
        | [] => none
      else (lexBody ext fuel cs).map (fun r => (c :: r.1, r.2))

/-- one string constant at the start of `t`: `'…'` or `E'…'` -/
def lexLiteral (t : Bytes) : Option (Bytes × Bytes) :=
  match t with
  | c :: cs =>
    if c = cQ then lexBody false (cs.length + 1) cs
    else if c = cE then
      match cs with
      | c2 :: cs2 => if c2 = cQ then lexBody true (cs2.length + 1) cs2 else none
      | [] => none
    else none
  | [] => none

def isUpper (c : Nat) : Bool := 65 ≤ c ∧ c ≤ 90
/-- scan.l `ident_start` -/
def lexIdentStart (c : Nat) : Bool := isUpper c ∨ (97 ≤ c ∧ c ≤ 122) ∨ c = 95 ∨ 128 ≤ c
/-- scan.l `ident_cont` -/
def lexIdentCont (c : Nat) : Bool := lexIdentStart c ∨ (48 ≤ c ∧ c ≤ 57) ∨ c = 36
def downcase (c : Nat) : Nat := if isUpper c then c + 32 else c

/-- longest prefix of identifier characters -/
def spanIdent : Bytes → Bytes × Bytes
  | [] => ([], [])
  | c :: cs => if lexIdentCont c then let r := spanIdent cs; (c :: r.1, r.2) else ([], c :: cs)

/-- inside of a delimited identifier after the opening `"` -/
def lexQIdentBody : Nat → Bytes → Option (Bytes × Bytes)
  | 0, _ => none
  | fuel + 1, t =>
    match t with
    | [] => none
    | c :: cs =>
      if c = cDQ then
        match cs with
        | c2 :: cs2 =>
          if c2 = cDQ then (lexQIdentBody fuel cs2).map (fun r => (cDQ :: r.1, r.2)) else some ([], cs)
        | [] => some ([], [])
      else (lexQIdentBody fuel cs).map (fun r => (c :: r.1, r.2))

/-- the reserved list the property refers to (usual/pgutil_kwlookup.g) -/
def reservedWord (w : Bytes) : Bool := Usual.Gen.C13Kw.kwWords.contains w

/-- one identifier token at the start of `t` -/
def lexIdent (t : Bytes) : Option (Bytes × Bytes) :=
  match t with
  | [] => none
  | c :: cs =>
    if c = cDQ then
      match lexQIdentBody (cs.length + 1) cs with
      | some (name, rest) => if name = [] then none else some (name, rest)   -- zero-length delimited identifier
      | none => none
    else if lexIdentStart c then
      let r := spanIdent (c :: cs)
      let w := r.1.map downcase
      if reservedWord w then none else some (w, r.2)
    else none

/-- `identifier . identifier` -/
def lexFqIdent (t : Bytes) : Option ((Bytes × Bytes) × Bytes) :=
  match lexIdent t with
  | some (a, r) =>
    match r with
    | c :: r2 =>
      if c = cDot then
        match lexIdent r2 with
        | some (b, r3) => some ((a, b), r3)
        | none => none
      else none
    | [] => none
  | none => none

end Usual.C13
