/-! Prototype: chacha_keystream bookkeeping (usual/crypto/chacha.c): any chunking yields the same stream. -/
namespace Lt.ChaCha

/-- the block function is a parameter: 64 bytes for every counter value -/
structure Blk where
  byte : Nat → Nat → Nat        -- byte ctr i, i < 64

structure St where
  ctr : Nat          -- state[12..13] as one 64-bit counter (next block to produce)
  pos : Nat          -- ctx->pos, 64 = buffer exhausted
deriving Repr

/-- absolute stream offset of the next byte to be delivered -/
def off (s : St) : Nat := s.ctr * 64 + s.pos - 64

def WFst (s : St) : Prop := s.pos ≤ 64 ∧ (s.pos < 64 → 1 ≤ s.ctr)

/-- the keystream as a function of the absolute byte index -/
def strm (b : Blk) (i : Nat) : Nat := b.byte (i / 64) (i % 64)

/-- chacha_keystream: refill when exhausted, copy min(bytes, avail), advance -/
def keystream (b : Blk) : Nat → St → Nat → List Nat × St
  | 0, s, _ => ([], s)
  | fuel + 1, s, n =>
    if n = 0 then ([], s) else
    let s1 : St := if s.pos ≥ 64 then { ctr := s.ctr + 1, pos := 0 } else s
    let k := min n (64 - s1.pos)
    let out := (List.range k).map (fun j => b.byte (s1.ctr - 1) (s1.pos + j))
    let r := keystream b fuel { s1 with pos := s1.pos + k } (n - k)
    (out ++ r.1, r.2)

theorem keystream_spec (b : Blk) : ∀ (fuel : Nat) (s : St) (n : Nat), WFst s → n ≤ fuel →
    (keystream b fuel s n).1 = (List.range n).map (fun j => strm b (off s + j)) ∧
    off (keystream b fuel s n).2 = off s + n ∧ WFst (keystream b fuel s n).2 := by
  intro fuel
  induction fuel with
  | zero => intro s n hw hn; have : n = 0 := by omega
            subst this; simp [keystream, hw]
  | succ fuel ih =>
    intro s n hw hn
    unfold keystream
    by_cases hn0 : n = 0
    · subst hn0; simp [hw]
    · simp only [hn0, ↓reduceIte]
      obtain ⟨hw1, hw2⟩ := hw
      by_cases hp : s.pos ≥ 64
      · -- refill
        have hp64 : s.pos = 64 := by omega
        simp only [hp, ↓reduceIte, Nat.sub_zero, Nat.zero_add, Nat.add_sub_cancel]
        have hk : min n 64 ≤ n := Nat.min_le_left _ _
        have hk0 : 0 < min n 64 := by omega
        have hw' : WFst { ctr := s.ctr + 1, pos := min n 64 } := ⟨Nat.min_le_right _ _, fun _ => by simp⟩
        obtain ⟨i1, i2, i3⟩ := ih { ctr := s.ctr + 1, pos := min n 64 } (n - min n 64) hw' (by omega)
        refine ⟨?_, ?_, i3⟩
        · rw [i1]
          have hoff : off { ctr := s.ctr + 1, pos := min n 64 } = off s + min n 64 := by
            simp only [off, hp64]; omega
          rw [hoff]
          have hsplit : List.range n = List.range (min n 64) ++ (List.range (n - min n 64)).map (· + min n 64) := by
            have : n = min n 64 + (n - min n 64) := by omega
            conv => lhs; rw [this, List.range_add]
            simp [Nat.add_comm]
          rw [hsplit, List.map_append]
          congr 1
          · apply List.map_congr_left
            intro j hj
            have hj' : j < min n 64 := List.mem_range.mp hj
            have hj64 : j < 64 := by omega
            simp only [strm, off, hp64]
            have e1 : (s.ctr * 64 + 64 - 64 + j) / 64 = s.ctr := by omega
            have e2 : (s.ctr * 64 + 64 - 64 + j) % 64 = j := by omega
            rw [e1, e2]
          · rw [List.map_map]
            apply List.map_congr_left
            intro j _
            simp only [Function.comp]
            congr 1; omega
        · rw [i2]
          simp only [off, hp64]; omega
      · -- continue in the current block
        have hp' : s.pos < 64 := by omega
        have hc := hw2 hp'
        simp only [hp, ↓reduceIte]
        have hk : min n (64 - s.pos) ≤ n := Nat.min_le_left _ _
        have hk0 : 0 < min n (64 - s.pos) := by omega
        have hk64 : s.pos + min n (64 - s.pos) ≤ 64 := by omega
        have hw' : WFst { ctr := s.ctr, pos := s.pos + min n (64 - s.pos) } := ⟨hk64, fun _ => hc⟩
        obtain ⟨i1, i2, i3⟩ := ih { ctr := s.ctr, pos := s.pos + min n (64 - s.pos) } (n - min n (64 - s.pos)) hw' (by omega)
        refine ⟨?_, ?_, i3⟩
        · rw [i1]
          have hoff : off { ctr := s.ctr, pos := s.pos + min n (64 - s.pos) } = off s + min n (64 - s.pos) := by
            simp only [off]; omega
          rw [hoff]
          have hsplit : List.range n = List.range (min n (64 - s.pos)) ++
              (List.range (n - min n (64 - s.pos))).map (· + min n (64 - s.pos)) := by
            have : n = min n (64 - s.pos) + (n - min n (64 - s.pos)) := by omega
            conv => lhs; rw [this, List.range_add]
            simp [Nat.add_comm]
          rw [hsplit, List.map_append]
          congr 1
          · apply List.map_congr_left
            intro j hj
            have hj' : j < min n (64 - s.pos) := List.mem_range.mp hj
            simp only [strm, off]
            have e1 : (s.ctr * 64 + s.pos - 64 + j) / 64 = s.ctr - 1 := by omega
            have e2 : (s.ctr * 64 + s.pos - 64 + j) % 64 = s.pos + j := by omega
            rw [e1, e2]
          · rw [List.map_map]
            apply List.map_congr_left
            intro j _
            simp only [Function.comp]
            congr 1; omega
        · rw [i2]
          simp only [off]; omega

/-- CHUNKING: asking for n₁ bytes and then n₂ bytes gives the same bytes as asking for n₁ + n₂ -/
theorem keystream_chunking (b : Blk) (s : St) (hw : WFst s) (n1 n2 : Nat) :
    let r1 := keystream b n1 s n1
    let r2 := keystream b n2 r1.2 n2
    r1.1 ++ r2.1 = (keystream b (n1 + n2) s (n1 + n2)).1 := by
  intro r1 r2
  obtain ⟨a1, a2, a3⟩ := keystream_spec b n1 s n1 hw (Nat.le_refl _)
  obtain ⟨b1, _, _⟩ := keystream_spec b n2 r1.2 n2 a3 (Nat.le_refl _)
  obtain ⟨c1, _, _⟩ := keystream_spec b (n1 + n2) s (n1 + n2) hw (Nat.le_refl _)
  rw [c1, a1, b1, a2, List.range_add, List.map_append, List.map_map]
  congr 1
  apply List.map_congr_left
  intro j _; simp only [Function.comp]; congr 1; omega

#print axioms keystream_chunking
end Lt.ChaCha
