/-! Prototype: one open-addressing table of usual/hashtab-impl.h; invariant evaluated, not yet proved. -/
namespace Lt.HT

structure Tab where
  size : Nat                      -- power of two
  slots : List (Nat × Nat)        -- (key, value); value 0 = empty
deriving Repr

def Tab.get (t : Tab) (p : Nat) : Nat × Nat := t.slots.getD p (0, 0)
def Tab.set (t : Tab) (p : Nat) (kv : Nat × Nat) : Tab := { t with slots := t.slots.set p kv }
def calcPos (t : Tab) (key : Nat) : Nat := key % t.size
def nextPos (t : Tab) (p : Nat) : Nat := (p * 5 + 1) % t.size

/-- probe from `p` while occupied; returns the slot holding (key,val) or the first empty slot -/
def probe (t : Tab) (key val : Nat) (p : Nat) : Nat → Option Nat × Nat
  | 0 => (none, p)
  | fuel + 1 =>
    let (k, v) := t.get p
    if v = 0 then (none, p)
    else if k = key ∧ v = val then (some p, p)
    else probe t key val (nextPos t p) fuel

def lookup (t : Tab) (key val : Nat) : Option Nat := (probe t key val (calcPos t key) t.size).1
def insert (t : Tab) (key val : Nat) : Tab :=
  let e := (probe t key 0 (calcPos t key) t.size).2       -- val 0 never matches: walk to first empty
  t.set e (key, val)

/-- _hashtab_slot_can_move -/
def canMove (t : Tab) (dst src : Nat) : Bool :=
  let kpos := calcPos t (t.get src).1
  if kpos = src then false
  else if kpos = dst then true
  else
    let rec go (p : Nat) : Nat → Bool
      | 0 => true
      | fuel + 1 => if p = src then true else if p = kpos then false else go (nextPos t p) fuel
    go (nextPos t dst) t.size

/-- hashtab_delete's compaction loop starting at the freed slot `dst` -/
def compact (t : Tab) (dst : Nat) : Nat → Tab
  | 0 => t.set dst (0, 0)
  | fuel + 1 =>
    let rec scan (p : Nat) : Nat → Option Nat
      | 0 => none
      | f + 1 => if (t.get p).2 = 0 then none else if canMove t dst p then some p else scan (nextPos t p) f
    match scan (nextPos t dst) t.size with
    | some src => compact (t.set dst (t.get src)) src fuel
    | none => t.set dst (0, 0)

def delete (t : Tab) (key val : Nat) : Tab :=
  match lookup t key val with
  | none => t
  | some p => compact t p t.size

/-- reachability invariant: every stored pair is found by its own probe sequence -/
def inv (t : Tab) : Bool :=
  (List.range t.size).all fun p =>
    let (k, v) := t.get p
    v == 0 || lookup t k v == some p || (match lookup t k v with | some q => t.get q == (k, v) | none => false)

def lcg (s : Nat) : Nat := (s * 6364136223846793005 + 1442695040888963407) % (2^64)
def run (seed : Nat) : Bool := Id.run do
  let mut s := seed
  let size := [4, 8, 16, 32, 64].getD (seed % 5) 8
  let mut t : Tab := { size := size, slots := List.replicate size (0, 0) }
  let mut live : List (Nat × Nat) := []
  let mut ok := true
  let mut nextv := 1
  for _ in [0:150] do
    s := lcg s
    let r := (s / 65536) % 3
    if r < 2 && live.length * 100 < size * 75 - 100 then
      let key := if (s / 7) % 3 == 0 then ((s / 1000) % 4) * size else (s / 1000) % (2 * size)
      t := insert t key nextv; live := (key, nextv) :: live; nextv := nextv + 1
    else if live.length > 0 then
      let i := (s / 99) % live.length
      let (k, v) := live.getD i (0, 0)
      t := delete t k v; live := live.eraseIdx i
    ok := ok && inv t && live.all (fun (k, v) => (lookup t k v).isSome)
       && ((t.slots.filter (fun kv => kv.2 != 0)).length == live.length)
  return ok
#eval (List.range 300).all (fun i => run (i + 1))
end Lt.HT
