import Lt.CB
/-! crit-bit tree: lookup and delete (usual/cbtree.c) over the abstract BitKey interface -/
namespace Lt.CB
open BitKey
variable {K : Type} [BitKey K]

/-- same zero-padded bit string -/
def SameBits (a b : K) : Prop := ∀ i, bit a i = bit b i

/-- cbtree_delete on a non-empty tree: `none` = key not present (nothing changes),
    `some none` = the last leaf was removed, `some (some t')` = remaining tree.
    `eq` is key_matches (exact comparison of the stored key with the argument). -/
def delete (eq : K → K → Bool) : T K → K → Option (Option (T K))
  | .leaf x, k => if eq x k then some none else none
  | .node b l r, k =>
    if bit k b then
      match delete eq r k with
      | none => none
      | some none => some (some l)                 -- sibling takes the node's place
      | some (some r') => some (some (.node b l r'))
    else
      match delete eq l k with
      | none => none
      | some none => some (some r)
      | some (some l') => some (some (.node b l' r))

/-- keys of the result are keys of the tree (so every WF constraint survives) -/
theorem delete_keys_sub (eq : K → K → Bool) (t : T K) (k : K) :
    ∀ t', delete eq t k = some (some t') → ∀ x, x ∈ keys t' → x ∈ keys t := by
  induction t with
  | leaf y => intro t' h; unfold delete at h; split at h <;> simp at h
  | node b l r ihl ihr =>
    intro t' h x hx
    unfold delete at h
    split at h
    · split at h
      · cases h
      · simp only [Option.some.injEq] at h; subst h; simp [keys, hx]
      · next r' hr =>
        simp only [Option.some.injEq] at h; subst h
        simp only [keys, List.mem_append] at hx ⊢
        rcases hx with hx | hx
        · exact Or.inl hx
        · exact Or.inr (ihr r' hr x hx)
    · split at h
      · cases h
      · simp only [Option.some.injEq] at h; subst h; simp [keys, hx]
      · next l' hl' =>
        simp only [Option.some.injEq] at h; subst h
        simp only [keys, List.mem_append] at hx ⊢
        rcases hx with hx | hx
        · exact Or.inl (ihl l' hl' x hx)
        · exact Or.inr hx

theorem wf_delete (eq : K → K → Bool) (t : T K) (k : K) (h : WF t) :
    ∀ t', delete eq t k = some (some t') → WF t' := by
  induction h with
  | leaf y => intro t' h; unfold delete at h; split at h <;> simp at h
  | node b l r hwl hwr hl hr hag ihl ihr =>
    intro t' h
    unfold delete at h
    split at h
    · split at h
      · cases h
      · simp only [Option.some.injEq] at h; subst h; exact hwl
      · next r' hr' =>
        simp only [Option.some.injEq] at h; subst h
        have hsub := delete_keys_sub eq r k r' hr'
        refine WF.node b l r' hwl (ihr r' hr') hl (fun x hx => hr x (hsub x hx)) ?_
        intro x hx z hz i hi
        have cx : x ∈ keys l ++ keys r := by
          rcases List.mem_append.mp hx with h | h
          · exact List.mem_append_left _ h
          · exact List.mem_append_right _ (hsub x h)
        have cz : z ∈ keys l ++ keys r := by
          rcases List.mem_append.mp hz with h | h
          · exact List.mem_append_left _ h
          · exact List.mem_append_right _ (hsub z h)
        exact hag x cx z cz i hi
    · split at h
      · cases h
      · simp only [Option.some.injEq] at h; subst h; exact hwr
      · next l' hl' =>
        simp only [Option.some.injEq] at h; subst h
        have hsub := delete_keys_sub eq l k l' hl'
        refine WF.node b l' r (ihl l' hl') hwr (fun x hx => hl x (hsub x hx)) hr ?_
        intro x hx z hz i hi
        have cx : x ∈ keys l ++ keys r := by
          rcases List.mem_append.mp hx with h | h
          · exact List.mem_append_left _ (hsub x h)
          · exact List.mem_append_right _ h
        have cz : z ∈ keys l ++ keys r := by
          rcases List.mem_append.mp hz with h | h
          · exact List.mem_append_left _ (hsub z h)
          · exact List.mem_append_right _ h
        exact hag x cx z cz i hi

/-- delete refuses iff key_matches rejects the leaf raw_lookup finds -/
theorem delete_none_iff (eq : K → K → Bool) (t : T K) (k : K) :
    delete eq t k = none ↔ eq (rawLookup t k) k = false := by
  induction t with
  | leaf y => unfold delete rawLookup; split <;> simp_all
  | node b l r ihl ihr =>
    unfold delete rawLookup
    split
    · split <;> simp_all
    · split <;> simp_all

/-- a successful delete removes exactly that one leaf from the in-order walk; the rest keeps its order -/
theorem delete_walk (eq : K → K → Bool) (t : T K) (k : K) :
    (delete eq t k = some none → walk t = [rawLookup t k]) ∧
    (∀ t', delete eq t k = some (some t') →
        ∃ pre post, walk t = pre ++ rawLookup t k :: post ∧ walk t' = pre ++ post) := by
  induction t with
  | leaf y =>
    constructor
    · intro _; simp [walk, keys, rawLookup]
    · intro t' h; unfold delete at h; split at h <;> simp at h
  | node b l r ihl ihr =>
    constructor
    · intro h; unfold delete at h
      split at h <;> split at h <;> simp at h
    · intro t' h
      unfold delete at h
      unfold rawLookup
      split at h
      · next hb =>
        simp only [hb, ↓reduceIte]
        split at h
        · cases h
        · next hr =>
          simp only [Option.some.injEq] at h; subst h
          refine ⟨walk l, [], ?_, by simp⟩
          simp only [walk, keys] at *
          rw [ihr.1 hr]
        · next r' hr =>
          simp only [Option.some.injEq] at h; subst h
          obtain ⟨pre, post, e1, e2⟩ := ihr.2 r' hr
          refine ⟨keys l ++ pre, post, ?_, ?_⟩
          · simp only [walk, keys] at *; rw [e1]; simp [List.append_assoc]
          · simp only [walk, keys] at *; rw [e2]; simp [List.append_assoc]
      · next hb =>
        simp only [hb, Bool.false_eq_true, ↓reduceIte]
        split at h
        · cases h
        · next hl =>
          simp only [Option.some.injEq] at h; subst h
          refine ⟨[], walk r, ?_, by simp⟩
          simp only [walk, keys] at *
          rw [ihl.1 hl]; simp
        · next l' hl =>
          simp only [Option.some.injEq] at h; subst h
          obtain ⟨pre, post, e1, e2⟩ := ihl.2 l' hl
          refine ⟨pre, post ++ keys r, ?_, ?_⟩
          · simp only [walk, keys] at *; rw [e1]; simp [List.append_assoc]
          · simp only [walk, keys] at *; rw [e2]; simp [List.append_assoc]

#print axioms wf_delete
#print axioms delete_walk
end Lt.CB
