import Lt.AArm
namespace Lt.AA
open T
/-- Nipkow's post_del -/
def postDel (t t' : T) : Bool :=
  aa t' && (lvl t' == lvl t || lvl t' + 1 == lvl t) && (!(lvl t' == lvl t && sngl t) || sngl t')
/-- Nipkow's pre_adjust on the components of a node -/
def preAdj (l : T) (v : Nat) (r : T) : Bool :=
  aa l && aa r &&
  ((lvl l + 1 == v && (lvl r + 1 == v || lvl r + 2 == v || (lvl r == v && sngl r))) ||
   (lvl l + 2 == v && (lvl r + 1 == v || (lvl r == v && sngl r))))
/-- what rebalRemove must deliver under preAdj (orig = the node before the removal) -/
def postAdj (v : Nat) (os : Bool) (t' : T) : Bool :=
  aa t' && (lvl t' == v || lvl t' + 1 == v) && (!(lvl t' == v && os) || sngl t')

def allSub : T → List T
  | nil => [nil]
  | node l k v r => node l k v r :: (allSub l ++ allSub r)

def run2 (seed n : Nat) : Bool := Id.run do
  let mut s := seed
  let mut t := T.nil
  let mut ok := true
  for i in [0:n] do
    s := lcg s
    let k := (s / 65536) % 24
    if (s / 7) % 3 == 0 || i < 12 then
      t := insertSub t k
    else
      -- check post_del at every subtree for every key
      for u in allSub t do
        ok := ok && postDel u (removeSub u k)
        match u with
        | node l x v r =>
          if k > x then
            let r' := removeSub r k
            ok := ok && preAdj l v r' && postAdj v (sngl u) (rebalRemove (node l x v r'))
          else if k < x then
            let l' := removeSub l k
            ok := ok && preAdj l' v r && postAdj v (sngl u) (rebalRemove (node l' x v r))
        | nil => pure ()
      t := removeSub t k
  return ok
#eval (List.range 200).all (fun i => run2 (i+1) 100)
end Lt.AA
