namespace Lt.MD

variable {σ : Type}

structure Ctx (σ : Type) where
  st : σ
  buf : List UInt8      -- partial block, length = nbytes % B
  nbytes : Nat

/-- mirror of sha256_update's loop: copy n = min(B - bufpos, len) bytes, compress when the buffer fills -/
def update (B : Nat) (compress : σ → List UInt8 → σ) (c : Ctx σ) (data : List UInt8) (fuel : Nat) : Ctx σ :=
  match fuel with
  | 0 => c
  | fuel + 1 =>
    if data = [] then c else
    let n := min (B - c.buf.length) data.length
    let buf' := c.buf ++ data.take n
    let c' : Ctx σ :=
      if buf'.length = B then { st := compress c.st buf', buf := [], nbytes := c.nbytes + n }
      else { st := c.st, buf := buf', nbytes := c.nbytes + n }
    update B compress c' (data.drop n) fuel

/-- spec: absorb a byte string into (state, partial buffer) block by block -/
def absorb (B : Nat) (compress : σ → List UInt8 → σ) (st : σ) (pending : List UInt8) (fuel : Nat) : σ × List UInt8 :=
  match fuel with
  | 0 => (st, pending)
  | fuel + 1 =>
    if pending.length < B then (st, pending)
    else absorb B compress (compress st (pending.take B)) (pending.drop B) fuel

theorem absorb_fuel_irrelevant (B : Nat) (hB : 0 < B) (compress : σ → List UInt8 → σ) :
    ∀ (f1 f2 : Nat) (st : σ) (p : List UInt8), p.length < f1 → p.length < f2 →
      absorb B compress st p f1 = absorb B compress st p f2 := by
  intro f1
  induction f1 with
  | zero => intro f2 st p h; omega
  | succ f1 ih =>
    intro f2 st p h1 h2
    cases f2 with
    | zero => omega
    | succ f2 =>
      unfold absorb
      split
      · rfl
      · apply ih
        · simp [List.length_drop]; omega
        · simp [List.length_drop]; omega

/-- key lemma: one `update` call = absorbing buf ++ data -/
theorem update_eq_absorb (B : Nat) (hB : 0 < B) (compress : σ → List UInt8 → σ) :
    ∀ (fuel : Nat) (c : Ctx σ) (data : List UInt8), data.length < fuel → c.buf.length < B →
      let r := update B compress c data fuel
      (r.st, r.buf) = absorb B compress c.st (c.buf ++ data) (c.buf.length + data.length + 1)
      ∧ r.nbytes = c.nbytes + data.length := by
  intro fuel
  induction fuel with
  | zero => intro c data h; omega
  | succ fuel ih =>
    intro c data hf hb
    unfold update
    by_cases hd : data = []
    · subst hd
      simp
      unfold absorb
      simp [hb]
    · simp only [hd, ↓reduceIte]
      have hdl : 0 < data.length := List.length_pos_iff.mpr hd
      have hn : 0 < min (B - c.buf.length) data.length := by omega
      by_cases hfull : (c.buf ++ List.take (min (B - c.buf.length) data.length) data).length = B
      · simp only [hfull, ↓reduceIte]
        have hlen : B - c.buf.length ≤ data.length := by
          simp [List.length_append, List.length_take] at hfull; omega
        have hmin : min (B - c.buf.length) data.length = B - c.buf.length := by omega
        have := ih { st := compress c.st (c.buf ++ List.take (min (B - c.buf.length) data.length) data), buf := [], nbytes := c.nbytes + min (B - c.buf.length) data.length } (data.drop (min (B - c.buf.length) data.length)) (by simp [List.length_drop]; omega) (by simpa using hB)
        simp only at this
        obtain ⟨h1, h2⟩ := this
        constructor
        · rw [h1]
          conv => rhs; unfold absorb
          have hge : ¬ (c.buf ++ data).length < B := by simp [List.length_append]; omega
          simp only [hge, ↓reduceIte]
          have htake : (c.buf ++ data).take B = c.buf ++ data.take (B - c.buf.length) := by
            rw [List.take_append]; simp [List.take_of_length_le (Nat.le_of_lt hb)]
          have hdrop : (c.buf ++ data).drop B = data.drop (B - c.buf.length) := by
            rw [List.drop_append]; simp [List.drop_of_length_le (Nat.le_of_lt hb)]
          rw [htake, hdrop, hmin]
          apply absorb_fuel_irrelevant B hB compress
          · simp [List.length_drop]
          · simp [List.length_drop]; omega
        · rw [h2]; simp [List.length_drop]; omega
      · simp only [hfull, ↓reduceIte]
        have hlen : data.length < B - c.buf.length := by
          simp [List.length_append, List.length_take] at hfull; omega
        have hmin : min (B - c.buf.length) data.length = data.length := by omega
        have hbl : (c.buf ++ data).length < B := by simp [List.length_append]; omega
        rw [hmin]
        simp only [List.take_length, List.drop_length]
        cases fuel with
        | zero => omega
        | succ fuel =>
          unfold update
          simp
          unfold absorb
          simp
          intro h
          simp [List.length_append] at hbl
          omega

#print axioms update_eq_absorb
end Lt.MD
