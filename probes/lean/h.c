#include <stdio.h>
#include <stdint.h>
#include <lean/lean.h>
extern uint8_t lt_validate_seq(uint8_t,uint8_t,uint8_t,uint8_t,uint8_t);
extern void lean_initialize_runtime_module(void);
extern lean_object *initialize_lt_Lt_Utf8(uint8_t builtin);
int utf8_validate_seq(const char *src, const char *srcend);
int main(void){
  lean_initialize_runtime_module();
  lean_object *r = initialize_lt_Lt_Utf8(1);
  if (!lean_io_result_is_ok(r)) { printf("init failed\n"); return 2; }
  lean_io_mark_end_initialization();
  unsigned long n=0, bad=0;
  for (unsigned b0=0;b0<256;b0++) for (unsigned b1=0;b1<256;b1++) for (unsigned b2=0;b2<256;b2++) for (unsigned a=1;a<=4;a++) {
    unsigned char w[4]={b0,b1,b2,0x80};
    int c = utf8_validate_seq((char*)w,(char*)w+a);
    int m = lt_validate_seq(b0,b1,b2,0x80,a);
    n++; if (c!=m) { if (bad<5) printf("diff %02x %02x %02x a=%u c=%d m=%d\n",b0,b1,b2,a,c,m); bad++; }
  }
  printf("n=%lu bad=%lu\n", n, bad);
  return 0;
}
