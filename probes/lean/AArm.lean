import Lt.AA
/-! AA-tree removal (usual/aatree.c): model + executable check of the candidate induction statement -/
namespace Lt.AA
open T

def setLvl : T → Nat → T
  | nil, _ => nil
  | node l k _ r, v => node l k v r
def setRight : T → T → T
  | nil, _ => nil
  | node l k v _, r => node l k v r

/-- rebalance_on_remove, line by line -/
def rebalRemove (t : T) : T :=
  match t with
  | nil => nil
  | node l k v r =>
    if lvl l + 1 < v ∨ lvl r + 1 < v then
      let v' := v - 1
      let r1 := if lvl r > v' then setLvl r v' else r
      let c1 := skew (node l k v' r1)
      let c2 := setRight c1 (skew (right c1))
      let c3 := setRight c2 (setRight (right c2) (skew (right (right c2))))
      let c4 := split c3
      setRight c4 (split (right c4))
    else t

/-- steal_leftmost: returns (remaining tree, stolen key) -/
def stealLeftmost : T → T × Nat
  | nil => (nil, 0)
  | node nil k _ r => (r, k)
  | node (node a b c d) k v r =>
      let (l', m) := stealLeftmost (node a b c d)
      (rebalRemove (node l' k v r), m)

def dropThis : T → T
  | nil => nil
  | node nil _ _ r => r
  | node l _ _ nil => l
  | node l _ v r => let (r', m) := stealLeftmost r; node l m v r'

def removeSub (t : T) (k : Nat) : T :=
  match t with
  | nil => nil
  | node l x v r =>
    if k > x then rebalRemove (node l x v (removeSub r k))
    else if k < x then rebalRemove (node (removeSub l k) x v r)
    else rebalRemove (dropThis (node l x v r))

/-- candidate statement: removal keeps AA and lowers the level by at most one -/
def rmOKb (t t' : T) : Bool :=
  aa t' && (lvl t' == lvl t || lvl t' + 1 == lvl t)

def lcg (s : Nat) : Nat := (s * 6364136223846793005 + 1442695040888963407) % (2^64)
def run (seed n : Nat) : Bool := Id.run do
  let mut s := seed
  let mut t := T.nil
  let mut ok := true
  for i in [0:n] do
    s := lcg s
    let k := (s / 65536) % 24
    if (s / 7) % 3 == 0 || i < 12 then
      t := insertSub t k
    else
      let t' := removeSub t k
      ok := ok && rmOKb t t' && (toList t' == (toList t).filter (· != k))
      t := t'
  return ok
#eval (List.range 400).all (fun i => run (i+1) 120)
end Lt.AA
