namespace Lt.MBuf
structure B where
  readPos : UInt32
  writePos : UInt32
  allocLen : UInt32
  reader : Bool
  fixed : Bool
deriving DecidableEq, Repr

/-- mbuf_get_bytes as the unchanged code has it: `read_pos + len > write_pos` in 32 bits -/
def getBytesOld (b : B) (len : UInt32) : Option (Nat × Nat × B) :=
  if b.readPos + len > b.writePos then none
  else some (b.readPos.toNat, len.toNat, { b with readPos := b.readPos + len })

/-- repaired form: `len > write_pos - read_pos` -/
def getBytesNew (b : B) (len : UInt32) : Option (Nat × Nat × B) :=
  if len > b.writePos - b.readPos then none
  else some (b.readPos.toNat, len.toNat, { b with readPos := b.readPos + len })

def inv (b : B) : Bool := b.readPos ≤ b.writePos && b.writePos ≤ b.allocLen
def safe (b : B) : Option (Nat × Nat × B) → Bool
  | none => true
  | some (ofs, n, _) => decide (ofs + n ≤ b.writePos.toNat)

/-- the safety statement is FALSE for the unchanged code: concrete witness, kernel-checked -/
theorem getBytesOld_unsafe : ¬ (∀ b len, inv b = true → safe b (getBytesOld b len) = true) := by
  intro h
  exact absurd (h ⟨1, 2, 2, false, false⟩ 0xFFFFFFFF (by decide)) (by decide)

/-- and TRUE for the repaired comparison, for every 32-bit length -/
theorem getBytesNew_safe (b : B) (len : UInt32) (hi : inv b = true) :
    safe b (getBytesNew b len) = true := by
  simp only [inv, Bool.and_eq_true, decide_eq_true_eq] at hi
  unfold getBytesNew
  by_cases hc : len > b.writePos - b.readPos
  · simp [hc, safe]
  · simp only [hc, ↓reduceIte, safe, decide_eq_true_eq]
    have hle : len ≤ b.writePos - b.readPos := UInt32.not_lt.mp hc
    have h1 := hi.1
    rw [UInt32.le_iff_toNat_le] at hle h1
    rw [UInt32.toNat_sub_of_le _ _ hi.1] at hle
    omega

#print axioms getBytesOld_unsafe
#print axioms getBytesNew_safe
end Lt.MBuf
