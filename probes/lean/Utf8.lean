namespace Lt

/-- u8tail(c): (c & 0xC0) == 0x80 -/
def u8tail (c : UInt8) : Bool := (c &&& 0xC0) == 0x80

/-- model of utf8_validate_seq on a window of up to 4 bytes; avail = bytes before end -/
@[export lt_validate_seq]
def validateSeq (b0 b1 b2 b3 : UInt8) (avail : UInt8) : UInt8 :=
  if b0 < 0x80 then (if b0 == 0 then 0 else 1)
  else if b0 < 0xC2 then 0
  else if b0 < 0xE0 then
    if avail < 2 then 0 else if !u8tail b1 then 0 else 2
  else if b0 < 0xF0 then
    if avail < 3 then 0
    else if b0 == 0xE0 && b1 < 0xA0 then 0
    else if b0 == 0xED && b1 >= 0xA0 then 0
    else if !u8tail b1 then 0 else if !u8tail b2 then 0 else 3
  else if b0 < 0xF5 then
    if avail < 4 then 0
    else if b0 == 0xF0 && b1 < 0x90 then 0
    else if b0 == 0xF4 && b1 > 0x8F then 0
    else if !u8tail b1 then 0 else if !u8tail b2 then 0 else if !u8tail b3 then 0 else 4
  else 0

end Lt
