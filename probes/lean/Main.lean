import Lt.Utf8
open Lt
def hexVal (c : Char) : Nat := if c.isDigit then c.toNat - 48 else if c ≥ 'a' then c.toNat - 87 else c.toNat - 55
def parseHex (s : String) : List UInt8 :=
  let rec go : List Char → List UInt8
    | a :: b :: rest => UInt8.ofNat (hexVal a * 16 + hexVal b) :: go rest
    | _ => []
  go s.toList
def step (line : String) : String :=
  match line.trimAscii.toString.splitOn " " with
  | ["v", hex] =>
    let bs := parseHex hex
    let g (i : Nat) : UInt8 := bs.getD i 0
    toString (validateSeq (g 0) (g 1) (g 2) (g 3) (UInt8.ofNat (min bs.length 4)))
  | _ => "bad-op"
partial def loop (h : IO.FS.Stream) (out : IO.FS.Stream) : IO Unit := do
  let line ← h.getLine
  if line.isEmpty then return ()
  out.putStrLn (step line)
  loop h out
def main : IO Unit := do loop (← IO.getStdin) (← IO.getStdout)
