import Std.Tactic.BVDecide
import Lt.Utf8
namespace Lt
theorem u8tail_iff (c : UInt8) : u8tail c = true ↔ (0x80 ≤ c ∧ c < 0xC0) := by
  unfold u8tail
  bv_decide

theorem two_byte (b0 b1 b2 b3 a : UInt8) (h : validateSeq b0 b1 b2 b3 a = 2) :
    0xC2 ≤ b0 ∧ b0 < 0xE0 ∧ 0x80 ≤ b1 ∧ b1 < 0xC0 ∧ 2 ≤ a := by
  unfold validateSeq at h
  have := u8tail_iff b1
  bv_decide


/-- kernel-only variant: quantify over Fin 256 -/
theorem u8tail_iff' : ∀ n : Fin 256, u8tail (UInt8.ofNat n.val) = true ↔ (0x80 ≤ n.val ∧ n.val < 0xC0) := by
  decide +kernel

#print axioms u8tail_iff
#print axioms u8tail_iff'
#print axioms two_byte
end Lt
