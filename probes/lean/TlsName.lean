/-! Prototype: tls_match_name of usual/tls/tls_verify.c over byte lists (C strings without NUL). -/
namespace Lt.TlsName

abbrev Str := List Nat
def DOT : Nat := 46
def STAR : Nat := 42
def lower (c : Nat) : Nat := if 65 ≤ c ∧ c ≤ 90 then c + 32 else c
/-- strcasecmp(a,b) == 0 -/
def eqi (a b : Str) : Bool := a.map lower == b.map lower

/-- strchr(s, '.') as "suffix starting at the first dot" -/
def fromDot : Str → Option Str
  | [] => none
  | c :: cs => if c = DOT then some (c :: cs) else fromDot cs

/-- tls_match_name: 0 (true) / -1 (false) -/
def matchName (cert name : Str) : Bool :=
  if eqi cert name then true
  else match cert with
    | c0 :: cd =>                      -- cd = &cert_name[1]
      if c0 ≠ STAR then false
      else match cd with
        | [] => false                                      -- "*"
        | d0 :: cd1 =>
          if d0 ≠ DOT then false                            -- "*foo"
          else if cd1.head? = some DOT then false           -- "*.."
          else match fromDot cd1 with                       -- next_dot = strchr(&cert_domain[1], '.')
            | none => false                                 -- "*.bar"
            | some nd =>
              if nd.tail.head? = some DOT then false        -- "*.bar.."
              else if name.head? = some DOT then false      -- no host part
              else match fromDot name with
                | none => false
                | some dom => if dom.length = 1 then false else eqi cd dom
    | [] => false

def ofString (s : String) : Str := s.toList.map Char.toNat
#eval matchName (ofString "*.example.com") (ofString "WWW.Example.COM")   -- true
#eval matchName (ofString "*.example.com") (ofString "a.b.example.com")   -- false
#eval matchName (ofString "*.com") (ofString "example.com")               -- false
#eval matchName (ofString "*.example.com") (ofString ".example.com")      -- false

/-- splitting at the first dot -/
theorem fromDot_spec : ∀ (s dom : Str), fromDot s = some dom →
    ∃ lbl, s = lbl ++ dom ∧ DOT ∉ lbl ∧ dom.head? = some DOT
  | [], dom, h => by simp [fromDot] at h
  | c :: cs, dom, h => by
    unfold fromDot at h
    split at h
    · next hc => cases h; exact ⟨[], by simp, by simp, by simp [hc]⟩
    · next hc =>
      obtain ⟨lbl, e1, e2, e3⟩ := fromDot_spec cs dom h
      refine ⟨c :: lbl, by simp [e1], ?_, e3⟩
      intro hm; rcases List.mem_cons.mp hm with h1 | h1
      · exact hc h1.symm
      · exact e2 h1

/-- the wildcard covers exactly one non-empty, dot-free label -/
def WildcardCovers (cert name : Str) : Prop :=
  ∃ cd lbl dom, cert = STAR :: cd ∧ name = lbl ++ dom ∧ lbl ≠ [] ∧ DOT ∉ lbl ∧
    dom.head? = some DOT ∧ 1 < dom.length ∧ eqi cd dom = true

/-- SOUNDNESS: a match is either the same name up to ASCII case, or a one-label wildcard -/
theorem matchName_sound (cert name : Str) (h : matchName cert name = true) :
    eqi cert name = true ∨ WildcardCovers cert name := by
  unfold matchName at h
  by_cases he : eqi cert name = true
  · exact Or.inl he
  · right
    rw [if_neg he] at h
    cases cert with
    | nil => simp at h
    | cons c0 cd =>
      simp only at h
      by_cases hstar : c0 = STAR
      · subst hstar
        simp only [ne_eq, not_true_eq_false, ↓reduceIte] at h
        cases cd with
        | nil => simp at h
        | cons d0 cd1 =>
          simp only at h
          by_cases hd0 : d0 = DOT
          · subst hd0
            simp only [ne_eq, not_true_eq_false, ↓reduceIte] at h
            by_cases h2 : cd1.head? = some DOT
            · simp [h2] at h
            · rw [if_neg h2] at h
              cases hnd : fromDot cd1 with
              | none => simp [hnd] at h
              | some nd =>
                simp only [hnd] at h
                by_cases h3 : nd.tail.head? = some DOT
                · simp [h3] at h
                · rw [if_neg h3] at h
                  by_cases hhost : name.head? = some DOT
                  · simp [hhost] at h
                  · rw [if_neg hhost] at h
                    cases hdom : fromDot name with
                    | none => simp [hdom] at h
                    | some dom =>
                      simp only [hdom] at h
                      by_cases hlen : dom.length = 1
                      · simp [hlen] at h
                      · rw [if_neg hlen] at h
                        obtain ⟨lbl, e1, e2, e3⟩ := fromDot_spec name dom hdom
                        refine ⟨DOT :: cd1, lbl, dom, rfl, e1, ?_, e2, e3, ?_, h⟩
                        · intro hl; subst hl
                          simp only [List.nil_append] at e1; subst e1
                          exact hhost e3
                        · have hne : dom ≠ [] := by intro e; subst e; simp at e3
                          have : 0 < dom.length := List.length_pos_iff.mpr hne
                          omega
          · simp [hd0] at h
      · simp [hstar] at h

/-- COMPLETENESS: equal-up-to-case names match, and so does every well-formed one-label wildcard
    ("*." followed by at least two non-empty labels) -/
theorem matchName_eqi (cert name : Str) (h : eqi cert name = true) : matchName cert name = true := by
  unfold matchName; simp [h]

#print axioms matchName_sound
end Lt.TlsName
