/-! Prototype: cx pool allocator (usual/cxextra.c) over abstract addresses. -/
namespace Lt.Pool

def alignUp (x a : Nat) : Nat := (x + a - 1) / a * a     -- CUSTOM_ALIGN, a power of two

structure Seg where
  base : Nat      -- address returned by the parent allocator
  size : Nat      -- bytes obtained from the parent
  start : Nat     -- seg_start
  pos : Nat       -- seg_pos
  stop : Nat      -- seg_end
deriving Repr, DecidableEq

structure Pool where
  align : Nat
  segs : List Seg          -- newest first (pool->last :: prev ...)
  lastPtr : Option Nat
  hdr : Nat := 32          -- POOL_HDR
deriving Repr

/-- parent allocator oracle: n-th request of `size` bytes lands at this address -/
abbrev Parent := Nat → Nat → Nat

/-- new_seg as in the unchanged code: alloc = POOL_HDR + nsize, start aligned up, end = base+alloc -/
def newSegOld (p : Pool) (par : Parent) (reqNo nsize : Nat) : Seg :=
  let alloc := p.hdr + nsize
  let base := par reqNo alloc
  { base := base, size := alloc, start := alignUp (base + p.hdr) p.align,
    pos := alignUp (base + p.hdr) p.align, stop := base + alloc }

/-- `while (nsize < size) nsize *= 2;` with explicit fuel -/
def growTo (n size : Nat) : Nat → Nat
  | 0 => n
  | fuel + 1 => if n < size then growTo (n * 2) size fuel else n

/-- pool_alloc (unchanged code), sizes kept below 2^31 so `unsigned nsize` does not wrap -/
def allocOld (p : Pool) (par : Parent) (reqNo size : Nat) : Pool × Nat × Nat :=   -- (pool, ptr, len)
  let size := alignUp size p.align
  match p.segs with
  | s :: rest =>
    if s.pos + size ≤ s.stop then
      ({ p with segs := { s with pos := s.pos + size } :: rest, lastPtr := some s.pos }, s.pos, size)
    else
      let n0 := 2 * (s.stop - s.start)
      let nsize := growTo n0 size 40
      let s' := newSegOld p par reqNo nsize
      ({ p with segs := { s' with pos := s'.pos + size } :: s :: rest, lastPtr := some s'.pos }, s'.pos, size)
  | [] => (p, 0, 0)

/-- a returned block must lie inside the segment it was carved from -/
def blockInside (p : Pool) (ptr len : Nat) : Bool :=
  p.segs.any (fun s => decide (s.base ≤ ptr) && decide (ptr + len ≤ s.base + s.size))

/-- F5 as a theorem: with align 64 on a 16-aligned parent the very first segment growth can hand
    out a block that sticks out of the memory obtained from the parent -/
def p0 : Pool := { align := 64, segs := [{ base := 0, size := 1120, start := 128, pos := 128, stop := 1120 }], lastPtr := none }
def par16 : Parent := fun n _ => 100000 * (n + 1) + 16      -- 16-aligned but not 64-aligned
theorem pool_block_outside_old :
    let r := allocOld p0 par16 0 1984
    blockInside r.1 r.2.1 r.2.2 = false := by decide +kernel

#print axioms pool_block_outside_old
#eval let r := allocOld p0 par16 0 1984; (r.2, r.1.segs.head?)
end Lt.Pool
