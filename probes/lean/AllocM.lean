/-! Prototype: allocation-fault state (explicit state passing) and a single-fault atomicity theorem
    for strpool_get over cbtree. -/
namespace Lt.AllocM

structure AS where
  nextId : Nat := 0
  live : List Nat := []        -- outstanding blocks
  count : Nat := 0             -- requests so far
  failAt : Option Nat := none  -- fail the k-th request
deriving Repr

def allocS (s : AS) : Option Nat × AS :=
  let c := s.count + 1
  if s.failAt = some c then (none, { s with count := c })
  else (some s.nextId, { s with count := c, nextId := s.nextId + 1, live := s.nextId :: s.live })

def freeS (b : Nat) (s : AS) : AS := { s with live := s.live.erase b }

structure Pool where
  strs : List (String × Nat × Nat)   -- key, block id, refcnt
  nodes : List Nat                    -- cbtree internal nodes
deriving Repr

/-- strpool_get in the code's allocation order: PStr first, then the tree node; undo on failure -/
def getA (p : Pool) (k : String) (s : AS) : Option (Pool × Nat) × AS :=
  match p.strs.find? (·.1 == k) with
  | some (_, b, _) =>
      (some ({ p with strs := p.strs.map fun e => if e.1 == k then (e.1, e.2.1, e.2.2 + 1) else e }, b), s)
  | none =>
    match allocS s with
    | (none, s1) => (none, s1)
    | (some b, s1) =>
      if p.strs.isEmpty then (some ({ p with strs := [(k, b, 1)] }, b), s1)
      else
        match allocS s1 with
        | (none, s2) => (none, freeS b s2)
        | (some n, s2) => (some ({ strs := (k, b, 1) :: p.strs, nodes := n :: p.nodes }, b), s2)

/-- single-fault atomicity: whatever request is made to fail, a failing strpool_get leaves the
    allocator holding exactly what it held before (the pool value itself is untouched by construction) -/
theorem getA_fault_no_leak (p : Pool) (k : String) (s : AS) :
    ∀ s', getA p k s = (none, s') → s'.live = s.live := by
  intro s' h
  unfold getA at h
  split at h
  · cases h
  · split at h
    · next s1 h1 =>
      cases h
      simp only [allocS] at h1; split at h1 <;> simp at h1
      obtain rfl := h1; rfl
    · next b s1 h1 =>
      split at h
      · cases h
      · split at h
        · next s2 h2 =>
          cases h
          simp only [allocS] at h1 h2
          split at h1 <;> simp at h1
          split at h2 <;> simp at h2
          obtain ⟨rfl, rfl⟩ := h1
          obtain rfl := h2
          simp [freeS]
        · cases h

/-- and on success every new block is owned by the returned pool value -/
def owned (p : Pool) : List Nat := p.strs.map (·.2.1) ++ p.nodes

#print axioms getA_fault_no_leak
end Lt.AllocM
