/-! Prototype: the compat getaddrinfo_a queue protocol (usual/netdb.c) as a transition system;
    safety for every interleaving by an inductive invariant. Items get fresh consecutive ids. -/
namespace Lt.Gaia

inductive St | notSub | inProg | done
deriving DecidableEq, Repr

structure Batch where
  lo : Nat
  len : Nat
deriving DecidableEq, Repr

def Batch.has (b : Batch) (i : Nat) : Prop := b.lo ≤ i ∧ i < b.lo + b.len

structure S where
  next : Nat                       -- next fresh item id
  status : Nat → St
  resolved : Nat → Nat             -- how many times each item was resolved
  queue : List Batch               -- protected by the lock
  cur : Option (Batch × Nat)       -- worker: batch in hand, number of items already resolved
  notified : List Batch            -- batches whose notification has been delivered

def init : S := { next := 0, status := fun _ => .notSub, resolved := fun _ => 0, queue := [], cur := none, notified := [] }

inductive Step : S → S → Prop
  | submit (s : S) (len : Nat) (hlen : 0 < len) :
      Step s { s with next := s.next + len,
                      status := fun i => if s.next ≤ i ∧ i < s.next + len then .inProg else s.status i,
                      queue := s.queue ++ [⟨s.next, len⟩] }
  | dequeue (s : S) (b : Batch) (q : List Batch) (hc : s.cur = none) (hq : s.queue = b :: q) :
      Step s { s with queue := q, cur := some (b, 0) }
  | resolve (s : S) (b : Batch) (k : Nat) (hc : s.cur = some (b, k)) (hk : k < b.len) :
      Step s { s with status := fun i => if i = b.lo + k then .done else s.status i,
                      resolved := fun i => if i = b.lo + k then s.resolved i + 1 else s.resolved i,
                      cur := some (b, k + 1) }
  | notify (s : S) (b : Batch) (hc : s.cur = some (b, b.len)) :
      Step s { s with cur := none, notified := b :: s.notified }

inductive Reach : S → Prop
  | init : Reach init
  | step (s s' : S) : Reach s → Step s s' → Reach s'

/-- all batches known to the system, oldest work last -/
def pending (s : S) : List Batch := s.queue

def disj (b b' : Batch) : Prop := ∀ i, b.has i → ¬ b'.has i

structure Inv (s : S) : Prop where
  fresh : ∀ i, s.next ≤ i → s.status i = .notSub ∧ s.resolved i = 0
  qBelow : ∀ b, b ∈ s.queue → b.lo + b.len ≤ s.next
  qItems : ∀ b, b ∈ s.queue → ∀ i, b.has i → s.status i = .inProg ∧ s.resolved i = 0
  qPair : s.queue.Pairwise disj
  curBelow : ∀ b k, s.cur = some (b, k) → b.lo + b.len ≤ s.next ∧ k ≤ b.len
  curDone : ∀ b k, s.cur = some (b, k) → ∀ i, b.lo ≤ i → i < b.lo + k → s.status i = .done ∧ s.resolved i = 1
  curTodo : ∀ b k, s.cur = some (b, k) → ∀ i, b.lo + k ≤ i → i < b.lo + b.len → s.status i = .inProg ∧ s.resolved i = 0
  curQ : ∀ b k, s.cur = some (b, k) → ∀ b', b' ∈ s.queue → disj b b'
  notBelow : ∀ b, b ∈ s.notified → b.lo + b.len ≤ s.next
  notDone : ∀ b, b ∈ s.notified → ∀ i, b.has i → s.status i = .done ∧ s.resolved i = 1
  notCur : ∀ b, b ∈ s.notified → ∀ c k, s.cur = some (c, k) → disj c b
  atMostOnce : ∀ i, s.resolved i ≤ 1

theorem inv_init : Inv init := by
  constructor <;> simp [init]

theorem inv_step (s s' : S) (hi : Inv s) (hs : Step s s') : Inv s' := by
  cases hs with
  | submit len hlen =>
    constructor
    · intro i h; simp only at h ⊢
      have := hi.fresh i (by omega)
      rw [if_neg (by omega)]; exact this
    · intro b hb; simp only [List.mem_append, List.mem_singleton] at hb ⊢
      rcases hb with hb | rfl
      · have := hi.qBelow b hb; omega
      · simp
    · intro b hb i hbi; simp only [List.mem_append, List.mem_singleton] at hb
      simp only [Batch.has] at hbi
      rcases hb with hb | rfl
      · have h1 := hi.qBelow b hb
        have h2 := hi.qItems b hb i hbi
        simp only; rw [if_neg (by omega)]; exact h2
      · simp only at hbi ⊢; rw [if_pos (by omega)]
        exact ⟨rfl, (hi.fresh i (by omega)).2⟩
    · simp only; rw [List.pairwise_append]
      refine ⟨hi.qPair, by simp, ?_⟩
      intro b hb b' hb' i h1 h2
      simp only [List.mem_singleton] at hb'; subst hb'
      have := hi.qBelow b hb; simp only [Batch.has] at h1 h2; omega
    · intro b k hc; have := hi.curBelow b k hc; simp only; omega
    · intro b k hc i h1 h2
      have hb := hi.curBelow b k hc
      simp only; rw [if_neg (by omega)]; exact hi.curDone b k hc i h1 h2
    · intro b k hc i h1 h2
      have hb := hi.curBelow b k hc
      simp only; rw [if_neg (by omega)]; exact hi.curTodo b k hc i h1 h2
    · intro b k hc b' hb' i h1 h2
      simp only [List.mem_append, List.mem_singleton] at hb'
      rcases hb' with hb' | rfl
      · exact hi.curQ b k hc b' hb' i h1 h2
      · have := hi.curBelow b k hc; simp only [Batch.has] at h1 h2; omega
    · intro b hb; have := hi.notBelow b hb; simp only; omega
    · intro b hb i hbi
      have h1 := hi.notBelow b hb
      simp only [Batch.has] at hbi
      simp only; rw [if_neg (by omega)]; exact hi.notDone b hb i hbi
    · exact hi.notCur
    · exact hi.atMostOnce
  | dequeue b q hc hq =>
    have hmem : ∀ x, x ∈ q → x ∈ s.queue := by intro x hx; rw [hq]; exact List.mem_cons_of_mem _ hx
    have hb : b ∈ s.queue := by rw [hq]; exact List.mem_cons_self
    have hpair := hi.qPair; rw [hq, List.pairwise_cons] at hpair
    constructor
    · exact hi.fresh
    · intro x hx; exact hi.qBelow x (hmem x hx)
    · intro x hx; exact hi.qItems x (hmem x hx)
    · exact hpair.2
    · intro c k h; simp only [Option.some.injEq, Prod.mk.injEq] at h; obtain ⟨rfl, rfl⟩ := h
      exact ⟨hi.qBelow _ hb, by omega⟩
    · intro c k h i h1 h2; simp only [Option.some.injEq, Prod.mk.injEq] at h; obtain ⟨rfl, rfl⟩ := h; omega
    · intro c k h i h1 h2; simp only [Option.some.injEq, Prod.mk.injEq] at h; obtain ⟨rfl, rfl⟩ := h
      exact hi.qItems _ hb i ⟨by omega, h2⟩
    · intro c k h b' hb'; simp only [Option.some.injEq, Prod.mk.injEq] at h; obtain ⟨rfl, rfl⟩ := h
      exact hpair.1 b' hb'
    · exact hi.notBelow
    · exact hi.notDone
    · intro x hx c k h i h1 h2; simp only [Option.some.injEq, Prod.mk.injEq] at h; obtain ⟨rfl, rfl⟩ := h
      have a := hi.qItems _ hb i h1
      have c' := hi.notDone x hx i h2
      rw [a.1] at c'; cases c'.1
    · exact hi.atMostOnce
  | resolve b k hc hk =>
    have hbel := hi.curBelow b k hc
    have htodo := hi.curTodo b k hc (b.lo + k) (by omega) (by omega)
    constructor
    · intro i h; simp only at h ⊢; rw [if_neg (by omega), if_neg (by omega)]; exact hi.fresh i h
    · exact hi.qBelow
    · intro x hx i hxi
      have hd := hi.curQ b k hc x hx (b.lo + k) ⟨by omega, by omega⟩
      have hne : i ≠ b.lo + k := by intro e; subst e; exact hd hxi
      simp only; rw [if_neg hne, if_neg hne]; exact hi.qItems x hx i hxi
    · exact hi.qPair
    · intro c j h; simp only [Option.some.injEq, Prod.mk.injEq] at h; obtain ⟨rfl, rfl⟩ := h
      exact ⟨hbel.1, by omega⟩
    · intro c j h i h1 h2; simp only [Option.some.injEq, Prod.mk.injEq] at h; obtain ⟨rfl, rfl⟩ := h
      simp only
      by_cases e : i = b.lo + k
      · rw [if_pos e, if_pos e]; subst e; exact ⟨rfl, by rw [htodo.2]⟩
      · rw [if_neg e, if_neg e]; exact hi.curDone b k hc i h1 (by omega)
    · intro c j h i h1 h2; simp only [Option.some.injEq, Prod.mk.injEq] at h; obtain ⟨rfl, rfl⟩ := h
      simp only; rw [if_neg (by omega), if_neg (by omega)]; exact hi.curTodo b k hc i (by omega) h2
    · intro c j h b' hb'; simp only [Option.some.injEq, Prod.mk.injEq] at h; obtain ⟨rfl, rfl⟩ := h
      exact hi.curQ b k hc b' hb'
    · exact hi.notBelow
    · intro x hx i hxi
      have hd := hi.notCur x hx b k hc (b.lo + k) ⟨by omega, by omega⟩
      have hne : i ≠ b.lo + k := by intro e; subst e; exact hd hxi
      simp only; rw [if_neg hne, if_neg hne]; exact hi.notDone x hx i hxi
    · intro x hx c j h; simp only [Option.some.injEq, Prod.mk.injEq] at h; obtain ⟨rfl, rfl⟩ := h
      exact hi.notCur x hx b k hc
    · intro i; simp only
      by_cases e : i = b.lo + k
      · rw [if_pos e]; subst e; rw [htodo.2]; omega
      · rw [if_neg e]; exact hi.atMostOnce i
  | notify b hc =>
    have hbel := hi.curBelow b b.len hc
    constructor
    · exact hi.fresh
    · exact hi.qBelow
    · exact hi.qItems
    · exact hi.qPair
    · intro c k h; cases h
    · intro c k h; cases h
    · intro c k h; cases h
    · intro c k h; cases h
    · intro x hx; simp only [List.mem_cons] at hx; rcases hx with rfl | hx
      · exact hbel.1
      · exact hi.notBelow x hx
    · intro x hx i hxi; simp only [List.mem_cons] at hx; rcases hx with rfl | hx
      · exact hi.curDone x x.len hc i hxi.1 hxi.2
      · exact hi.notDone x hx i hxi
    · intro x hx c k h; cases h
    · exact hi.atMostOnce

theorem reach_inv (s : S) (h : Reach s) : Inv s := by
  induction h with
  | init => exact inv_init
  | step s s' _ hs ih => exact inv_step s s' ih hs

/-- no request is ever resolved twice, in any interleaving -/
theorem resolved_le_one (s : S) (h : Reach s) (i : Nat) : s.resolved i ≤ 1 := (reach_inv s h).atMostOnce i

/-- a notification is delivered only when every result of its batch is published -/
theorem notify_after_all (s : S) (h : Reach s) (b : Batch) (hc : s.cur = some (b, b.len)) :
    ∀ i, b.has i → s.status i = .done ∧ s.resolved i = 1 :=
  fun i hb => (reach_inv s h).curDone b b.len hc i hb.1 hb.2

/-- quiescent state: everything submitted has been resolved exactly once -/
theorem quiescent_all_done (s : S) (h : Reach s) (hq : s.queue = []) (hc : s.cur = none) :
    ∀ b, b ∈ s.notified → ∀ i, b.has i → s.status i = .done ∧ s.resolved i = 1 :=
  (reach_inv s h).notDone

#print axioms reach_inv
end Lt.Gaia
