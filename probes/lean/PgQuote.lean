/-! Prototype: pg_quote_literal (usual/pgutil.c) against a model of the PostgreSQL string lexer
    (standard_conforming_strings = on): the quoted text lexes back to exactly the input. -/
namespace Lt.PgQuote

abbrev Str := List Nat
def Q : Nat := 39        -- '
def BS : Nat := 92       -- \
def E : Nat := 69        -- E

/-- body of the literal: quotes doubled; backslashes doubled in E'' mode -/
def body (ext : Bool) : Str → Str
  | [] => []
  | c :: cs =>
    if c = Q then Q :: Q :: body ext cs
    else if c = BS ∧ ext then BS :: BS :: body ext cs
    else c :: body ext cs

/-- pg_quote_literal without the buffer arithmetic: plain '…' unless a backslash forces E'…' -/
def quoteLiteral (s : Str) : Str :=
  if BS ∈ s then E :: Q :: (body true s ++ [Q]) else Q :: (body false s ++ [Q])

/-- lexer for the inside of a literal, after the opening quote: returns decoded text and the rest
    after the closing quote -/
def lexBody (ext : Bool) : Nat → Str → Option (Str × Str)
  | 0, _ => none
  | fuel + 1, t =>
    match t with
    | [] => none                                          -- unterminated
    | c :: cs =>
      if c = Q then
        match cs with
        | c2 :: cs2 => if c2 = Q then (lexBody ext fuel cs2).map (fun r => (Q :: r.1, r.2)) else some ([], cs)
        | [] => some ([], [])
      else if c = BS ∧ ext then
        match cs with
        | c2 :: cs2 => (lexBody ext fuel cs2).map (fun r => (c2 :: r.1, r.2))
        | [] => none
      else (lexBody ext fuel cs).map (fun r => (c :: r.1, r.2))

def lexLiteral (t : Str) : Option (Str × Str) :=
  match t with
  | c :: cs =>
    if c = Q then lexBody false (cs.length + 1) cs
    else if c = E then
      match cs with
      | c2 :: cs2 => if c2 = Q then lexBody true (cs2.length + 1) cs2 else none
      | [] => none
    else none
  | [] => none

#eval lexLiteral (quoteLiteral [97, 39, 98, 92, 99])    -- a'b\c

theorem body_length_le (ext : Bool) (s : Str) : s.length ≤ (body ext s).length := by
  induction s with
  | nil => simp [body]
  | cons c cs ih => unfold body; split <;> (try split) <;> simp <;> omega

theorem body_q (ext : Bool) (cs : Str) : body ext (Q :: cs) = Q :: Q :: body ext cs := by
  simp [body]
theorem body_bs (cs : Str) : body true (BS :: cs) = BS :: BS :: body true cs := by
  have : BS ≠ Q := by decide
  simp [body, this]
theorem body_other (ext : Bool) (c : Nat) (cs : Str) (h1 : c ≠ Q) (h2 : ¬ (c = BS ∧ ext = true)) :
    body ext (c :: cs) = c :: body ext cs := by
  simp [body, h1, h2]

/-- the lexer undoes `body` and stops exactly at the closing quote, whatever follows -/
theorem lexBody_body (ext : Bool) :
    ∀ (s rest : Str) (fuel : Nat), (ext = false → BS ∉ s) → (body ext s).length + 1 ≤ fuel →
      (rest.head? ≠ some Q) →
      lexBody ext fuel (body ext s ++ Q :: rest) = some (s, rest) := by
  intro s
  induction s with
  | nil =>
    intro rest fuel _ hf hr
    cases fuel with
    | zero => simp [body] at hf
    | succ fuel =>
      simp only [body, List.nil_append, lexBody, ↓reduceIte]
      cases rest with
      | nil => rfl
      | cons r rs =>
        have : r ≠ Q := by intro e; subst e; simp at hr
        simp [this]
  | cons c cs ih =>
    intro rest fuel hbs hf hr
    have hbs' : ext = false → BS ∉ cs := fun h hm => hbs h (List.mem_cons_of_mem _ hm)
    by_cases hq : c = Q
    · subst hq
      rw [body_q] at hf ⊢
      cases fuel with
      | zero => simp at hf
      | succ fuel =>
        simp only [List.cons_append, lexBody, ↓reduceIte]
        rw [ih rest fuel hbs' (by simp at hf; omega) hr]; rfl
    · by_cases hb : c = BS ∧ ext = true
      · obtain ⟨hb1, hb2⟩ := hb
        subst hb1; subst hb2
        rw [body_bs] at hf ⊢
        cases fuel with
        | zero => simp at hf
        | succ fuel =>
          have hne : BS ≠ Q := by decide
          simp only [List.cons_append, lexBody, hne, ↓reduceIte, and_self]
          rw [ih rest fuel hbs' (by simp at hf; omega) hr]; rfl
      · rw [body_other ext c cs hq hb] at hf ⊢
        cases fuel with
        | zero => simp at hf
        | succ fuel =>
          simp only [List.cons_append, lexBody, hq, hb, ↓reduceIte]
          rw [ih rest fuel hbs' (by simp at hf; omega) hr]; rfl

/-- INJECTION SAFETY: the quoted text is one literal token that decodes to exactly the input -/
theorem literal_roundtrip (s : Str) : lexLiteral (quoteLiteral s) = some (s, []) := by
  unfold quoteLiteral
  by_cases hbs : BS ∈ s
  · simp only [hbs, ↓reduceIte, lexLiteral]
    have h1 : E ≠ Q := by decide
    simp only [h1, ↓reduceIte]
    exact lexBody_body true s [] _ (by intro h; cases h) (by simp) (by simp)
  · simp only [hbs, ↓reduceIte, lexLiteral]
    exact lexBody_body false s [] _ (fun _ => hbs) (by simp) (by simp)

#print axioms literal_roundtrip
end Lt.PgQuote
