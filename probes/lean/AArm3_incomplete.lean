import Lt.AArm2
namespace Lt.AA
open T

@[simp] theorem left_nil : left nil = nil := rfl
@[simp] theorem left_node (l r : T) (k v : Nat) : left (node l k v r) = l := rfl
@[simp] theorem setLvl_node (l r : T) (k v w : Nat) : setLvl (node l k v r) w = node l k w r := rfl
@[simp] theorem setLvl_nil (w : Nat) : setLvl nil w = nil := rfl
@[simp] theorem setRight_node (l r r' : T) (k v : Nat) : setRight (node l k v r) r' = node l k v r' := rfl
@[simp] theorem setRight_nil (r' : T) : setRight nil r' = nil := rfl
theorem skew_nil : skew nil = nil := rfl
theorem skew_leftnil (k v : Nat) (r : T) : skew (node nil k v r) = node nil k v r := rfl
theorem skew_node (a b c : T) (ky ly kx lx : Nat) :
    skew (node (node a ky ly b) kx lx c) =
      if lx = ly then node a ky ly (node b kx lx c) else node (node a ky ly b) kx lx c := rfl
theorem split_nil : split nil = nil := rfl
theorem split_r0 (a : T) (k v : Nat) : split (node a k v nil) = node a k v nil := rfl
theorem split_r1 (a b : T) (k v ky ly : Nat) : split (node a k v (node b ky ly nil)) = node a k v (node b ky ly nil) := rfl
theorem split_r2 (a b c d : T) (kx lx ky ly kz lz : Nat) :
    split (node a kx lx (node b ky ly (node c kz lz d))) =
      if lx = lz then node (node a kx lx b) ky (ly + 1) (node c kz lz d)
      else node a kx lx (node b ky ly (node c kz lz d)) := rfl
theorem rebal_node (l r : T) (k v : Nat) :
    rebalRemove (node l k v r) =
      if lvl l + 1 < v ∨ lvl r + 1 < v then
        (let r1 := if lvl r > v - 1 then setLvl r (v - 1) else r
         let c1 := skew (node l k (v - 1) r1)
         let c2 := setRight c1 (skew (right c1))
         let c3 := setRight c2 (setRight (right c2) (skew (right (right c2))))
         let c4 := split c3
         setRight c4 (split (right c4)))
      else node l k v r := rfl

/-- normalise one layer: rewrite the tree operations on known shapes, then split the level tests -/
macro "aa_norm" : tactic => `(tactic|
  simp only [rebal_node, skew_nil, skew_leftnil, skew_node, split_nil, split_r0, split_r1, split_r2,
    setLvl_node, setLvl_nil, setRight_node, setRight_nil, right_node, right_nil, left_node, left_nil,
    lvl_node, lvl_nil, aa_node, aa_nil, sngl_node, true_and, and_true, true_or, or_true,
    true_imp_iff, not_true_eq_false, false_imp_iff] at *)

macro "aa_crunch" : tactic => `(tactic|
  (repeat' (first | (split <;> aa_norm) )) <;> (try aa_norm) <;> (try omega))

set_option maxHeartbeats 4000000 in
theorem rebal_post_nil_nil (k v : Nat) (os : Bool)
    (hlev : (0 + 1 = v ∧ (0 + 1 = v ∨ 0 + 2 = v ∨ (0 = v ∧ 0 < v))) ∨ (0 + 2 = v ∧ (0 + 1 = v ∨ (0 = v ∧ 0 < v)))) :
    aa (rebalRemove (node nil k v nil)) = true ∧
    (lvl (rebalRemove (node nil k v nil)) = v ∨ lvl (rebalRemove (node nil k v nil)) + 1 = v) ∧
    (lvl (rebalRemove (node nil k v nil)) = v → os = true → sngl (rebalRemove (node nil k v nil)) = true) := by
  aa_norm
  split
  all_goals sorry
end Lt.AA
