import Lt.MD
/-! Chunking independence for the MD-family streaming code (md5/sha1/sha256/sha512 `*_update`). -/
namespace Lt.MD
variable {σ : Type}

/-- absorbing is insensitive to fuel once it exceeds the pending length -/
theorem absorb_enough (B : Nat) (hB : 0 < B) (compress : σ → List UInt8 → σ) (st : σ) (p : List UInt8)
    (f : Nat) (hf : p.length < f) :
    absorb B compress st p f = absorb B compress st p (p.length + 1) :=
  absorb_fuel_irrelevant B hB compress f (p.length + 1) st p hf (by omega)

/-- canonical absorb with enough fuel -/
def absorbAll (B : Nat) (compress : σ → List UInt8 → σ) (st : σ) (p : List UInt8) : σ × List UInt8 :=
  absorb B compress st p (p.length + 1)

theorem absorbAll_lt (B : Nat) (compress : σ → List UInt8 → σ) (st : σ) (p : List UInt8) (h : p.length < B) :
    absorbAll B compress st p = (st, p) := by
  unfold absorbAll absorb; simp [h]

theorem absorbAll_ge (B : Nat) (hB : 0 < B) (compress : σ → List UInt8 → σ) (st : σ) (p : List UInt8)
    (h : B ≤ p.length) :
    absorbAll B compress st p = absorbAll B compress (compress st (p.take B)) (p.drop B) := by
  unfold absorbAll
  conv => lhs; unfold absorb
  have : ¬ p.length < B := by omega
  simp only [this, ↓reduceIte]
  apply absorb_fuel_irrelevant B hB compress
  · simp [List.length_drop]; omega
  · simp [List.length_drop]

/-- the partial buffer left by absorbing is shorter than a block -/
theorem absorbAll_rem_lt (B : Nat) (hB : 0 < B) (compress : σ → List UInt8 → σ) :
    ∀ (n : Nat) (st : σ) (p : List UInt8), p.length ≤ n → (absorbAll B compress st p).2.length < B := by
  intro n
  induction n with
  | zero => intro st p h; have : p = [] := List.length_eq_zero_iff.mp (by omega); subst this; rw [absorbAll_lt] <;> simp [hB]
  | succ n ih =>
    intro st p h
    by_cases hlt : p.length < B
    · rw [absorbAll_lt B compress st p hlt]; exact hlt
    · rw [absorbAll_ge B hB compress st p (by omega)]
      apply ih; simp [List.length_drop]; omega

/-- absorbing a concatenation = absorbing the first part, then the rest on top of what was left -/
theorem absorbAll_append (B : Nat) (hB : 0 < B) (compress : σ → List UInt8 → σ) :
    ∀ (n : Nat) (st : σ) (p q : List UInt8), p.length ≤ n →
      absorbAll B compress st (p ++ q) =
        absorbAll B compress (absorbAll B compress st p).1 ((absorbAll B compress st p).2 ++ q) := by
  intro n
  induction n with
  | zero =>
    intro st p q h
    have : p = [] := List.length_eq_zero_iff.mp (by omega)
    subst this
    rw [absorbAll_lt B compress st [] (by simpa using hB)]
  | succ n ih =>
    intro st p q h
    by_cases hlt : p.length < B
    · rw [absorbAll_lt B compress st p hlt]
    · have hge : B ≤ p.length := by omega
      rw [absorbAll_ge B hB compress st (p ++ q) (by simp; omega)]
      rw [absorbAll_ge B hB compress st p hge]
      have ht : (p ++ q).take B = p.take B := by
        rw [List.take_append_of_le_length hge]
      have hd : (p ++ q).drop B = p.drop B ++ q := by
        rw [List.drop_append_of_le_length hge]
      rw [ht, hd]
      apply ih; simp [List.length_drop]; omega

/-- state of the streaming context as a pair -/
def view (c : Ctx σ) : σ × List UInt8 := (c.st, c.buf)

/-- one `update` call = absorbing `buf ++ data` (restating update_eq_absorb with absorbAll) -/
theorem update_view (B : Nat) (hB : 0 < B) (compress : σ → List UInt8 → σ) (c : Ctx σ) (data : List UInt8)
    (hb : c.buf.length < B) :
    view (update B compress c data (data.length + 1)) = absorbAll B compress c.st (c.buf ++ data) ∧
    (update B compress c data (data.length + 1)).nbytes = c.nbytes + data.length := by
  have := update_eq_absorb B hB compress (data.length + 1) c data (by omega) hb
  simp only at this
  obtain ⟨h1, h2⟩ := this
  refine ⟨?_, h2⟩
  unfold view absorbAll
  rw [h1]; simp [List.length_append]

/-- CHUNKING INDEPENDENCE: feeding `a` then `b` leaves the context in the same state as feeding `a ++ b` -/
theorem update_update (B : Nat) (hB : 0 < B) (compress : σ → List UInt8 → σ) (c : Ctx σ) (a b : List UInt8)
    (hb : c.buf.length < B) :
    let c1 := update B compress c a (a.length + 1)
    let c2 := update B compress c1 b (b.length + 1)
    let c' := update B compress c (a ++ b) ((a ++ b).length + 1)
    view c2 = view c' ∧ c2.nbytes = c'.nbytes := by
  intro c1 c2 c'
  obtain ⟨v1, n1⟩ := update_view B hB compress c a hb
  have hb1 : c1.buf.length < B := by
    have := absorbAll_rem_lt B hB compress (c.buf ++ a).length c.st (c.buf ++ a) (Nat.le_refl _)
    have e : c1.buf = (absorbAll B compress c.st (c.buf ++ a)).2 := by
      have := congrArg Prod.snd v1; simpa [view] using this
    rw [e]; exact this
  obtain ⟨v2, n2⟩ := update_view B hB compress c1 b hb1
  obtain ⟨v', n'⟩ := update_view B hB compress c (a ++ b) hb
  constructor
  · rw [v2, v']
    have e1 : c1.st = (absorbAll B compress c.st (c.buf ++ a)).1 := by
      have := congrArg Prod.fst v1; simpa [view] using this
    have e2 : c1.buf = (absorbAll B compress c.st (c.buf ++ a)).2 := by
      have := congrArg Prod.snd v1; simpa [view] using this
    rw [e1, e2, ← List.append_assoc]
    exact (absorbAll_append B hB compress (c.buf ++ a).length c.st (c.buf ++ a) b (Nat.le_refl _)).symm
  · rw [n2, n1, n']; simp [List.length_append]; omega

#print axioms update_update
end Lt.MD
