import Lt.CB
/-! Byte-string instance of the crit-bit key interface: get_bit and find_crit_bit of usual/cbtree.c -/
namespace Lt.CB

abbrev Bytes := List Nat      -- each element < 256 (hypothesis where needed)

/-- get_bit: bit `pos` of the zero-padded key, MSB first -/
def getBit (k : Bytes) (pos : Nat) : Bool :=
  match k[pos / 8]? with
  | some b => b.testBit (7 - pos % 8)
  | none => false

/-- index of the highest set bit of a non-zero byte (fls(c) - 1), as a comparison cascade -/
def hiBit (c : Nat) : Nat :=
  if c ≥ 128 then 7 else if c ≥ 64 then 6 else if c ≥ 32 then 5 else if c ≥ 16 then 4
  else if c ≥ 8 then 3 else if c ≥ 4 then 2 else if c ≥ 2 then 1 else 0

/-- `8 - fls(c)`: MSB-first index of the highest set bit -/
def firstBit (c : Nat) : Nat := 7 - hiBit c

theorem hiBit_spec : ∀ c : Fin 256, c.val ≠ 0 →
    c.val.testBit (hiBit c.val) = true ∧ (∀ j : Fin 8, hiBit c.val < j.val → c.val.testBit j.val = false) ∧
    hiBit c.val < 8 := by
  decide +kernel

/-- find_crit_bit: first the common part, then the longer key against zero padding -/
def findCrit : Bytes → Bytes → Nat → Option Nat
  | [], [], _ => none
  | x :: xs, [], i => if x ≠ 0 then some (i * 8 + firstBit x) else findCrit xs [] (i + 1)
  | [], y :: ys, i => if y ≠ 0 then some (i * 8 + firstBit y) else findCrit [] ys (i + 1)
  | x :: xs, y :: ys, i => if x ≠ y then some (i * 8 + firstBit (x ^^^ y)) else findCrit xs ys (i + 1)


def IsBytes (k : Bytes) : Prop := ∀ x, x ∈ k → x < 256

theorem getBit_nil (p : Nat) : getBit [] p = false := by simp [getBit]

theorem getBit_cons_lt (x : Nat) (xs : Bytes) (p : Nat) (h : p < 8) :
    getBit (x :: xs) p = x.testBit (7 - p) := by
  have h0 : p / 8 = 0 := by omega
  have h1 : p % 8 = p := by omega
  simp [getBit, h0, h1]

theorem getBit_cons_ge (x : Nat) (xs : Bytes) (p : Nat) (h : 8 ≤ p) :
    getBit (x :: xs) p = getBit xs (p - 8) := by
  have h0 : p / 8 = (p - 8) / 8 + 1 := by omega
  have h1 : p % 8 = (p - 8) % 8 := by omega
  simp [getBit, h0, h1]

/-- two different bytes: first differing bit (MSB first) is `firstBit (x ^^^ y)` -/
theorem byte_diff (x y : Nat) (hx : x < 256) (hy : y < 256) (hne : x ≠ y) :
    let m := firstBit (x ^^^ y)
    m < 8 ∧ x.testBit (7 - m) ≠ y.testBit (7 - m) ∧ ∀ p, p < m → x.testBit (7 - p) = y.testBit (7 - p) := by
  have hc : x ^^^ y < 256 := Nat.xor_lt_two_pow (n := 8) hx hy
  have hc0 : x ^^^ y ≠ 0 := by
    intro h; apply hne
    apply Nat.eq_of_testBit_eq
    intro i
    have : (x ^^^ y).testBit i = false := by rw [h]; simp
    rw [Nat.testBit_xor] at this
    revert this; cases x.testBit i <;> cases y.testBit i <;> simp
  obtain ⟨h1, h2, h3⟩ := hiBit_spec ⟨x ^^^ y, hc⟩ hc0
  simp only at h1 h2 h3
  simp only [firstBit]
  have e : 7 - (7 - hiBit (x ^^^ y)) = hiBit (x ^^^ y) := by omega
  refine ⟨by omega, ?_, ?_⟩
  · rw [e]; rw [Nat.testBit_xor] at h1
    intro heq; rw [heq] at h1; simp at h1
  · intro p hp
    have := h2 ⟨7 - p, by omega⟩ (by simp only; omega)
    simp only at this
    rw [Nat.testBit_xor] at this
    revert this; cases x.testBit (7 - p) <;> cases y.testBit (7 - p) <;> simp

/-- a non-zero byte against zero padding -/
theorem byte_nonzero (x : Nat) (hx : x < 256) (hne : x ≠ 0) :
    let m := firstBit x
    m < 8 ∧ x.testBit (7 - m) = true ∧ ∀ p, p < m → x.testBit (7 - p) = false := by
  have := byte_diff x 0 hx (by omega) hne
  simp only [Nat.xor_zero, Nat.zero_testBit] at this
  obtain ⟨a, b, c⟩ := this
  refine ⟨a, ?_, c⟩
  revert b; cases x.testBit (7 - firstBit x) <;> simp

/-- soundness of find_crit_bit: `none` means the zero-padded bit strings coincide; `some n`
    is the first differing bit position -/
theorem findCrit_spec (a b : Bytes) (i : Nat) (ha : IsBytes a) (hb : IsBytes b) :
    (findCrit a b i = none → ∀ p, getBit a p = getBit b p) ∧
    (∀ n, findCrit a b i = some n → ∃ m, n = i * 8 + m ∧
        (∀ p, p < m → getBit a p = getBit b p) ∧ getBit a m ≠ getBit b m) := by
  induction a generalizing b i with
  | nil =>
    induction b generalizing i with
    | nil => simp [findCrit]
    | cons y ys ih =>
      have hy : y < 256 := hb y (by simp)
      have hys : IsBytes ys := fun x hx => hb x (by simp [hx])
      unfold findCrit
      by_cases h0 : y ≠ 0
      · simp only [h0, ne_eq, not_false_eq_true, ↓reduceIte]
        obtain ⟨m1, m2, m3⟩ := byte_nonzero y hy h0
        constructor
        · intro h; cases h
        · intro n hn
          simp only [Option.some.injEq] at hn; subst hn
          refine ⟨firstBit y, rfl, ?_, ?_⟩
          · intro p hp; rw [getBit_nil, getBit_cons_lt y ys p (by omega), m3 p hp]
          · rw [getBit_nil, getBit_cons_lt y ys _ m1, m2]; simp
      · have h0' : y = 0 := by omega
        subst h0'
        simp only [ne_eq, not_true_eq_false, ↓reduceIte]
        obtain ⟨i1, i2⟩ := ih (i + 1) hys
        constructor
        · intro h p
          by_cases hp : p < 8
          · rw [getBit_nil, getBit_cons_lt 0 ys p hp]; simp
          · rw [getBit_nil, getBit_cons_ge 0 ys p (by omega)]
            have := i1 h (p - 8); rw [getBit_nil] at this; exact this
        · intro n hn
          obtain ⟨m, e1, e2, e3⟩ := i2 n hn
          refine ⟨m + 8, by omega, ?_, ?_⟩
          · intro p hp
            by_cases hp8 : p < 8
            · rw [getBit_nil, getBit_cons_lt 0 ys p hp8]; simp
            · rw [getBit_nil, getBit_cons_ge 0 ys p (by omega)]
              have := e2 (p - 8) (by omega); rw [getBit_nil] at this; exact this
          · rw [getBit_nil, getBit_cons_ge 0 ys (m + 8) (by omega)]
            have : m + 8 - 8 = m := by omega
            rw [this]; rw [getBit_nil] at e3; exact e3
  | cons x xs ih =>
    have hx : x < 256 := ha x (by simp)
    have hxs : IsBytes xs := fun z hz => ha z (by simp [hz])
    cases b with
    | nil =>
      unfold findCrit
      by_cases h0 : x ≠ 0
      · simp only [h0, ne_eq, not_false_eq_true, ↓reduceIte]
        obtain ⟨m1, m2, m3⟩ := byte_nonzero x hx h0
        constructor
        · intro h; cases h
        · intro n hn
          simp only [Option.some.injEq] at hn; subst hn
          refine ⟨firstBit x, rfl, ?_, ?_⟩
          · intro p hp; rw [getBit_nil, getBit_cons_lt x xs p (by omega), m3 p hp]
          · rw [getBit_nil, getBit_cons_lt x xs _ m1, m2]; simp
      · have h0' : x = 0 := by omega
        subst h0'
        simp only [ne_eq, not_true_eq_false, ↓reduceIte]
        obtain ⟨i1, i2⟩ := ih [] (i + 1) hxs (by intro z hz; simp at hz)
        constructor
        · intro h p
          by_cases hp : p < 8
          · rw [getBit_nil, getBit_cons_lt 0 xs p hp]; simp
          · rw [getBit_nil, getBit_cons_ge 0 xs p (by omega)]
            have := i1 h (p - 8); rw [getBit_nil] at this; exact this
        · intro n hn
          obtain ⟨m, e1, e2, e3⟩ := i2 n hn
          refine ⟨m + 8, by omega, ?_, ?_⟩
          · intro p hp
            by_cases hp8 : p < 8
            · rw [getBit_nil, getBit_cons_lt 0 xs p hp8]; simp
            · rw [getBit_nil, getBit_cons_ge 0 xs p (by omega)]
              have := e2 (p - 8) (by omega); rw [getBit_nil] at this; exact this
          · rw [getBit_nil, getBit_cons_ge 0 xs (m + 8) (by omega)]
            have : m + 8 - 8 = m := by omega
            rw [this]; rw [getBit_nil] at e3; exact e3
    | cons y ys =>
      have hy : y < 256 := hb y (by simp)
      have hys : IsBytes ys := fun z hz => hb z (by simp [hz])
      unfold findCrit
      by_cases hne : x ≠ y
      · simp only [hne, ne_eq, not_false_eq_true, ↓reduceIte]
        obtain ⟨m1, m2, m3⟩ := byte_diff x y hx hy hne
        constructor
        · intro h; cases h
        · intro n hn
          simp only [Option.some.injEq] at hn; subst hn
          refine ⟨firstBit (x ^^^ y), rfl, ?_, ?_⟩
          · intro p hp; rw [getBit_cons_lt x xs p (by omega), getBit_cons_lt y ys p (by omega), m3 p hp]
          · rw [getBit_cons_lt x xs _ m1, getBit_cons_lt y ys _ m1]; exact m2
      · have he : x = y := by omega
        subst he
        simp only [ne_eq, not_true_eq_false, ↓reduceIte]
        obtain ⟨i1, i2⟩ := ih ys (i + 1) hxs hys
        constructor
        · intro h p
          by_cases hp : p < 8
          · rw [getBit_cons_lt x xs p hp, getBit_cons_lt x ys p hp]
          · rw [getBit_cons_ge x xs p (by omega), getBit_cons_ge x ys p (by omega)]; exact i1 h (p - 8)
        · intro n hn
          obtain ⟨m, e1, e2, e3⟩ := i2 n hn
          refine ⟨m + 8, by omega, ?_, ?_⟩
          · intro p hp
            by_cases hp8 : p < 8
            · rw [getBit_cons_lt x xs p hp8, getBit_cons_lt x ys p hp8]
            · rw [getBit_cons_ge x xs p (by omega), getBit_cons_ge x ys p (by omega)]; exact e2 (p - 8) (by omega)
          · rw [getBit_cons_ge x xs (m + 8) (by omega), getBit_cons_ge x ys (m + 8) (by omega)]
            have : m + 8 - 8 = m := by omega
            rw [this]; exact e3

#print axioms findCrit_spec
end Lt.CB
