/-! Prototype: calc_crc32 (usual/hashing/crc32.c) as a fold; the incremental identity. -/
namespace Lt.Crc
/-- one table step: crc_tab[(prev ^ c) & 0xFF] ^ (prev >> 8); the table is a parameter here -/
def stepB (tab : Nat → Nat) (prev c : Nat) : Nat := tab ((prev ^^^ c) % 256) ^^^ (prev / 256)

def M : Nat := 0xFFFFFFFF
/-- calc_crc32(data, len, init): crc = init ^ ~0; loop; return crc ^ ~0 (32-bit) -/
def crc32 (tab : Nat → Nat) (data : List Nat) (init : Nat) : Nat :=
  (data.foldl (stepB tab) (init ^^^ M)) ^^^ M

theorem xor_M_M (x : Nat) : (x ^^^ M) ^^^ M = x := by
  rw [Nat.xor_assoc, Nat.xor_self, Nat.xor_zero]

/-- calc_crc32(a ++ b, 0) = calc_crc32(b, calc_crc32(a, 0)) — for any table, any init -/
theorem crc_incremental (tab : Nat → Nat) (a b : List Nat) (init : Nat) :
    crc32 tab (a ++ b) init = crc32 tab b (crc32 tab a init) := by
  unfold crc32
  rw [List.foldl_append, xor_M_M]

#print axioms crc_incremental
end Lt.Crc
