import Lt.Bridge
namespace Model
abbrev B := BitVec 8
/-- Unicode Table 3-7, row by row -/
def wf1 (b0 : B) : Prop := b0 ≤ 0x7F#8
def wf2 (b0 b1 : B) : Prop := 0xC2#8 ≤ b0 ∧ b0 ≤ 0xDF#8 ∧ 0x80#8 ≤ b1 ∧ b1 ≤ 0xBF#8
def wf3 (b0 b1 b2 : B) : Prop :=
  ((b0 = 0xE0#8 ∧ 0xA0#8 ≤ b1 ∧ b1 ≤ 0xBF#8) ∨
   (0xE1#8 ≤ b0 ∧ b0 ≤ 0xEC#8 ∧ 0x80#8 ≤ b1 ∧ b1 ≤ 0xBF#8) ∨
   (b0 = 0xED#8 ∧ 0x80#8 ≤ b1 ∧ b1 ≤ 0x9F#8) ∨
   (0xEE#8 ≤ b0 ∧ b0 ≤ 0xEF#8 ∧ 0x80#8 ≤ b1 ∧ b1 ≤ 0xBF#8)) ∧ 0x80#8 ≤ b2 ∧ b2 ≤ 0xBF#8
def wf4 (b0 b1 b2 b3 : B) : Prop :=
  ((b0 = 0xF0#8 ∧ 0x90#8 ≤ b1 ∧ b1 ≤ 0xBF#8) ∨
   (0xF1#8 ≤ b0 ∧ b0 ≤ 0xF3#8 ∧ 0x80#8 ≤ b1 ∧ b1 ≤ 0xBF#8) ∨
   (b0 = 0xF4#8 ∧ 0x80#8 ≤ b1 ∧ b1 ≤ 0x8F#8)) ∧
  0x80#8 ≤ b2 ∧ b2 ≤ 0xBF#8 ∧ 0x80#8 ≤ b3 ∧ b3 ≤ 0xBF#8

/-- utf8_validate_seq accepts exactly Table 3-7 minus NUL, and reports the sequence length -/
theorem validateSeq_spec (b0 b1 b2 b3 : B) (avail : Nat) (ha : 1 ≤ avail) :
    (validateSeq b0 b1 b2 b3 avail = 1#32 ↔ wf1 b0 ∧ b0 ≠ 0#8) ∧
    (validateSeq b0 b1 b2 b3 avail = 2#32 ↔ 2 ≤ avail ∧ wf2 b0 b1) ∧
    (validateSeq b0 b1 b2 b3 avail = 3#32 ↔ 3 ≤ avail ∧ wf3 b0 b1 b2) ∧
    (validateSeq b0 b1 b2 b3 avail = 4#32 ↔ 4 ≤ avail ∧ wf4 b0 b1 b2 b3) ∧
    (validateSeq b0 b1 b2 b3 avail = 0#32 ∨ validateSeq b0 b1 b2 b3 avail = 1#32 ∨
     validateSeq b0 b1 b2 b3 avail = 2#32 ∨ validateSeq b0 b1 b2 b3 avail = 3#32 ∨
     validateSeq b0 b1 b2 b3 avail = 4#32) := by
  unfold validateSeq tail wf1 wf2 wf3 wf4
  rcases avail with _ | _ | _ | _ | n
  · omega
  · simp; bv_decide
  · simp; bv_decide
  · simp; bv_decide
  · have e2 : ¬ (n + 1 + 1 + 1 + 1 < 2) := by omega
    have e3 : ¬ (n + 1 + 1 + 1 + 1 < 3) := by omega
    have e4 : ¬ (n + 1 + 1 + 1 + 1 < 4) := by omega
    have g2 : (2 ≤ n + 1 + 1 + 1 + 1) := by omega
    have g3 : (3 ≤ n + 1 + 1 + 1 + 1) := by omega
    have g4 : (4 ≤ n + 1 + 1 + 1 + 1) := by omega
    simp only [e2, e3, e4, g2, g3, g4, if_false, true_and]
    bv_decide
#print axioms validateSeq_spec
end Model
