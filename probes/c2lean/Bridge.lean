import Std.Tactic.BVDecide
import Lt.Gen

namespace Model
/-- hand-written model, in terms of byte ranges (the form the Table 3-7 proof talks about) -/
def tail (b : BitVec 8) : Bool := 0x80#8 ≤ b && b ≤ 0xBF#8

def validateSeq (b0 b1 b2 b3 : BitVec 8) (avail : Nat) : BitVec 32 :=
  if b0 < 0x80#8 then (if b0 = 0#8 then 0#32 else 1#32)
  else if b0 < 0xC2#8 then 0#32
  else if b0 < 0xE0#8 then (if avail < 2 then 0#32 else if tail b1 then 2#32 else 0#32)
  else if b0 < 0xF0#8 then
    (if avail < 3 then 0#32
     else if (b0 = 0xE0#8 ∧ b1 < 0xA0#8) ∨ (b0 = 0xED#8 ∧ 0xA0#8 ≤ b1) then 0#32
     else if tail b1 && tail b2 then 3#32 else 0#32)
  else if b0 < 0xF5#8 then
    (if avail < 4 then 0#32
     else if (b0 = 0xF0#8 ∧ b1 < 0x90#8) ∨ (b0 = 0xF4#8 ∧ 0x8F#8 < b1) then 0#32
     else if tail b1 && tail b2 && tail b3 then 4#32 else 0#32)
  else 0#32
end Model

/-- bridge: what utf8.c says today = the hand model, for every byte window and every end position -/
theorem bridge_validate_seq (rd : Nat → BitVec 8) (avail : Nat) :
    Gen.utf8_validate_seq rd avail = Model.validateSeq (rd 0) (rd 1) (rd 2) (rd 3) avail := by
  unfold Gen.utf8_validate_seq Model.validateSeq Model.tail
  simp only [Nat.zero_add, BitVec.toNat_ofNat, Nat.reducePow, Nat.reduceMod]
  generalize rd 0 = b0; generalize rd 1 = b1; generalize rd 2 = b2; generalize rd 3 = b3
  rcases avail with _ | _ | _ | _ | n
  · simp; bv_decide
  · simp; bv_decide
  · simp; bv_decide
  · simp; bv_decide
  · have e2 : ¬ (n + 1 + 1 + 1 + 1 < 2) := by omega
    have e3 : ¬ (n + 1 + 1 + 1 + 1 < 3) := by omega
    have e4 : ¬ (n + 1 + 1 + 1 + 1 < 4) := by omega
    have g2 : ¬ (2 > n + 1 + 1 + 1 + 1) := by omega
    have g3 : ¬ (3 > n + 1 + 1 + 1 + 1) := by omega
    have g4 : ¬ (4 > n + 1 + 1 + 1 + 1) := by omega
    simp only [e2, e3, e4, g2, g3, g4, decide_false, ite_false, if_false, Bool.false_eq_true]
    bv_decide

#print axioms bridge_validate_seq
