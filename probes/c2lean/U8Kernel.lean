import Lt.U8Spec
namespace Model
/-- kernel-only variant for the avail ≥ 4 case: no bv_decide -/
theorem validateSeq_spec4_kernel (b0 b1 b2 b3 : B) :
    (validateSeq b0 b1 b2 b3 4 = 3#32 ↔ wf3 b0 b1 b2) := by
  unfold validateSeq tail wf3
  simp only [show ¬ (4 < 2) by omega, show ¬ (4 < 3) by omega, show ¬ (4 < 4) by omega, if_false]
  repeat' split
  all_goals simp_all (config := {decide := true}) only [BitVec.ofNat_eq_ofNat, reduceCtorEq, false_iff, true_iff, not_and, not_or,
    Bool.and_eq_true, decide_eq_true_eq, BitVec.reduceEq, BitVec.not_lt, BitVec.not_le]
  all_goals bv_omega
#print axioms validateSeq_spec4_kernel
end Model
