#!/usr/bin/env python3
"""Prototype C -> Lean translator for a tiny loop-free C subset (round-0 feasibility probe).
Integers become BitVec w (C semantics: width+signedness from clang's typed AST); byte pointers
become Nat offsets into an accessor `rd : Nat -> BitVec 8` bounded by `avail`; stores through an
output byte pointer are collected in a list.  Statements are translated in continuation-passing
style so that early `return` and forward `goto` (label block inlined) need no CFG structuring."""
import json, subprocess, sys, re

def ast_of(src, fn, extra=()):
    out = subprocess.run(['clang-14','-I/repo','-DHAVE_CONFIG_H','-fsyntax-only','-Xclang','-ast-dump=json',
                          '-Xclang','-ast-dump-filter='+fn,*extra,src],capture_output=True,text=True).stdout
    dec=json.JSONDecoder(); i=0; docs=[]
    while i<len(out):
        while i<len(out) and out[i].isspace(): i+=1
        if i>=len(out): break
        o,j=dec.raw_decode(out,i); docs.append(o); i=j
    for d in docs:
        if d.get('kind')=='FunctionDecl' and d.get('name')==fn and any(c.get('kind')=='CompoundStmt' for c in d.get('inner',[])):
            return d
    raise SystemExit('no definition of '+fn)

INT_TYPES={'char':(8,True),'signed char':(8,True),'unsigned char':(8,False),'uint8_t':(8,False),'short':(16,True),'unsigned short':(16,False),
 'uint16_t':(16,False),'int':(32,True),'unsigned int':(32,False),'unsigned':(32,False),'uint32_t':(32,False),'long':(64,True),'unsigned long':(64,False),
 'size_t':(64,False),'uint64_t':(64,False),'long long':(64,True),'unsigned long long':(64,False),'_Bool':(1,False),'bool':(1,False)}
def ctype(n):
    t=n['type']; q=t.get('desugaredQualType',t['qualType']).replace('const ','').strip()
    if q.endswith('*'): return ('ptr',)
    if q in INT_TYPES: return ('int',)+INT_TYPES[q]
    q2=t['qualType'].replace('const ','').strip()
    if q2 in INT_TYPES: return ('int',)+INT_TYPES[q2]
    raise SystemExit('unsupported type '+repr(t))

class Tr:
    def __init__(self, fn, roles):
        self.fn=fn; self.roles=roles      # param name -> role: 'in' (byte pointer, offset 0), 'end', 'inout' (pointer to in-pointer), 'outp' (pointer to out pointer), 'outend', 'val'
        self.labels={}; self.pending=[]
    # ---- expressions: return (leanExpr, kind) kind = ('int',w,signed) | ('ptr',which) with Nat offset | ('bool',)
    def conv(self, e, frm, to):
        (w1,s1),(w2,s2)=frm,to
        if w1==w2: return e
        if w2<w1: return f'(BitVec.truncate {w2} {e})'
        return f'(BitVec.signExtend {w2} {e})' if s1 else f'(BitVec.zeroExtend {w2} {e})'
    def expr(self,n,env):
        k=n['kind']
        if k in ('ParenExpr','ConstantExpr'): return self.expr(n['inner'][0],env)
        if k=='IntegerLiteral' or k=='CharacterLiteral':
            t=ctype(n); v=int(n['value']); return (f'({v % (1<<t[1])}#{t[1]})', t)
        if k=='DeclRefExpr':
            name=n['referencedDecl']['name']; return env[name]
        if k=='ImplicitCastExpr' or k=='CStyleCastExpr':
            ck=n.get('castKind'); sub=n['inner'][-1]
            if ck in ('LValueToRValue','NoOp','BitCast','ArrayToPointerDecay'): return self.expr(sub,env)
            e,t=self.expr(sub,env)
            if ck=='IntegralCast':
                to=ctype(n); return (self.conv(e,(t[1],t[2]),(to[1],to[2])), to)
            if ck=='IntegralToBoolean':
                return (f'(if {e} != 0#{t[1]} then 1#1 else 0#1)', ('int',1,False))
            raise SystemExit('cast '+str(ck))
        if k=='UnaryOperator':
            op=n['opcode']; sub=n['inner'][0]
            if op=='*':   # deref of byte pointer -> read ; deref of inout pointer -> the current pointer
                e,t=self.expr(sub,env)
                if t[0]=='ptr' and t[1]=='bytes': return (f'(rd ({e}))',('int',8,ctype(n)[2]))
                if t[0]=='ptrptr': return env['*'+t[1]]
                raise SystemExit('deref')
            if op in ('++','--') and n.get('isPostfix'):
                name=sub['referencedDecl']['name'] if sub['kind']=='DeclRefExpr' else sub['inner'][0]['referencedDecl']['name']
                self.pending.append((name,op)); return env[name]
            e,t=self.expr(sub,env)
            if op=='!':
                if t[0]=='bool': return (f'(!{e})',('bool',))
                return (f'({e} == 0#{t[1]})',('bool',))
            if op=='-': return (f'(-{e})',t)
            if op=='~': return (f'(~~~{e})',t)
            raise SystemExit('unop '+op)
        if k=='ArraySubscriptExpr':
            b,bt=self.expr(n['inner'][0],env); i,it=self.expr(n['inner'][1],env)
            assert bt[0]=='ptr' and bt[1]=='bytes'
            return (f'(rd ({b} + ({i}).toNat))',('int',8,ctype(n)[2]))
        if k=='BinaryOperator':
            op=n['opcode']; a,at=self.expr(n['inner'][0],env); b,bt=self.expr(n['inner'][1],env)
            if at[0]=='ptr' or bt[0]=='ptr':
                if op=='+' and at[0]=='ptr': return (f'({a} + ({b}).toNat)',at)
                if op in ('>','<','>=','<=','==','!=') and at[0]=='ptr' and bt[0]=='ptr':
                    return (f'(decide ({a} {op} {b}))',('bool',))
                raise SystemExit('ptr op '+op)
            def tobv(e,t): return (f'(if {e} then 1#32 else 0#32)',('int',32,True)) if t[0]=='bool' else (e,t)
            if op in ('&&','||'):
                ba=a if at[0]=='bool' else f'({a} != 0#{at[1]})'; bb=b if bt[0]=='bool' else f'({b} != 0#{bt[1]})'
                return (f'({ba} {op} {bb})',('bool',))
            a,at=tobv(a,at); b,bt=tobv(b,bt)
            assert at[1]==bt[1], (op,at,bt)
            w,s=at[1],at[2]
            if op in ('<','>','<=','>='):
                f={'<':('slt','ult'),'<=':('sle','ule')}
                if op in ('>','>='): a,b=b,a; op={'>':'<','>=':'<='}[op]
                return (f'(BitVec.{f[op][0 if s else 1]} {a} {b})',('bool',))
            if op=='==': return (f'({a} == {b})',('bool',))
            if op=='!=': return (f'({a} != {b})',('bool',))
            t=ctype(n)
            m={'+':'+','-':'-','*':'*','&':'&&&','|':'|||','^':'^^^'}
            if op in m: return (f'({a} {m[op]} {b})',t)
            if op=='<<': return (f'({a} <<< ({b}).toNat)',t)
            if op=='>>': return ((f'(BitVec.sshiftRight {a} ({b}).toNat)' if s else f'({a} >>> ({b}).toNat)'),t)
            raise SystemExit('binop '+op)
        if k=='ConditionalOperator':
            c,ct=self.expr(n['inner'][0],env); a,at=self.expr(n['inner'][1],env); b,bt=self.expr(n['inner'][2],env)
            c=c if ct[0]=='bool' else f'({c} != 0#{ct[1]})'
            return (f'(if {c} then {a} else {b})',at)
        raise SystemExit('expr kind '+k)
    def cond(self,n,env):
        e,t=self.expr(n,env); return e if t[0]=='bool' else f'({e} != 0#{t[1]})'
    # ---- statements (CPS): stmts(list, env, k) -> lean term ; env maps C names -> (leanExpr,type); state threading via let
    def flush(self,env):
        lets=''
        for name,op in self.pending:
            e,t=env[name]; v=self.fresh(name)
            new=f'({e} + 1)' if t[0]=='ptr' else f'({e} {"+" if op=="++" else "-"} 1#{t[1]})'
            env[name]=(v,t); lets+=f'let {v} := {new}\n'
        self.pending=[]
        return lets
    def fresh(self,base):
        self.cnt=getattr(self,'cnt',0)+1; return f'{base}_{self.cnt}'
    def stmts(self, ss, env, ret):
        if not ss: return ret(env)   # fallthrough end (void)
        s,rest=ss[0],ss[1:]; k=s['kind']
        if k=='CompoundStmt': return self.stmts(s.get('inner',[])+rest,env,ret)
        if k=='NullStmt': return self.stmts(rest,env,ret)
        if k=='LabelStmt':
            return self.stmts([s['inner'][0]]+rest,env,ret)
        if k=='DeclStmt':
            env=dict(env); lets=''
            for d in s['inner']:
                name=d['name']; t=ctype(d)
                if 'inner' in d and d['inner']:
                    e,et=self.expr(d['inner'][0],env)
                else:
                    e,et=('0' if t[0]=='ptr' else f'0#{t[1]}', t)
                v=self.fresh(name); lets+=f'let {v} := {e}\n'; env[name]=(v, et if et[0]=='ptr' else t)
            return lets+self.stmts(rest,env,ret)
        if k=='ReturnStmt':
            if s.get('inner'):
                e,t=self.expr(s['inner'][0],env); return ret(env,(e,t))
            return ret(env,None)
        if k=='GotoStmt':
            lab=s['targetLabelDeclId']; return self.stmts(self.labels[lab],env,ret)
        if k=='IfStmt':
            c=self.cond(s['inner'][0],env)
            th=self.stmts([s['inner'][1]]+rest,env,ret)
            el=self.stmts(([s['inner'][2]] if len(s['inner'])>2 else [])+rest,env,ret)
            return f'if {c} then\n{indent(th)}\nelse\n{indent(el)}'
        if k in ('BinaryOperator','CompoundAssignOperator','UnaryOperator'):
            env,lets=self.assign(s,env); return lets+self.stmts(rest,env,ret)
        raise SystemExit('stmt kind '+k)
    def assign(self,s,env):
        env=dict(env); k=s['kind']; op=s['opcode']
        def target(n):
            while n['kind'] in ('ParenExpr',): n=n['inner'][0]
            return n
        if k=='UnaryOperator' and op in ('++','--'):
            tgt=target(s['inner'][0]); name=tgt['referencedDecl']['name']; e,t=env[name]; v=self.fresh(name)
            new=f'({e} + 1)' if t[0]=='ptr' else f'({e} {"+" if op=="++" else "-"} 1#{t[1]})'
            env[name]=(v,t); return env,f'let {v} := {new}\n'
        lhs=target(s['inner'][0]); rhs=s['inner'][1]
        if op!='=':
            bop=op[:-1]; fake={'kind':'BinaryOperator','opcode':bop,'inner':[s['inner'][0],rhs],'type':s.get('computeResultType',s['type'])}
            e,t=self.expr(fake,env)
        else:
            e,t=self.expr(rhs,env)
        if lhs['kind']=='DeclRefExpr':
            name=lhs['referencedDecl']['name']; v=self.fresh(name); env[name]=(v, env[name][1] if env[name][1][0]=='ptr' else ctype(lhs)); lets=f'let {v} := {e}\n'; lets+=self.flush(env); return env,lets
        if lhs['kind']=='UnaryOperator' and lhs['opcode']=='*':
            sub=lhs['inner'][0]
            # *dst++ = e   (store through output pointer, post-increment)
            if sub['kind']=='UnaryOperator' and sub['opcode']=='++' and sub.get('isPostfix'):
                pn=target(sub['inner'][0])['referencedDecl']['name']; pe,pt=env[pn]; assert pt==('ptr','out')
                o=self.fresh('out'); v=self.fresh(pn); oe,_=env['$out']
                env['$out']=(o,None); env[pn]=(v,pt)
                return env,f'let {o} := {oe} ++ [({e} : BitVec 8)]\nlet {v} := {pe} + 1\n'
            pe,pt=self.expr(sub,env)
            if pt[0]=='ptrptr':   # *src_p = p   /  *dst_p = dst
                v=self.fresh('star'); env['*'+pt[1]]=(e,t); return env,''
        raise SystemExit('assign form')

def indent(s): return '\n'.join('  '+l for l in s.split('\n'))

def collect_labels(n,tr,following=None):
    """label -> statements from the label to the end of the enclosing compound (forward gotos only)"""
    if n.get('kind')=='CompoundStmt':
        inner=n.get('inner',[])
        for i,s in enumerate(inner):
            t=s
            while t.get('kind')=='LabelStmt':
                tr.labels[t['declId']]=[t['inner'][0]]+inner[i+1:]; t=t['inner'][0]
    for c in n.get('inner',[]): collect_labels(c,tr)

def translate(src,fn,roles,rettype,extra=()):
    d=ast_of(src,fn,extra); tr=Tr(fn,roles); body=[c for c in d['inner'] if c['kind']=='CompoundStmt'][0]
    collect_labels(body,tr)
    env={}; params=[]
    for p in [c for c in d['inner'] if c['kind']=='ParmVarDecl']:
        r=roles[p['name']]
        if r=='in': env[p['name']]=('0',('ptr','bytes'))
        elif r=='end': env[p['name']]=('avail',('ptr','bytes'))
        elif r=='inout': env[p['name']]=('$pp',('ptrptr',p['name'])); env['*'+p['name']]=('0',('ptr','bytes'))
        elif r=='outp': env[p['name']]=('$pp',('ptrptr',p['name'])); env['*'+p['name']]=('0',('ptr','out'))
        elif r=='outend': env[p['name']]=('room',('ptr','out'))
        elif r=='val': t=ctype(p); env[p['name']]=(p['name'],t); params.append(f'({p["name"]} : BitVec {t[1]})')
    env['$out']=('([] : List (BitVec 8))',None)
    def ret(env,val=None):
        parts=[]
        if val is not None:
            e,t=val
            if t[0]=='bool': e=f'(if {e} then 1#{rettype} else 0#{rettype})'
            elif t[1]!=rettype: e=tr.conv(e,(t[1],t[2]),(rettype,t[2]))
            parts.append(e)
        for name,r in roles.items():
            if r in ('inout','outp'): parts.append(env['*'+name][0])
        if any(r=='outp' for r in roles.values()): parts.append(env['$out'][0])
        return '('+', '.join(parts)+')' if len(parts)>1 else parts[0]
    sig=[]
    if any(r in('in','inout') for r in roles.values()): sig+=['(rd : Nat → BitVec 8)','(avail : Nat)']
    if any(r=='outend' for r in roles.values()): sig+=['(room : Nat)']
    sig+=params
    term=tr.stmts(body['inner'],env,ret)
    return f'def {fn} {" ".join(sig)} :=\n{indent(term)}\n'

if __name__=='__main__':
    out='/- generated by c2lean.py prototype from /repo/usual/utf8.c and bits.h; do not edit -/\nnamespace Gen\n\n'
    out+=translate('/repo/usual/utf8.c','utf8_validate_seq',{'src':'in','srcend':'end'},32)+'\n'
    out+=translate('/repo/usual/utf8.c','utf8_seq_size',{'b':'val'},32)+'\n'
    out+=translate('/repo/usual/utf8.c','utf8_char_size',{'c':'val'},32)+'\n'
    out+=translate('/repo/usual/utf8.c','utf8_get_char',{'src_p':'inout','_srcend':'end'},32)+'\n'
    out+=translate('/repo/usual/utf8.c','utf8_put_char',{'c':'val','dst_p':'outp','dstend':'outend'},1)+'\n'
    out+='end Gen\n'
    open(sys.argv[1] if len(sys.argv)>1 else 'Gen.lean','w').write(out)
    print(out[:3000])
