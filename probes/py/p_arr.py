import ctypes, random
L=ctypes.CDLL('./libup.so')
L.pg_parse_array.restype=ctypes.c_void_p; L.pg_parse_array.argtypes=[ctypes.c_char_p, ctypes.c_void_p]
L.strlist_pop.restype=ctypes.c_void_p; L.strlist_pop.argtypes=[ctypes.c_void_p]
L.strlist_empty.restype=ctypes.c_bool; L.strlist_empty.argtypes=[ctypes.c_void_p]
L.strlist_free.argtypes=[ctypes.c_void_p]
libc=ctypes.CDLL(None); libc.free.argtypes=[ctypes.c_void_p]
def parse(t):
    l=L.pg_parse_array(t,None)
    if not l: return None
    out=[]
    while not L.strlist_empty(l):
        p=L.strlist_pop(l)
        if p: out.append(ctypes.string_at(p)); libc.free(p)
        else: out.append(None)
    L.strlist_free(l); return out
random.seed(3)
alpha=[b'a',b'b',b' ',b',',b'{',b'}',b'"',b'\\',b'\xc3\xa9',b'N',b'null',b'\t']
def render(lst):
    parts=[]
    for e in lst:
        if e is None: parts.append(random.choice([b'NULL',b'null',b'Null'])); continue
        needq = e==b'' or any(c in e for c in b' ,{}"\\\t') or e.lower()==b'null' or random.random()<0.3
        if needq: parts.append(b'"'+e.replace(b'\\',b'\\\\').replace(b'"',b'\\"')+b'"')
        else: parts.append(e)
        if random.random()<0.3: parts[-1]=random.choice([b' ',b'  ',b'\t'])+parts[-1]+random.choice([b'',b' '])
    body=b'{'+b','.join(parts)+b'}'
    if random.random()<0.2: body=b'[1:%d]='%max(1,len(lst))+body
    return body
bad={}
for i in range(40000):
    lst=[None if random.random()<0.15 else b''.join(random.choice(alpha) for _ in range(random.randint(0,5))) for _ in range(random.randint(0,5))]
    t=render(lst)
    got=parse(t)
    if got!=lst: bad.setdefault('roundtrip',[]).append((t,lst,got))
for k,v in bad.items(): print(k,len(v),v[:6])
print('done')
