import ctypes, hashlib, os, random
random.seed(2)
libs={v:ctypes.CDLL('./libk_%s.so'%v) for v in ['default','small','b32']}
class Ctx(ctypes.Structure): _fields_=[('raw',ctypes.c_uint8*400)]
def sha3(lib, cap_reset, msg, chunks, outlen, shake=False):
    c=Ctx(); getattr(lib,cap_reset)(ctypes.byref(c))
    p=0
    for n in chunks: lib.sha3_update(ctypes.byref(c), msg[p:p+n], n); p+=n
    out=ctypes.create_string_buffer(outlen)
    if shake:
        # extract in pieces
        got=b''; rem=outlen
        while rem>0:
            k=random.randint(1,rem); b=ctypes.create_string_buffer(k); lib.shake_extract(ctypes.byref(c), b, k); got+=b.raw; rem-=k
        return got
    lib.sha3_final(ctypes.byref(c), out); return out.raw
bad=0;n=0
for ln in list(range(0,300))+[1000]:
    msg=os.urandom(ln)
    cuts=sorted(random.randint(0,ln) for _ in range(random.randint(0,3))); chunks=[]; prev=0
    for cpos in cuts+[ln]: chunks.append(cpos-prev); prev=cpos
    for v,lib in libs.items():
        for name,fn,ol in [('sha3_224_reset',hashlib.sha3_224,28),('sha3_256_reset',hashlib.sha3_256,32),('sha3_384_reset',hashlib.sha3_384,48),('sha3_512_reset',hashlib.sha3_512,64)]:
            r=sha3(lib,name,msg,chunks,ol); n+=1
            if r!=fn(msg).digest(): bad+=1; print('MISMATCH',v,name,ln,chunks) if bad<10 else None
        for name,fn in [('shake128_reset',hashlib.shake_128),('shake256_reset',hashlib.shake_256)]:
            ol=random.randint(1,500); r=sha3(lib,name,msg,chunks,ol,True); n+=1
            if r!=fn(msg).digest(ol): bad+=1; print('MISMATCH',v,name,ln,ol) if bad<10 else None
print('sha3 checked',n,'bad',bad)
# raw sponge ops: all capacities, compare three variants; encrypt/decrypt inverse; squeeze chunking
class K(ctypes.Structure): _fields_=[('raw',ctypes.c_uint8*300)]
kb=0;kn=0
for cap in range(8,1600,8):
    for trial in range(3):
        data=os.urandom(random.randint(0,400)); pt=os.urandom(random.randint(0,400))
        outs={}
        for v,lib in libs.items():
            k=K(); assert lib.keccak_init(ctypes.byref(k),cap)==1
            p=0
            while p<len(data):
                m=random.randint(1,len(data)-p) if v!='default' else len(data)-p
                lib.keccak_absorb(ctypes.byref(k), data[p:p+m], ctypes.c_size_t(m)); p+=m
            lib.keccak_pad(ctypes.byref(k), b'\x01', ctypes.c_size_t(1))
            k2=K(); ctypes.memmove(ctypes.byref(k2),ctypes.byref(k),ctypes.sizeof(k))
            ct=ctypes.create_string_buffer(len(pt)+1)
            p=0
            while p<len(pt):
                m=random.randint(1,len(pt)-p) if v=='small' else len(pt)-p
                tmp=ctypes.create_string_buffer(m); lib.keccak_encrypt(ctypes.byref(k), tmp, pt[p:p+m], ctypes.c_size_t(m)); ct[p:p+m]=tmp.raw; p+=m
            dec=ctypes.create_string_buffer(len(pt)+1); lib.keccak_decrypt(ctypes.byref(k2), dec, ct.raw[:len(pt)], ctypes.c_size_t(len(pt)))
            if dec.raw[:len(pt)]!=pt: kb+=1; print('DECRYPT MISMATCH',v,cap,len(pt)) if kb<10 else None
            sq=ctypes.create_string_buffer(300); lib.keccak_squeeze(ctypes.byref(k), sq, ctypes.c_size_t(300))
            outs[v]=(ct.raw[:len(pt)],sq.raw); kn+=1
        if not (outs['default']==outs['small']==outs['b32']): kb+=1; print('VARIANT MISMATCH',cap,len(data),len(pt)) if kb<10 else None
print('sponge checked',kn,'bad',kb)
