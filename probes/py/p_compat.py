import ctypes, itertools, random, socket, os
C=ctypes.CDLL('./libcompat.so'); G=ctypes.CDLL(None)
bad={}
def rec(k,v): bad.setdefault(k,[]).append(v)
# memmem / memrchr / strnlen
for f in ('usual_memmem',): getattr(C,f).restype=ctypes.c_void_p; getattr(C,f).argtypes=[ctypes.c_void_p,ctypes.c_size_t,ctypes.c_void_p,ctypes.c_size_t]
G.memmem.restype=ctypes.c_void_p; G.memmem.argtypes=[ctypes.c_void_p,ctypes.c_size_t,ctypes.c_void_p,ctypes.c_size_t]
C.usual_memrchr.restype=ctypes.c_void_p; C.usual_memrchr.argtypes=[ctypes.c_void_p,ctypes.c_int,ctypes.c_size_t]
G.memrchr.restype=ctypes.c_void_p; G.memrchr.argtypes=[ctypes.c_void_p,ctypes.c_int,ctypes.c_size_t]
alpha=b'ab\0'
for hl in range(0,7):
    for h in itertools.product(alpha,repeat=hl):
        hb=ctypes.create_string_buffer(bytes(h)+b'XYZ'); hp=ctypes.addressof(hb)
        for nl in range(0,4):
            for n in itertools.product(alpha,repeat=nl):
                nb=ctypes.create_string_buffer(bytes(n)+b'Q'); np_=ctypes.addressof(nb)
                a=C.usual_memmem(hp,hl,np_,nl); b=G.memmem(hp,hl,np_,nl)
                if a!=b: rec('memmem',(bytes(h),bytes(n),a and a-hp,b and b-hp))
        for c in (97,98,0,99,97+256):
            a=C.usual_memrchr(hp,c,hl); b=G.memrchr(hp,c,hl)
            if a!=b: rec('memrchr',(bytes(h),c))
# basename/dirname
C.usual_basename.restype=ctypes.c_char_p; C.usual_basename.argtypes=[ctypes.c_char_p]
C.usual_dirname.restype=ctypes.c_char_p; C.usual_dirname.argtypes=[ctypes.c_char_p]
G.__xpg_basename.restype=ctypes.c_char_p; G.__xpg_basename.argtypes=[ctypes.c_char_p]
G.dirname.restype=ctypes.c_char_p; G.dirname.argtypes=[ctypes.c_char_p]
for l in range(0,7):
    for p in itertools.product(b'a/.',repeat=l):
        p=bytes(p)
        a=C.usual_basename(p); b=G.__xpg_basename(ctypes.create_string_buffer(p))
        if a!=b: rec('basename',(p,a,b))
        a=C.usual_dirname(p); b=G.dirname(ctypes.create_string_buffer(p))
        if a!=b: rec('dirname',(p,a,b))
# inet_pton / ntop
C.usual_inet_pton.argtypes=[ctypes.c_int,ctypes.c_char_p,ctypes.c_void_p]; G.inet_pton.argtypes=[ctypes.c_int,ctypes.c_char_p,ctypes.c_void_p]
C.usual_inet_ntop.restype=ctypes.c_char_p; C.usual_inet_ntop.argtypes=[ctypes.c_int,ctypes.c_void_p,ctypes.c_void_p,ctypes.c_int]
G.inet_ntop.restype=ctypes.c_char_p; G.inet_ntop.argtypes=[ctypes.c_int,ctypes.c_void_p,ctypes.c_void_p,ctypes.c_int]
random.seed(4)
def rnd4():
    parts=[random.choice(['0','1','9','10','255','256','01','00','','1a','999',' 1','-1','+1']) for _ in range(random.choice([3,4,4,4,5]))]
    return '.'.join(parts)
def rnd6():
    n=random.choice([1,3,6,7,8,8,9]); parts=[random.choice(['0','1','ffff','FFFF','10000','abcd','','g','00000','0000','1.2.3.4']) for _ in range(n)]
    s=':'.join(parts)
    if random.random()<0.4: s=s.replace(':0:','::',1)
    if random.random()<0.2: s='::'+s
    if random.random()<0.2: s=s+'::'
    if random.random()<0.2: s=s+':1.2.3.4'
    return s
for i in range(40000):
    for af,gen,n in ((socket.AF_INET,rnd4,4),(socket.AF_INET6,rnd6,16)):
        s=gen().encode()
        a=ctypes.create_string_buffer(b'\xAA'*20,20); b=ctypes.create_string_buffer(b'\xAA'*20,20)
        ra=C.usual_inet_pton(af,s,a); rb=G.inet_pton(af,s,b)
        if ra!=rb or (ra==1 and a.raw[:n]!=b.raw[:n]): rec('inet_pton%d'%n,(s,ra,rb))
        if ra==1 and a.raw[n:]!=b'\xAA'*(20-n): rec('pton-overwrite',(s,))
for i in range(30000):
    for af,n in ((socket.AF_INET,4),(socket.AF_INET6,16)):
        addr=bytes(random.choice([0,0,0,1,255,random.randrange(256)]) for _ in range(n))
        for size in (0,1,7,8,15,16,17,40,45,46,47,64):
            a=ctypes.create_string_buffer(b'\xAA'*80,80); b=ctypes.create_string_buffer(b'\xAA'*80,80)
            ra=C.usual_inet_ntop(af,addr,a,size); rb=G.inet_ntop(af,addr,b,size)
            if (ra is None)!=(rb is None) or (ra is not None and ra!=rb): rec('inet_ntop%d'%n,(addr.hex(),size,ra,rb))
            if a.raw[size:]!=b'\xAA'*(80-size): rec('ntop-overwrite',(addr.hex(),size))
# fnmatch vs glibc
C.usual_fnmatch.argtypes=[ctypes.c_char_p,ctypes.c_char_p,ctypes.c_int]; G.fnmatch.argtypes=[ctypes.c_char_p,ctypes.c_char_p,ctypes.c_int]
toks=[b'a',b'b',b'*',b'?',b'[ab]',b'[!a]',b'[a-b]',b'/',b'.',b'\\*',b'[',b']',b'\\',b'[[:alpha:]]']
subj=b'ab/.'
FLAGS=[0,1,2,4,1|4,16,8] # PATHNAME=1, NOESCAPE=2, PERIOD=4, LEADING_DIR=8, CASEFOLD=16
for pl in range(0,4):
    for p in itertools.product(toks,repeat=pl):
        pat=b''.join(p)
        for sl in range(0,4):
            for s in itertools.product(subj,repeat=sl):
                s=bytes(s)
                for fl in FLAGS:
                    a=C.usual_fnmatch(pat,s,fl); b=G.fnmatch(pat,s,fl)
                    if a!=b: rec('fnmatch fl=%d'%fl,(pat,s,a,b))
for k,v in bad.items(): print(k,len(v),v[:5])
print('done')
