import ctypes, time
exec(open('p_rx.py').read().split("random.seed(9)")[0])
for pat,s in [(b'(a*)*b', b'a'*18), (b'((a*)*)*b', b'a'*14), (b'(a|aa)*b', b'a'*22), (b'(a*a*)*b', b'a'*16)]:
    rx=regex_t(); rc=R.usual_regcomp(ctypes.byref(rx),pat,1)
    for nm in (0,1,3):
        pm=(regmatch_t*4)(); t=time.time(); r=R.usual_regexec(ctypes.byref(rx),s,nm,pm,0); dt=time.time()-t
        print(pat,len(s),'nmatch',nm,'rc',r,'%.3fs'%dt, flush=True)
