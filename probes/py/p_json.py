import ctypes, json, random, math, struct, sys
L=ctypes.CDLL('./libup.so')
L.json_new_context.restype=ctypes.c_void_p; L.json_new_context.argtypes=[ctypes.c_void_p, ctypes.c_size_t]
L.json_parse.restype=ctypes.c_void_p; L.json_parse.argtypes=[ctypes.c_void_p, ctypes.c_char_p, ctypes.c_size_t]
L.json_free_context.argtypes=[ctypes.c_void_p]
L.json_strerror.restype=ctypes.c_char_p; L.json_strerror.argtypes=[ctypes.c_void_p]
L.json_set_options.argtypes=[ctypes.c_void_p, ctypes.c_uint]
L.json_render.argtypes=[ctypes.c_void_p, ctypes.c_void_p]; L.json_render.restype=ctypes.c_bool
class MBuf(ctypes.Structure): _fields_=[('data',ctypes.c_void_p),('read_pos',ctypes.c_uint),('write_pos',ctypes.c_uint),('alloc_len',ctypes.c_uint),('reader',ctypes.c_bool),('fixed',ctypes.c_bool)]
libc=ctypes.CDLL(None)
def c_parse_render(doc, opts=0, pool=0):
    ctx=L.json_new_context(None,pool); L.json_set_options(ctx,opts)
    v=L.json_parse(ctx,doc,len(doc))
    if not v:
        err=L.json_strerror(ctx); L.json_free_context(ctx); return None, err
    mb=MBuf(); ok=L.json_render(ctypes.byref(mb), v)
    out=ctypes.string_at(mb.data, mb.write_pos) if ok else None
    libc.free(ctypes.c_void_p(mb.data)); L.json_free_context(ctx)
    return out, None
random.seed(5)
WS=[b'',b' ',b'\n',b'\t',b'\r',b'  ']
def ws(): return random.choice(WS)
def gen_str():
    n=random.randint(0,8); s=''
    for _ in range(n):
        s+=random.choice(['a','"','\\','/','\b','\f','\n','\r','\t','\u00e9','\u07ff','\u0800','\u2028','\u2029','\ud7ff','\ue000','\uffff','\U00010000','\U0010ffff','\x7f','\x01','\x1f'])
    return s
def enc_str(s):
    out=b'"'
    for ch in s:
        o=ord(ch); r=random.random()
        if ch in '"\\': out+=b'\\'+ch.encode()
        elif o<0x20:
            m={'\b':b'\\b','\f':b'\\f','\n':b'\\n','\r':b'\\r','\t':b'\\t'}
            out+= m[ch] if ch in m and r<0.5 else b'\\u%04x'%o
        elif ch=='/' and r<0.5: out+=b'\\/'
        elif r<0.3:
            if o<0x10000: out+=(b'\\u%04X' if r<0.15 else b'\\u%04x')%o
            else:
                o2=o-0x10000; out+=b'\\u%04x\\u%04x'%(0xD800+(o2>>10),0xDC00+(o2&0x3ff))
        else: out+=ch.encode('utf-8')
    return out+b'"'
def gen_num():
    r=random.random()
    if r<0.3: return random.choice([0,1,-1,2**53-1,-(2**53-1),9999999,10000000,-9999999,99999999,123456789012]), None
    if r<0.5: return random.randint(-2**53+1,2**53-1), None
    # float text
    t=random.choice(['1.5','-0.0','1e10','1E+10','1e-10','0.1','123.456e-7','1.7976931348623157e308','2.2250738585072014e-308','4.9e-324','2.2250738585072011e-308','1e-320','0.0','-1.25e+3','1e22','1e23','9007199254740993.0','0.30000000000000004'])
    return float(t), t
def gen(depth=0):
    r=random.random()
    if depth>4 or r<0.45:
        k=random.randint(0,5)
        if k==0: return None,b'null'
        if k==1: return True,b'true'
        if k==2: return False,b'false'
        if k==3: s=gen_str(); return s,enc_str(s)
        v,t=gen_num(); return v,(t.encode() if t else str(v).encode())
    if r<0.75:
        n=random.randint(0,4); vs=[];ts=[]
        for _ in range(n): v,t=gen(depth+1); vs.append(v); ts.append(ws()+t+ws())
        return vs, b'['+b','.join(ts)+(ws() if n==0 else b'')+b']'
    n=random.randint(0,4); d={};ts=[]
    for _ in range(n):
        k=gen_str()
        if k in d: continue
        v,t=gen(depth+1); d[k]=v; ts.append(ws()+enc_str(k)+ws()+b':'+ws()+t+ws())
    return d, b'{'+b','.join(ts)+b'}'
def same(a,b):
    if type(a)!=type(b): return False
    if isinstance(a,float): return struct.pack('<d',a)==struct.pack('<d',b)
    if isinstance(a,list): return len(a)==len(b) and all(same(x,y) for x,y in zip(a,b))
    if isinstance(a,dict): return a.keys()==b.keys() and all(same(a[k],b[k]) for k in a)
    return a==b
bad={}
N=int(sys.argv[1]) if len(sys.argv)>1 else 20000
for i in range(N):
    v,t=gen(); t=ws()+t+ws()
    for opts in (0,1,2,3):
        out,err=c_parse_render(t,opts,random.choice([0,64,1024]))
        if out is None:
            key=('reject-valid',err); bad.setdefault(key,[]).append(t)
            continue
        try: back=json.loads(out.decode('utf-8'))
        except Exception as e:
            bad.setdefault(('render-unparseable',str(e)[:40]),[]).append((t,out)); continue
        if not same(back,v): bad.setdefault(('value-mismatch',),[]).append((t,out))
for k,vs in bad.items(): print(k,len(vs),vs[0][:120] if isinstance(vs[0],bytes) else vs[0])
print('done',N)
sub=[b'4.9e-324',b'1e-320',b'2.2250738585072011e-308']
other=[t for k,vs in bad.items() if k[0]=='reject-valid' for t in vs if not any(s in t for s in sub)]
print('rejected without subnormal token:',len(other)); 
for t in other[:3]: print(t)
