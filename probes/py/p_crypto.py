import ctypes, hashlib, hmac, random, zlib, os
L = ctypes.CDLL('./libup.so')
L.digest_new.restype = ctypes.c_void_p
L.digest_new.argtypes = [ctypes.c_void_p, ctypes.c_void_p]
for n in ['MD5','SHA1','SHA224','SHA256','SHA384','SHA512','SHA3_224','SHA3_256','SHA3_384','SHA3_512','SHAKE128','SHAKE256']:
    getattr(L,'digest_'+n).restype = ctypes.c_void_p
L.digest_update.argtypes=[ctypes.c_void_p, ctypes.c_char_p, ctypes.c_uint]
L.digest_final.argtypes=[ctypes.c_void_p, ctypes.c_char_p]
L.digest_free.argtypes=[ctypes.c_void_p]
L.digest_result_len.argtypes=[ctypes.c_void_p]; L.digest_result_len.restype=ctypes.c_uint
L.digest_reset.argtypes=[ctypes.c_void_p]
ref = {'MD5':hashlib.md5,'SHA1':hashlib.sha1,'SHA224':hashlib.sha224,'SHA256':hashlib.sha256,'SHA384':hashlib.sha384,'SHA512':hashlib.sha512,
 'SHA3_224':hashlib.sha3_224,'SHA3_256':hashlib.sha3_256,'SHA3_384':hashlib.sha3_384,'SHA3_512':hashlib.sha3_512}
random.seed(1)
bad=0; n=0
def run(name, chunks):
    info = getattr(L,'digest_'+name)()
    d = L.digest_new(info, None)
    for c in chunks: L.digest_update(d, c, len(c))
    rl = L.digest_result_len(d)
    out = ctypes.create_string_buffer(rl)
    L.digest_final(d, out)
    # reset and redo single shot
    L.digest_reset(d)
    whole=b''.join(chunks)
    L.digest_update(d, whole, len(whole))
    out2 = ctypes.create_string_buffer(rl)
    L.digest_final(d, out2)
    L.digest_free(d)
    return out.raw, out2.raw
for name in ref:
    for ln in list(range(0,300))+[1000,2049]:
        msg = os.urandom(ln)
        k = random.randint(0,4); cuts = sorted(random.randint(0,ln) for _ in range(k))
        chunks=[]; prev=0
        for c in cuts+[ln]: chunks.append(msg[prev:c]); prev=c
        a,b = run(name, chunks); n+=1
        exp = ref[name](msg).digest()
        if a!=exp or b!=exp:
            bad+=1
            if bad<10: print('MISMATCH',name,ln,[len(c) for c in chunks], a==exp, b==exp)
for name,fn in [('SHAKE128',hashlib.shake_128),('SHAKE256',hashlib.shake_256)]:
    for ln in range(0,200):
        msg=os.urandom(ln); a,b=run(name,[msg[:ln//2],msg[ln//2:]]); n+=1
        exp=fn(msg).digest(len(a))
        if a!=exp or b!=exp: bad+=1; print('MISMATCH',name,ln,len(a))
print('digests checked',n,'bad',bad)
# hmac
L.hmac_new.restype=ctypes.c_void_p; L.hmac_new.argtypes=[ctypes.c_void_p, ctypes.c_char_p, ctypes.c_uint, ctypes.c_void_p]
L.hmac_update.argtypes=[ctypes.c_void_p, ctypes.c_char_p, ctypes.c_uint]; L.hmac_final.argtypes=[ctypes.c_void_p, ctypes.c_char_p]; L.hmac_free.argtypes=[ctypes.c_void_p]
L.hmac_result_len.argtypes=[ctypes.c_void_p]; L.hmac_result_len.restype=ctypes.c_uint; L.hmac_reset.argtypes=[ctypes.c_void_p]
hb=0;hn=0
for name in ref:
    for kl in list(range(0,300,7))+[63,64,65,127,128,129,135,136,137,143,144,145,71,72,73,103,104,105]:
        key=os.urandom(kl); msg=os.urandom(random.randint(0,200))
        h=L.hmac_new(getattr(L,'digest_'+name)(), key, kl, None)
        L.hmac_update(h,msg[:5],len(msg[:5])); L.hmac_update(h,msg[5:],len(msg[5:]))
        out=ctypes.create_string_buffer(L.hmac_result_len(h)); L.hmac_final(h,out)
        L.hmac_reset(h); L.hmac_update(h,msg,len(msg)); out2=ctypes.create_string_buffer(L.hmac_result_len(h)); L.hmac_final(h,out2)
        L.hmac_free(h); hn+=1
        exp=hmac.new(key,msg,ref[name]).digest()
        if out.raw!=exp or out2.raw!=exp:
            hb+=1
            if hb<10: print('HMAC MISMATCH',name,kl,len(msg),out.raw==exp,out2.raw==exp)
print('hmac checked',hn,'bad',hb)
# crc32 incremental
L.calc_crc32.restype=ctypes.c_uint32; L.calc_crc32.argtypes=[ctypes.c_char_p, ctypes.c_size_t, ctypes.c_uint32]
cb=0
for ln in range(0,300):
    m=os.urandom(ln); c=L.calc_crc32(m,ln,0)
    if c!=zlib.crc32(m): cb+=1
    k=ln//3
    if L.calc_crc32(m[k:],ln-k,L.calc_crc32(m[:k],k,0))!=c: cb+=1
print('crc bad',cb)
