import ctypes, os, random, struct
L=ctypes.CDLL('./libup.so')
M64=(1<<64)-1; M32=(1<<32)-1
def rotl64(x,b): return ((x<<b)|(x>>(64-b)))&M64
def siphash24(k0,k1,m):
    v0=k0^0x736f6d6570736575; v1=k1^0x646f72616e646f6d; v2=k0^0x6c7967656e657261; v3=k1^0x7465646279746573
    def rnd():
        nonlocal v0,v1,v2,v3
        v0=(v0+v1)&M64; v1=rotl64(v1,13); v1^=v0; v0=rotl64(v0,32)
        v2=(v2+v3)&M64; v3=rotl64(v3,16); v3^=v2
        v0=(v0+v3)&M64; v3=rotl64(v3,21); v3^=v0
        v2=(v2+v1)&M64; v1=rotl64(v1,17); v1^=v2; v2=rotl64(v2,32)
    b=len(m); full=b-b%8
    for i in range(0,full,8):
        mi=struct.unpack('<Q',m[i:i+8])[0]; v3^=mi; rnd(); rnd(); v0^=mi
    last=m[full:]+b'\0'*(7-b%8)+bytes([b&0xff]); mi=struct.unpack('<Q',last)[0]
    v3^=mi; rnd(); rnd(); v0^=mi; v2^=0xff; rnd();rnd();rnd();rnd()
    return v0^v1^v2^v3
def rotl32(x,r): return ((x<<r)|(x>>(32-r)))&M32
P1,P2,P3,P4,P5=2654435761,2246822519,3266489917,668265263,374761393
def xxh32(d,seed):
    n=len(d); i=0
    if n>=16:
        v=[(seed+P1+P2)&M32,(seed+P2)&M32,seed,(seed-P1)&M32]
        while i<=n-16:
            for j in range(4):
                w=struct.unpack('<I',d[i:i+4])[0]; v[j]=(v[j]+w*P2)&M32; v[j]=rotl32(v[j],13); v[j]=(v[j]*P1)&M32; i+=4
        h=(rotl32(v[0],1)+rotl32(v[1],7)+rotl32(v[2],12)+rotl32(v[3],18))&M32
    else: h=(seed+P5)&M32
    h=(h+n)&M32
    while i<=n-4:
        w=struct.unpack('<I',d[i:i+4])[0]; h=(h+w*P3)&M32; h=(rotl32(h,17)*P4)&M32; i+=4
    while i<n:
        h=(h+d[i]*P5)&M32; h=(rotl32(h,11)*P1)&M32; i+=1
    h^=h>>15; h=(h*P2)&M32; h^=h>>13; h=(h*P3)&M32; h^=h>>16
    return h
L.siphash24.restype=ctypes.c_uint64; L.siphash24.argtypes=[ctypes.c_char_p,ctypes.c_size_t,ctypes.c_uint64,ctypes.c_uint64]
L.xxhash.restype=ctypes.c_uint32; L.xxhash.argtypes=[ctypes.c_char_p,ctypes.c_size_t,ctypes.c_uint32]
random.seed(3); bad=0
for ln in range(0,300):
    m=os.urandom(ln); k0=random.getrandbits(64); k1=random.getrandbits(64); s=random.getrandbits(32)
    if L.siphash24(m,ln,k0,k1)!=siphash24(k0,k1,m): bad+=1; print('sip',ln)
    if L.xxhash(m,ln,s)!=xxh32(m,s): bad+=1; print('xxh',ln)
print('sip/xxh bad',bad)
# chacha20 (djb, 64-bit counter) reference
def qr(x,a,b,c,d):
    x[a]=(x[a]+x[b])&M32; x[d]=rotl32(x[d]^x[a],16); x[c]=(x[c]+x[d])&M32; x[b]=rotl32(x[b]^x[c],12)
    x[a]=(x[a]+x[b])&M32; x[d]=rotl32(x[d]^x[a],8); x[c]=(x[c]+x[d])&M32; x[b]=rotl32(x[b]^x[c],7)
def block(key,ctr,iv):
    st=list(struct.unpack('<4I',b'expand 32-byte k'))+list(struct.unpack('<8I',key))+[ctr&M32,(ctr>>32)&M32]+list(struct.unpack('<2I',iv))
    x=st[:]
    for _ in range(10):
        qr(x,0,4,8,12);qr(x,1,5,9,13);qr(x,2,6,10,14);qr(x,3,7,11,15)
        qr(x,0,5,10,15);qr(x,1,6,11,12);qr(x,2,7,8,13);qr(x,3,4,9,14)
    return struct.pack('<16I',*[(a+b)&M32 for a,b in zip(x,st)])
class CC(ctypes.Structure): _fields_=[('raw',ctypes.c_uint8*256)]
cb=0
for ctr in [0,1,0xfffffffe,0xffffffff,0x1ffffffff,(1<<64)-2]:
    key=os.urandom(32); iv=os.urandom(8)
    c=CC(); L.chacha_set_key_256(ctypes.byref(c),key); L.chacha_set_nonce(ctypes.byref(c),ctypes.c_uint32(ctr&M32),ctypes.c_uint32(ctr>>32),iv)
    want=b''.join(block(key,(ctr+i)&M64,iv) for i in range(4))
    got=b''
    for n in [1,63,64,65,63]:
        b=ctypes.create_string_buffer(n); L.chacha_keystream(ctypes.byref(c),b,ctypes.c_size_t(n)); got+=b.raw
    if got!=want[:len(got)]: cb+=1; print('chacha keystream mismatch ctr',hex(ctr))
print('chacha keystream bad',cb)
