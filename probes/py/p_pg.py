import ctypes, random, itertools, re
L=ctypes.CDLL('./libup.so')
for f in ('pg_quote_literal','pg_quote_ident','pg_quote_fqident'):
    getattr(L,f).restype=ctypes.c_bool; getattr(L,f).argtypes=[ctypes.c_void_p, ctypes.c_char_p, ctypes.c_int]
L.pg_is_reserved_word.restype=ctypes.c_bool; L.pg_is_reserved_word.argtypes=[ctypes.c_char_p]
def call(f, src, dstlen):
    G=8; buf=ctypes.create_string_buffer(b'\xAA'*(dstlen+2*G), dstlen+2*G)
    ok=getattr(L,f)(ctypes.addressof(buf)+G, src, dstlen)
    raw=buf.raw
    guard_ok = raw[:G]==b'\xAA'*G and raw[G+dstlen:]==b'\xAA'*G
    out=None
    if ok:
        body=raw[G:G+dstlen]
        out = body[:body.index(b'\0')] if b'\0' in body else 'UNTERMINATED'
    return ok,out,guard_ok
def lex_literal(t):
    # returns decoded bytes if t is exactly one literal token
    if t==b'NULL': return None
    if t[:1]==b"'" : esc=False; i=1
    elif t[:2]==b"E'": esc=True; i=2
    else: return 'BAD'
    out=bytearray()
    while i<len(t):
        c=t[i:i+1]
        if c==b"'":
            if t[i+1:i+2]==b"'": out+=b"'"; i+=2; continue
            return bytes(out) if i==len(t)-1 else 'BAD-TRAILING'
        if esc and c==b'\\':
            out+=t[i+1:i+2]; i+=2; continue
        out+=c; i+=1
    return 'BAD-UNTERMINATED'
def lex_ident(t):
    if t[:1]==b'"':
        out=bytearray(); i=1
        while i<len(t):
            if t[i:i+1]==b'"':
                if t[i+1:i+2]==b'"': out+=b'"'; i+=2; continue
                return (bytes(out), t[i+1:])
            out+=t[i:i+1]; i+=1
        return ('BAD',b'')
    m=re.match(rb'[a-z_][a-z0-9_]*',t)
    if not m: return ('BAD',b'')
    w=m.group(0)
    if L.pg_is_reserved_word(w): return ('RESERVED-BARE',b'')
    return (w, t[m.end():])
random.seed(11)
alpha=[b"'",b'"',b'\\',b'.',b'a',b'z',b'_',b'0',b' ',b'\xc3\xa9',b'\xff',b'A']
words=[b'select',b'user',b'table',b'abc',b'order',b'a.b',b'public',b'x"y',b'']
bad={}
def rec(k,v): bad.setdefault(k,[]).append(v)
cases=[b''.join(random.choice(alpha) for _ in range(random.randint(0,10))) for _ in range(3000)]+words+[b'a"',b"a'",b'a\\',b'""',b"''"]
for s in cases:
    for dl in range(0,2*len(s)+10):
        ok,out,g=call('pg_quote_literal',s,dl)
        if not g: rec('literal-guard',(s,dl))
        if ok:
            if out=='UNTERMINATED': rec('literal-unterminated',(s,dl))
            elif lex_literal(out)!=s: rec('literal-roundtrip',(s,dl,out))
        ok,out,g=call('pg_quote_ident',s,dl)
        if not g: rec('ident-guard',(s,dl))
        if ok and s:
            if out=='UNTERMINATED': rec('ident-unterminated',(s,dl))
            else:
                r=lex_ident(out)
                if r!=(s,b''): rec('ident-roundtrip',(s,dl,out,r))
        ok,out,g=call('pg_quote_fqident',s,dl)
        if not g: rec('fq-guard',(s,dl))
        if ok and out!='UNTERMINATED':
            a,rest=lex_ident(out)
            if rest[:1]!=b'.': rec('fq-nodot',(s,dl,out)); continue
            b,rest2=lex_ident(rest[1:])
            exp = (s.split(b'.',1) if b'.' in s else [b'public',s])
            if [a,b]!=exp and exp[0]!=b'' and exp[1]!=b'': rec('fq-roundtrip',(s,dl,out,a,b))
    # monotone fits: if ok at dl then ok at dl+1
for k,v in bad.items(): print(k,len(v),v[:3])
print('done')
