import ctypes, random, re, itertools, sys
R=ctypes.CDLL('./librx.so')
class regex_t(ctypes.Structure): _fields_=[('re_nsub',ctypes.c_int),('internal',ctypes.c_void_p)]
class regmatch_t(ctypes.Structure): _fields_=[('so',ctypes.c_long),('eo',ctypes.c_long)]
R.usual_regcomp.argtypes=[ctypes.POINTER(regex_t),ctypes.c_char_p,ctypes.c_int]
R.usual_regexec.argtypes=[ctypes.POINTER(regex_t),ctypes.c_char_p,ctypes.c_size_t,ctypes.POINTER(regmatch_t),ctypes.c_int]
R.usual_regfree.argtypes=[ctypes.POINTER(regex_t)]
random.seed(9)
# AST: ('c',ch) ('any',) ('cls',str,neg) ('cat',a,b) ('alt',a,b) ('rep',a,m,n) ('grp',a)
def gen(d):
    r=random.random()
    if d<=0 or r<0.35:
        k=random.random()
        if k<0.6: return ('c',random.choice('ab'))
        if k<0.75: return ('any',)
        return ('cls',random.choice(['a','b','ab']),random.random()<0.3)
    if r<0.55: return ('cat',gen(d-1),gen(d-1))
    if r<0.7: return ('alt',gen(d-1),gen(d-1))
    if r<0.92:
        m,n=random.choice([(0,None),(1,None),(0,1),(0,2),(1,2),(2,2),(2,3),(0,0),(2,None)])
        return ('rep',gen(d-1),m,n)
    return ('grp',gen(d-1))
def atomic(t): return t[0] in ('c','any','cls','grp')
def render(t,ere=True):
    k=t[0]
    if k=='c': return t[1]
    if k=='any': return '.'
    if k=='cls': return '['+('^' if t[2] else '')+t[1]+']'
    if k=='grp': return ('(%s)' if ere else '\\(%s\\)')%render(t[1],ere)
    if k=='cat':
        def w(x): return render(x,ere) if x[0]!='alt' else (('(%s)' if ere else '\\(%s\\)')%render(x,ere))
        return w(t[1])+w(t[2])
    if k=='alt': return render(t[1],ere)+'|'+render(t[2],ere)
    if k=='rep':
        inner=render(t[1],ere) if atomic(t[1]) else (('(%s)' if ere else '\\(%s\\)')%render(t[1],ere))
        m,n=t[2],t[3]
        if (m,n)==(0,None): q='*'
        elif (m,n)==(1,None): q='+' if ere else '\\{1,\\}'
        elif (m,n)==(0,1): q='?' if ere else '\\{0,1\\}'
        else:
            body='%d'%m if n==m else ('%d,'%m if n is None else '%d,%d'%(m,n))
            q=('{%s}' if ere else '\\{%s\\}')%body
        return inner+q
def pyre(t):
    k=t[0]
    if k=='c': return t[1]
    if k=='any': return '[ab\\n]' 
    if k=='cls': return '['+('^' if t[2] else '')+t[1]+']'
    if k=='grp': return '(?:%s)'%pyre(t[1])
    if k=='cat': return '(?:%s)(?:%s)'%(pyre(t[1]),pyre(t[2]))
    if k=='alt': return '(?:%s|%s)'%(pyre(t[1]),pyre(t[2]))
    if k=='rep':
        m,n=t[2],t[3]; return '(?:%s){%d,%s}'%(pyre(t[1]),m,'' if n is None else n)
def has_alt(t): return t[0]=='alt' or any(isinstance(x,tuple) and has_alt(x) for x in t[1:])
def ref(t,s):
    p=re.compile(pyre(t))
    for i in range(len(s)+1):
        best=None
        for j in range(len(s),i-1,-1):
            if p.fullmatch(s,i,j): best=j; break
        if best is not None: return (i,best)
    return None
subjects=[''.join(x) for n in range(0,6) for x in itertools.product('ab',repeat=n)]
bad={}; n=0
N=int(sys.argv[1]) if len(sys.argv)>1 else 3000
for it in range(N):
    t=gen(4)
    for ere in (True,False):
        if not ere and has_alt(t): continue
        pat=render(t,ere)
        rx=regex_t(); rc=R.usual_regcomp(ctypes.byref(rx),pat.encode(),1 if ere else 0)
        if rc!=0:
            bad.setdefault(('compile-fail',rc),[]).append((pat,ere)); continue
        for s in random.sample(subjects,12):
            for nm in (1,4):
                pm=(regmatch_t*4)(); r=R.usual_regexec(ctypes.byref(rx),s.encode(),nm,pm,0); n+=1
                exp=ref(t,s)
                got=(pm[0].so,pm[0].eo) if r==0 else None
                if got!=exp: bad.setdefault('overall-mismatch nmatch=%d'%nm,[]).append((pat,'ERE' if ere else 'BRE',s,got,exp))
                if r==0 and nm==4:
                    for g in range(1,4):
                        so,eo=pm[g].so,pm[g].eo
                        if (so,eo)!=(-1,-1) and not (pm[0].so<=so<=eo<=pm[0].eo): bad.setdefault('submatch-insane',[]).append((pat,s,g,so,eo,got))
            r=R.usual_regexec(ctypes.byref(rx),s.encode(),0,None,0)
            if (r==0)!=(exp is not None): bad.setdefault('nosub-existence',[]).append((pat,s,r,exp))
        R.usual_regfree(ctypes.byref(rx))
for k,v in bad.items(): print(k,len(v),v[:4])
print('execs',n)
