import random, json, sys
exec(open('p_json.py').read().split("bad={}")[0])
random.seed(7)
cats={}
def mutate(t):
    t=bytearray(t); r=random.random()
    if not t: return bytes(t)
    i=random.randrange(len(t))
    if r<0.25: del t[i]
    elif r<0.5: t[i:i]=bytes([random.choice(b',/*"\\\x00\x80\xff\xc0\xed\xa0:[]{}0-e.tn')])
    elif r<0.7: t[i]=random.randrange(256)
    elif r<0.85: t=t[:i]
    else: t+=random.choice([b',',b' x',b'1',b'//c',b'/*c*/',b']',b'"'])
    return bytes(t)
for i in range(60000):
    v,t=gen(); m=mutate(t)
    try:
        pv=json.loads(m.decode('utf-8'),parse_constant=lambda c: (_ for _ in ()).throw(ValueError(c))); py=True
    except Exception: py=False
    out,err=c_parse_render(m,0)
    c=out is not None
    if c and not py:
        # classify
        cats.setdefault('C-accepts/py-rejects',[]).append(m)
    if py and not c:
        cats.setdefault('py-accepts/C-rejects:'+err.decode().split(': ')[1],[]).append(m)
for k,v in cats.items():
    print(k,len(v))
    for x in v[:6]: print('    ',x[:100])
