import random, subprocess, socket, itertools
random.seed(21)
def lower(b): return bytes(c+32 if 65<=c<=90 else c for c in b)
def eqi(a,b): return lower(a)==lower(b)
def cstr(b): return b.split(b'\0',1)[0]
def match_name(cert,name):
    # both are C strings (already NUL-cut)
    if eqi(cert,name): return 0
    if cert[:1]==b'*':
        cd=cert[1:]
        if cd==b'': return -1
        if cd[:1]!=b'.': return -1
        if cd[1:2]==b'.': return -1
        nd=cd.find(b'.',1)
        if nd<0: return -1
        if cd[nd+1:nd+2]==b'.': return -1
        if name[:1]==b'.': return -1
        d=name.find(b'.')
        if d<0 or len(name[d:])==1: return -1
        if eqi(cd,name[d:]): return 0
    return -1
def pton(name):
    try: return socket.inet_pton(socket.AF_INET,name.decode('latin1')),4
    except Exception: pass
    try: return socket.inet_pton(socket.AF_INET6,name.decode('latin1')),16
    except Exception: return None,0
def check(sans,cn,name):
    name=cstr(name)
    addr,alen=pton(name)
    rv=-1
    if sans:
        for t,v in sans:
            if addr is None and t=='D':
                if len(v)!=len(cstr(v)): rv=-2; break
                if v==b' ': rv=-2; break
                if match_name(v,name)==0: rv=0; break
            elif addr is not None and t=='I':
                if len(v)==alen and v==addr: rv=0; break
        if rv in (0,-2): return rv
    if cn is None: return -1
    # X509_NAME_get_text_by_NID on UTF8String: returns bytes; embedded NUL → length mismatch
    if len(cn)!=len(cstr(cn)): return -2
    if addr is not None: return 0 if cn==name else -1
    return 0 if match_name(cn,name)==0 else -1
alpha=[b'a',b'B',b'c',b'*',b'.',b'-',b'1',b'0',b':',b' ']
def rname():
    r=random.random()
    if r<0.15: return random.choice([b'1.2.3.4',b'01.2.3.4',b'::1',b'0:0:0:0:0:0:0:1',b'::ffff:1.2.3.4',b'1.2.3',b'FE80::1',b'fe80::1'])
    if r<0.5:
        labels=[random.choice([b'a',b'B',b'c',b'ab',b'',b'*',b'a*']) for _ in range(random.randint(1,4))]
        return b'.'.join(labels)
    return b''.join(random.choice(alpha) for _ in range(random.randint(0,8)))
def rcert():
    r=random.random(); n=rname()
    if r<0.4 and n: n=b'*.'+n.split(b'.',1)[-1]
    if r>0.93: n=n[:2]+b'\0'+n[2:]
    if r>0.9 and r<=0.93: n=b' '
    return n
cases=[]
for i in range(30000):
    name=rname()
    if not name or b'\0' in name: continue
    nsan=random.choice([0,0,1,2,3]); sans=[]
    for _ in range(nsan):
        if random.random()<0.25:
            a,l=pton(random.choice([b'1.2.3.4',b'::1',b'::ffff:1.2.3.4',b'fe80::1']))
            if random.random()<0.1: a=a[:-1]
            sans.append(('I',a))
        else:
            c=rcert()
            if random.random()<0.3: c=name if random.random()<0.5 else lower(name).upper()
            sans.append(('D',c))
    cn=None if random.random()<0.3 else (name if random.random()<0.3 else rcert())
    if cn==b'': cn=None
    cases.append((sans,cn,name))
lines=[]
for sans,cn,name in cases:
    s=','.join('%s:%s'%(t,v.hex() if v else '') for t,v in sans) if sans else '-'
    lines.append('%s;%s;%s'%(s, cn.hex() if cn is not None else '-', name.hex()))
out=subprocess.run(['./tn'],input='\n'.join(lines)+'\n',capture_output=True,text=True).stdout.split()
bad=[]
for (sans,cn,name),o in zip(cases,out):
    e=check(sans,cn,name)
    if int(o)!=e: bad.append((sans,cn,name,int(o),e))
print('cases',len(cases),'outputs',len(out),'mismatch',len(bad))
for b in bad[:10]: print(b)
from collections import Counter
print(Counter(out))
