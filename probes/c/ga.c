#include <usual/netdb.h>
#include <usual/socket.h>
#include <stdio.h>
#include <string.h>
#include <unistd.h>
static volatile int notified;
static void cb(union sigval v){ notified++; }
int main(void){
  struct gaicb req[3]; struct gaicb *list[3]; struct addrinfo hints; memset(&hints,0,sizeof hints); hints.ai_flags=AI_NUMERICHOST; hints.ai_socktype=SOCK_STREAM;
  const char *hosts[3]={"127.0.0.1","10.1.2.3","::1"};
  for(int i=0;i<3;i++){ memset(&req[i],0,sizeof req[i]); req[i].ar_name=hosts[i]; req[i].ar_request=&hints; req[i]._state=12345; list[i]=&req[i]; }
  struct sigevent sev; memset(&sev,0,sizeof sev); sev.sigev_notify=SIGEV_THREAD; sev.sigev_notify_function=cb;
  int r=getaddrinfo_a(GAI_NOWAIT,list,3,&sev);
  printf("submit r=%d states right after submit: %d %d %d (EAI_INPROGRESS=%d)\n",r,gai_error(&req[0]),gai_error(&req[1]),gai_error(&req[2]),EAI_INPROGRESS);
  for(int t=0;t<200 && !notified;t++) usleep(10000);
  printf("notified=%d states: %d %d %d results: %p %p %p\n",notified,gai_error(&req[0]),gai_error(&req[1]),gai_error(&req[2]),(void*)req[0].ar_result,(void*)req[1].ar_result,(void*)req[2].ar_result);
  return 0; }
