#include <usual/json.h>
#include <usual/mbuf.h>
#include <stdio.h>
#include <string.h>
#include <float.h>
#include <math.h>
static bool cnt_cb(void *arg, struct JsonValue *k, struct JsonValue *v){ (*(int*)arg)++; return true; }
int main(void){
  struct JsonContext *ctx = json_new_context(NULL, 0);
  const char *docs[] = {"5e-324", "1e-400", "2.2250738585072011e-308", "4.9406564584124654e-324", "[1e-320]", "01", "1.", "-", "-0", "\"a\tb\"", "\"\\u0000\"", "[1,]", "\f1", NULL};
  for (int i=0; docs[i]; i++){
    struct JsonValue *v = json_parse(ctx, docs[i], strlen(docs[i]));
    printf("%-30s -> %s %s\n", docs[i], v?"OK":"FAIL", v?"":json_strerror(ctx));
  }
  /* builder dup key */
  struct JsonValue *d = json_new_dict(ctx);
  printf("put a: %d\n", json_dict_put_int(d, "a", 1));
  printf("put a again: %d\n", json_dict_put_int(d, "a", 2));
  int n=0; json_dict_iter(d, cnt_cb, &n);
  printf("size=%zu iter=%d\n", json_value_size(d), n);
  /* subnormal roundtrip */
  struct JsonValue *f = json_new_float(ctx, 4.9406564584124654e-324);
  struct MBuf mb; mbuf_init_dynamic(&mb);
  printf("render=%d\n", json_render(&mb, f));
  mbuf_write_byte(&mb, 0);
  printf("rendered: %s\n", (char*)mb.data);
  struct JsonValue *v = json_parse(ctx, (char*)mb.data, strlen((char*)mb.data));
  printf("reparse -> %s %s\n", v?"OK":"FAIL", v?"":json_strerror(ctx));
  return 0;
}
