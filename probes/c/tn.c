#include <usual/tls/tls.h>
#include <openssl/x509.h>
#include <openssl/x509v3.h>
#include <stdio.h>
#include <string.h>
#include <stdlib.h>
struct tls; int tls_check_name(struct tls *ctx, X509 *cert, const char *name);
static int unhex(const char *h, unsigned char *out){ int n=0; while(h[0]&&h[1]){ unsigned v; sscanf(h,"%2x",&v); out[n++]=v; h+=2;} return n; }
/* line: T:hex,T:hex,...;cnhex-or-'-';namehex   where T = D (dns) or I (ip bytes) */
int main(void){ tls_init(); struct tls *ctx=tls_client(); char line[8192];
  while(fgets(line,sizeof line,stdin)){ line[strcspn(line,"\n")]=0; char *sans=strtok(line,";"); char *cn=strtok(NULL,";"); char *name=strtok(NULL,";");
    X509 *x=X509_new(); GENERAL_NAMES *gens=sk_GENERAL_NAME_new_null(); int nsan=0;
    if(strcmp(sans,"-")!=0){ char *save; for(char *tok=strtok_r(sans,",",&save);tok;tok=strtok_r(NULL,",",&save)){ unsigned char buf[512]; int n=unhex(tok+2,buf); GENERAL_NAME *g=GENERAL_NAME_new();
        if(tok[0]=='D'){ ASN1_IA5STRING *s=ASN1_IA5STRING_new(); ASN1_STRING_set(s,buf,n); GENERAL_NAME_set0_value(g,GEN_DNS,s);} else { ASN1_OCTET_STRING *s=ASN1_OCTET_STRING_new(); ASN1_OCTET_STRING_set(s,buf,n); GENERAL_NAME_set0_value(g,GEN_IPADD,s);} sk_GENERAL_NAME_push(gens,g); nsan++; } }
    if(nsan) X509_add1_ext_i2d(x,NID_subject_alt_name,gens,0,X509V3_ADD_DEFAULT);
    if(strcmp(cn,"-")!=0){ unsigned char buf[512]; int n=unhex(cn,buf); X509_NAME *nm=X509_get_subject_name(x); X509_NAME_add_entry_by_NID(nm,NID_commonName,V_ASN1_UTF8STRING,buf,n,-1,0); }
    unsigned char nb[512]; int nn=unhex(name,nb); nb[nn]=0;
    int rv=tls_check_name(ctx,x,(char*)nb); printf("%d\n",rv);
    sk_GENERAL_NAME_pop_free(gens,GENERAL_NAME_free); X509_free(x); }
  return 0; }
