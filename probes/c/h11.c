#include <usual/hashtab-impl.h>
#include <stdio.h>
static int failnext;
static void *fa(void *c, size_t n){ if (failnext) { failnext=0; return NULL; } return malloc(n); }
static void *fr(void *c, void *p, size_t n){ return realloc(p,n); }
static void ff(void *c, void *p){ free(p); }
static const struct CxOps ops = { fa, fr, ff, NULL };
static const struct CxMem cx = { &ops, NULL };
int main(void){
  struct HashTab *h = hashtab_create(8, NULL, &cx);
  void **v = hashtab_lookup(h, 1, true, NULL); *v = (void*)1;
  failnext = 1;
  struct HashTab *h2 = hashtab_copy(h, 16);
  printf("copy -> %p\n", (void*)h2);
  return 0;
}
