#include <usual/pgutil.h>
#include <usual/string.h>
#include <stdio.h>
#include <stdlib.h>
#include <string.h>
int main(int argc, char **argv){
  int which = atoi(argv[1]);
  if (which == 0) {
    char *dst = malloc(5);
    bool ok = pg_quote_ident(dst, "a\"", 5);
    printf("ok=%d\n", ok);
  } else {
    char *s = malloc(3); memcpy(s, "{\"", 3);
    struct StrList *l = pg_parse_array(s, NULL);
    printf("l=%p\n", (void*)l);
  }
  return 0;
}
