#include <usual/crypto/chacha.h>
#include <usual/cxalloc.h>
#include <usual/string.h>
#include <stdio.h>
#include <string.h>
#include <stdarg.h>
static int wrap(char **dst, const char *fmt, ...){ va_list ap; va_start(ap, fmt); int r = cx_vasprintf(NULL, dst, fmt, ap); va_end(ap); return r; }
int main(void){
  uint8_t key[32] = {1,2,3}, iv[8] = {9};
  uint8_t pt[40] = {0}, a[40], b[40];
  struct ChaCha c;
  chacha_set_key_256(&c, key); chacha_set_nonce(&c, 0, 0, iv);
  chacha_keystream_xor(&c, pt, a, 40);
  chacha_set_key_256(&c, key); chacha_set_nonce(&c, 0, 0, iv);
  chacha_keystream_xor(&c, pt, b, 10);
  chacha_keystream_xor(&c, pt+10, b+10, 30);
  printf("chacha split equal: %d\n", memcmp(a,b,40)==0);
  char big[200]; memset(big, 'x', 199); big[199]=0;
  char *out = NULL;
  int r = wrap(&out, "%s-%d-%s", big, 42, "tail");
  printf("vasprintf r=%d out_tail=%s\n", r, out ? out + (strlen(out) > 10 ? strlen(out)-10 : 0) : "(null)");
  return 0;
}
