#include <usual/talloc.h>
#include <stdio.h>
#include <string.h>
static size_t headroom(void *ctx){ /* largest admissible alloc by bisection */
  size_t lo=0, hi=1<<20;
  while (lo<hi){ size_t mid=(lo+hi+1)/2; void *p=talloc_size(ctx, mid); if(p){talloc_free(p); lo=mid;} else hi=mid-1; }
  return lo;
}
int main(void){
  void *top = talloc_named_const(NULL, 0, "top");
  void *lim = talloc_named_const(top, 0, "lim");
  void *other = talloc_named_const(top, 0, "other");
  talloc_set_memlimit(lim, 10000);
  printf("fresh headroom=%zu\n", headroom(lim));
  void *a = talloc_size(lim, 1000);
  printf("after alloc 1000 headroom=%zu\n", headroom(lim));
  talloc_steal(other, a);
  printf("after steal out headroom=%zu\n", headroom(lim));
  talloc_steal(lim, a);
  printf("after steal in headroom=%zu\n", headroom(lim));
  talloc_free(a);
  printf("after free headroom=%zu\n", headroom(lim));
  /* steal in foreign, then free */
  void *b = talloc_size(other, 1000);
  talloc_steal(lim, b);
  printf("foreign in headroom=%zu\n", headroom(lim));
  talloc_free(b);
  printf("foreign freed headroom=%zu\n", headroom(lim));
  /* realloc under limit */
  void *c = talloc_size(lim, 100);
  c = talloc_realloc_size(lim, c, 5000);
  printf("realloc 5000 headroom=%zu\n", headroom(lim));
  c = talloc_realloc_size(lim, c, 100);
  printf("realloc 100 headroom=%zu\n", headroom(lim));
  talloc_free(c);
  printf("freed headroom=%zu\n", headroom(lim));
  /* set limit again with children present */
  void *d = talloc_size(lim, 4000);
  talloc_set_memlimit(lim, 10000);
  printf("re-set limit with 4000 child: headroom=%zu total=%zu\n", headroom(lim), talloc_total_size(lim));
  talloc_report_full(top, stdout);
  talloc_free(top);
  return 0;
}
