#include <usual/cxextra.h>
#include <usual/cxalloc.h>
#include <stdio.h>
#include <string.h>
#include <stdint.h>
int main(int argc, char **argv){
  for (int req = 1024; req < 4096; req += 8) {
    CxMem *p = cx_new_pool(NULL, 1024, 64);
    char *a = cx_alloc(p, req);
    memset(a, 0xAA, req);
    cx_destroy(p);
  }
  printf("no overflow seen\n");
  return 0;
}
