#include <usual/cfparser.h>
#include <usual/logging.h>
#include <usual/time.h>
#include <stdio.h>
#include <stdlib.h>
#include <string.h>
#include <unistd.h>
static uint64_t st=88172645463325252ULL; static uint64_t rnd(void){ st^=st<<13; st^=st>>7; st^=st<<17; return st; }
static int nev; static bool h(void *arg,bool is_sect,const char *k,const char *v){ nev++; if (rnd()%50==0) return false; return true; }
static int vi; static unsigned vu; static char *vs; static usec_t vt; static double vd; static int vl;
static const struct CfLookup lk[]={{"one",1},{"two",2},{NULL}};
static const struct CfKey keys[]={ CF_ABS("i",CF_INT,vi,0,"5"), CF_ABS("u",CF_UINT,vu,0,NULL), CF_ABS("s",CF_STR,vs,0,"dflt"), CF_ABS("t",CF_TIME_USEC,vt,0,"1.5"), CF_ABS("d",CF_TIME_DOUBLE,vd,CF_NO_RELOAD,"2"), CF_ABS("l",CF_LOOKUP(lk),vl,CF_READONLY,"one"), {NULL} };
static const struct CfSect sects[]={ {"main",keys}, {NULL} };
static struct CfContext cf={ sects, NULL };
int main(void){ cf_quiet=1; cf_verbose=0; const char *toks[]={"[main]","[","]","\n","\r\n"," ","\t","i","u","s","t","d","l","x","=","=","5","-1","0x10","abc","1e3","one","two","#c",";c","%include"," inc.ini","%include inc2.ini","\0","\xe9","..","*"};
  int nt=sizeof toks/sizeof toks[0];
  for(int it=0;it<20000;it++){ FILE *f=fopen("/tmp/probe/t.ini","w"); int n=rnd()%40; for(int i=0;i<n;i++){ int k=rnd()%nt; if(k==28) fputc(0,f); else fputs(toks[k],f);} fclose(f);
    f=fopen("/tmp/probe/inc.ini","w"); fputs(rnd()%2?"i = 7\n":"[main]\nu=3\n%include t.ini\n",f); fclose(f);
    nev=0; bool ok=parse_ini_file("/tmp/probe/t.ini",h,NULL); (void)ok;
    cf.loaded = rnd()%2; bool ok2=cf_load_file(&cf,"/tmp/probe/t.ini"); (void)ok2; char buf[64]; cf_get(&cf,"main","i",buf,sizeof buf); cf_get(&cf,"main","t",buf,sizeof buf); cf_get(&cf,"main","l",buf,sizeof buf); cf_get(&cf,"nosuch","i",buf,sizeof buf);
  }
  free(vs); printf("cf fuzz done\n"); return 0; }
