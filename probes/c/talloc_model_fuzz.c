#include <usual/talloc.h>
#include <usual/cxalloc.h>
#include <stdio.h>
#include <stdlib.h>
#include <string.h>
#define N 40
#define TOP (-1)
static uint64_t st; static uint64_t rnd(void){ st^=st<<13; st^=st>>7; st^=st<<17; return st; }
/* tracking allocator */
static long live_blocks; 
static void *ta(void *c,size_t n){ void *p=malloc(n); if(p) live_blocks++; return p; }
static void *tr(void *c,void *p,size_t n){ return realloc(p,n); }
static void tf_(void *c,void *p){ live_blocks--; free(p); }
static const struct CxOps tops={ta,tr,tf_,NULL}; static const struct CxMem tcx={&tops,NULL};
/* model */
struct M { int live; int parent; int nref; int ref[8]; int refuse; int mrefuse; int dcalls; int pending; int kids[N]; int nk; /* plain children order */ int href[N*2]; int nh; /* objects this ctx references, most recent first */ };
static struct M m[N]; static void *ptr[N]; static int nobj; static int verbose=0;
static int id_of(void *p){ for(int i=0;i<nobj;i++) if(ptr[i]==p) return i; return -2; }
static int dtor(void *p){ int i=id_of(p); if(i<0){printf("dtor on unknown ptr\n"); abort();} if(m[i].refuse>0){ m[i].refuse--; return -1;} m[i].dcalls++; return 0; }
static void kid_del(int p,int c){ if(p==TOP) return; int j=0; for(int i=0;i<m[p].nk;i++) if(m[p].kids[i]!=c) m[p].kids[j++]=m[p].kids[i]; m[p].nk=j; }
static void kid_add(int p,int c){ if(p==TOP) return; m[p].kids[m[p].nk++]=c; }
static void href_del_first(int ctx,int x){ if(ctx==TOP) return; for(int i=0;i<m[ctx].nh;i++) if(m[ctx].href[i]==x){ memmove(&m[ctx].href[i],&m[ctx].href[i+1],(m[ctx].nh-i-1)*sizeof(int)); m[ctx].nh--; return; } }
static void ref_del_at(int o,int idx){ memmove(&m[o].ref[idx],&m[o].ref[idx+1],(m[o].nref-idx-1)*sizeof(int)); m[o].nref--; }
static int m_release(int o);
static int m_unlink(int ctx,int o){
  if(m[o].parent!=ctx){ for(int i=0;i<m[o].nref;i++) if(m[o].ref[i]==ctx){ ref_del_at(o,i); href_del_first(ctx,o); return 0;} return -1; }
  if(m[o].nref==0) return m_release(o);
  int nc=m[o].ref[0]; ref_del_at(o,0); href_del_first(nc,o); kid_del(m[o].parent,o); m[o].parent=nc; kid_add(nc,o); return 0; }
static void m_free_children(int o){
  /* refs first (most recent first), then plain kids in order */
  while(m[o].nh>0){ int x=m[o].href[0]; /* remove first ref in x.ref with ctx o?  the specific TRef: most recent TRef of o */
     /* which entry of x.ref corresponds? the latest-added ref from o to x is the last matching */
     int idx=-1; for(int i=0;i<m[x].nref;i++) if(m[x].ref[i]==o) idx=i; /* last match */
     if(idx<0){printf("model bug\n");abort();} ref_del_at(x,idx); memmove(&m[o].href[0],&m[o].href[1],(m[o].nh-1)*sizeof(int)); m[o].nh--; }
  #define END (-9)
  #define SUCC(o,x) ({ int _r=END; for(int _i=0;_i<m[o].nk;_i++) if(m[o].kids[_i]==(x)){ _r = (_i+1<m[o].nk)? m[o].kids[_i+1] : END; break; } _r; })
  int cur = m[o].nk>0 ? m[o].kids[0] : END; int tmp = cur==END?END:SUCC(o,cur);
  while(cur!=END){ int c=cur; int r=m_unlink(o,c);
     if(r!=0){ int q=o; while(q!=TOP && m[q].pending) q=m[q].parent; if(q!=o){ kid_del(o,c); m[c].parent=q; kid_add(q,c);} }
     cur=tmp; if(cur!=END){ int found=0; for(int i=0;i<m[o].nk;i++) if(m[o].kids[i]==cur) found=1; if(!found){ printf("model: prefetched next %d left the list\n",cur); break;} tmp=SUCC(o,cur);} }
}
static int m_release(int o){ if(m[o].pending) return 0; m[o].pending=1; if(m[o].mrefuse>0){ m[o].mrefuse--; m[o].pending=0; return -1; } /* real dtor decrements refuse; model mirrors below */
  kid_del(m[o].parent,o); m_free_children(o); m[o].live=0; m[o].pending=0; return 0; }
static int m_free(int o){ if(m[o].nref>0){ if(m[o].parent==TOP) return -1; for(int i=0;i<m[o].nref;i++) if(m[o].ref[i]!=m[o].parent) return -1; int ctx=m[o].ref[m[o].nref-1]; ref_del_at(o,m[o].nref-1); /* which href entry: any one of ctx->o */ href_del_first(ctx,o); return 0;} return m_release(o); }
static int is_desc(int a,int anc){ /* is a == anc or held (transitively) by anc */ if(a==anc) return 1; if(a==TOP) return 0; if(is_desc(m[a].parent,anc)) return 1; for(int i=0;i<m[a].nref;i++) if(is_desc(m[a].ref[i],anc)) return 1; return 0; }
static int check(const char *what,int it,int op){ int bad=0; for(int i=0;i<nobj;i++){ if(!m[i].live) continue; void *pp=talloc_parent(ptr[i]); int pid = pp?id_of(pp):TOP; if(pid!=m[i].parent){ printf("[%d.%d %s] obj %d parent real %d model %d\n",it,op,what,i,pid,m[i].parent); bad=1;} if((int)talloc_reference_count(ptr[i])!=m[i].nref){ printf("[%d.%d %s] obj %d refcount real %zu model %d\n",it,op,what,i,talloc_reference_count(ptr[i]),m[i].nref); bad=1;} } return bad; }
int main(int argc,char**argv){ int iters=argc>1?atoi(argv[1]):2000; int refuse_on=argc>2?atoi(argv[2]):1; int totalbad=0;
  talloc_set_log_fn(NULL); setvbuf(stdout,NULL,_IONBF,0);
  for(int it=0;it<iters&&totalbad<5;it++){ st=88172645463325252ULL+it*7919; nobj=0; memset(m,0,sizeof m); long base=live_blocks;
    int nops=5+rnd()%60; int bad=0; int dead_dcalls_expected=0;
    for(int op=0;op<nops&&!bad;op++){ int k=rnd()%10; char what[64]="";
      if(k<=2&&nobj<N){ int p = nobj==0||rnd()%6==0 ? TOP : (int)(rnd()%nobj); if(p!=TOP&&!m[p].live) p=TOP; void *pp= p==TOP? NULL: ptr[p];
        void *x = p==TOP ? talloc_from_cx(&tcx, rnd()%32, "o") : talloc_named_const(pp, rnd()%32, "o"); if(!x){printf("alloc failed\n");return 1;} talloc_set_destructor(x,dtor);
        ptr[nobj]=x; m[nobj].live=1; m[nobj].parent=p; m[nobj].refuse = (refuse_on && rnd()%6==0)? 1+rnd()%2 : 0; m[nobj].mrefuse=m[nobj].refuse; kid_add(p,nobj); sprintf(what,"alloc %d under %d refuse %d",nobj,p,m[nobj].refuse); nobj++; }
      else if(nobj>0){ int o=rnd()%nobj; if(!m[o].live) continue; int c=rnd()%nobj; if(!m[c].live) c=TOP;
        if(k==3){ sprintf(what,"free %d",o); int willrefuse = (m[o].nref==0 && m[o].refuse>0); int r=talloc_free(ptr[o]); int mr=m_free(o); (void)willrefuse; if(r!=mr){printf("[%d.%d %s] rc real %d model %d\n",it,op,what,r,mr);bad=1;} }
        else if(k==4){ if(c==TOP||c==o||is_desc(c,o)||m[o].nref>=8) continue; sprintf(what,"reference ctx %d -> %d",c,o); void *r=talloc_reference(ptr[c],ptr[o]); if(!r){printf("ref failed\n");bad=1;} m[o].ref[m[o].nref++]=c; memmove(&m[c].href[1],&m[c].href[0],m[c].nh*sizeof(int)); m[c].href[0]=o; m[c].nh++; }
        else if(k==5){ sprintf(what,"unlink ctx %d obj %d",c,o); int r=talloc_unlink(c==TOP?NULL:ptr[c],ptr[o]); int mr=m_unlink(c,o); if(r!=mr){printf("[%d.%d %s] rc real %d model %d\n",it,op,what,r,mr);bad=1;} }
        else if(k==6){ if(c!=TOP&&is_desc(c,o)) continue; sprintf(what,"steal %d -> %d",o,c); void *r=talloc_steal(c==TOP?NULL:ptr[c],ptr[o]); int ok = m[o].nref==0; if((r!=NULL)!=ok){printf("[%d.%d %s] steal real %p model ok %d\n",it,op,what,r,ok);bad=1;} if(ok && c!=m[o].parent && c!=o){ kid_del(m[o].parent,o); m[o].parent=c; kid_add(c,o);} }
        else if(k==7){ sprintf(what,"free_children %d",o); talloc_free_children(ptr[o]); m[o].pending=0; /* free_children without pending on o */ m_free_children(o); }
        else if(k==8){ if(m[o].nref>0) { sprintf(what,"realloc(refd) %d",o); void *r=talloc_realloc_size(m[o].parent==TOP?NULL:ptr[m[o].parent],ptr[o],100); if(r){printf("[%d.%d %s] realloc with refs succeeded\n",it,op,what);bad=1;} } else { sprintf(what,"realloc %d",o); size_t ns=1+rnd()%5000; void *r=talloc_realloc_size(m[o].parent==TOP?NULL:ptr[m[o].parent],ptr[o],ns); if(!r){printf("realloc failed\n");bad=1;} else ptr[o]=r; } }
        else continue;
      } else continue;
      /* sync model refuse counters with real dtor side effects: model m_release consumed nothing; real dtor decremented. emulate: */
      if(verbose) printf("%d.%d %s\n",it,op,what);
      for(int i=0;i<nobj;i++) if(m[i].live && m[i].dcalls!=0){ printf("[%d.%d %s] obj %d live in model but dtor accepted (really freed)\n",it,op,what,i); bad=1; }
      if(!bad) bad|=check(what,it,op);
      for(int i=0;i<nobj;i++) if(m[i].live==0 && m[i].dcalls!=1){ printf("[%d.%d %s] obj %d dead but dtor accepted %d times\n",it,op,what,i,m[i].dcalls); bad=1; } else if(m[i].live && m[i].dcalls!=0){ printf("[%d.%d %s] obj %d live in model but dtor accepted\n",it,op,what,i); bad=1; }
    }
    /* teardown: unlink all refs, then free tops until all gone */
    if(!bad){ for(int round=0;round<50;round++){ int any=0; for(int i=0;i<nobj;i++) if(m[i].live){ any=1; while(m[i].nref>0){ int c=m[i].ref[0]; if(talloc_unlink(c==TOP?NULL:ptr[c],ptr[i])!=0){printf("teardown unlink failed\n");bad=1;break;} m_unlink(c,i);} } if(!any) break; for(int i=0;i<nobj;i++) if(m[i].live && m[i].parent==TOP){ int r=talloc_free(ptr[i]); int mr=m_free(i); if(r!=mr){printf("[%d teardown] free %d rc %d model %d\n",it,i,r,mr);bad=1;} } }
      int left=0; for(int i=0;i<nobj;i++) left+=m[i].live; if(left){ printf("[%d] teardown left %d live in model\n",it,left); bad=1; }
      if(!bad && live_blocks!=base){ printf("[%d] allocator balance %ld\n",it,live_blocks-base); bad=1; } }
    totalbad+=bad; if(bad) live_blocks=base;
  }
  printf("talloc fuzz done bad=%d\n",totalbad); return 0; }
