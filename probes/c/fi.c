#include <usual/cxalloc.h>
#include <usual/cxextra.h>
#include <usual/cbtree.h>
#include <usual/strpool.h>
#include <usual/mdict.h>
#include <usual/heap.h>
#include <usual/string.h>
#include <usual/json.h>
#include <usual/mbuf.h>
#include <usual/talloc.h>
#include <usual/slab.h>
#include <usual/crypto/hmac.h>
#include <usual/crypto/digest.h>
#include <usual/pgutil.h>
#include <stdio.h>
#include <stdlib.h>
#include <string.h>
#include <setjmp.h>
#include <signal.h>
static long nreq, failat, bal;
static void *ta(void *c,size_t n){ nreq++; if(nreq==failat) return NULL; void *p=malloc(n); if(p) bal++; return p; }
static void *tr(void *c,void *p,size_t n){ nreq++; if(nreq==failat) return NULL; return realloc(p,n); }
static void tf_(void *c,void *p){ bal--; free(p); }
static const struct CxOps tops={ta,tr,tf_,NULL}; static const struct CxMem tcx={&tops,NULL};
static sigjmp_buf jb; static void onsegv(int s){ siglongjmp(jb,1); }
/* scripts return 0 ok; they must tolerate failures */
static size_t gk(void *ctx, void *obj, const void **d){ *d=obj; return strlen(obj); }
static int s_cbtree(void){ struct CBTree *t=cbtree_create(gk,NULL,NULL,&tcx); if(!t) return 0; static char *ks[]={"a","ab","abc","b","ba",""}; for(int i=0;i<6;i++) cbtree_insert(t,ks[i]); cbtree_delete(t,"ab",2); cbtree_insert(t,"zz"); cbtree_destroy(t); return 0; }
static int s_strpool(void){ struct StrPool *sp=strpool_create(&tcx); if(!sp) return 0; struct PStr *a=strpool_get(sp,"foo",-1),*b=strpool_get(sp,"bar",-1),*c=strpool_get(sp,"foo",-1); if(c) strpool_decref(c); (void)a;(void)b; strpool_get(sp,"foobar",-1); strpool_free(sp); return 0; }
static int s_mdict(void){ struct MDict *d=mdict_new(&tcx); if(!d) return 0; mdict_put_str(d,"k1",2,"v1",2); mdict_put_str(d,"k2",2,NULL,0); mdict_put_str(d,"k1",2,"v2",2); mdict_urldecode(d,"a=1&b=2&a=3&c",13); mdict_free(d); return 0; }
static bool better(const void*a,const void*b){ return (uintptr_t)a<(uintptr_t)b; }
static int s_heap(void){ struct Heap *h=heap_create(better,NULL,&tcx); if(!h) return 0; for(uintptr_t i=1;i<80;i++) heap_push(h,(void*)(i*7%41+1)); heap_reserve(h,500); while(heap_pop(h)); heap_destroy(h); return 0; }
static int s_strlist(void){ struct StrList *l=strlist_new(&tcx); if(!l) return 0; strlist_append(l,"a"); strlist_append(l,NULL); strlist_append(l,"ccc"); char *s=strlist_pop(l); if(s) cx_free(&tcx,s); strlist_free(l); return 0; }
static int s_json(void){ struct JsonContext *ctx=json_new_context(&tcx,0); if(!ctx) return 0; static const char doc[]="{\"a\":[1,2.5,\"x\\u00e9\",null,true,{\"b\":[]}],\"c\":\"0123456789012345678901234567890123456789\"}"; struct JsonValue *v=json_parse(ctx,doc,strlen(doc)); if(v){ struct JsonValue *l=NULL; json_dict_get_list(v,"a",&l); struct JsonValue *e; for(int i=0;i<12;i++) json_list_append_int(l,i); json_list_get_value(l,11,&e); } struct JsonValue *d=json_new_dict(ctx); if(d){ json_dict_put_string(d,"k","v"); json_dict_put_int(d,"k2",5);} json_free_context(ctx); return 0; }
static int s_talloc(void){ void *top=talloc_from_cx(&tcx,10,"top"); if(!top) return 0; char *a=talloc_strdup(top,"hello"); void *b=talloc_size(top,100); if(a&&b){ talloc_reference(b,a); char *c=talloc_asprintf(b,"%s-%d",a,5); (void)c; b=talloc_realloc_size(top,b,5000)?:b; a=talloc_strdup_append(a," world")?:a; } talloc_set_memlimit(top,100000); talloc_named(top,5,"n%d",1); talloc_free(top); return 0; }
static int s_pool(void){ CxMem *p=cx_new_pool(&tcx,100,8); if(!p) return 0; void *a=cx_alloc(p,900); void *b=cx_alloc(p,900); if(b) b=cx_realloc(p,b,3000); (void)a; cx_alloc(p,10000); cx_destroy(p); return 0; }
static int s_tree(void){ CxMem *t=cx_new_tree(&tcx); if(!t) return 0; CxMem *s=cx_new_tree(t); void *a=cx_alloc(t,10); if(a) cx_realloc(t,a,100); if(s) cx_alloc(s,5); cx_destroy(t); return 0; }
static int s_slab(void){ struct Slab *s=slab_create("s",40,0,NULL,&tcx); if(!s) return 0; for(int i=0;i<500;i++){ void *o=slab_alloc(s); (void)o; } slab_destroy(s); return 0; }
static int s_hmac(void){ struct HMAC *h=hmac_new(digest_SHA256(),"key",3,&tcx); if(!h) return 0; uint8_t out[64]; hmac_update(h,"x",1); hmac_final(h,out); hmac_free(h); struct DigestContext *d=digest_new(digest_SHA1(),&tcx); if(d) digest_free(d); return 0; }
static int s_pgarr(void){ struct StrList *l=pg_parse_array("{a,\"b c\",NULL,d\\,e}",&tcx); if(l) strlist_free(l); return 0; }
static int s_vasprintf(void){ char *s=cx_sprintf(&tcx,"%s-%d","abc",5); if(s) cx_free(&tcx,s); return 0; }
struct S { const char *name; int (*fn)(void); } scripts[]={{"cbtree",s_cbtree},{"strpool",s_strpool},{"mdict",s_mdict},{"heap",s_heap},{"strlist",s_strlist},{"json",s_json},{"talloc",s_talloc},{"pool",s_pool},{"tree",s_tree},{"slab",s_slab},{"hmac",s_hmac},{"pgarray",s_pgarr},{"cx_sprintf",s_vasprintf}};
int main(void){ signal(SIGSEGV,onsegv); talloc_set_log_fn(NULL);
  for(unsigned s=0;s<sizeof scripts/sizeof scripts[0];s++){ failat=0; nreq=0; bal=0; scripts[s].fn(); long n=nreq; if(bal!=0) printf("%-10s no-fault run leaks %ld\n",scripts[s].name,bal);
    int leaks=0,crashes=0; long firstleak=0, firstcrash=0;
    for(long k=1;k<=n;k++){ failat=k; nreq=0; bal=0; if(sigsetjmp(jb,1)==0){ scripts[s].fn(); if(bal!=0){ if(!leaks) firstleak=k; leaks++; } } else { if(!crashes) firstcrash=k; crashes++; signal(SIGSEGV,onsegv);} }
    printf("%-10s requests=%ld  leaking-k=%d (first k=%ld)  crashing-k=%d (first k=%ld)\n",scripts[s].name,n,leaks,firstleak,crashes,firstcrash); }
  return 0; }
