#include <usual/cxextra.h>
#include <usual/cxalloc.h>
#include <usual/slab.h>
#include <usual/mempool.h>
#include <usual/talloc.h>
#include <stdio.h>
#include <stdlib.h>
#include <string.h>
static uint64_t st=88172645463325252ULL; static uint64_t rnd(void){ st^=st<<13; st^=st>>7; st^=st<<17; return st; }
/* tracking parent */
#define MAXR 4096
static struct { char *p; size_t n; int live; } reg[MAXR]; static int nreg; static long bal;
static void *ta(void *c,size_t n){ char *p=malloc(n); reg[nreg].p=p; reg[nreg].n=n; reg[nreg].live=1; nreg++; bal++; return p; }
static void tf_(void *c,void *p){ for(int i=0;i<nreg;i++) if(reg[i].live&&reg[i].p==p){reg[i].live=0; bal--; free(p); return;} printf("free of unknown region %p\n",p); abort(); }
static void *tr(void *c,void *p,size_t n){ for(int i=0;i<nreg;i++) if(reg[i].live&&reg[i].p==p){ char *q=realloc(p,n); reg[i].p=q; reg[i].n=n; return q;} printf("realloc unknown\n"); abort(); }
static const struct CxOps tops={ta,tr,tf_,NULL}; static const struct CxMem tcx={&tops,NULL};
static int inside(char *p,size_t n){ for(int i=0;i<nreg;i++) if(reg[i].live && p>=reg[i].p && p+n<=reg[i].p+reg[i].n) return 1; return 0; }
struct B { char *p; size_t n; unsigned char fill; int live; };
static int verify(struct B*b,int nb,const char*what){ int bad=0; for(int i=0;i<nb;i++) if(b[i].live){ for(size_t j=0;j<b[i].n;j++) if((unsigned char)b[i].p[j]!=b[i].fill){ printf("%s: block %d corrupted at %zu\n",what,i,j); return 1;} if(!inside(b[i].p,b[i].n)){printf("%s: block %d outside parent memory\n",what,i); bad=1;} for(int k=0;k<i;k++) if(b[k].live && b[i].n && b[k].n && b[i].p < b[k].p+b[k].n && b[k].p < b[i].p+b[i].n){ printf("%s: blocks %d %d overlap\n",what,i,k); bad=1; } } return bad; }
int main(void){ int bad=0;
  /* tree allocator with nested subtrees */
  for(int it=0;it<300&&!bad;it++){ nreg=0; bal=0; CxMem *root=cx_new_tree(&tcx); CxMem *t[8]; int nt=1; t[0]=root; struct B b[200]; int nb=0; int owner[200];
    for(int o=0;o<150&&!bad;o++){ int k=rnd()%6; if(k==0&&nt<8){ t[nt]=cx_new_tree(t[rnd()%nt]); nt++; }
      else if(k<=2&&nb<200){ size_t n=1+rnd()%200; int w=rnd()%nt; char *p=cx_alloc(t[w],n); b[nb]=(struct B){p,n,(unsigned char)(nb+1),1}; owner[nb]=w; memset(p,b[nb].fill,n); nb++; }
      else if(k==3&&nb>0){ int i=rnd()%nb; if(b[i].live){ size_t n2=1+rnd()%400; char *p=cx_realloc(t[owner[i]],b[i].p,n2); size_t keep=n2<b[i].n?n2:b[i].n; for(size_t j=0;j<keep;j++) if((unsigned char)p[j]!=b[i].fill){printf("tree realloc lost data\n");bad=1;break;} b[i].p=p;b[i].n=n2; memset(p,b[i].fill,n2);} }
      else if(k==4&&nb>0){ int i=rnd()%nb; if(b[i].live){ cx_free(t[owner[i]],b[i].p); b[i].live=0; } }
      bad|=verify(b,nb,"tree"); }
    cx_destroy(root); if(bal!=0){printf("tree destroy balance %ld\n",bal);bad=1;} for(int i=0;i<nreg;i++) if(reg[i].live){free(reg[i].p);} }
  printf("tree done bad=%d\n",bad);
  /* slab */
  for(int it=0;it<300&&!bad;it++){ nreg=0; bal=0; unsigned osz=1+rnd()%300; unsigned al= (unsigned[]){0,4,8,16}[rnd()%4]; struct Slab *s=slab_create("x",osz,al,NULL,&tcx); struct B b[400]; int nb=0;
    for(int o=0;o<300&&!bad;o++){ int k=rnd()%3; if(k<=1&&nb<400){ char *p=slab_alloc(s); for(unsigned j=0;j<osz;j++) if(p[j]!=0){printf("slab obj not zeroed\n");bad=1;break;} if(al>=8 && ((uintptr_t)p % al)){printf("slab misaligned %p al %u\n",p,al);bad=1;} if(((uintptr_t)p%8)){printf("slab not 8-aligned\n");bad=1;} b[nb]=(struct B){p,osz,(unsigned char)(nb+1),1}; memset(p,b[nb].fill,osz); nb++; }
      else if(nb>0){ int i=rnd()%nb; if(b[i].live){ slab_free(s,b[i].p); b[i].live=0; } }
      bad|=verify(b,nb,"slab"); int act=0; for(int i=0;i<nb;i++) act+=b[i].live; if(slab_active_count(s)!=act){printf("slab active %d vs %d\n",slab_active_count(s),act);bad=1;} }
    slab_destroy(s); if(bal!=0){printf("slab destroy balance %ld\n",bal);bad=1;} }
  printf("slab done bad=%d\n",bad);
  /* pool, align 8 only, libc parent (16-aligned) */
  for(int it=0;it<2000&&!bad;it++){ nreg=0; bal=0; CxMem *p=cx_new_pool(&tcx, rnd()%3000, 8); struct B b[100]; int nb=0;
    for(int o=0;o<80&&!bad;o++){ int k=rnd()%4; if(k<=1&&nb<100){ size_t n=1+rnd()%(rnd()%4==0?5000:300); char *q=cx_alloc(p,n); if((uintptr_t)q%8){printf("pool misaligned alloc it %d op %d\n",it,o);bad=1;} b[nb]=(struct B){q,n,(unsigned char)(nb+1),1}; memset(q,b[nb].fill,n); nb++; }
      else if(k==2&&nb>0){ int i=rnd()%nb; if(b[i].live){ size_t n2=1+rnd()%600; char *q=cx_realloc(p,b[i].p,n2); if((uintptr_t)q%8){printf("pool misaligned realloc\n");bad=1;} size_t keep=n2<b[i].n?n2:b[i].n; for(size_t j=0;j<keep;j++) if((unsigned char)q[j]!=b[i].fill){printf("pool realloc lost data it %d\n",it);bad=1;break;} if(q!=b[i].p){ /* old block dead */ } b[i].p=q;b[i].n=n2; memset(q,b[i].fill,n2);} }
      else if(nb>0){ int i=rnd()%nb; if(b[i].live){ cx_free(p,b[i].p); b[i].live=0; } }
      bad|=verify(b,nb,"pool"); }
    cx_destroy(p); if(bal!=0){printf("pool destroy balance %ld\n",bal);bad=1;} }
  printf("pool(align 8) done bad=%d\n",bad);
  return 0; }
