#include <usual/cxextra.h>
#include <usual/cxalloc.h>
#include <stdio.h>
#include <unistd.h>
#include <signal.h>
static void onalrm(int s){ printf("HANG: pool alloc of 2^31+8 did not return in 3s\n"); _exit(3); }
int main(void){
  signal(SIGALRM, onalrm); alarm(3);
  CxMem *p = cx_new_pool(NULL, 1024, 8);
  void *a = cx_alloc(p, ((size_t)1<<31) + 8);
  printf("returned %p\n", a);
  return 0;
}
