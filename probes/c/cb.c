#include <usual/cbtree.h>
#include <stdio.h>
#include <stdlib.h>
#include <string.h>
static uint64_t st=88172645463325252ULL; static uint64_t rnd(void){ st^=st<<13; st^=st>>7; st^=st<<17; return st; }
struct O { unsigned char k[8]; size_t len; int in; int freed; };
static size_t getkey(void *ctx, void *obj, const void **dst){ struct O*o=obj; *dst=o->k; return o->len; }
static bool freecb(void *ctx, void *obj){ ((struct O*)obj)->freed++; return true; }
static struct O *walked[4096]; static int nw;
static bool wcb(void *arg, void *obj){ walked[nw++]=obj; return true; }
static int padcmp(struct O*a, struct O*b){ for(size_t i=0;i<8;i++){ int x=i<a->len?a->k[i]:0, y=i<b->len?b->k[i]:0; if(x!=y) return x-y;} return 0; }
int main(void){ int bad=0; static const unsigned char alpha[]={1,0x7f,0x80,0xff,'a','b'};
  for(int it=0;it<2000;it++){ struct CBTree *t=cbtree_create(getkey,freecb,NULL,NULL); static struct O objs[300]; int no=0; int nops=rnd()%300;
    for(int o=0;o<nops;o++){ int op=rnd()%3; 
      if(op==0&&no<300){ struct O*x=&objs[no]; x->len=rnd()%5; for(size_t i=0;i<x->len;i++) x->k[i]=alpha[rnd()%6]; x->in=0;x->freed=0;
        int dup=0; for(int j=0;j<no;j++) if(objs[j].in&&objs[j].len==x->len&&!memcmp(objs[j].k,x->k,x->len)) dup=1;
        bool ok=cbtree_insert(t,x); if(ok==dup){bad++; if(bad<4)printf("insert ok=%d dup=%d\n",ok,dup);} if(ok){x->in=1;} no++; }
      else if(op==1&&no>0){ struct O*x=&objs[rnd()%no]; int present=0; for(int j=0;j<no;j++) if(objs[j].in&&objs[j].len==x->len&&!memcmp(objs[j].k,x->k,x->len)) present=1;
        struct O*found=cbtree_lookup(t,x->k,x->len); if((found!=NULL)!=present){bad++; if(bad<4)printf("lookup\n");} }
      else if(op==2&&no>0){ struct O*x=&objs[rnd()%no]; struct O*tgt=NULL; for(int j=0;j<no;j++) if(objs[j].in&&objs[j].len==x->len&&!memcmp(objs[j].k,x->k,x->len)) tgt=&objs[j];
        int before=tgt?tgt->freed:0; bool ok=cbtree_delete(t,x->k,x->len); if(ok!=(tgt!=NULL)){bad++;} if(tgt){ tgt->in=0; if(tgt->freed!=before+1) bad++; } }
      nw=0; cbtree_walk(t,wcb,NULL); int cnt=0; for(int j=0;j<no;j++) cnt+=objs[j].in; if(nw!=cnt){bad++; if(bad<4)printf("walk count %d %d\n",nw,cnt);} for(int j=1;j<nw;j++) if(padcmp(walked[j-1],walked[j])>=0){bad++; if(bad<4)printf("walk order\n");}
    }
    cbtree_destroy(t);
  }
  printf("cbtree bad=%d\n",bad); return 0; }
