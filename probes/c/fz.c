#include <usual/hashtab-impl.h>
#include <usual/aatree.h>
#include <usual/heap.h>
#include <usual/list.h>
#include <usual/cbtree.h>
#include <stdio.h>
#include <stdlib.h>
#include <string.h>
#include <math.h>
static uint64_t st=88172645463325252ULL; static uint64_t rnd(void){ st^=st<<13; st^=st>>7; st^=st<<17; return st; }

/* ---- hashtab: multimap key->value(non-null) ; values unique ints */
static bool cmpv(const htab_val_t cur, const void *arg){ return cur == arg; }
static int fz_hashtab(int iters){
  int bad=0;
  for (int it=0; it<iters; it++){
    unsigned size = 4u << (rnd()%5);
    struct HashTab *h = hashtab_create(size, cmpv, NULL);
    unsigned long keys[512]; void *vals[512]; int n=0; uintptr_t nextv=1;
    int nops = 1 + rnd()%200;
    for (int o=0;o<nops;o++){
      int op = rnd()%3;
      if (op==0 && n<500){ unsigned long k = (rnd()%3==0)? (rnd()%8)*size : rnd()%(2*size); void *v=(void*)(nextv++<<3);
        void **p = hashtab_lookup(h,k,true,NULL); *p=v; keys[n]=k; vals[n]=v; n++; }
      else if (op==1 && n>0){ int i=rnd()%n; hashtab_delete(h, keys[i], vals[i]); keys[i]=keys[n-1]; vals[i]=vals[n-1]; n--; }
      else if (op==2 && n>0 && rnd()%8==0){ struct HashTab *h2 = hashtab_copy(h, 4u<<(rnd()%6)); hashtab_destroy(h); h=h2; }
      /* check all */
      for (int i=0;i<n;i++){ void **p=hashtab_lookup(h,keys[i],false,vals[i]); if(!p||*p!=vals[i]){ bad++; if(bad<3) printf("hashtab: lost key %lu size %u it %d op %d\n",keys[i],size,it,o);} }
      unsigned ni, nt; hashtab_stats(h,&ni,&nt); if ((int)ni!=n){ bad++; if(bad<3) printf("hashtab stats %u != %d\n",ni,n);} 
      /* absent check */
      void **q = hashtab_lookup(h, 12345678, false, (void*)8); if (q) bad++;
    }
    hashtab_destroy(h);
  }
  return bad;
}
/* ---- aatree */
struct N { struct AANode n; int key; int released; };
static int aacmp(uintptr_t v, struct AANode *n){ struct N *x=(struct N*)n; int k=(int)v; return (k>x->key)-(k<x->key); }
static int relcnt; static void rel(struct AANode *n, void *arg){ ((struct N*)n)->released++; relcnt++; }
static int chk(struct AANode *n, int lo, int hi, int *cnt, int *h){ /* returns level ok */
  if (aatree_is_nil_node(n)) { *h=0; return n->level==0; }
  struct N *x=(struct N*)n; int ok=1; if(!(x->key>lo && x->key<hi)) ok=0;
  int hl,hr; ok &= chk(n->left,lo,x->key,cnt,&hl); ok &= chk(n->right,x->key,hi,cnt,&hr); (*cnt)++; *h=1+(hl>hr?hl:hr);
  int L=n->level; if (n->left->level != L-1) ok=0; if (!(n->right->level==L || n->right->level==L-1)) ok=0; if (n->right->right->level >= L) ok=0;
  if (L>1 && (aatree_is_nil_node(n->left)||aatree_is_nil_node(n->right))) ok=0;
  if (aatree_is_nil_node(n->left)&&aatree_is_nil_node(n->right)&&L!=1) ok=0;
  return ok; }
static int fz_aa(int iters){ int bad=0;
  for(int it=0;it<iters;it++){ struct AATree t; aatree_init(&t,aacmp,rel); static struct N nodes[300]; char in[300]={0}; memset(nodes,0,sizeof nodes); int n=0; int K=1+rnd()%299;
    int nops=rnd()%600;
    for(int o=0;o<nops;o++){ int k=rnd()%K; if(rnd()%2){ if(!in[k]){nodes[k].key=k; nodes[k].released=0;} struct N tmp; if(in[k]){ tmp.key=k; aatree_insert(&t,k,&tmp.n);} else { aatree_insert(&t,k,&nodes[k].n); in[k]=1; n++; } }
      else { int before=relcnt; aatree_remove(&t,k); if(in[k]){ in[k]=0;n--; if(relcnt!=before+1||nodes[k].released!=1) bad++; } else if(relcnt!=before) bad++; }
      int cnt=0,h; if(!chk(t.root,-1,1000,&cnt,&h)){ bad++; if(bad<3) printf("aa invariant broken it %d op %d\n",it,o);} if(cnt!=n||t.count!=n){bad++; if(bad<3)printf("aa count %d %d %d\n",cnt,t.count,n);} 
      if (h > 2*log2(n+1)+1e-9) { bad++; if(bad<3) printf("aa height %d n %d\n",h,n);} 
      for(int j=0;j<K;j+=7){ struct AANode *r=aatree_search(&t,j); if((r!=NULL)!=(in[j]!=0)) bad++; }
    }
    aatree_destroy(&t);
  } return bad; }
/* ---- heap */
struct HE { int pri; int id; unsigned pos; };
static bool better(const void *a,const void *b){ return ((struct HE*)a)->pri < ((struct HE*)b)->pri; }
static void savepos(void *p, unsigned i){ ((struct HE*)p)->pos=i; }
static int fz_heap(int iters){ int bad=0;
  for(int it=0;it<iters;it++){ struct Heap *h=heap_create(better,savepos,NULL); static struct HE es[400]; int live[400]; int n=0, nid=0; int nops=rnd()%400;
    for(int o=0;o<nops;o++){ int op=rnd()%3; if(op==0&&nid<400){ es[nid].pri=rnd()%10; es[nid].id=nid; if(!heap_push(h,&es[nid])) bad++; live[n++]=nid; nid++; }
      else if(op==1&&n>0){ struct HE *e=heap_pop(h); int best=1000; for(int i=0;i<n;i++) if(es[live[i]].pri<best) best=es[live[i]].pri; if(!e||e->pri!=best){bad++; if(bad<3)printf("heap pop not best\n");} for(int i=0;i<n;i++) if(live[i]==e->id){live[i]=live[--n];break;} }
      else if(op==2&&n>0){ unsigned i=rnd()%n; struct HE *at=heap_get_obj(h,i); struct HE *e=heap_remove(h,i); if(e!=at){bad++;} for(int j=0;j<n;j++) if(live[j]==e->id){live[j]=live[--n];break;} }
      if((int)heap_size(h)!=n) bad++; for(unsigned i=0;i<heap_size(h);i++){ struct HE *e=heap_get_obj(h,i); if(e->pos!=i){bad++; if(bad<3)printf("heap savepos stale\n");} if(i>0){ struct HE *p=heap_get_obj(h,(i-1)/2); if(e->pri<p->pri){bad++; if(bad<3)printf("heap order\n");}} }
    } heap_destroy(h);} return bad; }
/* ---- list sort */
struct LE { struct List l; int key; int seq; };
static int lcmp(const struct List *a,const struct List *b){ return ((struct LE*)a)->key - ((struct LE*)b)->key; }
static int fz_sort(int iters){ int bad=0; for(int it=0;it<iters;it++){ int n=rnd()%300; struct LE *es=calloc(n+1,sizeof *es); struct List head; list_init(&head); int K=1+rnd()%8; for(int i=0;i<n;i++){es[i].key=rnd()%K; es[i].seq=i; list_init(&es[i].l); list_append(&head,&es[i].l);} list_sort(&head,lcmp); int c=0; struct List *el,*prev=&head; struct LE *pe=NULL; list_for_each(el,&head){ struct LE *e=(struct LE*)el; if(el->prev!=prev) bad++; if(pe&&(pe->key>e->key||(pe->key==e->key&&pe->seq>e->seq))){bad++; if(bad<3)printf("sort order/stability\n");} pe=e; prev=el; c++; } if(head.prev!=prev) bad++; if(c!=n) bad++; free(es);} return bad; }
int main(void){ printf("hashtab bad=%d\n", fz_hashtab(3000)); printf("aa bad=%d\n", fz_aa(300)); printf("heap bad=%d\n", fz_heap(2000)); printf("sort bad=%d\n", fz_sort(2000)); return 0; }
