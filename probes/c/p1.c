#include <usual/cxextra.h>
#include <usual/cxalloc.h>
#include <stdio.h>
#include <string.h>
#include <stdint.h>
int main(int argc, char **argv){
  int which = argc > 1 ? atoi(argv[1]) : 0;
  if (which == 0) {
    CxMem *p = cx_new_pool(NULL, 1024, 8);
    char *a = cx_alloc(p, 8);
    a = cx_realloc(p, a, 5);
    char *b = cx_alloc(p, 8);
    printf("a=%p b=%p b%%8=%d\n", a, b, (int)((uintptr_t)b % 8));
    cx_destroy(p);
  } else if (which == 1) {
    CxMem *p = cx_new_pool(NULL, 1024, 64);
    for (int i = 0; i < 6; i++) {
      size_t sz = 1024 << i;
      char *a = cx_alloc(p, sz);
      printf("alloc %zu -> %p mod64=%d\n", sz, a, (int)((uintptr_t)a % 64));
      memset(a, 0xAA, sz);
    }
    cx_destroy(p);
  } else if (which == 2) {
    CxMem *p = cx_new_pool(NULL, 1024, 4096);
    char *a = cx_alloc(p, 100);
    printf("a=%p mod4096=%d\n", a, (int)((uintptr_t)a % 4096));
    memset(a, 1, 100);
    cx_destroy(p);
  }
  return 0;
}
