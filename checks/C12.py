"""C12 — MBuf never reads or writes outside its data, whatever lengths are requested.

Proof: lean/UsualProofs/Props/C12.lean (invariant, access safety, false-leaves-unchanged,
refinement to a byte vector, lifted to all op histories; counterexamples for the comparisons
of the unrepaired tree).  Tie: correspondence run of the real usual/mbuf.h + usual/mbuf.c
(ASan+UBSan, exact-size blocks, realloc routed through an oracle) against the model driver
on op histories whose lengths are placed relative to the model's cursors.
"""
import os
import subprocess
import sys
import vf

sys.path.insert(0, os.path.join(vf.VERIF, "extract"))
import c2lean  # noqa: E402

PID = "C12"
PROP_MODULES = ["UsualProofs.Props.C12"]

U32 = 0xFFFFFFFF


def build(ck):
    ck.forbid_scan()
    # T-tie: mbuf.h / mbuf.c re-translated into lean/Usual/Gen/C12T.lean, bridge lemmas re-checked
    ck.build_proofs(PROP_MODULES + c2lean.ttie(ck, vf, PID), driver="drv_c12")
    # memchr/memset/memcmp(NULL, .., 0) on a never-allocated dynamic buffer is what the code
    # does by design; the property does not speak about it
    h = ck.cc(os.path.join(ck.bdir, "h"), [os.path.join(vf.HARNESS, PID, "h.c")],
              flags=["-fno-sanitize=nonnull-attribute"])
    return [h], [ck.driver_path("drv_c12")]


# ------------------------------------------------------------------ generator
SMALL = [0, 1, 2, 3, 4, 5, 7, 8, 9, 12, 15, 16, 17, 31, 33]


def rnd_len_token(rng, hist, base_r="R", allow_grow=False):
    """a length placed relative to the model's cursors (resolved by `drv_c12 resolve`)"""
    k = rng.below(100)
    if k < 14:
        t = base_r + "+0"
    elif k < 24:
        t = base_r + "+1"
    elif k < 32:
        t = base_r + "-1"
    elif k < 36:
        t = base_r + "+" + str(2 + rng.below(6))
    elif k < 42:
        t = base_r + "-" + str(2 + rng.below(6))
    elif k < 47:
        t = "0"
    elif k < 51:
        t = "1"
    elif k < 59:
        t = "U-" + str(rng.below(9))
    elif k < 63:
        t = "H+" + str(rng.below(3))
    elif k < 67:
        t = "H-" + str(1 + rng.below(3))
    elif k < 71:
        # wraps base + len back into range: UINT_MAX+1 - small
        t = "U-" + str(rng.below(40))
    elif k < 74:
        t = str(rng.below(1 << 32))
    elif k < 76 and allow_grow:
        t = str(rng.choice([127, 128, 129, 255, 256, 257, 1000, 4096, 65535, 65536, 65537, 70000]))
    else:
        t = str(rng.choice(SMALL))
    cls = t if not t[0].isdigit() else ("small" if int(t) < 70001 else "random32")
    if cls[0] in "RWPA":
        cls = cls[0] + cls[1] + ("0" if cls[2:] == "0" else "1" if cls[2:] == "1" else "k")
    elif cls[0] in "UH":
        cls = cls[0] + cls[1] + "k"
    hist[cls] = hist.get(cls, 0) + 1
    return t


def rnd_bytes(rng, maxlen=20, zero_bias=True):
    n = rng.choice([0, 1, 2, 3, 4, 5, 8, 9, 16, 17, rng.below(maxlen + 1)])
    b = bytearray(rng.bytes(n))
    if zero_bias:
        for i in range(len(b)):
            if rng.chance(1, 6):
                b[i] = 0
    return bytes(b)


def gen_case(rng, hist):
    ops = []
    nslots = 4
    # set-up: a mix of readers, fixed writers and dynamic buffers
    for i in range(nslots):
        k = rng.below(10)
        if k < 3:
            ops.append("initr %d %s" % (i, vf.hexs(rnd_bytes(rng, 40))))
        elif k < 6:
            ops.append("initw %d %d %d" % (i, rng.choice(SMALL + [40, 64, 127, 128, 129, 300]), rng.below(256)))
        elif k < 9:
            ops.append("initd %d" % i)
        # else: leave the slot as it is after '#case' (dynamic, never allocated)
    n = 6 + rng.below(30)
    for _ in range(n):
        i = rng.below(nslots)
        j = rng.below(nslots)
        ora = 0 if rng.chance(1, 8) else 1
        k = rng.below(100)
        if k < 12:
            ops.append("getn %d %s" % (i, rnd_len_token(rng, hist)))
        elif k < 15:
            ops.append("getcs %d %s" % (i, rnd_len_token(rng, hist)))
        elif k < 21:
            ops.append(rng.choice(["getb", "getc", "get16", "get32", "get64", "get64"]) + " %d" % i)
        elif k < 24:
            ops.append("getstr %d" % i)
        elif k < 32:
            ops.append("write %d %s %d" % (i, vf.hexs(rnd_bytes(rng, 24)), ora))
        elif k < 42:
            ops.append("writen %d %s %d %d" % (i, rnd_len_token(rng, hist, "W", True), rng.below(256), ora))
        elif k < 52:
            ops.append("fill %d %d %s %d" % (i, rng.below(256), rnd_len_token(rng, hist, "W", True), ora))
        elif k < 55:
            ops.append("wbyte %d %d %d" % (i, rng.below(256), ora))
        elif k < 61:
            ops.append("room %d %s %d" % (i, rnd_len_token(rng, hist, "W", True), ora))
        elif k < 71:
            ofs = rng.choice(["P+0", "P-1", "P+1", "P-" + str(2 + rng.below(8)), "0", "1",
                              "U-" + str(rng.below(9)), "H+0", str(rng.choice(SMALL))])
            ln = rng.choice(["P+0", "P-1", "P+1", "P-" + str(2 + rng.below(8)), "0", "1", "2", "3",
                             "U-" + str(rng.below(12)), "H+0", "H-1", str(rng.choice(SMALL)),
                             str(rng.below(1 << 32))])
            hist["cut"] = hist.get("cut", 0) + 1
            ops.append("cut %d %s %s" % (i, ofs, ln))
        elif k < 77:
            ops.append("wmbuf %d %d %s %d" % (i, j, rnd_len_token(rng, hist), ora))
        elif k < 80:
            ops.append("wraw %d %d %d" % (i, j, ora))
        elif k < 86:
            ops.append("slice %d %s %d" % (i, rnd_len_token(rng, hist), j))
        elif k < 89:
            ops.append("copy %d %d" % (i, j))
        elif k < 91:
            ops.append(rng.choice(["rewr", "rewr", "reww"]) + " %d" % i)
        elif k < 93:
            ops.append("free %d" % i)
        elif k < 96:
            ops.append(rng.choice(["availr", "availw", "written", "consumed"]) + " %d" % i)
        elif k < 98:
            ops.append("eq %d %d" % (i, j))
        elif k < 99:
            ops.append("eqstr %d %s" % (i, vf.hexs(bytes(x or 1 for x in rnd_bytes(rng, 8)))))
        else:
            kk = rng.below(3)
            if kk == 0:
                ops.append("initr %d %s" % (i, vf.hexs(rnd_bytes(rng, 40))))
            elif kk == 1:
                ops.append("initw %d %d %d" % (i, rng.choice(SMALL + [64, 200]), rng.below(256)))
            else:
                ops.append("initd %d" % i)
    return ops


DATA_OPS = {"getb", "getc", "get16", "get32", "get64", "getn", "getcs", "getstr", "write", "writen", "fill",
            "wbyte", "room", "wmbuf", "wraw", "cut", "slice"}


def resolve(ck, dcmd, sym_cases, ophist):
    """replace the symbolic tokens by numbers using the model's cursors; also collects the
    per-op success/failure histogram from the model's return values"""
    lines = []
    for c in sym_cases:
        lines.append("#case")
        lines += c
    rc, out, err = ck.run(dcmd + ["resolve"], input_text="\n".join(lines) + "\n")
    if rc != 0:
        raise RuntimeError("driver resolve failed: " + err[-300:])
    cases, flags = [], []
    for l in out.split("\n"):
        if l == "#case":
            cases.append([])
            flags.append([False, False])
        elif l == "bad-op":
            raise RuntimeError("generator produced a line the model rejects")
        elif l:
            ok, op = l[0], l[2:]
            cases[-1].append(op)
            name = op.split(" ")[0]
            key = name + (":ok" if ok == "1" else ":false")
            ophist[key] = ophist.get(key, 0) + 1
            if name in DATA_OPS:
                flags[-1][0 if ok == "1" else 1] = True
    # non-trivial = the history moves data at least once AND has a bounds test refuse at least once
    nontriv = set(tuple(c) for c, f in zip(cases, flags) if f[0] and f[1])
    return cases, nontriv


def run(ck):
    hcmd, dcmd = build(ck)
    ck.level = "proof"
    ck.cov["trusted_base"] = [
        "Lean 4.33 kernel", "axioms: propext, Quot.sound, Classical.choice",
        "model lean/Usual/C12/MBuf.lean mirrors usual/mbuf.h + usual/mbuf.c (hand transcription, tied by the "
        "correspondence run below and, for 16 functions, by the translation tie: extract/c2lean.py -> "
        "lean/Usual/Gen/C12T.lean, bridge lemmas UsualProofs/Bridge/C12T.lean, 3 bv_decide axioms there)",
        "correspondence harness harness/C12/h.c + generator in checks/C12.py, AddressSanitizer/UBSan "
        "(-fno-sanitize=nonnull-attribute) with exact-size blocks for the real pointers",
    ]
    ck.cov["rule"] = ("case = fresh 4 slots, random init (fixed reader / fixed writer / dynamic) then 6..35 ops; "
                      "length/offset arguments placed relative to the model's cursors (avail-1, avail, avail+1, "
                      "write_pos±k), 0, 1, 2^31±k, UINT_MAX-k (k<=40), random 32-bit; counted as distinct_nontrivial: "
                      "distinct concrete op sequences of the random stream in which (by the model's return values) at "
                      "least one data-moving call succeeds AND at least one bounds test refuses a call; corpus cases "
                      "are run but not counted")
    ck.assumptions += [
        "libc malloc/realloc/memcpy/memmove/memset/memchr/memcmp behave as specified; realloc success is an "
        "oracle (theorems hold for every oracle; the run uses: flag && size <= 64 KiB)",
        "pointers handed to mbuf_init_fixed_* / mbuf_write really have `len` bytes (caller contract)",
        "source and destination of mbuf_write_raw_mbuf / mbuf_write_mbuf are distinct objects",
        "slices/copies are re-homed to private exact-size blocks by the harness (the model gives a slice its "
        "own copy of the bytes); aliasing between a slice and a later-modified source is not modelled",
        "real pointers are watched by ASan, not by the theorems (the model's accesses are offsets)",
    ]
    ck.cov["partial"] = []
    rng = vf.SplitMix(ck.seed * 1000003 + 12)

    ck.compare_cases(hcmd, dcmd, vf.corpus_cases(PID), label="corpus", nontrivial=lambda c: False)
    ck.cov["corpus_cases"] = len(vf.corpus_cases(PID))

    hist, ophist = {}, {}
    ncases = ck.scale(5000, 150000)
    if not ck.proof_ok:
        ncases *= 4
    done = 0
    first = True
    while done < ncases:
        nb = min(2500, ncases - done)
        sym = [gen_case(rng, hist) for _ in range(nb)]
        cases, nontriv = resolve(ck, dcmd, sym, ophist)
        nf = ck.compare_cases(hcmd, dcmd, cases, label="random", nontrivial=lambda c: tuple(c) in nontriv)
        if first and cases:
            ck.sample(" ; ".join(cases[0][:12]))
            ck.sample(" ; ".join(cases[1][:12]))
            first = False
        done += nb
        if nf and len(ck.violations) >= 4:
            break
    ck.cov["length_class_hist"] = dict(sorted(hist.items()))
    ck.cov["op_result_hist"] = dict(sorted(ophist.items()))
    ck.cov["traces_validated_against_impl"] = done + ck.cov["corpus_cases"]
    if ck.tier == "thorough" and ck.proof_ok:
        ck.leanchecker(PROP_MODULES)


def replay(ck, path):
    return vf.generic_replay(ck, path, *build(ck))
