"""C10 add-on: the model-free script families (modules without a Lean allocation-fault model).

Harness side: harness/C10/h_extra.inc (pool, js, ta - part of h.c, they take the CxMem) and
harness/C10/h2.c (rx, mp, fn, mbs, tls, cxs - modules calling libc directly + cx_* formatting).
checks/C10.py drives them through `check_model_free` (property monitor, no model):
  FAMILIES = {name: (generator(rng) -> op lines of ONE script, "h" | "h2", opts)}
  opts: prefix       first word of the family's op lines + space (routes corpus / replay cases)
        non_atomic   "fam op" strings exempt from the all-or-nothing rule
        strict_live  an op reporting failure leaves the number of live blocks unchanged
        live_exact   `live=` is compared with the fault-free reference run
Every op line prints "<P>:<ret> <dump> live=<n>": <ret> is the result of the op, <dump> is a
function of the abstract state only (an op that reports failure must reproduce the previous dump)."""
import json
import os
import re
import vf

# what h.c additionally needs for h_extra.inc (cxextra.c is included as source by h.c itself)
H1_EXTRA_SRCS = ["repo:usual/json.c", "repo:usual/talloc.c", "repo:usual/utf8.c"]
H1_EXTRA_FLAGS = ["-lm"]

H2_SRCS = ["repo:usual/fnmatch.c", "repo:usual/wchar.c", "repo:usual/string.c", "repo:usual/cxalloc.c",
           "repo:usual/mbuf.c",
           "repo:usual/tls/tls.c", "repo:usual/tls/tls_peer.c", "repo:usual/tls/tls_client.c",
           "repo:usual/tls/tls_server.c", "repo:usual/tls/tls_config.c", "repo:usual/tls/tls_conninfo.c",
           "repo:usual/tls/tls_util.c", "repo:usual/tls/tls_ocsp.c", "repo:usual/tls/tls_compat.c",
           "repo:usual/tls/tls_cert.c", "repo:usual/tls/tls_verify.c"]
# config.h of the tree under test with these commented out, so that usual/fnmatch.c is what gets built
H2_FORCED = ["FNMATCH", "FNMATCH_H"]


def _tls_flags():
    """TLS_CPPFLAGS / TLS_LDFLAGS / TLS_LIBS of the configured tree (config.mak)"""
    cpp, ld, libs = [], [], ["-lssl", "-lcrypto"]
    try:
        txt = open(vf.repo_file("config.mak")).read()
        for key, dst in (("TLS_CPPFLAGS", cpp), ("TLS_LDFLAGS", ld), ("TLS_LIBS", None)):
            m = re.search(r"^%s[ \t]*=[ \t]*(.*)$" % key, txt, re.M)
            if m:
                if dst is None:
                    if m.group(1).split():
                        libs = m.group(1).split()
                else:
                    dst += m.group(1).split()
    except OSError:
        pass
    return cpp, ld, libs


def derive_config(ck):
    """<bdir>/cfg/usual/config.h = the tree's config.h without HAVE_FNMATCH / HAVE_FNMATCH_H"""
    cfgdir = os.path.join(ck.bdir, "cfg")
    src = open(vf.repo_file("usual/config.h")).read()
    out, hit = [], []
    for line in src.split("\n"):
        m = re.match(r"^#define\s+HAVE_(\w+)\s", line + " ")
        if m and m.group(1) in H2_FORCED:
            hit.append(m.group(1))
            out.append("/* forced-compat: " + line + " */")
        else:
            out.append(line)
    vf.write_if_changed(os.path.join(cfgdir, "usual", "config.h"), "\n".join(out))
    return cfgdir, sorted(hit)


def build_more(ck, WRAP):
    cfgdir, hit = derive_config(ck)
    ck.cov["h2_forced_compat"] = hit
    cpp, ld, libs = _tls_flags()
    # -fno-builtin: malloc/calloc/free must stay plain calls (they are --wrap'ped)
    flags = ["-I" + cfgdir, "-I" + vf.REPO, "-I" + os.path.join(vf.HARNESS, "C10"),
             "-DUSE_INTERNAL_REGEX", "-fno-builtin"] + list(WRAP) + cpp + ld
    h2 = ck.cc(os.path.join(ck.bdir, "h2"), [os.path.join(vf.HARNESS, "C10", "h2.c")] + H2_SRCS,
               flags=flags, include_repo=False, libs=libs)
    return {"h2": [h2]}


H = vf.hexs


# ------------------------------------------------------------------------------ cx pool
def g_pool(rng, mode):
    ops = ["pool new %d %d" % (rng.choice([0, 100, 1024, 2000, 5000]), rng.choice([0, 8, 16]))]
    slot = 0
    live = []
    for _ in range(6 + rng.below(26)):
        r = rng.below(100)
        if mode == "realloc" and r < 40 and live:
            s = live[-1] if rng.chance(1, 2) else rng.choice(live)
            ops.append("pool realloc %d %d" % (s, rng.choice([1, 7, 64, 100, 333, 800, 1500, 3000, 100 + rng.below(2900)])))
        elif r < 75 or not live:
            slot += 1
            live.append(slot)
            n = 100 + rng.below(2901) if rng.chance(3, 4) else 1 + rng.below(64)
            ops.append("pool alloc %d %d" % (slot, n))
        else:
            s = live[-1] if rng.chance(1, 2) else rng.choice(live)
            live.remove(s)
            ops.append("pool freeb %d" % s)
    return ops + ["pool free"]


# --------------------------------------------------------------------------------- JSON
JS_STR = ["", "a", "key", "été", "€5", "line\nbreak", "q\"uote", "back\\slash", "tab\t",
          "\U0001F600", " sep", "x" * 40, "long-" * 30, "ü" * 60]
JS_KEYS = ["a", "b", "ab", "k1", "k2", "key", "é", "x" * 20, "zz", "m", "n", "o", "p", "q"]


def js_value(rng, depth):
    r = rng.below(100)
    if depth > 0 and r < 22:
        n = rng.choice([0, 1, 3, 5, 11, 12, 20, 30])
        return [js_value(rng, depth - 1) for _ in range(n)]
    if depth > 0 and r < 44:
        ks = list(JS_KEYS)
        out = {}
        for _ in range(rng.choice([0, 1, 2, 3, 5, 9])):
            out[ks.pop(rng.below(len(ks)))] = js_value(rng, depth - 1)
        return out
    if r < 60:
        return rng.choice(JS_STR)
    if r < 75:
        return rng.below(2001) - 1000
    if r < 83:
        return rng.choice([1.5, -2.25, 0.5, 1000.0, 1e-3, 12345.678])
    if r < 91:
        return rng.chance(1, 2)
    return None


def js_text(rng, v):
    t = json.dumps(v, ensure_ascii=rng.chance(1, 2),
                   separators=rng.choice([(",", ":"), (", ", ": "), (" ,\n", " : ")]))
    return t.encode("utf-8")


def js_probe(rng, ops, slot, v):
    """read-only ops on a slot holding value v"""
    if isinstance(v, list):
        for _ in range(1 + rng.below(3)):
            ops.append("js lget %d %d" % (slot, rng.below(len(v) + 2)))
    elif isinstance(v, dict):
        ks = list(v.keys()) + ["nokey"]
        for _ in range(1 + rng.below(2)):
            ops.append("js dget %d %s" % (slot, H(rng.choice(ks).encode("utf-8"))))
    if rng.chance(2, 3):
        ops.append("js render %d" % slot)


def js_scalar(rng):
    k = rng.choice(["int", "int", "str", "str", "null", "bool", "float"])
    if k == "int":
        return "int %d" % (rng.below(2001) - 1000)
    if k == "str":
        return "str " + H(rng.choice(JS_STR).encode("utf-8"))
    if k == "null":
        return "null 0"
    if k == "bool":
        return "bool %d" % rng.below(2)
    return "float %d" % (rng.below(41) - 20)


def g_js_parse(rng):
    ops = ["js new %d" % rng.choice([0, 1024, 1500, 3000])]
    for slot in range(1, 2 + rng.below(4)):
        r = rng.below(10)
        if r < 7:
            v = js_value(rng, 3)
        elif r < 9:
            v = [js_value(rng, 1) for _ in range(11 + rng.below(30))]
        else:           # long list: the index array of json_list_get_value needs a pool segment of its own
            v = [rng.below(100) for _ in range(100 + rng.below(300))]
        t = js_text(rng, v)
        r = rng.below(20)
        if r == 0 and len(t) > 2:
            t = t[:1 + rng.below(len(t) - 1)]          # truncated: syntax error, not an allocation failure
            v = None
        elif r == 1:
            t = t + b" x"
            v = None
        ops.append("js parse %d %s" % (slot, H(t)))
        js_probe(rng, ops, slot, v)
    return ops + ["js free"]


def g_js_storm(rng):
    """one dict, many small distinct keys: every new pool segment is requested by one of the three
    allocations of a json_dict_put_* (value, key string, tree node)"""
    ops = ["js new %d" % rng.choice([0, 1024, 1500, 3000]), "js dict 1"]
    n = 30 + rng.below(60)
    keys = ["k%d" % i for i in range(n)]
    for i in range(n):
        k = keys.pop(rng.below(len(keys)))
        ops.append("js dput 1 %s %s" % (H(k.encode()), rng.choice(["int %d" % rng.below(100), "null 0", "bool 1"])))
        if rng.chance(1, 15):
            ops.append("js dget 1 %s" % H(k.encode()))
    return ops + ["js render 1", "js free"]


def g_js_build(rng, parse_too=False):
    if rng.chance(1, 3):
        return g_js_storm(rng)
    ops = ["js new %d" % rng.choice([0, 1024, 1500, 3000])]
    kinds = {}          # slot -> "list" | "dict"
    keys = {}           # slot -> keys used (fault-free view)
    nelem = {}
    free_roots = []
    slot = 0
    for _ in range(10 + rng.below(50)):
        r = rng.below(100)
        if r < 12 or not kinds:
            slot += 1
            if parse_too and rng.chance(1, 2):
                v = js_value(rng, 2)
                if not isinstance(v, (list, dict)):
                    v = [v]
                ops.append("js parse %d %s" % (slot, H(js_text(rng, v))))
                kinds[slot] = "list" if isinstance(v, list) else "dict"
                keys[slot] = set(v.keys()) if isinstance(v, dict) else set()
                nelem[slot] = len(v)
            else:
                kinds[slot] = rng.choice(["list", "dict", "dict"])
                keys[slot] = set()
                nelem[slot] = 0
                ops.append("js %s %d" % (kinds[slot], slot))
                free_roots.append(slot)
            continue
        s = rng.choice(sorted(kinds))
        if r < 70:
            if kinds[s] == "list":
                ops.append("js lapp %d %s" % (s, js_scalar(rng)))
                nelem[s] += 1
            else:
                k = rng.choice(JS_KEYS) if rng.chance(9, 10) else "k%d" % rng.below(1000)
                keys[s].add(k)           # a repeated key: documented refusal, not an allocation failure
                ops.append("js dput %d %s %s" % (s, H(k.encode("utf-8")), js_scalar(rng)))
        elif r < 80 and len(free_roots) > 1:
            v = rng.choice(free_roots)
            if v != s:
                free_roots.remove(v)
                if kinds[s] == "list":
                    ops.append("js lappv %d %d" % (s, v))
                    nelem[s] += 1
                else:
                    ops.append("js dputv %d %s %d" % (s, H(("sub%d" % v).encode()), v))
        elif r < 90:
            if kinds[s] == "list":
                ops.append("js lget %d %d" % (s, rng.below(nelem[s] + 2)))
            else:
                ks = sorted(keys[s]) + ["nokey"]
                ops.append("js dget %d %s" % (s, H(rng.choice(ks).encode("utf-8"))))
        else:
            ops.append("js render %d" % s)
    if kinds:
        ops.append("js render %d" % rng.choice(sorted(kinds)))
    return ops + ["js free"]


_ATTACH_STATE = {"n": 0, "r0": None}


def g_js_attach(rng):
    """attaching a ready-made value with json_dict_put / json_list_append, and RE-USING the value
    after a failed attach.  json_dict_put makes two pool allocations (key string, tree node; a
    third, the value, in the json_dict_put_* wrappers); which of them needs a new pool segment —
    the only moment the parent allocator is asked and a fault can land — depends on how full the
    first 1024-byte segment is.  Every round starts a fresh context, fills it with a filler string
    of length L and then attaches; L is swept so that over consecutive scripts every multiple of
    4 in 0..1100 occurs (script i covers L = base_i + 92 j), i.e. the segment boundary falls on
    each allocation of the operation in turn.  After the attach the same value is attached again
    to the same container and to another one (in alternating order): after a FAILED attach the
    retry must succeed exactly as in the fault-free run without the failed call."""
    st = _ATTACH_STATE
    if st["r0"] is None:
        st["r0"] = rng.below(23)
    base = ((st["n"] + st["r0"]) % 23) * 4
    st["n"] += 1
    ops = []
    rnd = 0
    for L in range(base, 1100, 92):
        rnd += 1
        k2 = H(b"second")
        ops += ["js new 0", "js dict 1", "js dput 1 %s int 1" % H(b"first"),
                "js parse 9 %s" % H(json.dumps("f" * L).encode()),
                "js list 2", "js lapp 2 int 5", "js dict 3", "js list 4"]
        attach = "js dputv 1 %s 2" % k2
        other = rng.choice(["js dputv 3 %s 2" % H(b"x"), "js lappv 4 2"])
        ops.append(attach)
        ops += [attach, other] if rnd % 2 else [other, attach]
        # the wrapper: value, key string, tree node
        ops += ["js dput 1 %s str %s" % (H(b"third"), H(b"v" * rng.choice([1, 8, 30]))),
                "js dput 1 %s int 3" % H(b"third"),
                "js render 1", "js render 3", "js render 4", "js free"]
    return ops


_RENDER_STATE = {"n": 0}
RENDER_SWEEP = list(range(120, 136)) + list(range(250, 261)) + list(range(505, 516))


def g_js_render(rng):
    """json_render writes into a dynamic MBuf byte by byte; the buffer grows (libc realloc, fault
    point) at output offsets 128, 256, 512.  Strings with characters that are rendered as a
    six-byte \\uXXXX escape (control characters other than \\b \\f \\n \\r \\t, U+2028/9) or a two-byte
    escape are placed behind a filler whose length is swept over 120..135, 250..260, 505..515
    (consecutive scripts rotate through the sweep), so that EACH byte of the escape lands on each
    growth boundary in turn.  A render that reports success under a fault must produce the same
    bytes as the fault-free render (compared by the reference run)."""
    st = _RENDER_STATE
    ops = ["js new %d" % rng.choice([0, 3000])]
    slot = 0
    for j in range(7):
        L = RENDER_SWEEP[(st["n"] * 7 + j) % len(RENDER_SWEEP)]
        ctrl = rng.choice(["\u0001", "\u001f", "\u000b", "\u0010", "\u2028", "\u2029", "\n", "\"", "\\"])
        text = "a" * L + ctrl + "tail" + rng.choice(["", "\u0002x", "\t"])
        kind = rng.below(3)
        slot += 1
        if kind == 0:
            doc = json.dumps(text)
        elif kind == 1:
            doc = json.dumps([text, 1])
            L -= 1
        else:
            doc = json.dumps({text: None}, separators=(",", ":"))
            L -= 1
        ops.append("js parse %d %s" % (slot, H(doc.encode("utf-8"))))
        ops.append("js render %d" % slot)
    st["n"] += 1
    return ops + ["js free"]


def g_js_index(rng):
    """indexed access to lists: json_list_get_value builds an index array lazily (one allocation
    from the context pool, only for lists of more than 10 elements, again after every append).
    Lists of 11..40 elements (and a few long ones), filler strings so that the pool segment is at a
    different fill level each time, then first / repeated / post-append accesses through the plain
    and the typed getter.  The fault must be able to land in the getter's own allocation."""
    ops = ["js new %d" % rng.choice([0, 0, 1024, 1200])]
    lists = {}
    slot = 0
    for _ in range(3 + rng.below(6)):
        slot += 1
        n = rng.choice([9, 10, 11, 11, 12, 15, 20, 25, 30, 40, 40, 11 + rng.below(30), 100 + rng.below(200)])
        v = [rng.below(1000) - 500 if rng.chance(4, 5) else rng.choice(["s", None, True, 1.5]) for _ in range(n)]
        if rng.chance(1, 2) or n > 40:
            ops.append("js parse %d %s" % (slot, H(js_text(rng, v))))
        else:
            ops.append("js list %d" % slot)
            for x in v:
                ops.append("js lapp %d %s" % (slot, "int %d" % x if isinstance(x, int) and not isinstance(x, bool)
                                              else "null 0"))
        lists[slot] = n
        if rng.chance(2, 3):            # filler: moves the fill level of the current pool segment
            slot += 1
            ops.append("js parse %d %s" % (slot, H(json.dumps("f" * rng.below(900)).encode())))
    order = sorted(lists)
    for rnd in range(2):
        for s in order:
            n = lists[s]
            for idx in (0, n // 2, n - 1, n):
                ops.append("js %s %d %d" % (rng.choice(["lget", "lgeti"]), s, idx))
            if rng.chance(1, 3):
                slot += 1
                ops.append("js parse %d %s" % (slot, H(json.dumps("g" * rng.below(700)).encode())))
        if rnd == 0:
            for s in order:             # an append drops the index array: the next access builds it again
                if rng.chance(2, 3):
                    ops.append("js lapp %d int 7" % s)
                    lists[s] += 1
    ops.append("js render %d" % rng.choice(order))
    return ops + ["js free"]


# ------------------------------------------------------------------------------- talloc
class TaModel:
    """fault-free view of the slot tree, only used to generate mostly meaningful scripts (the harness
    decides what is well-defined: it prints `skip` otherwise)"""

    def __init__(self):
        self.par = {0: None}
        self.kind = {0: "b"}
        self.holder = set()
        self.refs = []          # (obj, holder) in creation order

    def kids(self, s):
        return [c for c, p in self.par.items() if p == s]

    def below(self, s):
        out, todo = set(), [s]
        while todo:
            x = todo.pop()
            out.add(x)
            todo += self.kids(x)
        return out

    def free(self, s):
        for c in self.kids(s):
            mine = [r for r in self.refs if r[0] == c]
            if mine:
                self.refs.remove(mine[0])
                self.par[c] = mine[0][1]
            else:
                self.free(c)
        self.refs = [r for r in self.refs if r[0] != s and r[1] != s]
        self.holder.discard(s)
        del self.par[s]
        del self.kind[s]

    def nrefs(self, s):
        return sum(1 for r in self.refs if r[0] == s)


def g_ta(rng, mode):
    m = TaModel()
    ops = ["ta top"]
    slot = 0
    for _ in range(8 + rng.below(45)):
        r = rng.below(100)
        objs = [s for s in m.par if s != 0]
        plain = [s for s in m.par if s not in m.holder]
        blocks = [s for s in m.par if m.kind[s] == "b"]
        strs = [s for s in m.par if m.kind[s] == "s"]
        if mode == "tree":
            w = [("new", 32), ("strdup", 6), ("realloc", 14), ("steal", 14), ("free", 12), ("name", 10),
                 ("asprintf", 4), ("unlink", 4), ("append", 4)]
        elif mode == "strings":
            w = [("new", 8), ("strdup", 24), ("asprintf", 18), ("append", 26), ("free", 8), ("steal", 6),
                 ("realloc", 4), ("name", 6)]
        else:
            w = [("new", 22), ("holder", 12), ("ref", 24), ("unlink", 12), ("free", 12), ("strdup", 8),
                 ("steal", 5), ("realloc", 3), ("name", 2)]
        tot = sum(x[1] for x in w)
        r = rng.below(tot)
        for op, wt in w:
            if r < wt:
                break
            r -= wt
        if op in ("new", "strdup", "asprintf", "holder"):
            slot += 1
            p = 0 if op == "holder" or rng.chance(1, 4) else rng.choice(plain)
            if op in ("new", "holder"):
                ops.append("ta new %d %d %d" % (slot, p, rng.choice([0, 1, 8, 24, 100, 1000, rng.below(300)])))
                m.kind[slot] = "b"
            elif op == "strdup":
                ops.append("ta strdup %d %d %s" % (slot, p, H(rng.choice(JS_STR).encode("utf-8"))))
                m.kind[slot] = "s"
            else:
                ops.append("ta asprintf %d %d %d" % (slot, p, rng.below(100000) - 500))
                m.kind[slot] = "s"
            m.par[slot] = p
        elif op == "append" and strs:
            ops.append("ta append %d %s" % (rng.choice(strs), H(rng.choice(JS_STR + ["y" * 200]).encode("utf-8"))))
        elif op == "realloc" and blocks:
            ops.append("ta realloc %d %d" % (rng.choice(blocks), rng.choice([1, 8, 9, 64, 200, 1000, 1 + rng.below(500)])))
        elif op == "name" and blocks:
            ops.append("ta name %d %d" % (rng.choice(blocks), rng.below(1000)))
        elif op == "steal" and len(objs) >= 1:
            s = rng.choice(objs)
            cand = [x for x in plain if x not in m.below(s)]
            if s in m.holder or not cand:
                continue
            np = rng.choice(cand)
            ops.append("ta steal %d %d" % (s, np))
            if m.nrefs(s) == 0:
                m.par[s] = np
        elif op == "free" and objs:
            s = rng.choice(objs)
            if m.nrefs(s):
                continue
            ops.append("ta free %d" % s)
            m.free(s)
        elif op == "ref" and objs:
            hs = [s for s in objs if m.kind[s] == "b" and m.par[s] == 0 and (s in m.holder or not m.kids(s))
                  and m.nrefs(s) == 0]
            if not hs:
                continue
            h = rng.choice(hs)
            cand = [s for s in objs if s != h and s not in m.holder]
            if not cand:
                continue
            o = rng.choice(cand)
            ops.append("ta ref %d %d" % (o, h))
            m.holder.add(h)
            m.refs.append((o, h))
        elif op == "unlink" and objs:
            if m.refs and rng.chance(2, 3):
                o, h = rng.choice(m.refs)
                if rng.chance(1, 3):
                    h = m.par[o]             # through the primary parent: the object moves to a holder
            else:
                o = rng.choice(objs)
                h = m.par[o] if rng.chance(1, 2) else rng.choice(list(m.par))
            if h == o or o == 0:
                continue
            ops.append("ta unlink %d %d" % (h, o))
            mine = [x for x in m.refs if x[0] == o]
            if h == m.par[o]:
                if mine:
                    m.refs.remove(mine[0])
                    m.par[o] = mine[0][1]
                else:
                    m.free(o)
            else:
                via = [x for x in mine if x[1] == h]
                if via:
                    m.refs.remove(via[0])
    if rng.chance(1, 3):
        ops.append("ta realloc 0 %d" % rng.choice([1, 64, 500]))
    return ops + ["ta done"]


def g_ta_limit(rng):
    """memlimit: talloc_set_memlimit on the root (and sometimes on a child context), then blocks
    that grow AND shrink through talloc_realloc, frees and steals.  The dump shows after every op
    what each limited context still admits (largest talloc_size that succeeds): an op that reports
    failure must leave it unchanged, and continued use is compared with the fault-free run."""
    limit = rng.choice([5000, 10000, 10000, 20000])
    ops = ["ta top", "ta limit 0 %d" % limit]
    blocks = []          # slots holding sized blocks
    ctxs = [0]
    slot = 0
    sizes = [1, 100, 500, 1000, 2000, 3000, 3999, 4000, 4500]
    for _ in range(8 + rng.below(25)):
        r = rng.below(100)
        if r < 30 or not blocks:
            slot += 1
            ops.append("ta new %d %d %d" % (slot, rng.choice(ctxs), rng.choice(sizes)))
            blocks.append(slot)
        elif r < 38 and len(ctxs) < 3:
            slot += 1
            ops.append("ta new %d 0 16" % slot)
            ops.append("ta limit %d %d" % (slot, rng.choice([3000, 6000, 9000])))
            ctxs.append(slot)
        elif r < 75:
            ops.append("ta realloc %d %d" % (rng.choice(blocks), rng.choice(sizes + [1 + rng.below(5000)])))
        elif r < 85 and len(blocks) > 1:
            b = blocks.pop(rng.below(len(blocks)))
            ops.append("ta free %d" % b)
        elif r < 92:
            ops.append("ta steal %d %d" % (rng.choice(blocks), rng.choice(ctxs)))
        else:
            slot += 1
            ops.append("ta strdup %d %d %s" % (slot, rng.choice(ctxs), H(("z" * rng.below(300)).encode())))
    return ops + ["ta done"]


# ------------------------------------------------------------------------ regex / mempool
RX_LIT = "abcdxyz"
RX_CLS = [("[a-c]", "abc"), ("[^x]", "abz"), ("[[:alpha:]]", "qaZ"), ("[xyz]", "xyz"), ("[a-cx-z]", "ay"),
          ("[[:digit:]b]", "b7")]


def rx_lits(rng):
    return "".join(rng.choice(RX_LIT) for _ in range(1 + rng.below(3)))


def rx_quant(rng, pat, sample, bre):
    """(pattern, a string it matches) after attaching a random repetition to a single atom"""
    q = rng.below(10)
    if q == 0:
        return pat + "*", sample * rng.below(3)
    if q == 1:
        if bre:
            return pat + "\\{1,3\\}", sample * (1 + rng.below(3))
        return pat + "+", sample * (1 + rng.below(2))
    if q == 2:
        if bre:
            return pat + "\\{2\\}", sample * 2
        return pat + "?", sample * rng.below(2)
    if q == 3 and not bre:
        return pat + rng.choice(["{1,3}", "{2}"]), sample * 2
    return pat, sample


def rx_ere(rng):
    """ERE with 20..60 atoms in 1..n alternatives; returns (pattern, string matched by the first branch)"""
    branches = []
    cur, smp = "", ""
    for _ in range(20 + rng.below(41)):
        r = rng.below(100)
        if r < 40:
            a = x = rng.choice(RX_LIT)
        elif r < 50:
            a, x = ".", rng.choice("xq1")
        elif r < 70:
            a, cs = rng.choice(RX_CLS)
            x = rng.choice(cs)
        elif r < 92:
            alts = [rx_lits(rng) for _ in range(1 + rng.below(3))]
            a, x = "(" + "|".join(alts) + ")", alts[0]
        else:
            a, x = rng.choice([("\\.", "."), ("\\(", "(")])
        a, x = rx_quant(rng, a, x, False)
        cur += a
        smp += x
        if rng.chance(1, 6):
            branches.append((cur, smp))
            cur, smp = "", ""
    if cur or not branches:
        branches.append((cur or "a", smp if cur else "a"))
    return "|".join(b[0] for b in branches), branches[0][1]


def rx_bre(rng):
    """BRE with groups and back-references; returns (pattern, a string it matches)"""
    out, smp = "", ""
    groups = []
    for _ in range(20 + rng.below(41)):
        r = rng.below(100)
        if r < 45:
            a = x = rng.choice(RX_LIT)
        elif r < 55:
            a, x = ".", rng.choice("xq1")
        elif r < 75:
            a, cs = rng.choice(RX_CLS[:4])
            x = rng.choice(cs)
        elif r < 90 and len(groups) < 8:
            x = rx_lits(rng)
            a = "\\(" + x + "\\)"
            groups.append(x)
            out += a
            smp += x
            continue
        elif groups:
            g = rng.below(len(groups))
            a, x = "\\%d" % (g + 1), groups[g]
        else:
            a = x = "b"
        a, x = rx_quant(rng, a, x, True)
        out += a
        smp += x
    return out, smp


def g_rx(rng, bre):
    ops = []
    for _ in range(1 + rng.below(3)):
        pat, smp = rx_bre(rng) if bre else rx_ere(rng)
        fl = (0 if bre else 1) | rng.choice([0, 0, 2, 4, 8, 2 | 8])
        if rng.chance(1, 12):
            pat += rng.choice(["(", "[a", "\\", "a{2", "*"]) if not bre else rng.choice(["\\(", "[a", "\\9"])
        ops.append("rx comp %s %d" % (H(pat.encode()), fl))
        for _ in range(1 + rng.below(3)):
            r = rng.below(3)
            if r == 0:
                s = smp
            elif r == 1:
                s = "".join(rng.choice("zq\n") for _ in range(rng.below(4))) + smp + rng.choice(["", "zz", "\n"])
            else:
                s = "".join(rng.choice(RX_LIT + "AB1\n") for _ in range(rng.below(25)))
            ops.append("rx exec " + H(s.encode()))
        ops.append("rx free")
    return ops


def g_mp(rng):
    ops = []
    slot = 0
    for _ in range(1 + rng.below(2)):
        for _ in range(5 + rng.below(36)):
            slot += 1
            n = rng.choice([1, 8, 9, 100, 400, 512, 513, 2000, 5000, 1 + rng.below(1500)])
            ops.append("mp alloc %d %d" % (slot, n))
        ops.append("mp free")
    return ops


# --------------------------------------------------------------------- fnmatch / wchar
FN_CH = ["a", "b", "c", "/", ".", "A", "é", "€"]


def fn_pair(rng):
    """a (pattern, string) pair; the stack buffers hold 128 wide characters, a byte length >= 127
    makes mbstr_decode use malloc"""
    n = rng.choice([0, 5, 60, 126, 127, 128, 200, 400])
    s = "".join(rng.choice(FN_CH) for _ in range(n))
    r = rng.below(10)
    if r < 3:
        p = s
    elif r < 5:
        p = "*" + s[len(s) // 2:]
    elif r < 7:
        p = s[:len(s) // 3] + "*" + rng.choice(["[a-c]", "?", "[!x]", "[[:alpha:]]"]) + "*"
    elif r < 8:
        p = "".join(rng.choice(FN_CH + ["*", "?", "[a-c]", "\\a"]) for _ in range(rng.choice([3, 130, 260])))
    else:
        p = rng.choice(["*", "?" * max(1, n), "a" * 300, "[", "*/" * 70])
    pb, sb = p.encode("utf-8"), s.encode("utf-8")
    q = rng.below(12)
    if q == 0:
        sb = sb[:len(sb) // 2] + b"\xff\xc3" + sb[len(sb) // 2:]      # invalid in the string: tolerated
    elif q == 1:
        pb = pb + b"\xff"                                              # invalid in the pattern: no match
    return pb, sb


def g_fn(rng):
    ops = ["fn match - - 0"]
    for _ in range(3 + rng.below(8)):
        pb, sb = fn_pair(rng)
        ops.append("fn match %s %s %d" % (H(pb), H(sb), rng.choice([0, 0, 1, 2, 4, 8, 16, 1 | 4, 8 | 16, 31])))
    return ops


def g_mbs(rng):
    ops = ["fn match - - 0"]
    for _ in range(3 + rng.below(8)):
        n = rng.choice([0, 1, 10, 127, 128, 300])
        b = "".join(rng.choice(FN_CH) for _ in range(n)).encode("utf-8")
        q = rng.below(6)
        if q == 0:
            b = b[:len(b) // 2] + rng.choice([b"\xff", b"\xc3", b"\xe2\x82"]) + b[len(b) // 2:]
        elif q == 1:
            b = b + b"\xe2\x82"
        ops.append("mbs decode %s %d" % (H(b), rng.below(2)))
    return ops


# -------------------------------------------------------------------------- tls_config
TLS_VALUES = {
    "ca_file": [b"/etc/ssl/cert.pem", b"/tmp/" + b"c" * 200, b"x"],
    "ca_path": [b"/etc/ssl/certs", b"/p"],
    "ca_mem": [b"-----BEGIN CERTIFICATE-----\nMIIB\n-----END CERTIFICATE-----\n", b"A" * 700, b"z"],
    "cert_file": [b"/tmp/cert.pem", b"c" * 90],
    "cert_mem": [b"CERT" * 50, b"c"],
    "key_file": [b"/tmp/key.pem", b"k" * 90],
    "key_mem": [b"KEY" * 40, b"k"],
    "ciphers": [b"secure", b"compat", b"legacy", b"insecure", b"default", b"fast", b"HIGH:!aNULL",
                b"ECDHE-RSA-AES128-GCM-SHA256:AES256-SHA", b"no-such-cipher"],
    "protocols": [b"tlsv1.2,tlsv1.3", b"all", b"secure", b"all,!tlsv1.0", b"tlsv1.2:tlsv1.1", b"bogus", b"legacy"],
    "dheparams": [b"none", b"auto", b"legacy", b"1024"],
    "ecdhecurve": [b"none", b"auto", b"prime256v1", b"secp384r1", b"bogus"],
    "keypair_mem": [b"PAIR" * 30, b"p"],
    "ocsp_stapling_mem": [b"OCSP" * 25, b"o"],
}


def g_tls(rng):
    ops = ["tls new"]
    whats = sorted(TLS_VALUES)
    for _ in range(5 + rng.below(16)):
        w = rng.choice(whats)
        ops.append("tls set %s %s" % (w, H(rng.choice(TLS_VALUES[w]))))
    return ops + ["tls free"]


# ----------------------------------------------------------------- cx_* string helpers
def g_cxs(rng):
    ops = ["cxs memdup -"]
    for _ in range(4 + rng.below(10)):
        n = rng.choice([0, 1, 10, 40, 55, 62, 63, 64, 65, 100, 300, 1000])      # 2n+3.. bytes printed
        s = "".join(rng.choice("abcXYZ09 %") for _ in range(n)).encode()
        op = rng.choice(["sprintf", "sprintf", "asprintf", "asprintf", "strdup", "memdup"])
        if op in ("sprintf", "asprintf"):
            ops.append("cxs %s %s %d" % (op, H(s), rng.below(200001) - 100000))
        else:
            ops.append("cxs %s %s" % (op, H(s)))
    return ops


FAMILIES = {
    # the pool only takes memory when an op needs a new segment, and then the op succeeds: an op that
    # reports failure has allocated nothing (stricter than required; holds on the real code)
    "pool-alloc": (lambda r: g_pool(r, "alloc"), "h", {"prefix": "pool ", "strict_live": True, "live_exact": True}),
    "pool-realloc": (lambda r: g_pool(r, "realloc"), "h", {"prefix": "pool ", "strict_live": True, "live_exact": True}),
    # JSON: all values live in the context's pool; an op that allocates twice may have obtained a new
    # pool segment before its second allocation fails (the segment stays until json_free_context)
    "js-parse": (g_js_parse, "h", {"prefix": "js ", "strict_live": False, "live_exact": False}),
    "js-build": (lambda r: g_js_build(r), "h", {"prefix": "js ", "strict_live": False, "live_exact": False}),
    "js-mixed": (lambda r: g_js_build(r, True), "h", {"prefix": "js ", "strict_live": False, "live_exact": False}),
    "js-attach": (g_js_attach, "h", {"prefix": "js ", "strict_live": False, "live_exact": False}),
    "js-render": (g_js_render, "h", {"prefix": "js ", "strict_live": False, "live_exact": False}),
    "js-index": (g_js_index, "h", {"prefix": "js ", "strict_live": False, "live_exact": False}),
    "ta-limit": (g_ta_limit, "h", {"prefix": "ta ", "strict_live": True, "live_exact": True}),
    "ta-tree": (lambda r: g_ta(r, "tree"), "h", {"prefix": "ta ", "strict_live": True, "live_exact": True}),
    "ta-strings": (lambda r: g_ta(r, "strings"), "h", {"prefix": "ta ", "strict_live": True, "live_exact": True}),
    "ta-refs": (lambda r: g_ta(r, "refs"), "h", {"prefix": "ta ", "strict_live": True, "live_exact": True}),
    "rx-ere": (lambda r: g_rx(r, False), "h2", {"prefix": "rx ", "strict_live": True, "live_exact": True}),
    "rx-bre": (lambda r: g_rx(r, True), "h2", {"prefix": "rx ", "strict_live": True, "live_exact": True}),
    "mp-alloc": (g_mp, "h2", {"prefix": "mp ", "strict_live": True, "live_exact": True}),
    "fn-long": (g_fn, "h2", {"prefix": "fn ", "strict_live": True, "live_exact": True}),
    "mbs-decode": (g_mbs, "h2", {"prefix": "mbs ", "strict_live": True, "live_exact": True}),
    # tls_config: claimed as "no crash, no leak, error reported" only.  set_string()/set_mem() free the old
    # value before duplicating the new one, so a failed setter leaves its field NULL (live decreases);
    # the dump holds only the numeric fields, which a failed setter provably keeps
    "tls-config": (g_tls, "h2", {"prefix": "tls ", "strict_live": False, "live_exact": False}),
    "cxs-format": (g_cxs, "h2", {"prefix": "cxs ", "strict_live": True, "live_exact": True}),
}
