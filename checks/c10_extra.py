"""C10 add-on: the model-free script families (modules without a Lean allocation-fault model).
See the bottom of this file for FAMILIES; harness side: harness/C10/h_extra.inc (pool, js, ta —
part of h.c) and harness/C10/h2.c (rx, mp, fn, mbs, tls, cxs — modules calling libc directly)."""
import os
import re
import vf

# what h.c additionally needs for h_extra.inc (cxextra.c is included as source by h.c itself)
H1_EXTRA_SRCS = ["repo:usual/json.c", "repo:usual/talloc.c", "repo:usual/utf8.c"]
H1_EXTRA_FLAGS = ["-lm"]


def build_more(ck, WRAP):
    return {}


FAMILIES = {}
