"""C02 — JSON parser: total, strict and value-correct on every input.

Theorems: lean/UsualProofs/Props/C02.lean about the model lean/Usual/C02/Parse.lean.
T-tie:   lean/Usual/Gen/C02Tables.lean (STATE_STEPS, string_examine_chars, enum values, limits,
         option bits, FOURCC strings) is regenerated from the working tree's usual/json.c on every
         run (harness/C02/extract.c evaluated by the compiler) and the theorems are re-checked
         against it.
C-tie:   differential run of drv_c02 (the model, strtod = exact big-integer decimal->binary64)
         against harness/C02/h.c (real json_parse, exact-size heap copy, ASan+UBSan, 4 option
         sets x 4 pool sizes, canonical dump through the public accessors).
Monitor: two Python references judge the implementation's own output independently of the model
         (checks/c02_ref.py): the stdlib `json` decoder for RFC 8259 documents inside the
         property's preconditions, and a recursive-descent recogniser for the accepted language
         (strict / relaxed / ignore-encoding).  A mutated state table moves the model but not
         these, so table mutants get a concrete replay.
"""
import os
import re
import subprocess
import sys
from concurrent.futures import ThreadPoolExecutor, ProcessPoolExecutor

import vf
import c02_gen
import c02_ref

sys.path.insert(0, os.path.join(vf.VERIF, "extract"))
import c2lean  # noqa: E402

PID = "C02"
PROP_MODULES = ["UsualProofs.Props.C02"]
REPO_SRCS = ["repo:usual/json.c", "repo:usual/cbtree.c", "repo:usual/cxalloc.c", "repo:usual/cxextra.c",
             "repo:usual/utf8.c", "repo:usual/string.c", "repo:usual/mbuf.c", "repo:usual/base.c"]
NPROC = 12


def build(ck):
    ck.forbid_scan()
    try:
        path, txt, changed = c02_gen.regenerate(vf.REPO, vf.VERIF, ck.bdir, vf.write_if_changed)
        committed = vf.git_committed("lean/Usual/Gen/C02Tables.lean")
        ck.cov["tables_regenerated"] = True
        ck.cov["tables_equal_pinned"] = (committed == txt) if committed is not None else None
    except c02_gen.ExtractError as e:
        ck.proof_ok = False
        ck.broken.append("T-tie: table extraction failed: " + str(e)[:300])
    # T-tie for parse_hex: lean/Usual/Gen/C02T.lean re-translated, UsualProofs/Bridge/C02T.lean re-checked
    ck.build_proofs(PROP_MODULES + c2lean.ttie(ck, vf, PID), driver="drv_c02")
    h = ck.cc(os.path.join(ck.bdir, "h"), [os.path.join(vf.HARNESS, PID, "h.c")] + REPO_SRCS, libs=["-lm"])
    return [h], [ck.driver_path("drv_c02")]


# ====================================================================== generator
WS_RFC = [b"", b"", b"", b" ", b"\n", b"\t", b"\r", b"  ", b" \n\t"]
WS_LAX = WS_RFC + [b"\f", b"\v", b" \f\v "]

CPS = [0x61, 0x62, 0x7A, 0x30, 0x20, 0x22, 0x5C, 0x2F, 0x08, 0x0C, 0x0A, 0x0D, 0x09, 0x01, 0x1F, 0x7F,
       0x80, 0xE9, 0x7FF, 0x800, 0x2028, 0x2029, 0xD7FF, 0xE000, 0xFFFD, 0xFFFF, 0x10000, 0x1F600,
       0x10FFFF]
SHORT = {0x08: b"\\b", 0x0C: b"\\f", 0x0A: b"\\n", 0x0D: b"\\r", 0x09: b"\\t"}


def hex4(rng, v):
    s = "%04x" % v
    return "".join(ch.upper() if rng.chance(1, 2) else ch for ch in s).encode()


def spell_cp(rng, cp):
    """one spelling of a code point inside a JSON string (always RFC-valid)"""
    if cp in (0x22, 0x5C):
        return (b"\\" + bytes([cp])) if rng.chance(3, 4) else b"\\u" + hex4(rng, cp)
    if cp < 0x20:
        if cp in SHORT and rng.chance(1, 2):
            return SHORT[cp]
        return b"\\u" + hex4(rng, cp)
    if cp == 0x2F and rng.chance(1, 2):
        return b"\\/"
    if rng.chance(7, 10):
        return chr(cp).encode("utf-8")
    if cp < 0x10000:
        return b"\\u" + hex4(rng, cp)
    c = cp - 0x10000
    return b"\\u" + hex4(rng, 0xD800 + (c >> 10)) + b"\\u" + hex4(rng, 0xDC00 + (c & 0x3FF))


def rand_cp(rng):
    r = rng.below(10)
    if r < 6:
        return rng.choice(CPS)
    if r < 7:
        return 0x20 + rng.below(0x5F)
    while True:
        cp = rng.below(0x110000)
        if cp and not (0xD800 <= cp <= 0xDFFF):
            return cp


def gen_string(rng, long_ok=True):
    r = rng.below(40)
    n = rng.below(9)
    if long_ok and r == 0:
        n = 100 + rng.below(600)
    cps = [rand_cp(rng) for _ in range(n)]
    return b'"' + b"".join(spell_cp(rng, c) for c in cps) + b'"', cps


FLOATS = ["1.5", "-0.0", "0.0", "1e10", "1E+10", "1e-10", "0.1", "123.456e-7", "1.7976931348623157e308",
          "1.7976931348623158e308", "2.2250738585072014e-308", "4.9e-324", "5e-324",
          "2.2250738585072011e-308", "1e-320", "1e-400", "-1e-400", "2.4703282292062327e-324",
          "2.4703282292062328e-324", "-1.25e+3", "1e22", "1e23", "9007199254740993.0",
          "0.30000000000000004", "1e308", "1e-308", "8.98846567431158e307", "9007199254740992e0",
          "9007199254740993e0", "4.35e0", "0.000001", "123456789012345678901234567890.0",
          "1" + "0" * 90 + ".0", "0." + "0" * 95 + "1", "1." + "0" * 96, "1e00000000000000000000000000000308",
          "0.5e-323", "3e-324", "1.0000000000000002", "1.00000000000000011102230246251565404236316680908203125",
          "1.00000000000000011102230246251565404236316680908203124", "1.00000000000000011102230246251565404236316680908203126",
          "0e999", "-0e-999", "0.0e+99999"]
INTS = [0, 1, -1, 9, 10, 9999999, 10000000, -999999, -1000000, -9999999, 99999999, (1 << 53) - 1,
        -((1 << 53) - 1), (1 << 53) - 2, 123456789012, (1 << 31), -(1 << 31) - 1, (1 << 32) + 5]
BADNUMS = ["9007199254740992", "-9007199254740992", "9007199254740993", "9223372036854775807",
           "9223372036854775808", "-9223372036854775809", "1" + "0" * 98, "1" + "0" * 99,
           "1." + "0" * 97, "1." + "0" * 98, "1e999", "-1e999", "1.7976931348623159e308", "01", "007", "-01", "1.",
           "-.5", "1.e5", "-", "--1", "-+1", "1-1", "1+1", "1e", "1e+", "1e-", "1.5.2", "1e5e5", "1e5.0",
           "0x10", "-e5", "-.", "1E", "00", "-00", "0e", "1.0e", "0" * 98 + "1", "0" * 99 + "1",
           "-0", "-0e0", "1e+00", "1" * 99, "1" * 100]


def gen_number(rng):
    r = rng.below(100)
    if r < 25:
        return str(rng.choice(INTS)).encode()
    if r < 40:
        return str(rng.below(1 << 54) - (1 << 53)).encode()
    if r < 45:
        return b"-0"
    if r < 70:
        return rng.choice(FLOATS).encode()
    # random decimal: digits with optional fraction and exponent
    nd = 1 + rng.below(22)
    ds = "".join(chr(0x30 + rng.below(10)) for _ in range(nd))
    ip = ds[:1 + rng.below(nd)]
    fp = ds[len(ip):]
    ip = ip.lstrip("0") or "0"
    t = ("-" if rng.chance(1, 3) else "") + ip
    if fp:
        t += "." + fp
    if rng.chance(2, 3) or not fp:
        e = rng.choice([0, 1, -1, 5, -5, 22, 23, -22, 300, 308, 309, -300, -308, -320, -323, -324, -325, -340])
        if rng.chance(1, 2):
            e = rng.below(660) - 340
        t += rng.choice(["e", "E"]) + rng.choice(["", "+"] if e >= 0 else [""]) + str(e)
    return t.encode()


KEY_FAMILIES = [[b"", b"a", b"ab", b"abc", b"b", b"\xc3\xa9", b"a\xc3\xa9", b"\x7f", b"\x01"],
                [b"k", b"k0", b"k00", b"k1", b"K", b"kk"]]


def gen_key(rng, used):
    for _ in range(20):
        if rng.chance(1, 2):
            kb = rng.choice(rng.choice(KEY_FAMILIES))
            cps = [ord(ch) for ch in kb.decode("utf-8")]
            tok = b'"' + b"".join(spell_cp(rng, c) for c in cps) + b'"'
        else:
            tok, cps = gen_string(rng, long_ok=False)
        key = tuple(cps)
        if key not in used:
            used.add(key)
            return tok
    k = "u%d" % len(used)
    used.add(tuple(ord(c) for c in k))
    return b'"' + k.encode() + b'"'


def gen_value(rng, depth, maxdepth, toks, budget):
    """append the tokens of a random RFC-valid value"""
    r = rng.below(100)
    if depth >= maxdepth or budget[0] <= 0 or r < 45:
        k = rng.below(8)
        if k == 0:
            toks.append(b"null")
        elif k == 1:
            toks.append(b"true")
        elif k == 2:
            toks.append(b"false")
        elif k <= 4:
            toks.append(gen_string(rng)[0])
        else:
            toks.append(gen_number(rng))
        budget[0] -= 1
        return
    n = rng.below(5)
    if r < 72:
        toks.append(b"[")
        for i in range(n):
            if i:
                toks.append(b",")
            gen_value(rng, depth + 1, maxdepth, toks, budget)
        toks.append(b"]")
    else:
        toks.append(b"{")
        used = set()
        for i in range(n):
            if i:
                toks.append(b",")
            toks.append(gen_key(rng, used))
            toks.append(b":")
            gen_value(rng, depth + 1, maxdepth, toks, budget)
        toks.append(b"}")
    budget[0] -= 1


def gen_spine(rng, depth):
    """a document nested `depth` deep (alternating lists and dicts) around one scalar"""
    opens, closes = [], []
    for i in range(depth):
        if rng.chance(1, 2):
            opens.append(b"[")
            closes.append(b"]")
        else:
            opens += [b"{", b'"k"', b":"]
            closes.append(b"}")
    toks = list(opens)
    inner = []
    gen_value(rng, 0, 1, inner, [4])
    toks += inner
    toks += reversed(closes)
    return toks


def render(rng, toks, wsset):
    out = bytearray(rng.choice(wsset))
    for t in toks:
        out += t
        out += rng.choice(wsset)
    return bytes(out)


def gen_valid(rng, maxdepth):
    toks = []
    r = rng.below(40)
    if r == 0:
        toks = gen_spine(rng, 1 + rng.below(maxdepth))
    else:
        gen_value(rng, 0, min(maxdepth, 2 + rng.below(6)), toks, [6 + rng.below(40)])
    return toks


COMMENTS = [b"//x\n", b"/*x*/", b"/**/", b"/* * / \n */", b"// \n", b"//\n", b"/*/*/", b"/***/", b"/*\n\n*/"]
BAD_COMMENTS = [b"/", b"/*", b"/* *", b"/*/", b"/x", b"*/", b"/ /x\n"]
BADUTF = [b"\x80", b"\xbf", b"\xc0\x80", b"\xc1\xbf", b"\xc2", b"\xc2\x22", b"\xe0\x80\x80", b"\xe0\x9f\xbf",
          b"\xed\xa0\x80", b"\xed\xbf\xbf", b"\xe2\x82", b"\xf0\x8f\xbf\xbf", b"\xf4\x90\x80\x80", b"\xf5\x80\x80\x80",
          b"\xf0\x9f\x98", b"\xff", b"\xfe", b"\xf8\x88\x80\x80\x80", b"\xe2\x28\xa1", b"\xf0\x28\x8c\xbc"]
BADESC = [b"\\x", b"\\a", b"\\0", b"\\'", b"\\U0041", b"\\u", b"\\u1", b"\\u12", b"\\u123", b"\\u12g4", b"\\u 123",
          b"\\u-123", b"\\u+123", b"\\\x00", b"\\\n", b"\\u0000", b"\\\xc3\xa9", b"\\ "]
LONESURR = [b"\\ud800", b"\\udbff", b"\\udc00", b"\\udfff", b"\\ud800\\u0041", b"\\ud800\\ud800", b"\\ud800x",
            b"\\ud800\\n", b"\\ud800\\udbff", b"\\ud800\\ue000", b"\\ud800\\u", b"\\ud800\\udc0", b"\\uD800\\UDC00",
            b"\\ud83d \\ude00", b"\\udc00\\ud800"]
_SV = ["d7ff", "d800", "dbff", "dc00", "dfff", "e000", "0041"]
LONESURR += [("\\u%s\\u%s" % (a, b)).encode() for a in _SV for b in _SV]
LONESURR += [("\\u%s" % a).encode() for a in _SV]
GARBAGE = [b"x", b"1", b"]", b"}", b",", b'"', b"null", b"[]", b"{}", b":", b"\x00", b"/", b"//", b"\\", b"0", b"-"]
INSERTS = [b",", b"/", b"*", b'"', b"\\", b"\x00", b"\x80", b"\xbf", b"\xc2", b"\xe0", b"\xed", b"\xf4", b"\xff",
           b":", b"[", b"]", b"{", b"}", b"0", b"-", b"e", b".", b"t", b"n", b"\n", b"\f", b" "]


def string_positions(toks):
    return [i for i, t in enumerate(toks) if t[:1] == b'"']


def inject_in_string(rng, toks, payloads):
    idx = string_positions(toks)
    toks = list(toks)
    if not idx:
        toks = [b"[", b'"ab"', b"]"]
        idx = [1]
    i = rng.choice(idx)
    t = toks[i]
    # insert at an escape/char boundary of the spelled string: any position that is not inside an
    # escape sequence or a multi-byte character
    cuts = [1]
    j = 1
    while j < len(t) - 1:
        c = t[j]
        if c == 0x5C:
            j += 6 if t[j + 1] == 0x75 else 2
        elif c >= 0xF0:
            j += 4
        elif c >= 0xE0:
            j += 3
        elif c >= 0xC0:
            j += 2
        else:
            j += 1
        cuts.append(min(j, len(t) - 1))
    p = rng.choice(cuts)
    toks[i] = t[:p] + rng.choice(payloads) + t[p:]
    return toks


def closer_positions(toks):
    return [i for i, t in enumerate(toks) if t in (b"]", b"}")]


def mutate(rng, toks, wsset):
    """returns (tag, document bytes)"""
    r = rng.below(100)
    toks = list(toks)
    if r < 8:       # comment at a token boundary
        i = rng.below(len(toks) + 1)
        toks.insert(i, rng.choice(COMMENTS))
        if rng.chance(1, 3):
            toks.insert(rng.below(len(toks) + 1), rng.choice(COMMENTS))
        return "comment", render(rng, toks, wsset)
    if r < 11:
        toks.insert(rng.below(len(toks) + 1), rng.choice(BAD_COMMENTS))
        return "badcomment", render(rng, toks, wsset)
    if r < 19:      # one trailing comma before a closer
        cp = closer_positions(toks)
        if cp:
            i = rng.choice(cp)
            toks.insert(i, b",")
            if rng.chance(1, 4):
                toks.insert(rng.below(len(toks) + 1), rng.choice(COMMENTS))
            return "trailing-comma", render(rng, toks, wsset)
        return "garbage", render(rng, toks, wsset) + b","
    if r < 24:      # other extra commas
        i = rng.below(len(toks) + 1)
        toks.insert(i, b",")
        return "extra-comma", render(rng, toks, wsset)
    if r < 32:
        return "badutf8", render(rng, inject_in_string(rng, toks, BADUTF), wsset)
    if r < 39:
        return "badescape", render(rng, inject_in_string(rng, toks, BADESC), wsset)
    if r < 46:
        return "lone-surrogate", render(rng, inject_in_string(rng, toks, LONESURR), wsset)
    if r < 52:
        return "garbage", render(rng, toks, wsset) + rng.choice(GARBAGE) + rng.choice(wsset)
    if r < 56:
        return "rawctl", render(rng, inject_in_string(rng, toks, [bytes([c]) for c in (1, 8, 9, 10, 13, 0x1F, 0x7F, 0)]), wsset)
    if r < 61:      # number spellings outside / at the edge of the grammar
        idx = [i for i, t in enumerate(toks) if t[:1] in b"-0123456789"]
        t = rng.choice(BADNUMS).encode()
        if idx:
            toks[rng.choice(idx)] = t
        else:
            toks = [b"[", t, b"]"]
        return "number", render(rng, toks, wsset)
    if r < 64:      # duplicate name
        idx = [i for i in range(len(toks) - 1) if toks[i][:1] == b'"' and toks[i + 1] == b":"]
        if len(idx) >= 2:
            a, b = rng.choice(idx), rng.choice(idx)
            toks[a] = toks[b]
        return "dupname", render(rng, toks, wsset)
    if r < 70:
        i = rng.below(len(toks))
        del toks[i]
        return "tok-delete", render(rng, toks, wsset)
    if r < 75:
        i = rng.below(len(toks))
        toks.insert(i, toks[i])
        return "tok-dup", render(rng, toks, wsset)
    if r < 80:
        i, j = rng.below(len(toks)), rng.below(len(toks))
        toks[i], toks[j] = toks[j], toks[i]
        return "tok-swap", render(rng, toks, wsset)
    doc = bytearray(render(rng, toks, wsset))
    if r < 86:
        return "truncate", bytes(doc[:rng.below(len(doc) + 1)])
    if r < 93:
        if doc:
            i = rng.below(len(doc))
            doc[i] = rng.below(256) if rng.chance(1, 2) else doc[i] ^ (1 << rng.below(8))
        return "flip", bytes(doc)
    i = rng.below(len(doc) + 1)
    doc[i:i] = rng.choice(INSERTS)
    return "insert", bytes(doc)


RAWALPHA = b'[]{}:,"\\/*-+.eE0123456789 \n\t\f\vtruefalsn\x00\x80\xc3\xa9\xed\xa0\xff'


def gen_raw(rng):
    n = rng.below(24)
    if rng.chance(1, 2):
        return bytes(rng.choice(RAWALPHA) for _ in range(n))
    return rng.bytes(n)


def gen_docs(rng, count, maxdepth):
    """list of (tag, doc)"""
    out = []
    while len(out) < count:
        toks = gen_valid(rng, maxdepth)
        lax_ws = rng.chance(1, 5)
        ws = WS_LAX if lax_ws else WS_RFC
        out.append(("valid-laxws" if lax_ws else "valid", render(rng, toks, ws)))
        for _ in range(3):
            out.append(mutate(rng, toks, ws))
        if rng.chance(1, 4):
            out.append(("raw", gen_raw(rng)))
        if rng.chance(1, 60):
            doc = render(rng, toks, ws)
            if len(doc) <= 120:
                for k in range(len(doc)):
                    out.append(("truncate-all", doc[:k]))
    return out[:count]


ETOK = [b"[", b"]", b"{", b"}", b",", b":", b'"a"', b"1"]
# a shortest token string that puts the parser into each state of enum ParseState
REACH = {"S_INITIAL_VALUE": [], "S_LIST_VALUE": [b"[", b"1", b","], "S_LIST_VALUE_OR_CLOSE": [b"["],
         "S_LIST_COMMA_OR_CLOSE": [b"[", b"1"], "S_DICT_KEY": [b"{", b'"k"', b":", b"1", b","],
         "S_DICT_KEY_OR_CLOSE": [b"{"], "S_DICT_COLON": [b"{", b'"k"'], "S_DICT_VALUE": [b"{", b'"k"', b":"],
         "S_DICT_COMMA_OR_CLOSE": [b"{", b'"k"', b":", b"1"], "S_DONE": [b"1"]}


def token_strings(maxlen):
    """every string of at most maxlen tokens over ETOK"""
    import itertools
    out = []
    for n in range(maxlen + 1):
        for combo in itertools.product(ETOK, repeat=n):
            out.append(("tokens%d" % n, b" ".join(combo)))
    return out


def table_probes(cont):
    """for every state x token: a prefix reaching the state, the token, every continuation of at
    most `cont` tokens (the first inputs to try when a table lemma breaks)"""
    import itertools
    out = []
    for sname, pre in sorted(REACH.items()):
        for t in ETOK:
            for n in range(cont + 1):
                for combo in itertools.product(ETOK, repeat=n):
                    out.append(("probe:" + sname, b" ".join(pre + [t] + list(combo))))
    return out


# ====================================================================== running
def _judge_chunk(args):
    docs, lines = args
    bad = []
    for i, (d, l) in enumerate(zip(docs, lines)):
        j = c02_ref.judge(d, l)
        if j is not None:
            bad.append((i, j[0], j[1]))
    return bad


def tally(ck, tag, line):
    h = ck.cov.setdefault("result_histogram", {})
    parts = line.split(" | ")
    if tag.startswith("deep-dict:"):
        tag = ":".join(tag.split(":")[:2])
    key = tag + ":" + "".join("A" if p.startswith("ok") else "r" for p in parts)
    h[key] = h.get(key, 0) + 1
    eh = ck.cov.setdefault("error_classes", {})
    for p in parts:
        if p.startswith("err "):
            eh[p[4:]] = eh.get(p[4:], 0) + 1


def shrink_doc(doc, pred, budget=250):
    """ddmin over the bytes of a document"""
    return bytes(vf.ddmin(list(doc), lambda cand: pred(bytes(cand)), budget=budget))


def run_docs(ck, hcmd, dcmd, tagged, label, pool, chunk=1500):
    """C-tie + monitors over a list of (tag, doc)."""
    chunks = list(vf.chunks(tagged, chunk))

    def one(ch):
        text = "".join("d %s\n" % vf.hexs(d) for _, d in ch)
        cl, ml, err = ck.both(hcmd, dcmd, text, 1200)
        return cl, ml
    with ThreadPoolExecutor(NPROC) as ex:
        res = list(ex.map(one, chunks))
    judged = list(pool.map(_judge_chunk, [([d for _, d in ch], cl[:len(ch)]) for ch, (cl, _) in zip(chunks, res)]))
    for ch, (cl, ml), bad in zip(chunks, res, judged):
        ck.count(len(ch))
        ck.cov["op_lines"] = ck.cov.get("op_lines", 0) + len(ch)
        for (tag, d), l in zip(ch, cl):
            ck.distinct(d)
            tally(ck, tag, l)
        # --- model vs implementation
        if cl != ml and len([v for v in ck.violations if v.get("label", "").startswith("tie")]) < 3:
            n = max(len(cl), len(ml))
            for i in range(n):
                a = cl[i] if i < len(cl) else "<missing>"
                b = ml[i] if i < len(ml) else "<missing>"
                if a != b:
                    break
            i = min(i, len(ch) - 1)
            doc = ch[i][1]

            def still(cand):
                return ck.fails(hcmd, dcmd, ["d " + vf.hexs(cand)]) is not None
            if still(doc):
                doc = shrink_doc(doc, still)
                ck.compare_cases(hcmd, dcmd, [["d " + vf.hexs(doc)]], label="tie:" + label + ":" + ch[i][0], shrink=False)
            else:
                # crash or state carried over: hand the whole chunk to the generic machinery
                ck.compare_cases(hcmd, dcmd, [["d " + vf.hexs(d)] for _, d in ch], label="tie:" + label)
        # --- property monitors
        seen = set(v.get("class") for v in ck.violations)
        for i, cls, msg in bad:
            if cls in seen:
                ck.cov["monitor_hits_not_minimised"] = ck.cov.get("monitor_hits_not_minimised", 0) + 1
                continue
            seen.add(cls)
            doc = ch[i][1]

            def still(cand, cls=cls):
                rc, out, _ = ck.run(hcmd, input_text="d %s\n" % vf.hexs(cand), timeout=60)
                ls = out.split("\n")
                j = c02_ref.judge(cand, ls[0]) if ls and ls[0] else ("crash", "")
                return j is not None and j[0] == cls
            small = shrink_doc(doc, still) if still(doc) else doc
            rc, out, err = ck.run(hcmd, input_text="d %s\n" % vf.hexs(small), timeout=60)
            impl = out.split("\n")[0] if out else "CRASH " + vf.san_summary(err)
            j = c02_ref.judge(small, impl) or (cls, msg)
            ck.report("obs", {"label": "monitor:" + label + ":" + ch[i][0], "ops": ["d " + vf.hexs(small)],
                              "class": j[0], "monitor": j[1], "document": repr(small)[:300], "impl": [impl[:600]]})


# ---------------------------------------------------------------- degenerate key sets
def chain_keys(form, n):
    """n object names whose crit-bit tree is one long chain"""
    if form == "a^i b":          # b, ab, aab, ...: deep along child[0]
        return [b"a" * i + b"b" for i in range(n)]
    if form == "a^(i+1)":        # a, aa, aaa, ...: deep along child[1]
        return [b"a" * (i + 1) for i in range(n)]
    if form == "bit-set":        # a common stem of '@' with one later and later bit set (6 usable bits per byte)
        m = (n + 5) // 6 + 1
        ks = [b"@" * m]
        for i in range(n - 1):
            k = bytearray(b"@" * m)
            k[i // 6] ^= 0x20 >> (i % 6)
            ks.append(bytes(k))
        return ks
    if form == "bit-clear":      # stem of 0x7F with one later and later bit cleared (7 usable bits per byte)
        m = (n + 6) // 7 + 1
        ks = [b"\x7f" * m]
        for i in range(n - 1):
            k = bytearray(b"\x7f" * m)
            k[i // 7] ^= 0x40 >> (i % 7)
            ks.append(bytes(k))
        return ks
    raise ValueError(form)


def chain_object(keys, inner=None):
    parts = []
    for i, k in enumerate(keys):
        v = inner if (inner is not None and i == len(keys) // 2) else str(i).encode()
        parts.append(b'"' + k + b'":' + v)
    return b"{" + b",".join(parts) + b"}"


def degenerate_objects(rng, sizes):
    """objects whose name sets make the crit-bit tree degenerate (depth = number of names), in
    ascending / descending / shuffled document order, alone and nested once inside another one"""
    out = []
    for form in ("a^i b", "a^(i+1)", "bit-set", "bit-clear"):
        for n in sizes:
            base = chain_keys(form, n)
            assert len(set(base)) == n
            for order in ("asc", "desc", "shuffled"):
                keys = sorted(base)
                if order == "desc":
                    keys.reverse()
                elif order == "shuffled":
                    for i in range(len(keys) - 1, 0, -1):
                        j = rng.below(i + 1)
                        keys[i], keys[j] = keys[j], keys[i]
                tag = "deep-dict:%s:%d:%s" % (form, n, order)
                out.append((tag, chain_object(keys)))
                out.append((tag + ":nested", chain_object(keys[:max(2, n // 2)], chain_object(keys))))
                out.append((tag + ":in-list", b"[" + chain_object(keys) + b",1]"))
    return out


# ---------------------------------------------------------------- context reuse
OPEN_FAILS = [b"[1, 2", b"[1, x]", b'{"a": tru}', b"[[[", b'{"a"', b'{"a":', b'{"a":1', b'{"a":1,', b'["abc', b'["\\x"]',
              b"[1e999]", b'{"a":[1,{"b":"\\ud800"}]}', b"[1,]", b"{", b"[", b'{"k":[nul]}', b"[-]", b'{"a":1 "b"}', b"[1 2]",
              b'{"a":1,"a":2}', b"[\x80]", b'["\xff"]', b"[1]]", b"{}}", b"1 1", b"", b"x", b'"abc', b"nul", b"1e999",
              b"[/*", b'{"a":/', b"[1,/*c*/]"]
AFTER = [b"2", b'"s"', b"null", b"true", b"-0.5", b"[1]", b"[]", b"{}", b'{"a":1}', b'{"a":[1,{"b":null}]}', b"[[[]]]",
         b' [1, 2] ', b'{"k":"v","a":"b"}']


def seq_op(docs):
    return "s " + " ".join(vf.hexs(d) for d in docs)


def gen_seqs(rng, count, maxdepth):
    """sequences of 2..4 documents for ONE context: failures of every mutation class (the parser
    state they leave behind: open lists/dicts, a pending key, a half-read string or number)
    followed by valid documents, and valid documents followed by anything"""
    out = []
    while len(out) < count:
        r = rng.below(10)
        docs = []
        if r < 3:
            docs = [rng.choice(OPEN_FAILS), rng.choice(AFTER)]
            if rng.chance(1, 2):
                docs.append(rng.choice(OPEN_FAILS + AFTER))
            tag = "reuse-directed"
        else:
            toks = gen_valid(rng, maxdepth)
            ws = WS_RFC
            n = 2 + rng.below(3)
            for _ in range(n):
                k = rng.below(10)
                if k < 5:
                    docs.append(mutate(rng, toks, ws)[1])
                elif k < 6:
                    doc = render(rng, toks, ws)
                    docs.append(doc[:rng.below(len(doc) + 1)])
                else:
                    docs.append(render(rng, gen_valid(rng, min(maxdepth, 8)), ws))
                if rng.chance(1, 2):
                    toks = gen_valid(rng, min(maxdepth, 8))
            tag = "reuse-random"
        out.append((tag, docs))
    return out


def _judge_seq_chunk(args):
    seqs, lines = args
    bad = []
    for i, (ds, l) in enumerate(zip(seqs, lines)):
        j = c02_ref.judge_seq(ds, l)
        if j is not None:
            bad.append((i, j[0], j[1]))
    return bad


def shrink_seq(docs, pred):
    """fewer documents first, then fewer bytes in each"""
    docs = [bytes(d) for d in vf.ddmin(list(docs), lambda c: len(c) > 0 and pred(list(c)), budget=40)]
    for i in range(len(docs)):
        def p1(cand, i=i):
            return pred(docs[:i] + [bytes(cand)] + docs[i + 1:])
        docs[i] = bytes(vf.ddmin(list(docs[i]), p1, budget=80))
    return docs


def run_seqs(ck, hcmd, dcmd, tagged, label, pool, chunk=1500):
    """C-tie + monitors over sequences of documents parsed on one context."""
    chunks = list(vf.chunks(tagged, chunk))

    def one(ch):
        text = "".join(seq_op(ds) + "\n" for _, ds in ch)
        cl, ml, err = ck.both(hcmd, dcmd, text, 1200)
        return cl, ml
    with ThreadPoolExecutor(NPROC) as ex:
        res = list(ex.map(one, chunks))
    judged = list(pool.map(_judge_seq_chunk, [([ds for _, ds in ch], cl[:len(ch)]) for ch, (cl, _) in zip(chunks, res)]))
    hist = ck.cov.setdefault("reuse_histogram", {})
    for ch, (cl, ml), bad in zip(chunks, res, judged):
        ck.count(len(ch))
        ck.cov["op_lines"] = ck.cov.get("op_lines", 0) + len(ch)
        for (tag, ds), l in zip(ch, cl):
            ck.distinct(tuple(ds))
            g = l.split(" | ")[0].split(" ; ")
            key = tag + ":" + "".join("A" if p.startswith("ok") else "r" for p in g)
            hist[key] = hist.get(key, 0) + 1
        if cl != ml and len([v for v in ck.violations if v.get("label", "").startswith("tie:reuse")]) < 2:
            n = max(len(cl), len(ml))
            for i in range(n):
                a = cl[i] if i < len(cl) else "<missing>"
                b = ml[i] if i < len(ml) else "<missing>"
                if a != b:
                    break
            i = min(i, len(ch) - 1)

            def still(cand):
                return ck.fails(hcmd, dcmd, [seq_op(cand)]) is not None
            docs = list(ch[i][1])
            if still(docs):
                docs = shrink_seq(docs, still)
                ck.compare_cases(hcmd, dcmd, [[seq_op(docs)]], label="tie:reuse:" + label, shrink=False)
            else:
                ck.compare_cases(hcmd, dcmd, [[seq_op(ds)] for _, ds in ch], label="tie:reuse:" + label)
        seen = set(v.get("class") for v in ck.violations)
        for i, cls, msg in bad:
            if cls in seen:
                ck.cov["monitor_hits_not_minimised"] = ck.cov.get("monitor_hits_not_minimised", 0) + 1
                continue
            seen.add(cls)

            def still(cand, cls=cls):
                rc, out, _ = ck.run(hcmd, input_text=seq_op(cand) + "\n", timeout=60)
                ls = out.split("\n")
                j = c02_ref.judge_seq(cand, ls[0]) if ls and ls[0] else ("crash", "")
                return j is not None and j[0] == cls
            docs = list(ch[i][1])
            small = shrink_seq(docs, still) if still(docs) else docs
            rc, out, err = ck.run(hcmd, input_text=seq_op(small) + "\n", timeout=60)
            impl = out.split("\n")[0] if out else "CRASH " + vf.san_summary(err)
            j = c02_ref.judge_seq(small, impl) or (cls, msg)
            ck.report("obs", {"label": "monitor:reuse:" + label, "ops": [seq_op(small)], "class": j[0],
                              "monitor": j[1], "documents": [repr(d)[:120] for d in small], "impl": [impl[:600]]})


def float_tokens(rng, n):
    out = [t.encode() for t in FLOATS + BADNUMS]
    for _ in range(n):
        out.append(gen_number(rng))
        t = bytearray(gen_number(rng))
        if t and rng.chance(1, 2):
            t[rng.below(len(t))] = rng.choice(b"0123456789+-.eE")
        out.append(bytes(t))
    return [t for t in out if t and all(c in b"0123456789+-.eE" for c in t) and len(t) < 100]


def maxdepth_reuse(ck):
    return ck.scale(16, 64)


def timing(ck):
    """linear-time clause: parse time per byte on 1 / 2 / 4 MiB inputs of seven shapes (non-sanitised
    build; sizes beyond the cache cliff so that the per-byte cost is flat for a linear parser); alarm
    only on gross super-linearity (quadratic behaviour gives a per-byte ratio of 4)"""
    exe = ck.cc(os.path.join(ck.bdir, "h_time"), [os.path.join(vf.HARNESS, PID, "h.c")] + REPO_SRCS,
                san=False, libs=["-lm"])
    best = {}
    worst = 0.0
    rc = 0
    for attempt in range(6):
        rc, out, err = ck.run([exe, "--time"], timeout=600)
        for line in out.split("\n"):
            m = re.match(r"time kind=(\d+) (.*)", line)
            if not m:
                continue
            for a, b in (p.split(":") for p in m.group(2).split()):
                k = (int(m.group(1)), int(a))
                best[k] = min(best.get(k, 1e9), float(b))
        rows = {}
        worst = 0.0
        for kind in sorted(set(k for k, _ in best)):
            pts = sorted((n, t) for (k, n), t in best.items() if k == kind)
            rows["kind%d" % kind] = ["%d:%.4fs" % p for p in pts]
            (n0, t0), (n2, t2) = pts[0], pts[-1]
            if t0 > 0.0005:
                worst = max(worst, (t2 / n2) / (t0 / n0))
        if rc != 0 or worst <= 2.0:
            break               # minima over repeated runs: scheduling noise only ever adds time
    ck.cov["linear_time"] = {"points": rows, "worst_per_byte_ratio_4MiB_vs_1MiB": round(worst, 2)}
    if rc != 0 or len(rows) < 7:
        ck.report("obs", {"label": "timing", "ops": ["h --time"], "class": "timing-run",
                          "monitor": "timing run failed rc=%d %s" % (rc, vf.san_summary(err))})
    elif worst > 2.8:
        ck.report("obs", {"label": "timing", "ops": ["h --time"], "class": "super-linear",
                          "monitor": "time per byte grows %.1fx from 1 MiB to 4 MiB: %r" % (worst, rows)})


def run(ck):
    hcmd, dcmd = build(ck)
    ck.level = "proof"
    ck.cov["trusted_base"] = [
        "Lean 4.33.0 kernel; axioms of the property theorems: subset of propext, Quot.sound, Classical.choice (audited this run)",
        "T-tie: harness/C02/extract.c (compiled against the working tree's json.c) + checks/c02_gen.py render the tables the model and the theorems use",
        "C-tie: model lean/Usual/C02/{Parse,Float}.lean vs usual/json.c by the differential run drv_c02 / harness/C02/h.c "
        "(generator, canonical dump and comparison in checks/C02.py)",
        "strtod: a parameter of the theorems; the driver's instance (exact big-integer rounding) and glibc's are compared on every float, tested not proved",
        "crit-bit dict = sorted duplicate-refusing map: property C06; utf8_validate_seq / utf8_put_char models: property C11",
        "memory safety: ASan/UBSan on exact-size heap copies; linear time: measured",
        "monitors checks/c02_ref.py (Python json module; recursive-descent recogniser of the accepted language)",
    ]
    ck.assumptions += ["cx_alloc never fails here (allocation failure is property C10)",
                       "C locale (decimal point '.'; isspace = 09..0D, 20)",
                       "strtod of the platform is correctly rounded (glibc)",
                       "object names are at most JSON_MAX_KEY = 1 MiB long (longer names are refused with 'Too large key')"]
    ck.cov["rule"] = ("cases = documents: grammar-generated RFC 8259 texts (random white space incl. \\f\\v, every escape "
                      "spelling, UTF-8 of every length class, number spellings incl. -0, 99/100-byte tokens, 2^53+-1, "
                      "subnormals), each with 3 directed or random mutations (comment, trailing/extra comma, ill-formed "
                      "UTF-8, bad escape, lone surrogate, trailing garbage, raw control byte, number outside the grammar, "
                      "duplicate name, token delete/duplicate/swap, truncate, byte flip, byte insert), raw random bytes, all "
                      "truncations of some documents; every document x (4 option sets via json_set_options + a context "
                      "on which json_set_options is never called = documented default) x 4 pool sizes; sequences of 2..4 "
                      "documents on ONE context (every directed failure that leaves containers open / a key pending / a "
                      "half-read token x every follow-up document; random histories of mutants, truncations and valid "
                      "documents; plus per sequence: default context -> parse -> json_set_options(i % 4) -> parse ...), "
                      "each parse judged on its own; objects with degenerate name sets (crit-bit chains a^i b, a^(i+1), "
                      "one-bit-set / one-bit-cleared stems; 63..67, 100, 130, 200 names; ascending / descending / shuffled; "
                      "nested; every accepted tree is iterated completely and rendered); distinct = distinct byte string / sequence")
    rng = vf.SplitMix(ck.seed)
    intensify = not ck.proof_ok
    with ProcessPoolExecutor(NPROC) as pool:
        corpus, corpus_seqs = [], []
        unhex = lambda h: bytes.fromhex(h) if h != "-" else b""
        for c in vf.corpus_cases(PID):
            for l in c:
                w = l.split()
                if len(w) == 2 and w[0] == "d":
                    corpus.append(("corpus", unhex(w[1])))
                elif len(w) >= 2 and w[0] == "s":
                    corpus_seqs.append(("corpus", [unhex(h) for h in w[1:]]))
        run_docs(ck, hcmd, dcmd, corpus, "corpus", pool)
        run_seqs(ck, hcmd, dcmd, corpus_seqs, "corpus", pool)
        ck.cov["corpus_documents"] = len(corpus)
        ck.cov["corpus_sequences"] = len(corpus_seqs)
        # one context, several parses: every directed failure x every follow-up, then random histories
        directed = [("reuse-directed", [a, b]) for a in OPEN_FAILS for b in AFTER]
        directed += [("reuse-directed", [b, a, b2]) for a in OPEN_FAILS[:12] for b in AFTER[:4] for b2 in AFTER[:4]]
        run_seqs(ck, hcmd, dcmd, directed, "directed", pool)
        run_seqs(ck, hcmd, dcmd, gen_seqs(rng, ck.scale(8000, 250000), maxdepth_reuse(ck)), "random", pool)
        deep = degenerate_objects(rng, ck.scale([63, 64, 65, 66, 67, 100, 130, 200], [63, 64, 65, 66, 67, 68, 100, 129, 130, 200, 400]))
        run_docs(ck, hcmd, dcmd, deep, "deep-dict", pool, chunk=24)
        ck.cov["deep_dict_documents"] = len(deep)
        run_docs(ck, hcmd, dcmd, token_strings(ck.scale(4, 6)), "token-strings", pool, chunk=6000)
        run_docs(ck, hcmd, dcmd, table_probes(3 if (intensify or not ck.quick()) else 2), "table-probes", pool, chunk=6000)
        n = ck.scale(60000, 2000000) * (2 if intensify and ck.quick() else 1)
        maxdepth = ck.scale(64, 600)
        done = 0
        batch = 60000
        while done < n and len(ck.violations) < 8:
            docs = gen_docs(rng, min(batch, n - done), maxdepth)
            if done == 0:
                for tag, d in docs[:4]:
                    ck.sample("%s: %r" % (tag, d[:80]))
            run_docs(ck, hcmd, dcmd, docs, "random", pool)
            done += len(docs)
        # strtod model vs the platform's strtod on number tokens
        toks = float_tokens(rng, ck.scale(20000, 400000))
        cases = [["f " + vf.hexs(t)] for t in toks]
        for ch in vf.chunks(cases, 20000):
            ck.compare_cases(hcmd, dcmd, ch, label="strtod")
        ck.cov["strtod_tokens"] = len(toks)
    timing(ck)


def replay(ck, path):
    import json as _json
    hcmd, dcmd = build(ck)
    r = _json.load(open(path))
    rc = 0
    for op in r.get("ops", []):
        w = op.split()
        if len(w) >= 2 and w[0] in ("d", "s"):
            docs = [bytes.fromhex(h) if h != "-" else b"" for h in w[1:]]
            _, out, err = ck.run(hcmd, input_text=op + "\n", timeout=60)
            impl = out.split("\n")[0] if out else "CRASH " + vf.san_summary(err)
            j = c02_ref.judge(docs[0], impl) if w[0] == "d" else c02_ref.judge_seq(docs, impl)
            vf.log("documents on one context: %r" % [d[:120] for d in docs])
            vf.log("monitor : %s" % ("ok" if j is None else "%s: %s" % j))
            if j is not None:
                rc = 1
    rc2 = vf.generic_replay(ck, path, hcmd, dcmd)
    if rc and not rc2:
        vf.log(f"VIOLATION property={ck.pid} replay={path}")
    return 1 if (rc or rc2) else 0
