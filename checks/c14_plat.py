"""C14: classes of TOLERATED compat-vs-platform differences.

Every difference between a compat replacement and the glibc function (logged by harness/C14/h.c)
must fall into exactly one class below, and a class is keyed to the precise CONDITION (pattern
shape, argument shape, direction of the difference) that its justification speaks about — never to
a flag or a function as a whole.  Anything else is UNCLASSIFIED and makes the check fail
(`no-failing-input-found`: the Lean model is still the judge of values, but an unexplained platform
difference must be looked at: F41 had been sitting in such a bucket).

Justification kinds:
  documented   the library's own source/header documents the difference
  posix-right  POSIX makes the LIBRARY right, the platform is stricter/quirky
  unspecified  POSIX leaves the case unspecified/undefined; both behaviours conform

KNOWN FINDINGS are NOT tolerated classes: for collating symbols / equivalence classes in fnmatch and
for basename the PLATFORM FUNCTION IS THE ORACLE.  `oracle_report` turns every difference there into
a report; exactly the shapes of K2 and K3 match the entries of known_findings.json (class + the
pinned fields), anything else (a collating symbol that matches wrongly, a cut at another length, a
different result) is a VIOLATION.
"""
CLASS_NAMES = (b"alnum", b"alpha", b"blank", b"cntrl", b"digit", b"graph", b"lower", b"print", b"punct",
               b"space", b"upper", b"xdigit")

CLASSES = {
    "fnmatch/unknown-class-name": (
        "unspecified", "bracket expression contains `[:name:]` with a name that is not one of the twelve classes; "
        "compat: never matches (match_class: `if (wct == (wctype_t)0) return NULL;`, theorem "
        "unknown_class_never_matches), glibc reads the characters literally. POSIX XBD 9.3.5: class expressions "
        "are recognised 'in those locales where the name keyword has been given a charclass definition'; an "
        "undefined name makes the bracket expression invalid (regcomp: REG_ECTYPE), fnmatch has no defined result"),
    "fnmatch/unterminated-[.-[=-[:": (
        "unspecified", "inside a bracket expression `[.`, `[=` or `[:` is opened but not closed by `.]`/`=]`/`:]`; "
        "compat takes the `[` as a member (match_class `goto parse_fail`), glibc rejects. POSIX XBD 9.3.5: such a "
        "bracket expression is invalid; XCU 2.13.1 only defines `[` when it 'introduces a bracket expression'"),
    "fnmatch/backslash-in-bracket": (
        "documented", "a backslash is used as escape inside a bracket expression without FNM_NOESCAPE. fnmatch.c, "
        "'Differences from POSIX': '\\ is escape in bracket expression, unless FNM_NOESCAPE is given.'"),
    "fnmatch/escaped-slash-with-PATHNAME": (
        "posix-right", "FNM_PATHNAME without FNM_NOESCAPE and the pattern contains `\\/`. POSIX XCU 2.13.1: 'A "
        "<backslash> character shall escape the following character. The escaping <backslash> shall be discarded.' "
        "and 2.13.3: the slash 'shall be explicitly matched by using one or more <slash> characters in the pattern': "
        "`\\/` IS an explicit slash (theorem fnmatch_code_sound_complete); glibc does not see the escaped slash"),
    "fnmatch/PERIOD-without-leading-period": (
        "posix-right", "FNM_PERIOD, compat matches, glibc does not, and the subject has NO leading period (none at "
        "the start, none after `/` under FNM_PATHNAME; the tail ignored by FNM_LEADING_DIR does not count). POSIX XCU 2.13.3 restricts only a period a filename 'begins "
        "with'; with no leading period FNM_PERIOD cannot turn a match into a non-match (glibc 2.36 keeps its "
        "no-leading-period state across `*`, e.g. `*?[!a]` vs `a.`)"),
    "fnmatch/pattern-not-a-character-string": (
        "unspecified", "the pattern is not valid in the locale's encoding (UTF-8); compat answers FNM_NOMATCH with EILSEQ "
        "(fnmatch.c: `if (!wpat) return (errno == EILSEQ) ? FNM_NOMATCH : -1;`), glibc falls back to byte matching. "
        "POSIX fnmatch/XCU 2.13 define matching on characters; a byte string that is not a character string has no "
        "defined result"),
    "fnmatch/string-cut-inside-a-character": (
        "unspecified", "pattern or subject is valid UTF-8 up to a last character that is cut short (`a\\xc3`); compat "
        "drops the partial character (wchar.c mbstr_decode takes the count mbsnrtowcs returns: `if (clen >= 0) { ... "
        "dst[clen] = 0; return dst; }`, the same as with the platform's mbsnrtowcs), glibc falls back to byte matching. "
        "Not a character string: POSIX defines no result (before F43 compat answered -1 or FNM_NOMATCH depending "
        "on the caller's errno)"),
    "fnmatch/multibyte-character-is-one-character": (
        "posix-right", "the subject is valid UTF-8 with a multibyte character, the pattern has `?` or a bracket, compat "
        "says no match and glibc 2.36 matches (it retries bytewise: `??` matches U+00E9). POSIX XCU 2.13.1: '?  A "
        "<question-mark> is a pattern that shall match any character' - one character, not one byte"),
    "dirname/two-leading-slashes": (
        "unspecified", "path begins with exactly two slashes and the directory part is `//`; compat gives `/`, "
        "glibc `//`. POSIX dirname utility step 6: 'If the remaining string is //, it is implementation-defined "
        "whether steps 7 and 8 are skipped'; string.h: compat dirname 'Return directory part of pathname'"),
    "dirname/result-over-1023-bytes": (
        "documented", "directory part longer than the static buffer; compat returns NULL with ENAMETOOLONG "
        "(string.c: `if (len > sizeof(buf) - 1) { errno = ENAMETOOLONG; return NULL; }`; string.h: 'returns either "
        "pointer inside path or static buffer'), glibc edits the argument in place"),
    "inet_pton4/leading-zeros": (
        "posix-right", "every field has one to three digits, value <= 255, at least one field has a leading zero; "
        "compat accepts, glibc rejects. POSIX inet_pton: 'ddd.ddd.ddd.ddd where \"ddd\" is a one to three digit "
        "decimal number between 0 and 255' (theorem pton4_spec)"),
    "inet_pton6/dotted-quad-leading-zeros": (
        "posix-right", "the trailing dotted quad of an IPv6 text has a field with a leading zero (one to three "
        "digits); same sentence of POSIX inet_pton as for AF_INET (theorem pton6_spec: the tail is what inet_pton4 "
        "accepts)"),
}


# name -> (known-finding id, monitor class, description)
ORACLE = {
    "fnmatch/collating-or-equivalence": (
        "K2", "platform-oracle:collating",
        "pattern has a well-formed `[.x.]` or `[=x=]` inside a bracket expression (fnmatch.c match_class: "
        "`if (p[1] != ':') return NULL;` - the expression never matches; POSIX XBD 9.3.5 requires collating symbols "
        "and equivalence classes; not among the differences listed at the top of fnmatch.c)"),
    "basename": (
        "K3", "platform-oracle:basename",
        "any basename result different from the platform's (string.c basename: `if (len > sizeof(buf) - 1) len = "
        "sizeof(buf) - 1;` cuts a component longer than 255 bytes that is followed by `/` to its last 255 bytes)"),
}


def oracle_report(cname, op, compat, glibc):
    """the replay dict for a difference in an oracle class; the fields are what known_findings.json pins"""
    w = op.split(" ")
    if cname == "fnmatch/collating-or-equivalence":
        pat = _dec(w[1])
        return {"label": "platform-oracle", "class": ORACLE[cname][1], "ops": [op],
                "impl": ["fnmatch=" + compat], "platform": ["fnmatch=" + glibc],
                "pattern": repr(pat)[2:-1]}
    path = _dec(w[1]) if w[1] != "null" else b""
    comp = path.rstrip(b"/").rsplit(b"/", 1)[-1]
    return {"label": "platform-oracle", "class": ORACLE[cname][1], "ops": [op],
            "trailing_slash": path.endswith(b"/"), "component_over_255": len(comp) > 255,
            "impl_len": len(compat), "platform_len": len(glibc),
            "impl_is_last_255_of_platform": len(glibc) > 255 and compat == glibc[-255:],
            "platform_is_component": glibc.encode("utf-8", "replace") == comp}


def _dec(h):
    return b"" if h == "-" else bytes.fromhex(h)


def bracket_events(pat, noescape):
    """walk the pattern the way wfnmatch/match_class do and report what happens inside brackets"""
    ev = set()
    i, n = 0, len(pat)
    while i < n:
        c = pat[i:i + 1]
        if c == b"\\" and not noescape:
            i += 2
            continue
        if c != b"[":
            i += 1
            continue
        j = i + 1
        if pat[j:j + 1] in (b"!", b"^"):
            j += 1
        start = j
        closed = None
        while True:
            if pat[j:j + 1] == b"[" and pat[j + 1:j + 2] in (b":", b".", b"="):
                x = pat[j + 1:j + 2]
                k = pat.find(x, j + 2)
                if k < 0 or pat[k + 1:k + 2] != b"]":
                    ev.add("open-unterminated")
                else:
                    if x != b":":
                        ev.add("coll")
                        return ev
                    if pat[j + 2:k] not in CLASS_NAMES:
                        ev.add("badclass")
                        return ev
                    j = k + 2
                    continue
            if j >= n:
                break                                   # unterminated: '[' is literal
            if pat[j:j + 1] == b"]" and j != start:
                closed = j + 1
                break
            if pat[j:j + 1] == b"\\" and not noescape:
                ev.add("bs")
                if j + 1 >= n:
                    return ev
                j += 1
            if pat[j + 1:j + 2] == b"-" and pat[j + 2:j + 3] not in (b"]", b""):
                # `[.`, `[=`, `[:` as the END of a range and never closed (`[a-[.]`): same shape as above
                if pat[j + 2:j + 3] == b"[" and pat[j + 3:j + 4] in (b":", b".", b"="):
                    x = pat[j + 3:j + 4]
                    k = pat.find(x, j + 4)
                    if k < 0 or pat[k + 1:k + 2] != b"]":
                        ev.add("open-unterminated")
                if pat[j + 2:j + 3] == b"\\" and not noescape:
                    ev.add("bs")
                    j += 1
                j += 3
            else:
                j += 1
        i = closed if closed is not None else i + 1
    return ev


def _has_leading_period(pat, subj, pathname, leading_dir):
    """a period at the start of the part of the subject that is matched, or after a slash in it under
    FNM_PATHNAME.  Under FNM_PATHNAME|FNM_LEADING_DIR the matched part has as many slashes as the pattern
    (wildcards never match one); the ignored tail is not a filename the pattern is matched against"""
    if not pathname:
        return subj.startswith(b".")
    if leading_dir:
        subj = b"/".join(subj.split(b"/")[:pat.count(b"/") + 1])
    return subj.startswith(b".") or b"/." in subj


def _quad_fields(txt):
    f = txt.split(b".")
    if len(f) != 4 or any(not x.isdigit() for x in f):
        return None
    return f


def classify(fn, op, compat, glibc):
    w = op.split(" ")
    if fn == "fnmatch":
        pat, subj, fl = _dec(w[1]), _dec(w[2]), int(w[3])
        pathname, noescape, period = bool(fl & 1), bool(fl & 2), bool(fl & 4)
        if _cut_utf8(pat) or (_valid_utf8(pat) and _cut_utf8(subj)):
            return "fnmatch/string-cut-inside-a-character"
        if not _valid_utf8(pat):
            return "fnmatch/pattern-not-a-character-string" if compat == "1" else "UNCLASSIFIED"
        ev = bracket_events(pat, noescape)
        if "coll" in ev:
            return "fnmatch/collating-or-equivalence"          # oracle class: see oracle_report
        if "badclass" in ev and compat == "1" and glibc == "0":
            return "fnmatch/unknown-class-name"
        if "open-unterminated" in ev:
            return "fnmatch/unterminated-[.-[=-[:"
        if "bs" in ev:
            return "fnmatch/backslash-in-bracket"
        if pathname and not noescape and b"\\/" in pat:
            return "fnmatch/escaped-slash-with-PATHNAME"
        if period and compat == "0" and glibc == "1" and not _has_leading_period(pat, subj, pathname, bool(fl & 16)):
            return "fnmatch/PERIOD-without-leading-period"
        if compat == "1" and glibc == "0" and _valid_utf8(subj) and any(x >= 0x80 for x in subj) \
                and (b"?" in pat or b"[" in pat):
            return "fnmatch/multibyte-character-is-one-character"
        return "UNCLASSIFIED"
    if fn == "dirname":
        path = _dec(w[1]) if w[1] != "null" else b""
        if compat == "/" and glibc == "//" and path.startswith(b"//") and not path.startswith(b"///"):
            return "dirname/two-leading-slashes"
        if compat == "(null)" and len(glibc) > 1023:
            return "dirname/result-over-1023-bytes"
        return "UNCLASSIFIED"
    if fn == "basename":
        return "basename"                                      # oracle class: see oracle_report
    if fn == "inet_pton":
        txt = _dec(w[2])
        if compat == "1" and glibc == "0":
            if w[1] == "4":
                f = _quad_fields(txt)
                if f and all(len(x) <= 3 and int(x) <= 255 for x in f) and any(len(x) > 1 and x[:1] == b"0" for x in f):
                    return "inet_pton4/leading-zeros"
            if w[1] == "6" and b":" in txt:
                f = _quad_fields(txt.rsplit(b":", 1)[1])
                if f and all(len(x) <= 3 and int(x) <= 255 for x in f) and any(len(x) > 1 and x[:1] == b"0" for x in f):
                    return "inet_pton6/dotted-quad-leading-zeros"
        return "UNCLASSIFIED"
    return "UNCLASSIFIED"


def _valid_utf8(b):
    try:
        b.decode("utf-8")
        return True
    except UnicodeDecodeError:
        return False


def _cut_utf8(b):
    """valid UTF-8 followed by a lead byte and fewer continuation bytes than it announces"""
    for k in (1, 2, 3):
        t = b[-k:]
        if len(t) == k and _valid_utf8(b[:-k]):
            need = 2 if 0xc2 <= t[0] < 0xe0 else 3 if 0xe0 <= t[0] < 0xf0 else 4 if 0xf0 <= t[0] < 0xf5 else 0
            if need > k and all(0x80 <= x < 0xc0 for x in t[1:]):
                return True
    return False
