"""C04 — internal regex (usual/regex.c): POSIX leftmost-longest matching.

Level "other" (DESIGN §8.1: exploration with a *proved* oracle).
proof : lean/UsualProofs/Props/C04.lean proves the REFERENCE (lean/Usual/C04/Regex.lean):
        `ends` is sound and complete for the declarative semantics `Matches`, `llmatch` is exactly
        the leftmost-longest answer, and the parser models invert the renderers on the
        full supported syntax (bracket expressions rendered from their bitmaps).  Nothing is proved about the C back-tracking matcher.
T-tie : lean/Usual/Gen/C04Tab.lean (error codes, flag bits, MAX_COUNT, MAX_GROUPS, ctype_list
        names) is regenerated from usual/regex.[ch] on every run (c04_gen.py).
C-tie : harness/C04/h.c (internal regex forced with -DUSE_INTERNAL_REGEX, exact-size heap
        strings, ASan+UBSan, calloc/free accounting, per-exec alarm) against lean/Driver/C04.lean:
        regcomp rc / re_nsub / regexec rc / pmatch[0] are compared with the model; pmatch[1..]
        is monitored with the sub-match clause and compared with the AT&T answers (labelled test).
"""
import os
import re
import itertools
import concurrent.futures
import vf
import c04_gen

PID = "C04"
PROP_MODULES = ["UsualProofs.Props.C04", "UsualProofs.Bridge.C04"]
SRCS = ["repo:usual/regex.c", "repo:usual/mempool.c"]
# full ASan+UBSan (vf.SAN_FLAGS): the unchanged regex.c trips UBSan on memset(NULL, -1, 0) in
# regexec(nmatch=0, pmatch=NULL) and on `1 << 31` in class_set/class_isset -> fix F35
CFLAGS = ["-DUSE_INTERNAL_REGEX", "-Wl,--wrap=calloc,--wrap=free"]
ALARM_MS = 5000
NPROC = 16

EXT, ICASE, NOSUB, NEWLINE = 1, 2, 4, 8
NOTBOL, NOTEOL = 16, 32
ATT_FILES = ["basic.dat", "categorize.dat", "nullsubexpr.dat", "rightassoc.dat",
             "forcedassoc.dat", "repetition.dat", "interpretation.dat"]   # run.sh; leftassoc.dat is excluded upstream
CODE_NAMES = {1: "NOMATCH", 2: "BADBR", 3: "BADPAT", 4: "BADRPT", 5: "EBRACE", 6: "EBRACK", 7: "ECOLLATE",
              8: "ECTYPE", 9: "EESCAPE", 10: "EPAREN", 11: "ERANGE", 12: "ESPACE", 13: "ESUBREG"}


def gen_tables(ck):
    path = os.path.join(vf.LEAN, "Usual", "Gen", "C04Tab.lean")
    try:
        txt, vals, names = c04_gen.generate(vf.REPO)
    except Exception as e:
        ck.broken.append("T-tie: cannot regenerate regex tables: %r" % (e,))
        ck.proof_ok = False
        return
    changed = vf.write_if_changed(path, txt)
    ck.cov["tables_regenerated"] = True
    ck.cov["tables_equal_committed"] = (vf.git_committed("lean/Usual/Gen/C04Tab.lean") == txt)
    ck.cov["tables_rewritten_this_run"] = changed


def build(ck):
    ck.forbid_scan()
    gen_tables(ck)
    ck.build_proofs(PROP_MODULES, driver="drv_c04")
    h = ck.cc(os.path.join(ck.bdir, "h"), [os.path.join(vf.HARNESS, PID, "h.c")] + SRCS, flags=CFLAGS)
    return [h, str(ALARM_MS)], [ck.driver_path("drv_c04")]


# =========================================================================== trees
# ('e',) ('c',byte) ('.',) ('cls',src) ('^',) ('$',) ('cat',a,b) ('alt',a,b) ('rep',a,m,n|None) ('grp',a)
SPECIAL_E = b"()|*?+[{.^$\\"
SPECIAL_B = b".^$*[\\"


def has(t, kind):
    return t[0] == kind or any(isinstance(x, tuple) and has(x, kind) for x in t[1:])


def nodes(t):
    return 1 + sum(nodes(x) for x in t[1:] if isinstance(x, tuple))


def quant(m, n, ere):
    if (m, n) == (0, None):
        return b"*"
    if ere and (m, n) == (1, None):
        return b"+"
    if ere and (m, n) == (0, 1):
        return b"?"
    body = b"%d" % m if n == m else (b"%d," % m if n is None else b"%d,%d" % (m, n))
    return (b"{" + body + b"}") if ere else (b"\\{" + body + b"\\}")


def render(t, ere):
    """concrete syntax; inserts groups where the grammar needs them.  BRE has no alternation
    (caller skips those trees) and anchors are only anchors at the start / end of a
    (sub)pattern, so they are wrapped in a group elsewhere."""
    lp, rp = (b"(", b")") if ere else (b"\\(", b"\\)")

    def grp(x):
        return lp + (b"" if x[0] == "e" else body(x)) + rp

    def body(x):               # alternation level (inside a group / whole pattern)
        if x[0] == "alt":
            return branch(x[1], True) + (b"|" if ere else b"\\|") + body(x[2])
        return branch(x, True)

    def flat(x):
        if x[0] == "cat":
            return flat(x[1]) + flat(x[2])
        return [x]

    def branch(x, whole):
        items = flat(x)
        out = b""
        for i, it in enumerate(items):
            out += item(it, i == 0, i == len(items) - 1)
        return out

    def item(x, first, last):
        k = x[0]
        if k == "e":
            return lp + rp
        if k == "c":
            c = bytes([x[1]])
            return (b"\\" + c) if c in (SPECIAL_E if ere else SPECIAL_B) else c
        if k == ".":
            return b"."
        if k == "cls":
            return x[1]
        if k == "^":
            return b"^" if (ere or first) else grp(x)
        if k == "$":
            return b"$" if (ere or last) else grp(x)
        if k == "grp":
            return grp(x[1])
        if k == "alt":
            return grp(x)
        if k == "rep":
            inner = x[1]
            if inner[0] in ("c", ".", "cls"):
                s = item(inner, False, False)
            elif inner[0] == "grp":
                s = grp(inner[1])
            else:
                s = grp(inner)
            return s + quant(x[2], x[3], ere)
        raise ValueError(k)

    return body(t)


def unbounded_depth(t):
    """nesting depth of repetitions that can iterate more than twice over a non-atomic body
    (the back-tracking matcher explores every split of the subject among the iterations)"""
    k = t[0]
    sub = max([unbounded_depth(x) for x in t[1:] if isinstance(x, tuple)] or [0])
    if k == "rep" and (t[3] is None or t[3] >= 2) and t[1][0] not in ("c", ".", "cls"):
        return sub + 1
    return sub


LEAVES_X = [("c", 0x61), ("c", 0x62), ("c", 0x0a), (".",), ("cls", b"[^a]"), ("cls", b"[ab]"), ("^",), ("$",), ("e",)]
REPS_X = [(0, None), (1, None), (0, 1), (2, 2), (1, 2), (2, None), (0, 0)]


def enum_trees(n, memo={}):
    """all trees with exactly n nodes"""
    if n in memo:
        return memo[n]
    if n == 1:
        out = list(LEAVES_X)
    else:
        out = []
        for s in enum_trees(n - 1):
            out.append(("grp", s))
            for m, k in REPS_X:
                out.append(("rep", s, m, k))
        for i in range(1, n - 1):
            for a in enum_trees(i):
                for b in enum_trees(n - 1 - i):
                    out.append(("cat", a, b))
                    out.append(("alt", a, b))
    memo[n] = out
    return out


def subjects(alpha, maxlen):
    out = []
    for n in range(maxlen + 1):
        for x in itertools.product(alpha, repeat=n):
            out.append(bytes(x))
    return out


CLS_MENU = [b"[ab]", b"[^a]", b"[a-b]", b"[^ab]", b"[[:alpha:]]", b"[^[:space:]]", b"[]a]", b"[^]b]", b"[a-]",
            b"[[:upper:]b]", b"[[:digit:][:lower:]]", b"[\xe0-\xef]", b"[^\n]", b"[A-B]", b"[-a]", b"[[:punct:]]",
            b"[[:xdigit:]]", b"[[:blank:][:cntrl:]]", b"[[:graph:]]", b"[[:print:]]", b"[[:alnum:]_]", b"[a]"]
CHARS_R = [0x61, 0x62, 0x0a, 0x41, 0xe9, 0x2e, 0x2a, 0x5e, 0x24, 0x7c, 0x28, 0x29, 0x5b, 0x5d, 0x7b, 0x7d, 0x5c,
           0x2b, 0x3f, 0x2d, 0x20, 0x31, 0x42]
REPS_R = REPS_X + [(0, 2), (2, 3), (3, None), (1, 1), (0, 3), (3, 3)]


def rand_tree(rng, budget):
    if budget <= 1 or rng.chance(1, 4):
        k = rng.below(100)
        if k < 45:
            return ("c", rng.choice(CHARS_R[:5]) if rng.chance(4, 5) else rng.choice(CHARS_R))
        if k < 58:
            return (".",)
        if k < 80:
            return ("cls", rng.choice(CLS_MENU))
        if k < 88:
            return ("^",)
        if k < 96:
            return ("$",)
        return ("e",)
    k = rng.below(100)
    if budget >= 5 and rng.chance(1, 5):
        # a repeated group followed by something that overlaps with it
        a = 1 + rng.below(min(3, budget - 3))
        m, n = rng.choice(REPS_R)
        head = ("rep", ("grp", rand_tree(rng, a)), m, n)
        tail = rand_tree(rng, budget - 3 - a) if budget - 3 - a >= 1 else ("c", 0x61)
        if rng.chance(1, 2):
            tail = ("rep", ("grp", tail), 0, 1)
        return ("cat", head, tail)
    if k < 35:
        a = 1 + rng.below(budget - 1)
        return ("cat", rand_tree(rng, a), rand_tree(rng, budget - 1 - a))
    if k < 55:
        a = 1 + rng.below(budget - 1)
        return ("alt", rand_tree(rng, a), rand_tree(rng, budget - 1 - a))
    if k < 88:
        m, n = rng.choice(REPS_R)
        return ("rep", rand_tree(rng, budget - 1), m, n)
    return ("grp", rand_tree(rng, budget - 1))


def rep_group_tail_trees():
    """grammar-directed family: a REPEATED GROUP followed by an optional / overlapping tail.  The
    matcher must weigh `k+1 iterations, short tail` against `k iterations, longer tail`
    (match_gend: one more repeat AND the continuation from the shorter point) — the case
    `rep (group …)` that cmatch_refines_llmatch does not cover yet."""
    A = [("c", 0x61), ("c", 0x62), (".",)]
    bodies = list(A)
    bodies += [("cat", x, y) for x in A for y in A]
    bodies += [("alt", x, y) for x in A for y in A if x != y]
    bodies += [("alt", x, ("cat", x, y)) for x in A for y in A]
    bodies += [("alt", ("cat", x, y), x) for x in A for y in A]
    bodies += [("cat", ("rep", ("grp", x), 1, 2), y) for x in A for y in A]          # nested one level
    bodies += [("cat", ("rep", ("grp", x), 0, None), y) for x in A[:2] for y in A]
    counts = [(0, None), (1, None), (0, 1), (1, 2), (2, 2), (0, 2), (2, None), (1, 3)]
    tails = [None]
    tails += [("rep", ("grp", ("cat", x, y)), 0, 1) for x in A for y in A]             # (xy)?
    tails += [("cat", ("rep", x, 0, 1), y) for x in A for y in A]                      # x?y
    tails += [("rep", x, 0, 2) for x in A]                                             # x{0,2}
    tails += [("grp", ("alt", x, ("cat", x, y))) for x in A for y in A]                # (x|xy)
    tails += [("grp", ("alt", ("cat", x, y), x)) for x in A for y in A]                # (xy|x)
    tails += [("rep", ("grp", ("alt", x, ("cat", x, y))), 0, None) for x in A[:2] for y in A[:2]]   # (x|xy)*
    tails += [("cat", ("rep", ("grp", ("cat", x, y)), 0, 1), x) for x in A[:2] for y in A[:2]]      # (xy)?x
    out = []
    for b in bodies:
        for (m, n) in counts:
            head = ("rep", ("grp", b), m, n)
            for t in tails:
                out.append(head if t is None else ("cat", head, t))
    return out


CLASS_NAMES = ["alnum", "alpha", "blank", "cntrl", "digit", "graph", "lower", "print", "punct", "space", "upper", "xdigit"]


def class_sweep_lines(names):
    """every named class of ctype_list (plain, negated, next to other members, two classes in one bracket), in ERE and
    BRE, with and without REG_ICASE / REG_NEWLINE, against EVERY one-byte subject 1..255 and strings that sweep the
    ASCII range: the model's class tables (POSIX "C" locale, lean/Usual/C04/Parse.lean classPred) vs. the ctype
    functions regex.c calls (the library's own wrappers in usual/ctype.h)"""
    single = [bytes([b]) for b in range(1, 256)]
    ctl = bytes(list(range(1, 32)) + [127])
    sweeps = [bytes(range(1, 128)), bytes(range(127, 0, -1)), ctl, b"a\tb", b"a\nb", b"a\x0bb", b"a\x0cb", b"a\rb",
              b"a\x1cb", b"a\x1db", b"a\x1eb", b"a\x1fb", b"a\x7fb", b"a b", b"@[`{/:", b"AZaz09", b"GgFf", b"\x0b\x0c",
              b"_-~!", bytes(range(128, 256))]
    lines = []
    for nm in names:
        c = b"[:" + nm.encode() + b":]"
        for cf in (EXT, EXT | ICASE, EXT | NEWLINE, EXT | ICASE | NEWLINE, 0, ICASE):
            for pat in (b"[" + c + b"]", b"[^" + c + b"]", b"[" + c + b"_]", b"[^_" + c + b"]"):
                lines.append(xline(cf, pat, [0, 1], [0], single))
            rep1 = b"+" if cf & EXT else b"\\{1,\\}"
            for pat in (b"[" + c + b"]" + rep1, b"[^" + c + b"]" + rep1, b"a[" + c + b"]b", b"a[^" + c + b"]b",
                        b"^[" + c + b"]*$"):
                lines.append(xline(cf, pat, [1, "m"], [0], sweeps))
    for i, a in enumerate(names):           # two classes in one bracket expression
        b2 = names[(i + 5) % len(names)]
        pat = b"[[:" + a.encode() + b":][:" + b2.encode() + b":]]"
        for cf in (EXT, EXT | ICASE):
            lines.append(xline(cf, pat, [1], [0], single))
            lines.append(xline(cf, b"[^" + pat[1:], [1], [0], single))
    return lines


LONG_QUICK = [32766, 32767, 32768, 32770]
LONG_MORE = [40000, 70000]


def long_subject_lines(thorough):
    """subjects around and beyond MAX_COUNT = 32767 bytes: `*`, `+`, `{m,}` on a literal, `.` or a bracket expression
    are UNBOUNDED (the op stores the sentinel MAX_COUNT, SIMPLE_MAXCNT() widens it in match_char/any/class); the
    reference and the matcher model say what POSIX says.  Restricted to repetitions of simple atoms (and one group
    iteration around them), where reference and model are linear; every case matches at start 0 or fails in O(n)
    (no quadratic start scan).  cmatch_refines_llmatch is proved for |subject| < 32767 only: beyond that the
    correspondence run is the only evidence."""
    lines = []
    A = lambda n: b"a" * n
    for ere in (1, 0):
        plus = b"+" if ere else b"\\{1,\\}"
        two = b"{2,}" if ere else b"\\{2,\\}"
        near = (b"{32766}" if ere else b"\\{32766\\}", b"{2,32766}" if ere else b"\\{2,32766\\}")
        grp = (b"(a*)" if ere else b"\\(a*\\)")
        fam = [  # (pattern, subject builder)
            (b"a*", A), (b"a" + plus, A), (b"^a" + plus + b"$", A), (b"^a" + plus + b"$", lambda n: A(n) + b"b"),
            (b"a*b", lambda n: A(n) + b"b"), (b"a*b", lambda n: A(n) + b"bbb"), (b"a*b*", lambda n: A(n) + b"b" * 40),
            (b"x.*y", lambda n: b"x" + A(n) + b"y"), (b"x.*y", lambda n: b"x" + A(n)), (b"x.*", lambda n: b"x" + A(n - 1) + b"\n" + A(5)),
            (b"[ab]*c", lambda n: A(n // 2) + b"b" * (n - n // 2) + b"c"), (b"[^b]*", A), (grp, A), (grp + b"b", lambda n: A(n) + b"b"),
            (b"a" + two, A), (b"A" + two, A), (b"a" + near[0], A), (b".", A)]
        fam += [(b"." + near[0] + b"$", lambda n: A(min(n, 32770))), (b"[ab]" + near[1] + b"c", lambda n: A(min(n, 32770)) + b"c")]
        heavy = (b"a*b*",)          # the list-based reference is slow here: thorough tier only, two lengths
        if not thorough:
            # quick tier: the two lengths at the limit, ERE, the patterns that tell "unbounded" from "32767"
            if ere:
                for pat, mk in fam[:12] + fam[14:15]:
                    if pat not in heavy:
                        lines.append(xline(EXT, pat, [0, 1, 2], [0], [mk(32767), mk(32768)]))
            continue
        for i, (pat, mk) in enumerate(fam):
            lens = LONG_QUICK + (LONG_MORE if ere and i in (0, 4, 7) else [])
            if pat in heavy:
                lens = [32767, 32768]
            subs = [mk(n) for n in lens]
            for cf in ((0, ICASE | NEWLINE) if i % 2 else (0, ICASE)) if i < 6 else (0,):
                lines.append(xline(cf | (EXT if ere else 0), pat, [0, 1, 2], [0], subs))
    return lines


def rand_subject(rng, maxlen):
    n = rng.below(maxlen + 1)
    style = rng.below(4)
    alpha = [[0x61, 0x62], [0x61, 0x62, 0x0a], [0x61, 0x62, 0x0a, 0x41, 0x42, 0xe9],
             [0x61, 0x62, 0x0a, 0x41, 0xe9, 0x2e, 0x2a, 0x5d, 0x2d, 0x20, 0x31, 0x7c, 0x28, 0x5c, 0xe5, 0xff, 0x01]][style]
    return bytes(rng.choice(alpha) for _ in range(n))


def xline(cflags, pat, nms, efs, subjs, op="y"):
    # `y` = `x` + internal projection (whole pmatch arrays vs the Lean model of the C matcher)
    return "%s %d %s %s %s %s" % (op, cflags, vf.hexs(pat), ",".join(str(n) for n in nms),
                                 ",".join(str(e) for e in efs), " ".join(vf.hexs(s) for s in subjs))


# ================================================================= malformed patterns
MALFORMED = [  # (pattern, ere?)  hand-made members of every error class of regerror()
    (b"a{2,1}", 1), (b"a{32767}", 1), (b"a{1,32768}", 1), (b"a{4294967297}", 1), (b"a{-4294967295}", 1),
    (b"a{18446744073709551617}", 1), (b"a{9876543210}", 1), (b"a{1,4294967298}", 1), (b"a{1x}", 1),
    (b"a{1", 1), (b"a{", 1), (b"a{x}", 1), (b"a{,2}", 1), (b"a{1,2", 1), (b"a\\{1", 0), (b"a\\{1,2}", 0),
    (b"a\\{2,1\\}", 0), (b"a\\{4294967297\\}", 0), (b"*", 1), (b"+a", 1), (b"?", 1), (b"{1}", 1), (b"a**", 1),
    (b"a+*", 1), (b"a{1}{2}", 1), (b"^*", 1), (b"$+", 1), (b"(*a)", 1), (b"a|*b", 1), (b"a**", 0), (b"a\\{1\\}*", 0),
    (b"\\{1\\}", 0), (b"a*\\{2\\}", 0), (b"|a", 1), (b"a|", 1), (b"a||b", 1), (b"(|a)", 1), (b"(a|)", 1), (b"()|a", 1),
    (b"(a", 1), (b"((a)", 1), (b"(", 1), (b"\\(a", 0), (b"a\\)", 0), (b"\\(a\\)\\)", 0), (b"\\(", 0),
    (b"[a", 1), (b"[", 1), (b"[]", 1), (b"[^", 1), (b"[^]", 1), (b"[a-", 1), (b"[[:alpha:]", 1), (b"[[:alpha", 1), (b"[[:", 1),
    (b"[a", 0), (b"[[:foo:]]", 1), (b"[[:alphax:]]", 1), (b"[[:ALPHA:]]", 1), (b"[[:alpha:x]]", 1), (b"[[:digit]]", 1),
    (b"[b-a]", 1), (b"[a-b-c]", 1), (b"[--a]", 1), (b"[a-[:alpha:]]", 1), (b"[[:alpha:]-z]", 1), (b"[z-a]", 0),
    (b"[[.a.]]", 1), (b"[[=a=]]", 1), (b"[[.", 1), (b"[a[=b=]]", 0),
    (b"a\\", 1), (b"\\", 1), (b"a\\", 0), (b"\\", 0),
    (b"\\1", 1), (b"(a)\\1", 1), (b"\\a", 1), (b"\\w", 1), (b"\\n", 1), (b"\\b", 0), (b"\\+", 0), (b"\\?", 0),
    (b"\\|", 0), (b"a\\|b", 0), (b"\\}", 0), (b"\\0", 0), (b"\\a", 0), (b"\\{", 0),
    (b"(" * 128 + b"a" + b")" * 128, 1), (b"\\(" * 128 + b"a" + b"\\)" * 128, 0),
]
WELLFORMED_EDGE = [  # accepted corner cases the model must agree on (not malformed)
    (b"a{ 1}", 1), (b"a{+2}", 1), (b"a{1, 2}", 1), (b"a{\t1,\n2}", 1), (b"a{-0}", 1), (b"a{0,32767}", 1), (b"a{32766}", 1),
    (b"a{0,}", 1), (b"a{1,1}", 1), (b"a)", 1), (b")", 1), (b"a]", 1), (b"a}", 1), (b"}", 1), (b"{", 0), (b"a{1}", 0),
    (b"*a", 0), (b"^*a", 0), (b"\\(*a\\)", 0), (b"\\(^*a\\)", 0), (b"a^b", 0), (b"a$b", 0), (b"^^", 0), (b"$$", 0),
    (b"a\\(^b\\)", 0), (b"\\(a$\\)b", 0), (b"a|b", 0), (b"a+", 0), (b"a?", 0), (b"(a)", 0), (b"()", 1), (b"\\(\\)", 0),
    (b"(())", 1), (b"()*", 1), (b"(a*)*", 1), (b"(a|b)*c", 1), (b"[]a]", 1), (b"[^]a]", 1), (b"[a-a]", 1), (b"[]-a]", 1),
    (b"[[a]", 1), (b"[a[]", 1), (b"[[]", 1), (b"[-]", 1), (b"[--]", 1), (b"[a-]", 1), (b"[%--]", 1), (b"[[:alpha:][:digit:]-]", 1),
    (b"[[:upper:]]", 1), (b"[\xe0-\xff]", 1), (b"\\.\\*\\[\\]\\^\\$\\\\", 0), (b"\\(\\)\\|\\{\\.", 1), (b"\\-\\ \\]", 1),
    (b"(" * 127 + b"a" + b")" * 127, 1), (b"$^", 1), (b"a^", 1), (b"$a", 1), (b"(^a)", 1), (b"(a$)", 1), (b"a{0}", 1), (b"(a){0}b", 1),
]
MUT_BYTES = list(b"()|*+?{}[]^$\\.,-:=a1 \n") + [0x80, 0xff, 0x39, 0x5c]


def mutate(rng, pat):
    p = bytearray(pat)
    for _ in range(1 + rng.below(3)):
        k = rng.below(5)
        if k == 0 and p:
            del p[rng.below(len(p))]
        elif k == 1:
            p.insert(rng.below(len(p) + 1), rng.choice(MUT_BYTES))
        elif k == 2 and p:
            p[rng.below(len(p))] = rng.choice(MUT_BYTES)
        elif k == 3 and p:
            i = rng.below(len(p))
            p[i:i] = p[i:i + 1 + rng.below(3)]
        elif p:
            p = p[:rng.below(len(p) + 1)]
    return bytes(b for b in p if b != 0)


# ===================================================================== AT&T table
def c_unescape(s):
    out = bytearray()
    i = 0
    simple = {"n": 10, "t": 9, "r": 13, "a": 7, "b": 8, "f": 12, "v": 11, "e": 27, "\\": 92}
    while i < len(s):
        c = s[i]
        if c == "\\" and i + 1 < len(s):
            d = s[i + 1]
            if d in simple:
                out.append(simple[d]); i += 2; continue
            if d == "x":
                m = re.match(r"[0-9a-fA-F]{1,2}", s[i + 2:])
                if m:
                    out.append(int(m.group(0), 16)); i += 2 + len(m.group(0)); continue
            m = re.match(r"[0-7]{1,3}", s[i + 1:])
            if m:
                out.append(int(m.group(0), 8) & 255); i += 1 + len(m.group(0)); continue
            out.append(ord(d) if ord(d) < 256 else 63); i += 2; continue
        out += c.encode("latin-1", "replace")
        i += 1
    return bytes(out)


def load_att(repo):
    """plain specification lines of the seven files run.sh uses.  Returns (tests, skipped) with
    tests = (file:line, cflags, nmatch, eflags, pattern, subject, expected)."""
    tests, skipped = [], {}

    def skip(why):
        skipped[why] = skipped.get(why, 0) + 1

    for fn in ATT_FILES:
        prev_pat = None
        block = None          # index of the test that heads a `{test ... }` skip-if-failed block
        path = os.path.join(repo, "test/attregex/data", fn)
        for ln, raw in enumerate(open(path, encoding="latin-1").read().split("\n"), 1):
            if not raw.strip() or raw.startswith("#"):
                continue
            f = [x for x in raw.split("\t") if x != ""]
            spec = f[0]
            m = re.match(r"^:[^:]*:(.*)$", spec)
            if m:
                spec = m.group(1)
            if spec.startswith("NOTE"):
                continue
            if spec == "}":
                block = None
                continue
            head = False
            if spec.startswith("{"):
                spec = spec[1:]
                head = True
            if not re.match(r"^[BE]+[a-z$0-9]*$", spec) or len(f) < 4:
                # conditional / control lines (? | ; { }) and other modes (L, A, S, K) are not plain tests
                if len(f) >= 2 and re.match(r"^[?|{]?[BEASKL]", f[0]) and f[1] != "SAME":
                    prev_pat = f[1]
                skip("conditional-or-control")
                continue
            pat_s, subj_s, exp = f[1], f[2], f[3]
            if pat_s == "SAME":
                pat_s = prev_pat
            else:
                prev_pat = pat_s
            if pat_s is None or "RE_DUP_MAX" in pat_s or "RE_DUP_MAX" in subj_s or subj_s == "NIL":
                skip("macro")
                continue
            opts = re.sub(r"[BE]", "", spec)
            if re.search(r"[^inbew$u0-9]", opts):
                skip("unsupported-flag")
                continue
            nm = int(re.search(r"\d+", opts).group(0)) if re.search(r"\d+", opts) else 20
            cf = (ICASE if "i" in opts else 0) | (NEWLINE if "n" in opts else 0) | (NOSUB if "w" in opts else 0)
            ef = (NOTBOL if "b" in opts else 0) | (NOTEOL if "e" in opts else 0)
            if subj_s == "NULL":
                subj_s = ""
            if "$" in opts:
                pat, subj = c_unescape(pat_s), c_unescape(subj_s)
            else:
                pat, subj = pat_s.encode("latin-1"), subj_s.encode("latin-1")
            if 0 in pat or 0 in subj or not pat:
                skip("nul-or-empty")
                continue
            for mode in spec:
                if mode not in "BE":
                    break
                tests.append(("%s:%d" % (fn, ln), cf | (EXT if mode == "E" else 0), nm, ef, pat, subj, exp,
                              None if head else block))
                if head:
                    block = len(tests) - 1
                    head = False
    return tests, skipped


def strip_unset(s):
    while s.endswith("(?,?)"):
        s = s[:-5]
    return s


def att_verdict(exp, cout):
    """does the implementation's answer `cout` (output of the harness `p` op) equal the table's?"""
    if cout.startswith("err"):
        m = re.search(r"code=(\d+)", cout)
        code = int(m.group(1)) if m else -1
        name = CODE_NAMES.get(code, "?")
        return "!" not in cout.split(" ## ")[0] and (exp == name or (name == "BADPAT" and re.match(r"^[A-Z]+$", exp) and exp not in ("NOMATCH", "NULL", "OK")))
    m = re.match(r"^ok nsub=(\d+) (\S+)$", cout)
    if not m:
        return False
    got = m.group(2)
    if exp == "NOMATCH":
        return got == "NOMATCH"
    if exp == "NULL":
        return got == "NULL"
    if not exp.startswith("("):
        return False
    return strip_unset(got) == strip_unset(exp)


# ====================================================================== comparison
class Runner:
    def __init__(self, ck, hcmd, dcmd):
        self.ck, self.hcmd, self.dcmd = ck, hcmd, dcmd
        self.hist = {"lines": 0, "execs": 0, "compile_ok": 0, "compile_err": 0, "unsupported": 0, "skipped_slow": 0,
                     "match": 0, "nomatch": 0, "err_codes": {}, "code_only_diffs": 0}
        self.nfail = 0

    def both_parallel(self, lines, per=8):
        n = max(1, min(NPROC, len(lines) // per or 1))
        size = (len(lines) + n - 1) // n
        parts = [lines[i:i + size] for i in range(0, len(lines), size)]

        def side(cmd, part, tag):
            """run one program over the lines; a crash becomes the output of the line it happened
            on and the run resumes behind that line (a few times)"""
            out, pos, restarts = [], 0, 0
            while pos < len(part):
                rc, so, err = self.ck.run(cmd, input_text="\n".join(part[pos:]) + "\n", timeout=3000)
                ls = so.split("\n")
                if ls and ls[-1] == "":
                    ls.pop()
                ls = ls[:len(part) - pos]
                out += ls
                pos += len(ls)
                if pos >= len(part):
                    break
                out.append("%s rc=%d %s" % (tag, rc, vf.san_summary(err)))
                pos += 1
                restarts += 1
                if restarts > 8:
                    out += ["<not-run>"] * (len(part) - pos)
                    break
            return out

        with concurrent.futures.ThreadPoolExecutor(max_workers=NPROC) as ex:
            fc = [ex.submit(side, self.hcmd, part, "CRASH") for part in parts]
            fm = [ex.submit(side, self.dcmd, part, "MODEL-CRASH") for part in parts]
            c_all = [l for f in fc for l in f.result()]
            m_all = [l for f in fm for l in f.result()]
        return c_all, m_all

    def single(self, line):
        cl, ml, err = self.ck.both(self.hcmd, self.dcmd, line + "\n", 120)
        return (cl[0] if cl else "<missing>"), (ml[0] if ml else "<missing>"), cl, ml, err

    @staticmethod
    def differs(c, m):
        """None | 'obs' | 'int' for one output line pair of an `x` op (slow tokens excluded)"""
        if m == "unsup":
            return None if not (c.startswith("CRASH") or "!" in c) else "obs"
        if c == m or c == "<not-run>":
            return None
        cs, ms = c.split(" ## "), m.split(" ## ")
        co, mo = cs[0], ms[0]
        if co != mo:
            ct, mt = co.split(" "), mo.split(" ")
            if not (len(ct) == len(mt) and ct[0] == "ok" and mt[0] == "ok" and
                    all(a == b or a == "slow" for a, b in zip(ct, mt))):
                return "obs"
        # internal projection: error code, or (y op) the whole pmatch array of every exec as the
        # Lean model of the C matcher computes it; `?` = one side ran out of time / step budget
        ci, mi = (cs[1] if len(cs) > 1 else ""), (ms[1] if len(ms) > 1 else "")
        if ci == mi:
            return None
        it, jt = ci.split(" "), mi.split(" ")
        if len(it) == len(jt) and all(a == b or a == "?" or b == "?" for a, b in zip(it, jt)):
            return None
        # a pmatch array (y op, successful compile) is caller-visible: a difference between the C code and the
        # matcher model in pmatch[1..] is an OBSERVABLE difference; only regcomp's exact error code (within one
        # error class) is internal
        return "obs" if co.startswith("ok") else "int"

    def run_x(self, lines, label, nontrivial=True, per=8):
        """lines: `x` op lines.  Compare, minimise failures to a single exec, report."""
        ck = self.ck
        if not lines:
            return
        import time as _t
        t0 = _t.time()
        c_all, m_all = self.both_parallel(lines, per)
        h = self.hist
        if label not in h.setdefault("sampled", []):
            h["sampled"].append(label)
            mid = len(lines) // 2
            ck.sample({"generator": label, "op": lines[mid][:220], "impl": c_all[mid][:120], "model": m_all[mid][:120]},
                      limit=8)
        ph = ck.cov.setdefault("phase_s", {})
        ph[label] = round(ph.get(label, 0) + _t.time() - t0, 1)
        h["lines"] += len(lines)
        for line, c, m in zip(lines, c_all, m_all):
            c_all_i = c
            ck.cov["op_lines"] = ck.cov.get("op_lines", 0) + 1
            w = line.split(" ", 3)
            if m == "unsup":
                h["unsupported"] += 1
            elif m.startswith("err"):
                h["compile_err"] += 1
                code = m.split("code=")[-1]
                h["err_codes"][code] = h["err_codes"].get(code, 0) + 1
            elif m.startswith("ok"):
                h["compile_ok"] += 1
                if " ## " in c:
                    cint = c.split(" ## ", 1)[1]
                    c = c.split(" ## ", 1)[0]
                    h["pmatch_arrays_vs_cmatch_model"] = h.get("pmatch_arrays_vs_cmatch_model", 0) + cint.count(" ") + 1 - cint.count("?")
                    h["cmatch_out_of_budget"] = h.get("cmatch_out_of_budget", 0) + m.count(" ?") + (1 if m.endswith("## ?") else 0)
                nt = c.count(" ") - 1 if c.startswith("ok") else 0
                h["execs"] += nt
                ns = c.count(" slow")
                h["skipped_slow"] += ns
                if ns and len(h.setdefault("slow_samples", [])) < 6:
                    h["slow_samples"].append("cflags=%s pattern=%r" % (w[1], bytes.fromhex(w[2])))
                nm_ = c.count(" -")
                h["nomatch"] += nm_
                h["match"] += nt - nm_ - ns
                if nontrivial:
                    ck.distinct((w[1], w[2]))
            ck.count(1 + (c.count(" ") - 1 if c.startswith("ok") else 0))
            kind = self.differs(c_all_i, m)
            if kind is None:
                continue
            if kind == "int":
                h["code_only_diffs"] += 1
            if self.nfail >= 6:
                continue
            self.nfail += 1
            self.report(line, c_all_i, m, kind, label)

    def report(self, line, c, m, kind, label):
        ck = self.ck
        w = line.split(" ")
        best = line
        if w[0] in ("x", "y") and c.startswith("ok") and m.startswith("ok"):
            # locate the first differing exec and replay it alone
            nms, efs, subjs = w[3].split(","), w[4].split(","), w[5:]
            cs, ms = c.split(" ## "), m.split(" ## ")
            ct, mt = cs[0].split(" ")[2:], ms[0].split(" ")[2:]
            idx = None
            for i in range(max(len(ct), len(mt))):
                a = ct[i] if i < len(ct) else "<missing>"
                b = mt[i] if i < len(mt) else "<missing>"
                if a != b and a != "slow":
                    idx = i
                    break
            if idx is None and len(cs) > 1 and len(ms) > 1:
                it, jt = cs[1].split(" "), ms[1].split(" ")
                for i in range(max(len(it), len(jt))):
                    a = it[i] if i < len(it) else "<missing>"
                    b = jt[i] if i < len(jt) else "<missing>"
                    if a != b and a != "?" and b != "?":
                        idx = i
                        break
            if idx is not None and idx < len(subjs) * len(efs) * len(nms):
                si, rem = divmod(idx, len(efs) * len(nms))
                ei, ni = divmod(rem, len(nms))
                cand = " ".join([w[0], w[1], w[2], nms[ni], efs[ei], subjs[si]])
                c1, m1, _, _, _ = self.single(cand)
                if self.differs(c1, m1):
                    best = cand
                    # shrink the subject from both ends while the difference stays
                    sb = bytes.fromhex(subjs[si]) if subjs[si] != "-" else b""
                    changed = True
                    # (a subject of tens of kilobytes is not shrunk byte by byte: it is kept as it is)
                    while changed and sb and len(sb) <= 4096:
                        changed = False
                        for t in (sb[1:], sb[:-1]):
                            cand2 = " ".join([w[0], w[1], w[2], nms[ni], efs[ei], vf.hexs(t)])
                            c2, m2, _, _, _ = self.single(cand2)
                            if self.differs(c2, m2) == kind:
                                sb, best, changed = t, cand2, True
                                break
        elif w[0] in ("x", "y") and len(w) > 6:
            cand = " ".join(w[:6])
            c1, m1, _, _, _ = self.single(cand)
            if self.differs(c1, m1):
                best = cand
        c1, m1, cl, ml, err = self.single(best)
        kind1 = self.differs(c1, m1) or kind
        info = {"label": label, "ops": [best], "impl": cl[-3:], "model": ml[-3:], "stderr": vf.san_summary(err)}
        try:
            bw = best.split(" ")
            info["pattern"] = repr(bytes.fromhex(bw[2]) if bw[2] != "-" else b"")
            info["cflags"] = int(bw[1])
            if len(bw) > 5:
                sbj = bytes.fromhex(bw[5]) if bw[5] != "-" else b""
                info["subject"] = repr(sbj) if len(sbj) <= 200 else "<%d bytes: %r ... %r>" % (len(sbj), sbj[:8], sbj[-8:])
        except Exception:
            pass
        ck.report(kind1, info)


def run_att(ck, rn, hcmd, dcmd):
    """AT&T regression table: implementation vs the table's answers (labelled test, includes
    sub-matches); pmatch[0] additionally vs the model; every answer through the Lean pmatchOk."""
    tests, skipped = load_att(vf.REPO)
    lines = ["p %d %s %d %d %s" % (cf, vf.hexs(pat), nm, ef, vf.hexs(subj)) for (_, cf, nm, ef, pat, subj, _, _) in tests]
    c_all, m_all = rn.both_parallel(lines)
    ok = bad = model_cmp = model_bad = 0
    klines, kidx = [], []
    verdicts = [att_verdict(t[6], c) for t, c in zip(tests, c_all)]
    for i, ((where, cf, nm, ef, pat, subj, exp, blk), c, m) in enumerate(zip(tests, c_all, m_all)):
        ck.count(1)
        if c == "<not-run>":
            skipped["not-run-after-repeated-crashes"] = skipped.get("not-run-after-repeated-crashes", 0) + 1
            continue
        if blk is not None and not verdicts[blk]:
            skipped["in-block-whose-head-test-fails(unsupported feature)"] = \
                skipped.get("in-block-whose-head-test-fails(unsupported feature)", 0) + 1
            continue
        if any(t[7] == i for t in tests) and not verdicts[i]:
            skipped["block-head-feature-test"] = skipped.get("block-head-feature-test", 0) + 1
            continue
        if verdicts[i]:
            ok += 1
        else:
            bad += 1
            if bad <= 3:
                ck.report("obs", {"label": "att-table", "ops": [lines[i]], "where": where, "pattern": repr(pat),
                                  "subject": repr(subj), "expected": exp, "impl": [c], "model": [m],
                                  "what": "answer differs from the AT&T reference table"})
        # overall match vs model
        if m != "unsup":
            model_cmp += 1
            cm = c
            mm = re.match(r"^(ok nsub=\d+ )(\(\-?\d+,\-?\d+\))", c)
            if mm:
                cm = mm.group(1) + mm.group(2)
            if cm.split(" ## ")[0] != m.split(" ## ")[0] and bad <= 3 and model_bad < 3:
                model_bad += 1
                ck.report("obs", {"label": "att-table:model", "ops": [lines[i]], "where": where, "impl": [c], "model": [m]})
        mm = re.match(r"^ok nsub=(\d+) ((\((\?|\d+),(\?|\d+)\))+)", c)
        if mm:
            pairs = re.findall(r"\((\?|\d+),(\?|\d+)\)", mm.group(2))
            klines.append("k %d %s %s" % (len(subj), mm.group(1), " ".join(
                "%s,%s" % ("-1" if a == "?" else a, "-1" if b == "?" else b) for a, b in pairs)))
            kidx.append(i)
    if klines:
        rc, out, err = ck.run(dcmd, input_text="\n".join(klines) + "\n")
        res = out.split("\n")
        for j, i in enumerate(kidx):
            if j >= len(res) or res[j] != "ok":
                ck.report("obs", {"label": "att-table:pmatchOk", "ops": [lines[i]], "impl": [c_all[i]],
                                  "what": "sub-match clause (Usual.C04.pmatchOk) fails on the implementation's answer"})
                break
    ck.cov["att_table"] = {"files": ATT_FILES, "tests": len(tests), "equal_to_reference": ok, "different": bad,
                           "overall_match_vs_model": model_cmp, "pmatchOk_checked": len(klines), "skipped": skipped}


def run_pmatch_sample(ck, rn, dcmd, hcmd, cases):
    """full pmatch arrays of a sample of generated cases through the Lean checker pmatchOk"""
    lines = ["p %d %s %d 0 %s" % (cf, vf.hexs(pat), 12, vf.hexs(s)) for cf, pat, s in cases]
    if not lines:
        return
    rc, out, err = ck.run(hcmd, input_text="\n".join(lines) + "\n")
    klines, kidx = [], []
    for i, c in enumerate(out.split("\n")[:len(lines)]):
        mm = re.match(r"^ok nsub=(\d+) ((\((\?|\d+),(\?|\d+)\))+)$", c)
        if mm:
            pairs = re.findall(r"\((\?|\d+),(\?|\d+)\)", mm.group(2))
            klines.append("k %d %s %s" % (len(cases[i][2]), mm.group(1), " ".join(
                "%s,%s" % ("-1" if a == "?" else a, "-1" if b == "?" else b) for a, b in pairs)))
            kidx.append(i)
    n_ok = 0
    if klines:
        rc, out2, err = ck.run(dcmd, input_text="\n".join(klines) + "\n")
        res = out2.split("\n")
        for j, i in enumerate(kidx):
            if j < len(res) and res[j] == "ok":
                n_ok += 1
            else:
                ck.report("obs", {"label": "pmatchOk", "ops": [lines[i]],
                                  "what": "sub-match clause (Usual.C04.pmatchOk) fails on the implementation's answer"})
                break
    ck.count(len(lines))
    ck.cov["pmatchOk_lean_checked"] = ck.cov.get("pmatchOk_lean_checked", 0) + n_ok


def tree_str(t):
    k = t[0]
    if k == "e":
        return "e"
    if k == "c":
        return "c%02x" % t[1]
    if k in (".", "^", "$"):
        return k
    if k == "cat":
        return "C," + tree_str(t[1]) + "," + tree_str(t[2])
    if k == "alt":
        return "A," + tree_str(t[1]) + "," + tree_str(t[2])
    if k == "grp":
        return "G," + tree_str(t[1])
    if k == "rep":
        return "R%d-%s,%s" % (t[2], "i" if t[3] is None else t[3], tree_str(t[1]))
    raise ValueError(k)


def normal_form(t, ere):
    """the tree the grammar can express directly: groups inserted exactly where render() does"""
    def body(x):
        if x[0] == "alt":
            return ("alt", branch(x[1]), body(x[2]))
        return branch(x)

    def flat(x):
        if x[0] == "cat":
            return flat(x[1]) + flat(x[2])
        return [x]

    def branch(x):
        items = flat(x)
        its = [item(it, i == 0, i == len(items) - 1) for i, it in enumerate(items)]
        r = its[-1]
        for it in reversed(its[:-1]):
            r = ("cat", it, r)
        return r

    def gb(x):
        return ("grp", ("e",) if x[0] == "e" else body(x))

    def item(x, first, last):
        k = x[0]
        if k == "e":
            return ("grp", ("e",))
        if k in ("c", ".", "cls"):
            return x
        if k == "^":
            return x if (ere or first) else gb(x)
        if k == "$":
            return x if (ere or last) else gb(x)
        if k == "grp":
            return gb(x[1])
        if k == "alt":
            return gb(x)
        if k == "rep":
            inner = x[1]
            if inner[0] in ("c", ".", "cls"):
                return ("rep", inner, x[2], x[3])
            if inner[0] == "grp":
                return ("rep", gb(inner[1]), x[2], x[3])
            return ("rep", gb(inner), x[2], x[3])
        raise ValueError(k)
    return body(t)


def run_rerender(ck, rn, dcmd, hcmd, cases):
    """tie of the Lean renderers (incl. bracket expressions from bitmaps, Usual.C04.renderCls) to the C
    code: the driver parses a pattern, renders the stored tree and says whether the new text compiles to the
    same tree; if so the real regcomp/regexec must treat both texts alike (same re_nsub, same pmatch arrays
    on the same subjects).  cases = (cflags, pattern, subjects)."""
    rlines = ["r %d %s" % (cf, vf.hexs(pat)) for cf, pat, _ in cases]
    if not rlines:
        return
    rc, out, err = ck.run(dcmd, input_text="\n".join(rlines) + "\n")
    res = out.split("\n")
    ylines, meta = [], []
    stats = {"patterns": len(rlines), "same_tree": 0, "in_proved_domain": 0, "differs_under_flags": 0, "not_compiled": 0}
    for (cf, pat, ss), r in zip(cases, res):
        m = re.match(r"^ok wf=(true|false) same=(true|false) (\S+)$", r)
        if not m:
            stats["not_compiled"] += 1
            continue
        if m.group(1) == "true":
            stats["in_proved_domain"] += 1
            if m.group(2) != "true" and (cf & (ICASE | NEWLINE)) == 0:
                ck.report("int", {"label": "rerender", "ops": ["r %d %s" % (cf, vf.hexs(pat))], "model": [r],
                                  "what": "parse(render(tree)) differs from the tree without flags (contradicts parse_render_*_noflags)"})
        if m.group(2) != "true":
            stats["differs_under_flags"] += 1
            continue
        stats["same_tree"] += 1
        txt = bytes.fromhex(m.group(3)) if m.group(3) != "-" else b""
        if txt == pat or not txt:
            continue
        ylines.append(xline(cf, pat, [0, 1, "m"], [0, 48], ss, op="x"))
        ylines.append(xline(cf, txt, [0, 1, "m"], [0, 48], ss, op="x"))
        meta.append((cf, pat, txt))
    if ylines:
        c_all, m_all = rn.both_parallel(ylines)
        for i, (cf, pat, txt) in enumerate(meta):
            a, b = c_all[2 * i], c_all[2 * i + 1]
            ck.count(2)
            if a != b and "slow" not in a and "slow" not in b:
                ck.report("obs", {"label": "rerender", "ops": [ylines[2 * i], ylines[2 * i + 1]], "pattern": repr(pat),
                                  "rerendered": repr(txt), "cflags": cf, "impl": [a[:200], b[:200]],
                                  "what": "regcomp/regexec treat a pattern and the Lean re-rendering of its parsed tree differently"})
                break
            for c, mm in ((a, m_all[2 * i]), (b, m_all[2 * i + 1])):
                if rn.differs(c, mm) == "obs":
                    ck.report("obs", {"label": "rerender:model", "ops": [ylines[2 * i], ylines[2 * i + 1]], "impl": [c[:200]],
                                      "model": [mm[:200]]})
                    break
    stats["compared_with_c"] = len(meta)
    ck.cov["rerender"] = stats


def run_roundtrip(ck, dcmd, trees):
    """driver op `t`: Lean renderERE/BRE of the normal form equals the generator's text, and the
    Lean parser maps the text back to the (case-folded) tree — the run-time instance of
    parse_render, also outside the proved fragment (BRE)."""
    lines = []
    for t in trees:
        if has(t, "cls"):
            continue
        for ere in (True, False):
            if not ere and has(t, "alt"):
                continue
            nf = normal_form(t, ere)
            txt = render(t, ere)
            if not txt:
                continue
            for ic in (0, 1):
                lines.append("t %s %d %s %s" % ("E" if ere else "B", ic, tree_str(nf), vf.hexs(txt)))
    if not lines:
        return
    rc, out, err = ck.run(dcmd, input_text="\n".join(lines) + "\n")
    res = out.split("\n")
    bad = [(l, r) for l, r in zip(lines, res) if "text=true rt=true" not in r]
    ck.count(len(lines))
    ck.cov["roundtrip_instances"] = ck.cov.get("roundtrip_instances", 0) + len(lines)
    ck.cov["roundtrip_in_proved_fragment"] = ck.cov.get("roundtrip_in_proved_fragment", 0) + \
        len([r for r in res if r.startswith("wf=true")])
    if bad:
        ck.report("int", {"label": "roundtrip", "ops": [bad[0][0]], "model": [bad[0][1]],
                          "what": "generator text / Lean renderer / Lean parser disagree on a tree (tie of the generator)"})


def run(ck):
    hcmd, dcmd = build(ck)
    ck.level = "proof"
    ck.cov["explanation"] = (
        "Exploration with a proved oracle plus an executable Lean model of the C matcher.  The model of usual_regexec "
        "(CM.cExec) is compared with the C code on the whole pmatch array of every execution and is proved equal to the "
        "reference (rc and pmatch[0]) on every tree of the parser's shape, repeated groups included (cmatch_refines_llmatch).  Kernel-checked Lean theorems establish that the reference used as oracle is "
        "right: `ends` is sound and complete for the declarative POSIX semantics `Matches` (anchors/flags in context), "
        "`llmatch` is exactly the leftmost-longest overall match (and `none` iff no substring matches), and the parser "
        "models invert the ERE/BRE renderers on the full supported syntax (bracket expressions from bitmaps).  The C matcher is not proved: regcomp rc/"
        "re_nsub and regexec rc/pmatch[0] of the real code (ASan+UBSan build, exact-size heap strings, calloc/free "
        "accounting) are compared with the oracle on a bounded-exhaustive family (all trees up to a node bound x all "
        "subjects up to a length bound x flag sets x nmatch in {0,1,nsub+2}), random trees, byte mutations and hand-made "
        "malformed patterns; the sub-match clause is proved for the matcher model (submatch_wellformed), pmatch[1..] of the C code is monitored with it on every execution, compared with the model and with the AT&T "
        "reference table.  obligations/discharged count the theorems; evaluations count regcomp+regexec calls compared.")
    ck.cov["trusted_base"] = [
        "Lean 4.33.0 kernel; axioms of the property theorems: subset of propext, Quot.sound, Classical.choice (audited this run)",
        "the theorems are about the REFERENCE matcher/parser in lean/Usual/C04 (declarative semantics `Matches`); "
        "the C back-tracking matcher is NOT proved, it is compared with the reference on results "
        "(harness/C04/h.c vs drv_c04, generator and comparison in checks/C04.py)",
        "lean/Usual/Gen/C04Tab.lean regenerated from usual/regex.[ch] by checks/c04_gen.py",
        "ASan/UBSan for memory safety of regcomp/regexec on exact-size heap strings; calloc/free accounting for leaks",
        "AT&T testregex data files as reference answers for sub-match offsets (labelled test)",
    ]
    ck.assumptions += [
        "C locale (the harness never calls setlocale): ctype classes as in lean/Usual/C04/Parse.lean",
        "LP64: strtoul saturates at 2^64-1",
        "subjects and patterns contain no NUL byte; unbounded repetition of a simple atom (literal, '.', bracket) is unbounded in "
        "the C code, the model and the reference, and is exercised up to 70000-byte subjects (family long-subject); a "
        "repeated GROUP is capped at 32767 iterations by the C code (and its model) while the reference is unbounded: no "
        "generated case needs more than 32767 iterations of a group.  cmatch_refines_llmatch is PROVED for |subject| < 32767; "
        "for longer subjects the agreement of C code, model and reference rests on the differential run alone",
        "back-references and REG_RELAXED escapes are outside the property's syntax (model answers `unsup`, only "
        "crash/leak freedom is checked there)",
        "executions stopped by the per-exec %d ms alarm are excluded (no complexity clause)" % ALARM_MS,
    ]
    ck.cov["rule"] = (
        "bounded-exhaustive: every tree up to N nodes (quick 4, thorough 5) over leaves {a,b,\\n,.,[^a],[ab],^,$,()} and "
        "repetitions {*,+,?,{2},{1,2},{2,},{0}} rendered as ERE and (alternation-free) BRE, under the compile-flag sets, all "
        "subjects over {a,b,\\n} up to length L (quick 5; thorough 6 for trees up to 4 nodes, 3..5 for 5-node trees), the "
        "exec-flag sets that can reach the pattern, nmatch in {0,1,nsub+2}; grammar-directed family rep-group-tail (a repeated "
        "group with a 1-3 atom/alternative body over {a,b,.}, one level of nesting, followed by an optional/overlapping tail) x all "
        "subjects over {a,b} up to length 6; random trees up to 12 "
        "nodes with bracket expressions/high bytes/escaped specials and subjects up to 40; byte mutations of rendered "
        "patterns and hand-made members of every regerror class; family class-sweep (every named class of ctype_list plain/negated/"
        "combined, ERE and BRE, with/without REG_ICASE and REG_NEWLINE, against every one-byte subject 1..255 and strings sweeping the "
        "ASCII range incl. all control characters); family long-subject (subjects of 32766..70000 bytes x unbounded and near-limit "
        "repetitions of simple atoms, ERE/BRE, ICASE/NEWLINE, nmatch 0/1/2; quick tier: 32767 and 32768 bytes); AT&T table.  A case is distinct = (cflags, pattern "
        "bytes); non-trivial = compiles and is executed on at least one subject")
    rng = vf.SplitMix(ck.seed)
    rn = Runner(ck, hcmd, dcmd)

    def enough():
        """concrete failing inputs already in hand: no point in searching further"""
        if len([v for v in ck.violations if v["kind"] == "obs"]) >= 3:
            ck.cov["stopped_early"] = "3 concrete failing inputs found; remaining generators skipped"
            ck.cov["histogram"] = rn.hist
            ck.cov["skipped_slow"] = rn.hist["skipped_slow"]
            return True
        return False
    intensify = not ck.proof_ok
    thorough = (ck.tier != "quick") or intensify

    # ---- corpus (past failures / boundary cases), one op line per case
    corpus = [l for c in vf.corpus_cases(PID) for l in c]
    rn.run_x(["y " + l[2:] for l in corpus if l.startswith("x ") or l.startswith("y ")], "corpus")

    # ---- hand-made malformed / edge patterns, all compile-flag sets
    lines = []
    for pat, ere in MALFORMED + WELLFORMED_EDGE:
        for cf in range(0, 16, 2):
            lines.append(xline(cf | (EXT if ere else 0), pat, [0, 1, "m"], [0, 48], [b"", b"a", b"ab\n", b"a)b]}{a"]))
    rn.run_x(lines, "handmade")
    ck.cov["handmade_patterns"] = len(MALFORMED) + len(WELLFORMED_EDGE)

    # ---- every named class x every byte value (class tables of the model vs. the ctype functions regex.c calls)
    names = c04_gen.generate(vf.REPO)[2]
    if sorted(names) != sorted(CLASS_NAMES):
        ck.report("int", {"label": "class-sweep", "ops": [], "where": "ctype_list of regex.c names %s, the Lean classPred and "
                          "the class-sweep family know %s" % (names, CLASS_NAMES)})
    lines = class_sweep_lines(names)
    rn.run_x(lines, "class-sweep")
    ck.cov["class_sweep"] = {"classes": len(names), "lines": len(lines), "subject_bytes": "1..255 (each as a one-byte subject)"}
    if enough():
        return

    # ---- subjects around and beyond MAX_COUNT bytes (unbounded repetition of simple atoms)
    lines = long_subject_lines(thorough)
    rn.run_x(lines, "long-subject", per=1)
    ck.cov["long_subject"] = {"lines": len(lines), "lengths": (LONG_QUICK + LONG_MORE) if thorough else [32767, 32768],
                              "note": "simple-atom repetitions only (linear in reference and model); the refinement theorem "
                                      "covers |subject| < 32767, longer subjects are covered by this differential family only; "
                                      "a repeated GROUP is capped at 32767 iterations by the C code (assumption)"}
    if enough():
        return

    # ---- AT&T regression table
    run_att(ck, rn, hcmd, dcmd)
    if enough():
        return

    # ---- bounded-exhaustive
    # quick   : all trees <= 4 nodes x all subjects over {a,b,\n} up to length 5
    # thorough: all trees <= 4 nodes x all subjects up to length 6; all trees with 5 nodes x all
    #           subjects up to length 3 (a seed-rotated quarter up to length 4, a sixteenth up to 5)
    # Dimensions that cannot influence a pattern are not multiplied out: exec flags only reach
    # match_bol/match_eol (patterns with an anchor), REG_NEWLINE only reaches anchors, `.` and
    # negated brackets, REG_ICASE nothing over this alphabet; each irrelevant dimension is still
    # exercised on a rotating 1/8 of the patterns.
    nmax, slen = (5, 6) if thorough else (4, 5)
    subs = {n: subjects([0x61, 0x62, 0x0a], n) for n in (2, 3, 4, 5, 6)}
    trees = [(t, n) for n in range(1, nmax + 1) for t in enum_trees(n)]
    ck.cov["bounded_exhaustive"] = {"max_nodes": nmax, "trees": len(trees), "subject_maxlen": slen,
                            "subjects": len(subs[slen])}
    npat = [0]
    rot = ck.seed

    def exh_lines():
      lines = []
      for ti, (t, nn) in enumerate(trees):
          anchored = has(t, "^") or has(t, "$")
          nl_rel = anchored or has(t, ".") or has(t, "cls")
          for ere in (True, False):
              if not ere and has(t, "alt"):
                  continue
              pat = render(t, ere)
              if not pat:
                  continue
              npat[0] += 1
              base = EXT if ere else 0
              r8 = (ti + rot) % 8 == 0
              if nn <= 4:
                  full = subs[slen]
              else:
                  full = subs[5] if (ti + rot) % 16 == 0 else (subs[4] if (ti + rot) % 4 == 1 else subs[3])
              small = subs[slen - 2] if nn <= 4 else subs[2]
              hb, he = has(t, "^"), has(t, "$")
              if (hb and he) or (anchored and r8):
                  efs = [0, 16, 32, 48]
              elif hb:
                  efs = [0, 16]           # REG_NOTEOL cannot reach a pattern without `$`
              elif he:
                  efs = [0, 32]
              else:
                  efs = [0, 48] if r8 else [0]
              # 5-node trees (thorough): whole pmatch arrays vs the matcher model on every other pattern
              yop = "y" if (nn <= 4 or (ti + rot) % 2 == 0) else "x"
              lines.append(xline(base, pat, [0, 1, "m"], efs, full, op=yop))
              lines.append(xline(base | NEWLINE, pat, [0, "m"], efs, full if nl_rel else (small if r8 else subs[2]), op=yop))
              lines.append(xline(base | NOSUB, pat, [0, 1], efs[:2], full if r8 else small, op="y" if r8 else "x"))
              # REG_NOSUB reports no offsets: the internal projection adds nothing there except on a rotating
              # eighth (relaxed-mode return code of the matcher model)
              lines.append(xline(base | NOSUB | NEWLINE, pat, [0, 1], efs[:2], small if (nl_rel or r8) else subs[2],
                                 op="y" if r8 else "x"))
              for cf in (ICASE, ICASE | NEWLINE, ICASE | NOSUB, ICASE | NEWLINE | NOSUB):
                  lines.append(xline(base | cf, pat, [1], [0, 48] if anchored else [0], small if r8 else subs[2],
                                     op="y" if r8 else "x"))
          if len(lines) >= 16 * 1500:
              yield lines
              lines = []
      if lines:
          yield lines

    for ch in exh_lines():
        rn.run_x(ch, "exhaustive")
        if enough():
            return
    ck.cov["bounded_exhaustive"]["patterns_rendered"] = npat[0]

    # ---- ICASE slice: letters in both cases, exhaustive small
    lines = []
    ic_leaves = [("c", 0x61), ("c", 0x41), ("c", 0xe9), ("cls", b"[a]"), ("cls", b"[A-B]"), ("cls", b"[^a]"),
                 ("cls", b"[[:upper:]]"), ("cls", b"[^[:lower:]]"), (".",)]
    ic_subs = subjects([0x61, 0x41, 0x62, 0xe9], 3)
    for a in ic_leaves:
        for b in ic_leaves:
            for t in (("cat", a, b), ("alt", a, b), ("rep", a, 1, None), ("cat", ("rep", a, 0, None), b)):
                for ere in (True, False):
                    if not ere and has(t, "alt"):
                        continue
                    for cf in (0, ICASE, ICASE | NEWLINE):
                        lines.append(xline((EXT if ere else 0) | cf, render(t, ere), [0, 1], [0], ic_subs))
    rn.run_x(lines, "icase-slice")
    if enough():
        return

    # ---- grammar-directed family: repeated group + optional/overlapping tail
    fam = rep_group_tail_trees()
    nfam = len(fam)
    fsubs = subjects([0x61, 0x62], 6)
    lines = []
    for t in fam:
        for ere in (True, False):
            if not ere and has(t, "alt"):
                continue
            lines.append(xline(EXT if ere else 0, render(t, ere), [0, 1, "m"], [0], fsubs))
    ck.cov["rep_group_tail"] = {"patterns_in_family": nfam, "trees_used": len(fam), "op_lines": len(lines),
                                "subjects": len(fsubs)}
    for ch in vf.chunks(lines, 16 * 400):
        rn.run_x(ch, "rep-group-tail")
        if enough():
            return

    # ---- random trees
    nrand = ck.scale(1500, 25000) * (4 if intensify else 1)
    lines, rt_trees, pm_cases, rr_cases = [], [], [], []
    for i in range(nrand):
        t = rand_tree(rng, 2 + rng.below(11))
        ere = rng.chance(2, 3) or has(t, "alt")
        pat = render(t, ere)
        if not pat:
            continue
        d = unbounded_depth(t)
        cap = 40 if d == 0 else (10 if d == 1 else (6 if d == 2 else 3))
        cf = rng.below(16) & ~EXT | (EXT if ere else 0)
        ss = [rand_subject(rng, cap) for _ in range(12)]
        lines.append(xline(cf, pat, [0, 1, "n", "m"], [0, 16, 32, 48], ss))
        if i % 4 == 0:
            rt_trees.append(t)
        if i % 3 == 0:
            pm_cases.append((cf & ~NOSUB, pat, ss[0]))
        if has(t, "cls") or i % 4 == 1:
            rr_cases.append((cf, pat, ss[:6]))
    for ch in vf.chunks(lines, 16 * 300):
        rn.run_x(ch, "random")
    run_pmatch_sample(ck, rn, dcmd, hcmd, pm_cases)
    run_rerender(ck, rn, dcmd, hcmd, rr_cases)
    run_roundtrip(ck, dcmd, rt_trees + [t for n in range(1, 4) for t in enum_trees(n)])

    # ---- byte mutations of rendered patterns (robustness: no crash/leak; rc agrees with the parser model)
    nmut = ck.scale(6000, 150000) * (4 if intensify else 1)
    lines = []
    for i in range(nmut):
        t = rand_tree(rng, 2 + rng.below(8))
        ere = rng.chance(1, 2) or has(t, "alt")
        pat = mutate(rng, render(t, ere))
        if not pat:
            continue
        cf = rng.below(16) & ~EXT | (EXT if rng.chance(9, 10) == ere else 0)
        lines.append(xline(cf, pat, [0, "m"], [0, 48], [rand_subject(rng, 8) for _ in range(4)]))
    for ch in vf.chunks(lines, 16 * 500):
        rn.run_x(ch, "mutation")

    ck.cov["histogram"] = rn.hist
    ck.cov["skipped_slow"] = rn.hist["skipped_slow"]
    ck.cov["partial"] = [
        "the C matcher's algorithm is transcribed in Lean (lean/Usual/C04/CMatch.lean: scan_next/match_group/match_gend with minok, "
        "got_full_match/gm_resolve_tie/cmp_gmatches/gmatch_hist_cmp/fill_history/publish_gm) and compared with the C code on the "
        "whole pmatch array of every execution (internal projection); cmatch_refines_llmatch is PROVED IN FULL for that model: "
        "for every tree of the parser's shape (wfL 2, repeated groups included; the driver checks the shape of every parsed "
        "pattern at run time), subjects shorter than 32767, any flags and nmatch, rc and pmatch[0] of the model = llmatch. What "
        "is not proved is that the C code equals the model (differential, 0 differences) and pmatch[1..] of the model",
        "sub-match offsets: the clause (each pmatch[i], i >= 1, is (-1,-1) or an ordered range inside pmatch[0] inside the "
        "subject; entries past re_nsub unset) is PROVED for the matcher model as an invariant of the exploration "
        "(submatch_wellformed / submatch_clause_holds) and checked on the C output of every execution by the harness's own "
        "monitor, independently of the model; WHICH offsets are reported (the POSIX sub-match rules) is compared C vs model "
        "(whole pmatch array, a difference is reported as observable) and with the AT&T table, not proved",
        "parse_render_ere / parse_render_bre are proved for the full supported syntax incl. bracket expressions rendered from "
        "their bitmaps (ranges, named classes, negation, ] [ ^ - placement); under REG_ICASE/REG_NEWLINE the result is the "
        "stored tree foldRe fl r (identity without flags: *_noflags); the domain is the parser's tree shape (wfE/wfB)",
    ]
    if ck.tier != "quick" and ck.proof_ok:
        ck.leanchecker(PROP_MODULES[:1])


def replay(ck, path):
    import json
    hcmd, dcmd = build(ck)
    r = json.load(open(path))
    ops = r.get("ops")
    if not ops:
        vf.log("replay file names no op sequence (no-failing-input-found case):")
        vf.log(json.dumps(r, indent=1)[:2000])
        return 1
    rn = Runner(ck, hcmd, dcmd)
    rc = 0
    for op in ops:
        c, m, cl, ml, err = rn.single(op)
        vf.log("op   : " + op)
        for k in ("pattern", "subject", "cflags", "expected", "where"):
            if k in r:
                vf.log("  %-8s %s" % (k, r[k]))
        vf.log("  impl : " + " | ".join(cl))
        vf.log("  model: " + " | ".join(ml))
        if op.startswith("p ") and "expected" in r:
            bad = not att_verdict(r["expected"], c)
            vf.log("  AT&T reference answer: %s -> %s" % (r["expected"], "DIFFERENT" if bad else "equal"))
        elif op.startswith("p "):
            import re as _re
            mm = _re.match(r"^(ok nsub=\d+ )(\(\-?\d+,\-?\d+\))", c)
            cm = (mm.group(1) + mm.group(2)) if mm else c
            bad = m != "unsup" and cm.split(" ## ")[0] != m.split(" ## ")[0]
        else:
            bad = rn.differs(c, m) is not None
        if bad:
            rc = 1
    if rc:
        vf.log("VIOLATION property=%s replay=%s" % (ck.pid, path))
    else:
        vf.log("replay: implementation and model agree on this input now")
    return rc
