"""Forced-compat configuration for C14: derive, at run time and from the tree under test,
  build/C14/cfg/usual/config.h   = <repo>/usual/config.h with every HAVE_* of the replaced
                                   functions commented out (test/force_compat.sed covers only a
                                   part of the list),
  build/C14/cfgloop/usual/bits.h = <repo>/usual/bits.h with the `__builtin_clz/ffs` branch
                                   disabled, so that the portable shift loops of fls/ffs are what
                                   gets compiled (second variant of the bit functions).
The directory is put FIRST on the include path (`-U` does not work: config.h re-defines)."""
import os
import re

FORCED = ["STRLCPY", "STRLCAT", "STRNLEN", "STRSEP", "MEMRCHR", "MEMMEM", "MEMPCPY", "BASENAME",
          "DIRNAME", "STRTONUM", "FFS", "FFSL", "FFSLL", "FLS", "FLSL", "FLSLL", "INET_NTOP",
          "INET_PTON", "MBSNRTOWCS", "GETLINE", "TIMEGM", "REALLOCARRAY", "ASPRINTF", "VASPRINTF",
          "FNMATCH", "FNMATCH_H"]


def derive(repo, bdir):
    cfgdir = os.path.join(bdir, "cfg")
    os.makedirs(os.path.join(cfgdir, "usual"), exist_ok=True)
    src = open(os.path.join(repo, "usual", "config.h")).read()
    out, hit = [], []
    for line in src.split("\n"):
        m = re.match(r"^#define\s+HAVE_(\w+)\s", line + " ")
        if m and m.group(1) in FORCED:
            hit.append(m.group(1))
            out.append("/* forced-compat: " + line + " */")
        else:
            out.append(line)
    _write(os.path.join(cfgdir, "usual", "config.h"), "\n".join(out))
    # loop variant of bits.h
    loopdir = os.path.join(bdir, "cfgloop")
    os.makedirs(os.path.join(loopdir, "usual"), exist_ok=True)
    b = open(os.path.join(repo, "usual", "bits.h")).read()
    b2, n = re.subn(r"#if _COMPILER_GNUC\(4,0\) \|\| __has_builtin\(__builtin_(clzll|ffsll)\)",
                    "#if 0 /* forced-compat: portable loop */", b)
    _write(os.path.join(loopdir, "usual", "bits.h"), b2)
    return cfgdir, loopdir, sorted(hit), n


def _write(p, txt):
    old = open(p).read() if os.path.exists(p) else None
    if old != txt:
        open(p, "w").write(txt)
