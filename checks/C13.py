"""C13 — PostgreSQL quoting is injection-proof; array parsing is safe and exact.

proof:  lean/UsualProofs/Props/C13.lean about the models in lean/Usual/C13/ (PgQuote, PgLex, PgArray)
T-tie:  lean/Usual/Gen/C13Kw.lean is regenerated on every run from usual/pgutil_kwlookup.h/.g
        (c13_gen.py); `kw_table_ok` re-checks the regenerated table with `decide +kernel`
C-tie:  harness/C13/h.c (exact-size heap blocks, ASan+UBSan) against lean/Driver/C13.lean
"""
import os
import vf
import c13_gen

PID = "C13"
PROP_MODULES = ["UsualProofs.Props.C13"]
SRCS = ["repo:usual/pgutil.c", "repo:usual/string.c", "repo:usual/cxalloc.c", "repo:usual/mbuf.c"]

ALPHA = [b"'", b'"', b"\\", b".", b"{", b"}", b",", b" ", b"\t", b"\n",
         b"a", b"z", b"_", b"0", b"\xc3\xa9", b"\xff"]
EXTRA_WORDS = [b"public", b"A", b"Select", b"x", b"e", b"$", b"9"]
ARR_ALPHA = [b"a", b"b", b" ", b",", b"{", b"}", b'"', b"\\", b"\xc3\xa9", b"N", b"null",
             b"\t", b"\n", b"\xff", b"NULL", b"0", b"[", b"]", b"="]
MUT_BYTES = [0x22, 0x5c, 0x2c, 0x7b, 0x7d, 0x20, 0x61, 0xff, 0x5b, 0x5d, 0x3d, 0x4e, 0x09]
SPACES = [b" ", b"\t", b"\n", b"\r", b"\x0b", b"\x0c"]


def gen_kw_file(ck):
    """T-tie: regenerate the keyword tables from the tree under test"""
    path = os.path.join(vf.LEAN, "Usual", "Gen", "C13Kw.lean")
    try:
        txt, parsed = c13_gen.generate(vf.REPO)
    except Exception as e:                       # shape of the gperf output changed
        ck.broken.append("T-tie: cannot regenerate keyword tables: %r" % (e,))
        ck.proof_ok = False
        return None
    changed = vf.write_if_changed(path, txt)
    committed = vf.git_committed("lean/Usual/Gen/C13Kw.lean")
    ck.cov["kw_table_regenerated"] = True
    ck.cov["kw_table_equals_committed"] = (committed == txt)
    ck.cov["kw_table_rewritten_this_run"] = changed
    return parsed


OWN_LEAN = ("/C13", "C13Kw.lean", "Usual/Common.lean")


def forbid_scan_own(ck):
    """The scan of vf covers the whole shared Lean tree.  Constructs in files of *other*
    properties cannot enter C13's theorems (every import of Props/C13 is a C13 file or
    Usual/Common, and the axiom audit below would show `sorryAx`), so only hits in the files
    C13 is built from count against C13; the others are reported in the evidence."""
    ok0, nbroken = ck.proof_ok, len(ck.broken)
    hits = ck.forbid_scan()
    own = [h for h in hits if any(k in h.split(":")[0] for k in OWN_LEAN)]
    ck.cov["forbidden_scan_hits"] = len(own)
    ck.cov["forbidden_scan_hits_in_other_properties"] = len(hits) - len(own)
    if hits and not own:
        del ck.broken[nbroken:]
        ck.proof_ok = ok0
    return own


def build(ck):
    forbid_scan_own(ck)
    ck.kw = gen_kw_file(ck)
    ck.build_proofs(PROP_MODULES, driver="drv_c13")
    h = ck.cc(os.path.join(ck.bdir, "h"), [os.path.join(vf.HARNESS, PID, "h.c")] + SRCS)
    return [h], [ck.driver_path("drv_c13")]


# ------------------------------------------------------------------ generators
def gen_string(rng, words, maxlen=40):
    n = rng.below(maxlen + 1)
    out = b""
    style = rng.below(10)
    while len(out) < n:
        if style < 2 and rng.chance(1, 2):            # identifier-like strings (bare path)
            out += rng.choice([b"a", b"z", b"_", b"0", rng.choice(words)])
        elif rng.chance(1, 8):
            out += rng.choice(words)
        else:
            out += rng.choice(ALPHA)
    return out[:n] if not rng.chance(1, 4) else out[:maxlen]


def lit_needed(s):
    body = len(s) + s.count(b"'")
    return body + 3 if b"\\" not in s else body + s.count(b"\\") + 4


def quote_case(s):
    """one string, EVERY dstlen in 0..len+8 (plus the sizes around the exact fit) for the
    three quoting functions"""
    h = vf.hexs(s)
    need = max(lit_needed(s), len(s) + s.count(b'"') + 3)
    sizes = sorted(set(range(0, len(s) + 9)) | set(range(max(0, need - 2), need + 10)))
    ops = []
    for f in ("lit", "id", "fq"):
        for n in sizes:
            ops.append("%s %s %d" % (f, h, n))
    return ops


def ident_needed(s, words):
    import re
    if re.fullmatch(rb"[a-z_][a-z0-9_]*", s) and s not in words:
        return len(s) + 1
    return len(s) + s.count(b'"') + 3


LONG_FILLS = [b"a", b"A", b'"', b" ", b"\\", b"\xff", b"a\"", b"_0", b"'"]
LONG_NAMES = [b"tbl", b'x"y', b"a.b", b"select", b"T", b""]
LONG_LENS = [63, 64, 65, 127, 128, 129, 255, 256]
SCHEMA_LENS = list(range(120, 136)) + [200, 300]


def sizes_around(*needs):
    out = {0, 1, 2, 3}
    for n in needs:
        out |= {max(0, n - 2), max(0, n - 1), n, n + 1, n + 2, n + 50}
    out |= {max(needs) + 700}
    return sorted(out)


def long_cases(rng, words, full):
    """boundaries that need long inputs: the 128-byte schema buffer of pg_quote_fqident (schema
    parts of 120..135, 200, 300 bytes: plain, upper case, quotes, blanks, backslashes, high-bit
    bytes; name parts with quotes/dots/reserved words), and long plain identifiers/literals
    (63/64/65, 127/128/129, 255/256 bytes) for the other entry points.  Destination sizes: around
    the needed size of the real result, around the size a result with the schema cut to 127
    bytes would need, tiny ones and generous ones."""
    wset = set(words)
    cases = []
    for L in SCHEMA_LENS:
        for fill in LONG_FILLS:
            scm = (fill * L)[:L]
            if rng.chance(1, 3):                      # make the part after byte 127 differ
                scm = scm[:-1] + rng.choice([b"z", b"Z", b'"'])
            names = LONG_NAMES if full else [rng.choice(LONG_NAMES)]
            for name in names:
                s = scm + b"." + name
                need = ident_needed(scm, wset) + ident_needed(name, wset)
                need_cut = ident_needed(scm[:127], wset) + ident_needed(name, wset)
                h = vf.hexs(s)
                cases.append(["fq %s %d" % (h, n) for n in sizes_around(need, need_cut)])
    for L in LONG_LENS:
        for fill in LONG_FILLS:
            s = (fill * L)[:L]
            if rng.chance(1, 2):
                s = s[:rng.below(L)] + rng.choice([b"'", b'"', b"\\", b"z"]) + s
                s = s[:L]
            h = vf.hexs(s)
            ops = ["lit %s %d" % (h, n) for n in sizes_around(lit_needed(s))]
            ops += ["id %s %d" % (h, n) for n in sizes_around(ident_needed(s, wset))]
            # no dot (unless the fill has none anyway): schema "public", long name
            ops += ["fq %s %d" % (h, n) for n in sizes_around(ident_needed(s, wset) + 7)]
            cases.append(ops)
    return cases


INTERESTING = sorted(set(list(range(33, 48)) + list(range(58, 65)) + list(range(91, 97)) +
                        list(range(123, 127)) + [0x30, 0x39, 0x41, 0x5a, 0x7f, 0x80, 0xff, 0x20, 0x09, 0x0a]))


def byte_table_cases(words):
    """EXHAUSTIVE small domain (not random; every tier): the model decides quoting byte by byte,
    so its per-byte table is compared with the C code for every byte value.
      * every byte 1..255 as a one-byte name, and at first / middle / last position of an
        otherwise plain lower-case name (?ab, a?b, ab?), plus as schema and as name of a
        qualified name (a?b.t, s.a?b): lit, id, fq at a generous size, the exact fit and one less;
      * all ordered PAIRS of the interesting bytes (ASCII punctuation incl. ` ~ @ [ \ ] ^ { | } $,
        digits, upper case, 0x7f, 0x80, 0xff, blank, tab, newline) inside plain names
        (a?!b, ?a!, a?b!): lit, id, fq at a generous size."""
    wset = set(words)
    cases = []
    for c in range(1, 256):
        cb = bytes([c])
        ops = []
        for s in (cb, cb + b"ab", b"a" + cb + b"b", b"ab" + cb):
            h = vf.hexs(s)
            ni, nl = ident_needed(s, wset), lit_needed(s)
            ops += ["id %s %d" % (h, n) for n in (ni - 1, ni, 24)]
            ops += ["lit %s %d" % (h, n) for n in (nl - 1, nl, 24)]
            ops += ["fq %s %d" % (h, n) for n in (24, 40)]
        for s in (b"a" + cb + b"b.t", b"s.a" + cb + b"b", cb + b"." + cb):
            ops.append("fq %s 40" % vf.hexs(s))
        cases.append(ops)
    for p in INTERESTING:
        ops = []
        for q in INTERESTING:
            pb, qb = bytes([p]), bytes([q])
            for s in (b"a" + pb + qb + b"b", pb + b"a" + qb, b"a" + pb + b"b" + qb):
                h = vf.hexs(s)
                ops += ["id %s 24" % h, "fq %s 32" % h, "lit %s 24" % h]
        cases.append(ops)
    return cases


NULL_ALPHA = sorted(set([0x6e, 0x4e, 0x75, 0x55, 0x6c, 0x4c] +
                       [c ^ 0x80 for c in (0x6e, 0x4e, 0x75, 0x55, 0x6c, 0x4c)] + [0xff, 0x80, 0x01]))


def null_table_cases(full):
    """byte table for ARRAY ELEMENTS around the word NULL: the model says NULL iff the bare,
    trimmed element is ASCII-case-insensitively `null`.  Words: every position drawn from the
    four look-alikes of its letter (n N 0xEE 0xCE, ...: 256 words), every single-byte substitution
    of null/NULL/nUlL by each byte of the alphabet {n N u U l L, the same with bit 7 set, 0xff 0x80
    0x01}, the 3-byte words with one letter dropped and 5-byte words with one alphabet byte
    inserted; each alone, between other elements, with blanks, quoted, and with a dimension prefix.
    Thorough tier: additionally ALL 15^4 four-byte words over the alphabet, alone."""
    fam = [[0x6e, 0x4e, 0xee, 0xce], [0x75, 0x55, 0xf5, 0xd5], [0x6c, 0x4c, 0xec, 0xcc], [0x6c, 0x4c, 0xec, 0xcc]]
    words = set()
    for a in fam[0]:
        for b in fam[1]:
            for c in fam[2]:
                for d in fam[3]:
                    words.add(bytes([a, b, c, d]))
    for base in (b"null", b"NULL", b"nUlL"):
        for i in range(4):
            for x in NULL_ALPHA:
                words.add(base[:i] + bytes([x]) + base[i + 1:])
            words.add(base[:i] + base[i + 1:])                      # length 3
        for i in range(5):
            for x in NULL_ALPHA:
                words.add(base[:i] + bytes([x]) + base[i:])          # length 5
    for w in list(words):
        if len(w) == 4 and len(words) < 4000:
            words.add(w[:3]); words.add(w[1:])
    cases = []
    ws = sorted(words)
    for part in vf.chunks(ws, 40):
        ops = []
        for w in part:
            for t in (b"{" + w + b"}", b"{a," + w + b",b}", b"{ " + w + b"\t}", b'{"' + w + b'"}',
                      b"{" + w + b"," + w + b"}", b"[1:1]={" + w + b"}", b"[0:2]={x, " + w + b" ,NULL}"):
                ops.append("arr " + vf.hexs(t))
        cases.append(ops)
    if full:
        allw = []
        for a in NULL_ALPHA:
            for b in NULL_ALPHA:
                for c in NULL_ALPHA:
                    for d in NULL_ALPHA:
                        allw.append("arr " + vf.hexs(b"{" + bytes([a, b, c, d]) + b"}"))
        cases += [list(p) for p in vf.chunks(allw, 500)]
    return cases


def render_elem(rng, e):
    if e is None:
        return rng.choice([b"NULL", b"null", b"Null", b"nULL", b"nuLl"])
    special = b' ,{}"\\\t\n\r\x0b\x0c'
    bare_ok = len(e) > 0 and e.lower() != b"null"
    mode = rng.below(3) if bare_ok else 0
    if mode == 0:                                       # quoted; escape what must be escaped (+ some more)
        out = b'"'
        for c in e:
            c = bytes([c])
            if c in b'"\\' or rng.chance(1, 10):
                out += b"\\"
            out += c
        return out + b'"'
    # bare: escape specials (mode 1) or everything at random (mode 2)
    out = b""
    for i, c in enumerate(e):
        cb = bytes([c])
        if cb in special or (mode == 2 and rng.chance(1, 3)):
            # a trailing escaped blank is still handled by the code; keep it in the generator
            out += b"\\"
        out += cb
    if len(out) == 4 and out.lower() == b"null":
        out = b"\\" + out
    return out


def gen_list(rng):
    n = rng.below(6)
    lst = []
    for _ in range(n):
        if rng.chance(3, 20):
            lst.append(None)
        else:
            k = rng.below(6)
            lst.append(b"".join(rng.choice(ARR_ALPHA) for _ in range(k))[:8])
    return lst


def render_array(rng, lst):
    parts = []
    for e in lst:
        t = render_elem(rng, e)
        if rng.chance(3, 10):
            t = b"".join(rng.choice(SPACES) for _ in range(rng.below(3))) + t + \
                b"".join(rng.choice(SPACES) for _ in range(rng.below(3)))
        parts.append(t)
    body = b"{" + b",".join(parts) + b"}"
    if rng.chance(1, 5):
        body = b"[" + rng.choice([b"1:%d" % max(1, len(lst)), b"0:3", b"", b"-1:1", b"5"]) + b"]=" + body
    return body


def arr_case(rng, full):
    """one rendered array + every truncation + 1-byte mutations (every position; all
    replacement bytes in the thorough tier, 3 random ones in quick)"""
    lst = gen_list(rng)
    t = render_array(rng, lst)
    ops = ["arr " + vf.hexs(t)]
    for k in range(len(t)):
        ops.append("arr " + vf.hexs(t[:k]))
    for i in range(len(t)):
        reps = MUT_BYTES if full else [rng.choice(MUT_BYTES) for _ in range(3)]
        for r in reps:
            if t[i] != r:
                ops.append("arr " + vf.hexs(t[:i] + bytes([r]) + t[i + 1:]))
    for i in range(len(t) + 1):                         # 1-byte insertions of the structural bytes
        r = rng.choice(MUT_BYTES)
        ops.append("arr " + vf.hexs(t[:i] + bytes([r]) + t[i:]))
    return ops, lst, t


def expected_arr_line(lst):
    return " ".join(["list %d" % len(lst)] + ["N" if e is None else "s:" + vf.hexs(e) for e in lst])


def kw_cases(rng, words):
    ops = []
    for w in words:
        ops.append("kw " + vf.hexs(w))
        ops.append("kw " + vf.hexs(w[:-1]))
        ops.append("kw " + vf.hexs(w + b"s"))
        ops.append("kw " + vf.hexs(w.upper()))
        i = rng.below(len(w))
        ops.append("kw " + vf.hexs(w[:i] + bytes([rng.choice(b"abcdefghijklmnopqrstuvwxyz_")]) + w[i + 1:]))
        ops.append("id %s %d" % (vf.hexs(w), len(w) + 3))          # exact fit of the quoted form
        ops.append("id %s %d" % (vf.hexs(w), len(w) + 2))
        ops.append("id %s %d" % (vf.hexs(w), len(w) + 1))
    return ops


def kw_expect(ck, hcmd, words):
    ops, exp = [], []
    for w in words:
        ops.append("kw " + vf.hexs(w))
        exp.append("1")
        ops.append("id %s %d" % (vf.hexs(w), len(w) + 3))
        exp.append("1 " + vf.hexs(b'"' + w + b'"'))
    rc, out, err = ck.run(hcmd, input_text="\n".join(ops) + "\n")
    got = [l.split(" ## ")[0] for l in out.split("\n")]
    ck.cov["kw_words_checked_against_g_list"] = len(words)
    nbad = 0
    for op, e, g in zip(ops, exp, got):
        if e != g:
            nbad += 1
            if nbad <= 2:
                ck.report("obs", {"label": "reserved-word", "ops": [op], "expect": [e], "impl": [g],
                                  "model": ["(expected from pgutil_kwlookup.g) " + e]},
                          what="a word of the reserved list is not recognised / is emitted without quotes")
    return nbad


def run(ck):
    hcmd, dcmd = build(ck)
    ck.level = "proof"
    ck.cov["trusted_base"] = [
        "Lean 4.33 kernel; axioms ⊆ {propext, Quot.sound, Classical.choice}",
        "spec lean/Usual/C13/PgLex.lean = PostgreSQL scan.l rules for '…', E'…', identifiers "
        "(standard_conforming_strings=on; NAMEDATALEN truncation not modelled; reserved list = "
        "usual/pgutil_kwlookup.g, not a PostgreSQL release)",
        "spec renderArray/Elem.valid in lean/Usual/C13/PgArray.lean = array text grammar",
        "T-tie: checks/c13_gen.py (regex extraction of gperf tables, refuses unknown shapes)",
        "C-tie: harness/C13/h.c + lean/Driver/C13.lean + generator in checks/C13.py; "
        "AddressSanitizer/UBSan for out-of-bounds accesses of the real pointers",
        "C compiler, libc (malloc, strchr, strlen, strcmp, strncasecmp, isspace in the C locale)"]
    ck.cov["rule"] = (
        "quote: one case = one byte string (tokens from {' \" \\ . { } , space tab \\n a z _ 0 é 0xFF} "
        "∪ reserved words ∪ a few extra words, length 0..40) run through pg_quote_literal/ident/fqident "
        "at EVERY dstlen in 0..len+8 and around the exact fit; long inputs: schema parts of 120..135/200/300 "
        "bytes for pg_quote_fqident (across its 128-byte scmbuf) and 63..65/127..129/255/256-byte strings "
        "for all entry points, at sizes around the needed length (real and schema-cut-to-127), tiny and "
        "generous; byte table (exhaustive, every tier): every byte 1..255 alone and at first/middle/last "
        "position of a plain name and inside qualified names, all ordered pairs of 42 interesting bytes in "
        "three shapes; NULL-word table for array elements (look-alike bytes with bit 7 / bit 5 flipped at "
        "every position, lengths 3..5, alone / between elements / blanks / quoted / dimension prefix; all "
        "15^4 words in thorough); every quoting op also at dstlen 0, 1, 2 with the destination flush against "
        "a guard page; array: one case = a list rendered by the "
        "generator (quoted/bare/escaped/NULL/blanks/dimension prefix) + every truncation + 1-byte "
        "substitutions at every position + insertions; kw: every word of the .g list and neighbours. "
        "evaluations = op lines run through implementation and model; distinct_nontrivial = distinct op "
        "lines that get past the first size/shape test (quote: dstlen >= 3; arr: text starts with { or [; "
        "kw: length 2..17)")
    ck.assumptions += ["allocation succeeds (cx_alloc/strlist_* failure paths are C10's subject)",
                       "inputs contain no NUL byte (they are C strings)",
                       "identifiers longer than NAMEDATALEN-1 are outside the generator (≤ 40 bytes)",
                       "the empty identifier is excluded from the round-trip theorems (no correct output exists)",
                       "pg_quote_fqident refuses schema parts ≥ 128 bytes (scmbuf); fits_iff is stated below that"]
    ck.cov["partial"] = PARTIAL
    rng = vf.SplitMix(ck.seed * 1000003 + 13)
    words = [w.encode("latin-1") for w in (ck.kw[4] if ck.kw else ["select", "user", "table"])]
    allwords = words + EXTRA_WORDS

    ck.compare_cases(hcmd, dcmd, vf.corpus_cases(PID), label="corpus", nontrivial=lambda c: False)

    intensify = (not ck.proof_ok)
    hist = {"quote_strings": 0, "quote_ops": 0, "array_texts": 0, "array_ops": 0, "kw_ops": 0}

    def nontrivial_op(op):
        w = op.split(" ")
        if w[0] in ("lit", "id", "fq"):
            return int(w[2]) >= 3               # reaches a copy loop
        if w[0] == "arr":
            return w[1][:2] in ("7b", "5b")     # gets past the first test of pg_parse_array
        if w[0] == "kw":
            return 2 <= (0 if w[1] == "-" else len(w[1]) // 2) <= 17   # reaches the hash
        return False

    def stream(label, cases, chunk=400):
        for c in cases:
            for op in c:
                if nontrivial_op(op):
                    ck.distinct(op)
        for part in vf.chunks(cases, chunk):
            if ck.compare_cases(hcmd, dcmd, part, label=label, nontrivial=lambda c: False):
                return True
        return False

    # keyword table (C-tie of the T-tied table): every word, neighbours, exact-fit idents
    kwc = [kw_cases(rng, words)]
    hist["kw_ops"] = len(kwc[0])
    stream("kw", kwc)
    # independent of the (regenerated) tables: every word of the .g list must be reported as
    # reserved and must come out of pg_quote_ident in quotes.  Model and implementation share
    # the tables, so a wrong table is only visible against this expectation.
    kw_expect(ck, hcmd, words)

    # quoting
    nq = ck.scale(700, 25000) * (4 if intensify else 1)
    qcases = []
    for w in allwords[:: (1 if not ck.quick() else 3)]:
        qcases.append(quote_case(w))
        qcases.append(quote_case(b"a." + w))
    for s in [b"", b".", b"a.", b".a", b"a.b.c", b'a"', b"a'", b"a\\", b'""', b"''", b"\\'", b'"' * 7,
              b"'" * 7, b"\\" * 7, b"a" * 40, b"select.user", b"user.\"x", b"\xc3\xa9.\xff"]:
        qcases.append(quote_case(s))
    for _ in range(nq):
        qcases.append(quote_case(gen_string(rng, allwords)))
    qcases.append(["lit null %d" % n for n in range(0, 12)])
    lcases = long_cases(rng, words, full=not ck.quick())
    hist["long_input_cases"] = len(lcases)
    def schema_len(op):
        w = op.split(" ")
        raw = b"" if w[1] == "-" else bytes.fromhex(w[1])
        return raw.index(b".") if (w[0] == "fq" and b"." in raw) else -1
    hist["long_fq_schema_ge_128_ops"] = sum(1 for c in lcases for op in c if schema_len(op) >= 128)
    hist["long_fq_schema_120_127_ops"] = sum(1 for c in lcases for op in c if 120 <= schema_len(op) < 128)
    qcases += lcases
    bcases = byte_table_cases(words)
    hist["byte_table_cases"] = len(bcases)
    hist["byte_table_ops"] = sum(len(c) for c in bcases)
    hist["byte_table_exhaustive"] = "bytes 1..255 x 7 shapes; %d^2 pairs x 3 shapes" % len(INTERESTING)
    qcases += bcases
    hist["quote_strings"] = len(qcases)
    hist["quote_ops"] = sum(len(c) for c in qcases)
    stream("quote", qcases)

    # arrays
    na = ck.scale(120, 5000) * (4 if intensify else 1)
    acases = []
    rendered = []
    for _ in range(na):
        ops, lst, t = arr_case(rng, full=not ck.quick())
        acases.append(ops)
        rendered.append((ops[0], lst))
    ncases = null_table_cases(full=not ck.quick())
    hist["null_table_ops"] = sum(len(c) for c in ncases)
    acases += ncases
    hist["array_texts"] = len(acases)
    hist["array_ops"] = sum(len(c) for c in acases)
    stream("array", acases, chunk=40)

    # generator self-check + result histogram from one model run over the rendered texts:
    # the model must give back exactly the list the text was rendered from
    rc, out, _ = ck.run(dcmd, input_text="\n".join(op for op, _ in rendered) + "\n")
    got = out.split("\n")
    bad = [(op, expected_arr_line(l), g) for (op, l), g in zip(rendered, got) if g != expected_arr_line(l)]
    ck.cov["array_roundtrip_model_vs_generator"] = {"texts": len(rendered), "mismatch": len(bad)}
    if bad:
        ck.report("obs", {"label": "array-roundtrip", "ops": [bad[0][0]], "impl": ["(model) " + bad[0][2]],
                          "model": ["(expected by renderer) " + bad[0][1]]},
                  what="rendered list does not parse back to itself")
    # result classes over everything that was run (model side; the streams are equal)
    allops = [op for c in (kwc + qcases + acases) for op in c]
    rc, out, _ = ck.run(dcmd, input_text="\n".join(allops) + "\n")
    cls = {}
    for op, o in zip(allops, out.split("\n")):
        k = op.split(" ")[0] + ":" + (o.split(" ")[0] if o else "?")
        cls[k] = cls.get(k, 0) + 1
    hist["result_classes"] = cls
    ck.cov["histogram"] = hist
    ck.cov["traces_validated_against_impl"] = hist["quote_ops"] + hist["array_ops"] + hist["kw_ops"]
    ck.cov["evaluations"] = ck.cov["traces_validated_against_impl"]
    for c in (qcases[-2][:3] + acases[0][:2] + kwc[0][:1]):
        ck.sample(c)
    if not ck.quick():
        ck.leanchecker(PROP_MODULES)


PARTIAL = [
    "lexer spec: truncation of identifiers to NAMEDATALEN-1 bytes is not modelled",
    "reserved list is the one of usual/pgutil_kwlookup.g, not of a PostgreSQL release",
    "empty identifier / empty schema or name part excluded (`\"\"` is not a PostgreSQL identifier)",
]


def replay(ck, path):
    import json
    hcmd, dcmd = build(ck)
    r = json.load(open(path))
    if r.get("expect"):
        # expectation-based case (reserved list): run the implementation only
        rc, out, err = ck.run(hcmd, input_text="\n".join(r["ops"]) + "\n")
        got = [l.split(" ## ")[0] for l in out.split("\n") if l]
        bad = 0
        for op, e, g in zip(r["ops"], r["expect"], got):
            vf.log(f"{'!!' if e != g else '  '} {op}\n      impl    : {g}\n      expected: {e}")
            bad += (e != g)
        if bad:
            vf.log(f"VIOLATION property={ck.pid} replay={path}")
            return 1
        vf.log("replay: implementation gives the expected result now")
        return 0
    return vf.generic_replay(ck, path, hcmd, dcmd)
