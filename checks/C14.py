"""C14 — compat replacements behave exactly like the platform or specified functions.

proof:  lean/UsualProofs/Props/C14.lean — one `…_spec` theorem per function about the models in
        lean/Usual/C14/ (Str, Bits, Inet, Libc, Fnmatch)
C-tie:  harness/C14/h.c compiled in the FORCED-COMPAT configuration (c14_cfg.py derives config.h
        from the tree under test with every HAVE_* of these functions commented out, and a
        bits.h whose builtin branch is disabled) against lean/Driver/C14.lean: return values,
        full output buffers (exact-size blocks under ASan), errno.
three-way: harness/C14/g.c (no libusual header) calls glibc with the same arguments; every
        compat/glibc difference is LOGGED and must fall into a class of checks/c14_plat.py (each keyed
        to the exact condition of a documented / POSIX-right / POSIX-unspecified difference, printed
        with its count as coverage.platform_difference_classes); an unexplained difference is
        reported.  For fnmatch collating symbols / equivalence classes and for basename the PLATFORM IS
        THE ORACLE (known findings K2, K3: only their exact shapes are known, any other difference is a
        VIOLATION).  Elsewhere THE JUDGE OF VALUES IS THE LEAN SPEC/MODEL.
"""
import itertools
import os
import sys
import vf
import c14_cfg
import c14_plat

sys.path.insert(0, os.path.join(vf.VERIF, "extract"))
import c2lean  # noqa: E402

PID = "C14"
PROP_MODULES = ["UsualProofs.Props.C14"]
SRCS = ["repo:usual/string.c", "repo:usual/mbuf.c", "repo:usual/cxalloc.c", "repo:usual/base.c",
        "repo:usual/socket_ntop.c", "repo:usual/socket_pton.c", "repo:usual/wchar.c",
        "repo:usual/fileutil.c", "repo:usual/time.c", "repo:usual/fnmatch.c"]
H = vf.hexs


def build(ck):
    ck.forbid_scan()
    cfgdir, loopdir, forced, nloop = c14_cfg.derive(vf.REPO, ck.bdir)
    ck.cov["forced_compat"] = {"HAVE_commented_out": forced, "bits_h_builtin_branches_disabled": nloop}
    if nloop != 2:
        ck.broken.append("C-tie: usual/bits.h no longer has the two builtin/loop #if lines (loop variant not built)")
        ck.proof_ok = False
    # T-tie: compat memrchr re-translated into lean/Usual/Gen/C14T.lean, UsualProofs/Bridge/C14T.lean re-checked
    ck.build_proofs(PROP_MODULES + c2lean.ttie(ck, vf, PID), driver="drv_c14")
    inc = ["-I" + cfgdir, "-I" + vf.REPO]
    blo = ck.cc(os.path.join(ck.bdir, "bl.o"), [os.path.join(vf.HARNESS, PID, "bl.c")],
                flags=["-c", "-I" + loopdir] + inc, include_repo=False)
    go = ck.cc(os.path.join(ck.bdir, "g.o"), [os.path.join(vf.HARNESS, PID, "g.c")],
               flags=["-c"], include_repo=False, defines=())
    h = ck.cc(os.path.join(ck.bdir, "h"), [os.path.join(vf.HARNESS, PID, "h.c"), blo, go] + SRCS,
              flags=inc + ["-Drealloc=h_realloc"], include_repo=False)
    return [h], [ck.driver_path("drv_c14")]


# ------------------------------------------------------------------ generators
def strings(alpha, maxlen, minlen=0):
    for n in range(minlen, maxlen + 1):
        for t in itertools.product(alpha, repeat=n):
            yield bytes(t)


A5 = b"ab/.\x00"
A4 = b"ab/."
A3N = b"ab\x00"


def gen_copy(rng, L, full):
    """strlcpy strlcat strpcpy strpcat mempcpy: all n in 0..len+2, exact-size and guarded dst"""
    ops = []
    srcs = list(strings(A4, L)) if full else [s for s in strings(A4, L) if len(s) <= 3 or rng.chance(1, 12)]
    srcs += [b"a\x00b", b"\x00", b"ab\x00"]
    for s in srcs:
        ln = len(s.split(b"\x00")[0])
        for n in range(0, ln + 3):
            for pad in (0, 2):
                d = b"\xaa" * (n + pad)
                ops.append("strlcpy %s %s %d" % (H(d), H(s), n))
                ops.append("strpcpy %s %s %d" % (H(d), H(s), n))
        for n in range(0, len(s) + 1):
            ops.append("mempcpy %s %s %d" % (H(b"\xaa" * (n + 1)), H(s), n))
            ops.append("mempcpy %s %s %d" % (H(b"\xaa" * n), H(s), n))
    # concatenation: dst prefix × src × n; dst = prefix [NUL] fill
    pre = list(strings(b"ab", 3))
    ssrc = list(strings(A4, 3 if full else 2))
    for p in pre:
        for s in ssrc:
            for fill in (b"\xaa", b"b"):
                cap = len(p) + len(s) + 3
                for term in (True, False):
                    d0 = p + (b"\x00" if term else b"")
                    d = d0 + fill * (cap - len(d0))
                    for n in range(0, cap + 1):
                        if not full and not (n <= len(p) + 2 or rng.chance(1, 3)):
                            continue
                        ops.append("strlcat %s %s %d" % (H(d), H(s), n))
                        ops.append("strpcat %s %s %d" % (H(d), H(s), n))
    return ops


def gen_mem(rng, L, full):
    ops = []
    # strnlen
    for s in strings(A5, L if full else min(L, 4)):
        for m in range(0, len(s) + 1):
            ops.append("strnlen %s %d" % (H(s), m))
        if b"\x00" in s:
            ops.append("strnlen %s %d" % (H(s), len(s) + 1))
            ops.append("strnlen %s %d" % (H(s), len(s) + 2))
            ops.append("strnlen %s %d" % (H(s), 1 << 40))
    # memrchr: all n, chars incl. negative / > 255 values of c
    for s in strings(b"ab\x00\xe9", 5 if full else 4):
        for c in (97, 98, 0, 99, 97 + 256, 97 - 256, -23, 0xe9, 0xe9 - 512, 256, -256, 2147483647, -2147483648):
            for n in range(0, len(s) + 1):
                if full or n == len(s) or rng.chance(1, 3):
                    ops.append("memrchr %s %d %d" % (H(s), c, n))
    # memmem
    for h in strings(A3N, 6 if full else 5):
        for q in strings(A3N, 3):
            ops.append("memmem %s %s" % (H(h), H(q)))
    for h in strings(A5, 4 if full else 3):
        for q in strings(A5, 2):
            ops.append("memmem %s %s" % (H(h), H(q)))
    ops.append("memmem %s %s" % (H(b"ab" * 20 + b"abc"), H(b"ababc")))
    ops.append("memmem %s %s" % (H(b"a" * 40), H(b"a" * 41)))
    # mempbrk / memspn / memcspn
    for d in strings(A5, 5 if full else 4):
        for f in strings(A5, 2):
            ops.append("mempbrk %s %s" % (H(d), H(f)))
            ops.append("memspn %s %s" % (H(d), H(f)))
            ops.append("memcspn %s %s" % (H(d), H(f)))
        for f in (b"ab/", b"aaa", b"/.\x00a", bytes(range(256))):
            ops.append("mempbrk %s %s" % (H(d), H(f)))
            ops.append("memspn %s %s" % (H(d), H(f)))
            ops.append("memcspn %s %s" % (H(d), H(f)))
    # strsep
    for s in strings(A4, L if full else 4):
        for dl in (b"", b"/", b".", b"/.", b"ab", b"b/"):
            ops.append("strsep %s %s" % (H(s), H(dl)))
    ops.append("strsep null 2f")
    ops.append("strsep null -")
    return ops


def gen_path(rng, L, full):
    ops = ["basename null", "dirname null"]
    for p in strings(A4, L):
        ops.append("basename " + H(p))
        ops.append("dirname " + H(p))
    if full:
        for p in strings(b"a/.", 8, 7):
            ops.append("basename " + H(p))
            ops.append("dirname " + H(p))
    # static buffer boundaries: basename 256, dirname 1024
    for n in (254, 255, 256, 257, 300):
        for pre in (b"", b"x/", b"/"):
            for suf in (b"", b"/", b"//"):
                ops.append("basename " + H(pre + b"c" * n + suf))
    for n in (1022, 1023, 1024, 1025):
        for suf in (b"/f", b"//f/", b"/"):
            ops.append("dirname " + H(b"/" + b"d" * (n - 1) + suf))
            ops.append("basename " + H(b"/" + b"d" * (n - 1) + suf))
    return ops


def gen_strtonum(rng, full):
    ops = []
    ws = [b"", b" ", b"\t \n", b"\x0b\x0c\r"]
    sign = [b"", b"-", b"+", b"--", b"+-"]
    digs = [b"", b"0", b"7", b"42", b"007", b"100", b"9223372036854775807", b"9223372036854775808",
            b"9223372036854775809", b"99999999999999999999", b"18446744073709551616", b"1" + b"0" * 30]
    tail = [b"", b"x", b" ", b".5", b"\x00junk"]
    ranges = [(0, 100), (-100, 100), (-9223372036854775808, 9223372036854775807), (5, 5), (10, 1),
              (-9223372036854775808, -9223372036854775808), (9223372036854775807, 9223372036854775807),
              (0, 0), (-50, -1), (1, 9223372036854775807)]
    for w in ws:
        for sg in sign:
            for d in digs:
                for t in tail:
                    s = w + sg + d + t
                    for (a, b) in ranges:
                        if full or rng.chance(1, 4):
                            ops.append("strtonum %s %d %d" % (H(s), a, b))
    for s in (b"0x10", b"1e3", b" ", b"", b"-", b"+", b"4 2", b"\xa0" + b"5", b"5\xa0"):
        ops.append("strtonum %s -1000 1000" % H(s))
    return ops


def gen_bits(rng, full):
    ops = []
    for sh in (0, 16, 32, 48) if full else (0, 48):
        step = 64
        for lo in range(0, 65536, step):
            ops.append("bits %d %d %d" % (lo, sh, step))
    for k in range(0, 64):
        for d in (-1, 0, 1):
            v = (1 << k) + d
            if 0 <= v < (1 << 64):
                ops.append("bits %d 0 1" % v)
    ops.append("bits %d 0 1" % ((1 << 64) - 1))
    ops.append("bits %d 0 2" % ((1 << 63) - 1))
    for _ in range(200 if not full else 4000):
        ops.append("bits %d %d 3" % (rng.below(1 << 40), rng.below(24)))
    ops.append("bits 0 0 0")
    return ops


V6VALS = [1, 0xffff, 0x10, 0x100, 0x1000, 0xabcd, 0xf]


def v6addr(mask, vals):
    out = b""
    for i in range(8):
        v = vals[i] if (mask >> i) & 1 else 0
        out += bytes([v >> 8, v & 0xff])
    return out


def gen_inet(rng, full):
    ops = []
    texts6 = []
    # IPv4: octet boundary classes exhaustively + samples over the whole 2^32 space
    oct_ = [0, 1, 9, 10, 99, 100, 255]
    a4 = [bytes(t) for t in itertools.product(oct_, repeat=4)]
    for _ in range(20000 if full else 1500):
        a4.append(rng.next().to_bytes(8, "little")[:4])
    for a in a4:
        t = ".".join(str(x) for x in a).encode()
        sizes = (len(t) + 1, len(t), 16) if not full else (0, 1, 7, len(t), len(t) + 1, 16, 17)
        for sz in sizes:
            ops.append("ntop 4 %s %d" % (H(a), sz))
        ops.append("pton 4 " + H(t))                      # round trip
    ops += ["ntop 4 01020304 -1", "ntop 9 01020304 16", "ntop 0 - 4", "ntop 6 %s -2" % ("00" * 16)]
    # IPv6: all 2^8 zero/non-zero shapes × value classes, sizes around the exact fit
    for mask in range(256):
        for rep in range(len(V6VALS) if full else 3):
            vals = [V6VALS[(rep + i * (1 + rep)) % len(V6VALS)] for i in range(8)]
            if rep == 2:
                vals = [rng.choice(V6VALS + [rng.below(65536)]) for _ in range(8)]
            a = v6addr(mask, vals)
            ops.append("ntop 6 %s 46" % H(a))
            texts6.append(a)
            for sz in ((0, 2, 3, 8, 15, 16, 39, 40, 45) if full else (2, 16, 40)):
                ops.append("ntop 6 %s %d" % (H(a), sz))
    # embedded IPv4 forms
    for w5 in (0, 0xffff, 0xfffe, 1):
        for tail in (b"\x01\x02\x03\x04", b"\x00\x00\x00\x01", b"\x00\x01\x00\x00", b"\xff\xff\xff\xff", b"\x00\x00\x01\x00"):
            a = b"\x00" * 10 + bytes([w5 >> 8, w5 & 0xff]) + tail
            for sz in (46, 24, 23, 22, 10, 9, 8):
                ops.append("ntop 6 %s %d" % (H(a), sz))
    # pton4: token grammar
    parts = ["0", "1", "9", "10", "255", "256", "01", "00", "", "1a", "999", " 1", "-1", "+1", "25", "000", "0255", "3"]
    for n in (1, 2, 3, 4, 5):
        combos = itertools.product(parts, repeat=n)
        for t in combos:
            if n >= 3 and not full and not rng.chance(1, 40 if n == 4 else (400 if n == 5 else 4)):
                continue
            if n == 5 and full and not rng.chance(1, 20):
                continue
            ops.append("pton 4 " + H(".".join(t).encode()))
    for s in (b"1.2.3.4 ", b" 1.2.3.4", b"1.2.3.4.", b".1.2.3.4", b"1..2.3", b"\xb1.2.3.4", b"1.2.3.4\x00.5", b"0x1.2.3.4"):
        ops.append("pton 4 " + H(s))
    ops.append("pton 9 " + H(b"1.2.3.4"))
    return ops, texts6


def hexgrp(v, rng):
    s = "%x" % v
    k = rng.below(4)
    if k == 0:
        s = s.upper()
    elif k == 1:
        s = s.rjust(4, "0")
    return s


def gen_pton6(rng, full, nrand):
    ops = []
    g = ["0", "1", "ffff", "FFFF", "10000", "abcd", "", "g", "00000", "0000", "1.2.3.4", "AbCd", "fffff", "12"]
    for _ in range(nrand):
        n = rng.choice([1, 3, 6, 7, 8, 8, 8, 9])
        s = ":".join(rng.choice(g) for _ in range(n))
        if rng.chance(2, 5):
            s = s.replace(":0:", "::", 1)
        if rng.chance(1, 5):
            s = "::" + s
        if rng.chance(1, 5):
            s = s + "::"
        if rng.chance(1, 5):
            s = s + ":1.2.3.4"
        if rng.chance(1, 10):
            s = s + rng.choice([":", " ", "%eth0", "/64", ".", "::1"])
        ops.append("pton 6 " + H(s.encode()))
    # structured: k groups, '::' at every position, optional IPv4 tail
    for k in range(0, 9):
        for pos in range(-1, k + 1):
            for v4 in (False, True):
                groups = [hexgrp(rng.choice(V6VALS + [0, 0]), rng) for _ in range(k)]
                if pos < 0:
                    s = ":".join(groups)
                else:
                    s = ":".join(groups[:pos]) + "::" + ":".join(groups[pos:])
                if v4:
                    s = s + ("" if s.endswith(":") or s == "" else ":") + "9.8.7.6"
                ops.append("pton 6 " + H(s.encode()))
    for s in (b"", b":", b"::", b":::", b"1", b"::1", b"1::", b"1:2:3:4:5:6:7:8", b"1:2:3:4:5:6:7:8:9", b"1:2:3:4:5:6:7::",
              b"::1:2:3:4:5:6:7", b"::1:2:3:4:5:6:7:8", b"1::2::3", b"1:2:3:4:5:6:1.2.3.4", b"1:2:3:4:5:6:7:1.2.3.4",
              b"::1.2.3.4", b"::ffff:1.2.3.4", b"::1.2.3", b"::1.2.3.256", b"1.2.3.4", b"::1.2.3.4:5", b"12345::",
              b"::fffff", b"1:2:3:4:5:6:7:", b":1:2:3:4:5:6:7:8", b"::1.2.3.4.5", b"1:2:3:4:5:6::1.2.3.4",
              b"1:2:3:4:5:6:7::1.2.3.4", b"::01.2.3.4", b"::a1.2.3.4", b"0:0:0:0:0:0:0:0", b"::0:0", b"::\xff"):
        ops.append("pton 6 " + H(s))
    return ops


def gen_fmt(rng, full):
    ops = []
    lens = list(range(0, 301)) + [511, 512, 1000, 4095, 4096, 4097]
    if full:
        lens += [65536, 99999]
    for e in ("asprintf", "cx_asprintf", "cx_sprintf"):
        for k in (0, 1, 2):
            for n in lens:
                if (k == 1 and n < 2) or (k == 2 and n < 7):
                    continue
                if not full and e != "asprintf" and not (100 <= n <= 160 or n % 16 == 0):
                    continue
                ops.append("fmt %s %d %d" % (e, k, n))
    return ops


def gen_realloc(rng, full):
    vals = [0, 1, 2, 3, 255, 65535, 65536, (1 << 31) - 1, 1 << 31, (1 << 32) - 1, 1 << 32, (1 << 32) + 1,
            (1 << 33) - 1, 1 << 62, (1 << 63) - 1, 1 << 63, (1 << 64) - 1, 4294967295 * 3, 6074001000, 3037000500, 3037000499]
    ops = ["reallocarray %d %d" % (a, b) for a in vals for b in vals]
    for _ in range(300 if not full else 5000):
        a = rng.below(1 << rng.below(65))
        b = rng.below(1 << rng.below(65))
        ops.append("reallocarray %d %d" % (a, b))
        if a:
            q = ((1 << 64) - 1) // a
            for d in (-1, 0, 1):
                if 0 <= q + d < (1 << 64):
                    ops.append("reallocarray %d %d" % (a, q + d))
    return ops


MBTOK = [b"a", b"\xc3\xa9", b"\xe2\x82\xac", b"\xf0\x9f\x98\x80", b"\x00", b"\xff", b"\x80", b"\xc3", b"\xe2\x82",
         b"\xc0\xaf", b"\xed\xa0\x80", b"\xf4\x90\x80\x80", b"z"]


def gen_mbs(rng, full):
    ops = []
    toks = MBTOK if full else MBTOK[:9]
    for n in range(0, 4 if full else 3):
        for t in itertools.product(toks, repeat=n):
            s = b"".join(t)
            for srclen in range(0, len(s) + 1):
                if not full and srclen not in (len(s), len(s) - 1) and not rng.chance(1, 4):
                    continue
                for dl in ("null", "0", "1", "2", str(n + 1)):
                    ops.append("mbs %s %d %s" % (H(s), srclen, dl))
    return ops


def gen_mbsq(rng, full):
    """consecutive calls on ONE conversion state (seeded C14-16): the first call ends inside a 2/3/4-byte
    character at every cut position; the next call continues with the right tail / an ASCII byte / a wrong
    byte / a new lead byte; three-call splits of the 3- and 4-byte characters; explicit mbstate_t and
    ps == NULL (the function's internal state; only sequences that leave it initial again)"""
    ops = []
    chars = (b"\xc3\xa9", b"\xe2\x82\xac", b"\xf0\x9f\x98\x80")
    dls = ("null", "0", "1", "2", "3", "8")
    for ch in chars:
        for k in range(1, len(ch)):
            for pre in (b"", b"a"):
                first = pre + ch[:k]
                conts = [("tail", ch[k:]), ("tail", ch[k:] + b"b"), ("ascii", b"b" + ch[k:]), ("ascii", b"b"),
                         ("wrong", b"\xff"), ("wrong", b"\x28" + ch[k:]),
                         ("lead", b"\xc3\xa9"), ("lead", ch), ("empty", b"")]
                for kind, c in conts:
                    for dl in dls:
                        ops.append("mbsq ps %s %s %s" % (dl, H(first), H(c)))
                        if kind in ("tail", "empty"):
                            ops.append("mbsq ps %s %s %s %s" % (dl, H(first), H(c), H(b"b" + ch if kind == "tail" else ch[k:])))
                    if kind == "tail":
                        for dl in ("null", "8"):
                            ops.append("mbsq null %s %s %s" % (dl, H(first), H(c)))
            for k2 in range(k + 1, len(ch)):
                for dl in dls:
                    ops.append("mbsq ps %s %s %s %s" % (dl, H(b"a" + ch[:k]), H(ch[k:k2]), H(ch[k2:] + b"b")))
                    ops.append("mbsq ps %s %s %s %s" % (dl, H(ch[:k]), H(ch[k:k2]), H(b"b" + ch[k2:])))
                    ops.append("mbsq ps %s %s %s %s" % (dl, H(ch[:k]), H(b"\x41"), H(ch[k:])))
                for dl in ("null", "8"):
                    ops.append("mbsq null %s %s %s %s" % (dl, H(b"a" + ch[:k]), H(ch[k:k2]), H(ch[k2:] + b"b")))
    # complete characters only: the state stays initial, calls are independent
    for dl in ("null", "2"):
        ops.append("mbsq ps %s %s %s %s" % (dl, H(b"a\xc3\xa9"), H(b"\xe2\x82\xac"), H(b"b")))
        ops.append("mbsq null %s %s %s" % (dl, H(b"a\xc3\xa9"), H(b"b")))
    return ops


def gen_getline(rng, full):
    ops = []
    toks = [b"a", b"\n", b"\x00", b"bc", b"\n\n", b"\r\n"]
    runs = [126, 127, 128, 129, 510, 511, 512, 513, 1022, 1023, 1024, 1025, 2047, 2048]
    inits = ["null", "1", "127", "128", "129", "200", "600", "4096"]
    for n in range(0, 5 if full else 4):
        for t in itertools.product(toks, repeat=n):
            c = b"".join(t)
            for i in (inits if full else ("null", "128")):
                ops.append("getline %s %s" % (H(c), i))
    for r in runs:
        for tail in (b"", b"\n", b"\nx", b"\n" + b"y" * 600 + b"\n"):
            for head in (b"", b"\x00", b"q\n"):
                for i in inits:
                    ops.append("getline %s %s" % (H(head + b"L" * r + tail), i))
    return ops


def gen_timegm(rng, full):
    ops = []
    for y in (1900, 1901, 1969, 1970, 1971, 1999, 2000, 2001, 2004, 2024, 2038, 2100, 2400, 1600, 1):
        for m in range(1, 13):
            for d in (1, 28, 29, 30, 31):
                dim = [31, 29 if (y % 4 == 0 and (y % 100 != 0 or y % 400 == 0)) else 28, 31, 30, 31, 30, 31, 31, 30, 31, 30, 31][m - 1]
                if d > dim:
                    continue
                ops.append("timegm %d %d %d 0 0 0" % (y, m, d))
                ops.append("timegm %d %d %d 23 59 59" % (y, m, d))
    for _ in range(400 if not full else 20000):
        y = 1 + rng.below(3000)
        ops.append("timegm %d %d %d %d %d %d" % (y, 1 + rng.below(12), 1 + rng.below(28), rng.below(24), rng.below(60), rng.below(61)))
    # out-of-range fields are normalised
    for t in ("2024 13 1 0 0 0", "2024 0 1 0 0 0", "2024 -11 15 0 0 0", "2023 25 31 0 0 0", "2024 3 0 0 0 0", "2024 1 366 0 0 0",
              "2024 1 1 24 0 0", "2024 1 1 0 60 0", "2024 1 1 0 0 -1", "1970 1 1 0 0 -1", "2024 2 30 25 61 61", "2024 1 -30 0 0 0"):
        ops.append("timegm " + t)
    return ops


FN_SYMS = [b"a", b"b", b"/", b".", b"*", b"?", b"[", b"]", b"!", b"\\"]
FN_TOKS = [b"a", b"b", b"*", b"?", b"[ab]", b"[!a]", b"[a-b]", b"/", b".", b"\\*", b"[", b"]", b"\\", b"[[:alpha:]]",
           b"[^b]", b"[]a]", b"[a\\]]", b"[!]]", b"[a-]", b"[/]", b"[.]", b"A", b"[A-B]", b"[[:upper:]]", b"[[.a.]]",
           b"[[=a=]]", b"[[:bogus:]]", b"[\\a-\\b]", b"[a", b"-", b"\\a", b"\\/", b"**", b"*."]
FN_FLAGS_NOPERIOD = [0, 1, 2, 3, 8, 16, 17, 9, 24, 18, 27]
FN_FLAGS_PERIOD = [4, 5, 7, 12, 20, 21, 31]


CLASS_NAMES = [b"alnum", b"alpha", b"blank", b"cntrl", b"digit", b"graph", b"lower", b"print", b"punct",
               b"space", b"upper", b"xdigit"]


def class_name_variants():
    """(a) valid, (b) every strict prefix, (c) empty, (d) valid + extra char, (e) wrong case, others"""
    v = {}
    for n in CLASS_NAMES:
        v[n] = "valid"
    for n in CLASS_NAMES:
        for k in range(0, len(n)):
            v.setdefault(n[:k], "empty" if k == 0 else "prefix")
        for x in (b"x", b"s", b":", b" ", n[-1:]):
            v.setdefault(n + x, "valid+extra")
        v.setdefault(n.upper(), "wrong-case")
        v.setdefault(n.capitalize(), "wrong-case")
        v.setdefault(n[1:], "suffix")
    for n in (b"bogus", b"word", b"ascii", b"alpha\\", b"a-z", b"0123456789", b"digitdigit", b"xdigitxdigit"):
        v.setdefault(n, "other")
    return sorted(v.items())


def gen_fnmatch_classes(rng, full):
    """bracket expressions with class names in every state of (in)validity × subjects inside and
    outside the would-be class × negation × FNM_CASEFOLD; and the lookup `wctype_wcsn` itself"""
    ops = []
    subj = [b"a", b"Z", b"f", b"x", b"5", b" ", b"\t", b"_", b":", b"[", b"]", b".", b"/", b"\x7f", b""]
    for name, kind in class_name_variants():
        ops.append("wctype " + H(name))
        forms = [b"[[:" + name + b":]]", b"[![:" + name + b":]]", b"[^[:" + name + b":]]",
                 b"[[:" + name + b":]b]", b"[b[:" + name + b":]]", b"x[[:" + name + b":]]y", b"*[[:" + name + b":]]",
                 # (f) unterminated
                 b"[[:" + name + b":", b"[[:" + name + b"]", b"[[:" + name + b":]", b"[[:" + name, b"[:" + name + b":]"]
        for p in forms:
            for s in subj:
                ss = [s]
                if p.startswith(b"x"):
                    ss = [b"x" + s + b"y"]
                elif p.startswith(b"*"):
                    ss = [b"file." + s]
                for s2 in ss:
                    for fl in ((0, 8) if not full else (0, 8, 1, 2, 4, 16)):
                        if not full and kind == "valid+extra" and not rng.chance(1, 2):
                            continue
                        ops.append("fnmatch %s %s %d" % (H(p), H(s2), fl))
    # the documented examples of the seeded change Xx3-3
    for p, s in ((b"[[:al:]]", b"a"), (b"[[::]]", b"a"), (b"[[:x:]]", b"f"), (b"x[[:dig:]]y", b"x1y"),
                 (b"*.[[:low:]]", b"file.c"), (b"[[:al:]b]", b"b"), (b"[[:alpha:]]", b"a"), (b"[[:alphax:]]", b"a")):
        ops.append("fnmatch %s %s 0" % (H(p), H(s)))
    for n in (b"", b"a", b"alpha", b"alphaa", b"ALPHA", b"alpha\x00", b"al\xe9", b"123456789", b"1234567890", b"xdigit", b"xdigi"):
        ops.append("wctype " + H(n))
    return ops


def gen_fnmatch_period(rng, full):
    """leading periods: every wildcard kind × plain / escaped / bracketed dot × leading or after-slash
    position × flag sets with and without FNM_PERIOD / PATHNAME / NOESCAPE (F41: `*\\.c` vs `.c`)"""
    ops = []
    wild = [b"", b"*", b"?", b"[!a]", b"[a-z.]", b"**", b"*?", b"?*", b"[.]"]
    dots = [b".", b"\\.", b"[.]", b"\\\\."]
    tails = [b"c", b"", b"*"]
    heads = [b"", b"a/", b"*/", b"a/b/"]
    subj = [b".c", b"x.c", b"..c", b".", b"..", b"c", b"", b"a/.c", b"a/x.c", b"a/..c", b"a/.", b"a/b/.c", b"x/.c",
            b"\\.c", b"x\\.c", b"a.c/.c"]
    flags = (0, 1, 4, 5, 6, 7, 12, 20, 21) if full else (4, 5, 6, 7, 0)
    for h in heads:
        for w in wild:
            for d in dots:
                for t in tails:
                    p = h + w + d + t
                    for s in subj:
                        if not full and len(h) > 2 and not rng.chance(1, 2):
                            continue
                        for fl in flags:
                            ops.append("fnmatch %s %s %d" % (H(p), H(s), fl))
    return ops


def gen_fnmatch(rng, full):
    ops = []
    flags = FN_FLAGS_NOPERIOD + FN_FLAGS_PERIOD
    # bounded-exhaustive: raw symbol patterns × subjects
    subj3 = list(strings(b"ab/.", 3)) + [b"[", b"[a", b"]", b"!", b"\\", b"a]", b"*", b"?", b"A", b"aB", b"a/b/", b"/a/b", b".a/.b"]
    plen = 4 if full else 3
    for p in strings(b"".join(FN_SYMS), plen):
        for s in subj3:
            if not full and len(p) == 3 and not rng.chance(1, 3):
                continue
            if full and len(p) == 4 and not rng.chance(1, 6):
                continue
            for fl in ((0, 1, 4, 5, 16, 2) if not full else (0, 1, 2, 4, 5, 16, 17, 8)):
                ops.append("fnmatch %s %s %d" % (H(p), H(s), fl))
    # token patterns up to 6 tokens × subjects up to 6 (sampled)
    n = 1200000 if full else 40000
    subj_alpha = [b"a", b"b", b"/", b".", b"a", b"b", b"[", b"]", b"!", b"\\", b"*", b"?", b"A", b"B", b"-"]
    for _ in range(n):
        k = 1 + rng.below(6)
        p = b"".join(rng.choice(FN_TOKS) for _ in range(k))
        sl = rng.below(7)
        s = b"".join(rng.choice(subj_alpha[: (6 if rng.chance(2, 3) else len(subj_alpha))]) for _ in range(sl))
        ops.append("fnmatch %s %s %d" % (H(p), H(s), rng.choice(flags)))
    ops += gen_fnmatch_classes(rng, full)
    ops += gen_fnmatch_period(rng, full)
    # non-ASCII subjects / patterns (decoded as wide characters)
    for p, s in ((b"?", b"\xc3\xa9"), (b"??", b"\xc3\xa9"), (b"\xc3\xa9", b"\xc3\xa9"), (b"[\xc3\xa9]", b"\xc3\xa9"),
                 (b"*", b"\xff\xfe"), (b"??", b"\xff\xfe"), (b"?", b"\xe2\x82"), (b"a\xff", b"a\xff"), (b"a\xc3", b"a\xc3")):
        for fl in (0, 1):
            ops.append("fnmatch %s %s %d" % (H(p), H(s), fl))
    # long inputs (heap buffers instead of the 128-entry stack arrays)
    for k in (126, 127, 128, 129, 300):
        ops.append("fnmatch %s %s 0" % (H(b"a" * k), H(b"a" * k)))
        ops.append("fnmatch %s %s 0" % (H(b"*" + b"a" * k), H(b"b" + b"a" * k)))
        # (the reference matcher back-tracks: keep the number of stars small on long subjects)
        ops.append("fnmatch %s %s 1" % (H(b"a*a*b"), H(b"a" * k)))
    return ops


ERRNO_GROUPS = ("path", "strtonum", "inet", "pton6", "fmt", "reallocarray", "mbs", "getline", "fnmatch")
ERRNO_VALUES = ("0", "ERANGE", "EINVAL", "EPERM", "ENOMEM")


LAYOUT_GROUPS = ("copy", "bound", "mem", "path", "strtonum", "inet", "pton6", "fnmatch")
LAYOUTS = ("sep", "sep", "pageend", "pagestart", "unaligned")
LAYOUTS_COPY = ("sep", "pageend", "pagestart", "unaligned", "srcdst", "dstsrc")


def with_context(rng, name, ops, dist):
    """Cut `ops` into 100-line cases; every case starts with an `errno NAME` line (groups that touch
    errno) and a `layout NAME` line (groups whose buffers can be placed), and the context is changed
    again at random places inside the case.  The harness chains errno from call to call.  `dist`
    collects the distribution for the evidence."""
    use_e = name in ERRNO_GROUPS
    use_l = name in LAYOUT_GROUPS
    lays = LAYOUTS_COPY if name in ("copy", "bound") else LAYOUTS
    out, cur = [], []
    lay, err = "sep", "0"

    def ctx():
        nonlocal lay, err
        if use_e:
            err = rng.choice(ERRNO_VALUES)
            cur.append("errno " + err)
        if use_l:
            lay = rng.choice(lays)
            cur.append("layout " + lay)

    for o in ops:
        if not cur:
            lay, err = "sep", "0"
            ctx()
        elif (use_e or use_l) and len(cur) <= 97 and rng.chance(1, 12):
            ctx()
        cur.append(o)
        f = o.split(" ", 1)[0]
        if use_l:
            k = f + ":" + lay
            dist["layout"][k] = dist["layout"].get(k, 0) + 1
        if use_e:
            dist["errno_on_entry_set"][err] = dist["errno_on_entry_set"].get(err, 0) + 1
        if len(cur) >= 100:
            out += cur
            cur = []
    return out + cur


def gen_boundaries(rng, full):
    """sizes 0/1/len-1/len/len+1/len+2 around word, cache-line and buffer boundaries"""
    ops = []
    lens = [0, 1, 2, 3, 7, 8, 9, 15, 16, 17, 31, 32, 33, 63, 64, 65, 127, 128, 129, 255, 256, 257]
    if full:
        lens += [511, 512, 513, 1023, 1024, 1025, 4095, 4096, 4097]
    for L in lens:
        src = bytes(97 + (i * 5 + L) % 26 for i in range(L))
        for n in sorted(set(x for x in (0, 1, L - 1, L, L + 1, L + 2) if x >= 0)):
            for pad in (0, 1):
                d = b"\xaa" * (n + pad)
                ops.append("strlcpy %s %s %d" % (H(d), H(src), n))
                ops.append("strpcpy %s %s %d" % (H(d), H(src), n))
            # concatenation onto a prefix of length P inside a buffer of n bytes
            for P in (0, 1, max(0, n - 1), n):
                if P > n:
                    continue
                pre = b"p" * P
                d = (pre + b"\x00" + b"\xaa" * n)[: max(n, P + 1)] if P < n else pre + b"\xaa"
                d = d + b"\xaa" * max(0, n - len(d))
                if n <= len(d):
                    ops.append("strlcat %s %s %d" % (H(d), H(src), n))
                    ops.append("strpcat %s %s %d" % (H(d), H(src), n))
        for n in sorted(set(x for x in (0, 1, L - 1, L) if 0 <= x <= L)):
            ops.append("mempcpy %s %s %d" % (H(b"\xaa" * n), H(src), n))
            ops.append("mempcpy %s %s %d" % (H(b"\xaa" * (n + 1)), H(src), n))
            ops.append("memrchr %s %d %d" % (H(src), src[0] if L else 97, n))
            ops.append("memrchr %s %d %d" % (H(src), 0, n))
            ops.append("strnlen %s %d" % (H(src), n))
        ops.append("strnlen %s %d" % (H(src + b"\x00"), L + 1))
        ops.append("strnlen %s %d" % (H(src + b"\x00"), L + 2))
        # needle at the very start / very end / one short of the end / absent; needle = haystack
        if L >= 2:
            for q in (src[:1], src[:2], src[-1:], src[-2:], src[1:], src[:-1], src, src + b"z", src[-2:] + b"z"):
                ops.append("memmem %s %s" % (H(src), H(q)))
            ops.append("mempbrk %s %s" % (H(src), H(src[-1:] + b"\x00")))
            ops.append("memspn %s %s" % (H(src), H(bytes(set(src[:-1])))))
            ops.append("memcspn %s %s" % (H(src), H(src[-1:])))
        ops.append("strsep %s %s" % (H(src.replace(b"a", b",")), H(b",")))
        ops.append("basename " + H(src.replace(b"a", b"/") or b"/"))
        ops.append("dirname " + H(src.replace(b"a", b"/") or b"/"))
    return ops


def n_class(op):
    """boundary class of the size argument of a copy op"""
    w = op.split(" ")
    if w[0] not in ("strlcpy", "strpcpy", "strlcat", "strpcat", "mempcpy") or len(w) != 4:
        return None
    try:
        n = int(w[3])
        L = 0 if w[2] == "-" else len(w[2]) // 2
        if w[0] != "mempcpy" and w[2] != "-":
            L = len(bytes.fromhex(w[2]).split(b"\x00")[0])
    except ValueError:
        return None
    if n == 0:
        return "n=0"
    if n == 1:
        return "n=1"
    if n < L:
        return "n<len"
    if n == L:
        return "n=len"
    if n == L + 1:
        return "n=len+1"
    return "n>len+1"


# ------------------------------------------------------------------ platform differences
# checks/c14_plat.py: every tolerated class is keyed to the exact condition its justification talks
# about; anything else is UNCLASSIFIED and reported (F41 had been sitting in a per-flag bucket)
def classify_plat(fn, op, a, b):
    try:
        return c14_plat.classify(fn, op, a, b)
    except (ValueError, IndexError):
        return "UNCLASSIFIED"


def run(ck):
    plog = os.path.join(ck.bdir, "plat.log")
    if os.path.exists(plog):
        os.remove(plog)
    os.environ["C14_PLATLOG"] = plog
    hcmd, dcmd = build(ck)
    ck.level = "proof"
    ck.cov["trusted_base"] = [
        "Lean 4.33 kernel; axioms ⊆ {propext, Quot.sound, Classical.choice}",
        "specifications: the BSD/POSIX texts restated as Lean predicates in lean/UsualProofs/Props/C14.lean "
        "(strlcpy/strlcat OpenBSD man page, POSIX basename/dirname/strnlen/strsep/getline/mbsnrtowcs, "
        "OpenBSD strtonum, RFC 4291/5952-style '::' placement as coded by BSD inet_ntop, glob semantics `Matches`)",
        "C-tie: harness/C14/h.c + bl.c (loop variant of bits.h) + lean/Driver/C14.lean + generators in checks/C14.py; "
        "checks/c14_cfg.py (derivation of the forced-compat config.h / bits.h from the tree under test)",
        "AddressSanitizer/UBSan for accesses outside exact-size blocks",
        "libc underneath the replacements: strlen/memcpy/memchr/strchr/strrchr/strcspn/strtoll, snprintf/vsnprintf, "
        "realloc, mbrtowc in C.UTF-8 (modelled by utf8Mbr for the tie), getc, mktime/setenv/tzset (timegm), "
        "isw*/tow* (modelled for ASCII)",
        "glibc is NOT trusted and not the judge: g.c only feeds coverage.platform_differences"]
    ck.cov["rule"] = (
        "one evaluation = one op line = one call of one replacement with complete observation (return value, "
        "whole destination buffer incl. guard bytes, errno ON EXIT under PRNG-chosen errno ON ENTRY "
        "(0/ERANGE/EINVAL/EPERM/ENOMEM, chained from call to call), updated pointers). String/memory functions: "
        "bounded-exhaustive over {a,b,/,.,NUL} (length ≤ 6 thorough, ≤ 4 + samples quick) with every n in 0..len+2, "
        "exact-size and padded destinations; paths: every string over {a,b,/,.} to length 6 + buffer-limit lengths; "
        "ffs/fls: every 16-bit value at 4 shifts + all 2^k-1,2^k,2^k+1, builtin AND loop variants; inet_ntop4: "
        "{0,1,9,10,99,100,255}^4 + samples of the 2^32 space, each at sizes around the exact fit; inet_ntop6: all "
        "2^8 zero/non-zero word shapes × value classes × sizes; inet_pton: token grammars + round trips; formatted "
        "lengths 0..300 (+512,4096,…) × 3 formats × 3 entry points; fnmatch: all symbol strings to length 3/4 over "
        "{a,b,/,.,*,?,[,],!,\\} × subjects to 3 × flag sets + sampled 1..6-token patterns × subjects to 6. "
        "distinct_nontrivial = distinct op lines whose model result is not `bad-op`")
    ck.assumptions += [
        "forced-compat configuration (every HAVE_* of these functions undefined); 64-bit little-endian platform",
        "allocation succeeds (failure paths are C10's subject)",
        "arguments respect the C contract of each function (n ≤ size of dst, C strings are terminated)",
        "locale C.UTF-8 for mbsnrtowcs/fnmatch; ASCII subjects for character classes and case folding",
        "timegm: compared with the proleptic-Gregorian specification on samples; mktime is libc's",
        "basename: last component ≤ 255 bytes when the path ends in '/' (static buffer), dirname result ≤ 1023 bytes "
        "(longer: NULL/ENAMETOOLONG, mirrored by the model)"]
    ck.cov["partial"] = PARTIAL
    rng = vf.SplitMix(ck.seed * 1000003 + 14)
    full = not ck.quick()
    intensify = not ck.proof_ok

    ck.compare_cases(hcmd, dcmd, vf.corpus_cases(PID), label="corpus")

    groups = {}
    groups["copy"] = gen_copy(rng, 6 if full else 5, full)
    groups["mem"] = gen_mem(rng, 6, full)
    groups["path"] = gen_path(rng, 6, full)
    groups["strtonum"] = gen_strtonum(rng, full)
    groups["bits"] = gen_bits(rng, full)
    inet, texts6 = gen_inet(rng, full)
    groups["inet"] = inet
    groups["pton6"] = gen_pton6(rng, full, (60000 if full else 6000) * (4 if intensify else 1))
    groups["fmt"] = gen_fmt(rng, full)
    groups["reallocarray"] = gen_realloc(rng, full)
    groups["mbs"] = gen_mbs(rng, full) + gen_mbsq(rng, full)
    groups["getline"] = gen_getline(rng, full)
    groups["timegm"] = gen_timegm(rng, full)
    groups["fnmatch"] = gen_fnmatch(rng, full or intensify)

    # errno history: every replacement that reads or writes errno is entered under several values
    # of errno (PRNG-chosen `errno NAME` ops; the harness then chains: what a call leaves behind is
    # the entry errno of the next call, so failing-then-succeeding pairs arise all the time) and
    # its errno-on-exit is part of the observable
    groups["bound"] = gen_boundaries(rng, full)
    dist = {"layout": {}, "errno_on_entry_set": {}, "copy_size_class": {}}
    for name in list(groups):
        for o in groups[name]:
            c = n_class(o)
            if c:
                k = o.split(" ", 1)[0] + ":" + c
                dist["copy_size_class"][k] = dist["copy_size_class"].get(k, 0) + 1
        groups[name] = with_context(rng, name, groups[name], dist)
    ck.cov["distribution"] = dist

    hist = {}
    total = 0
    seen = set()
    failed = False
    for name, ops in groups.items():
        hist[name] = len(ops)
        total += len(ops)
        for o in ops:
            seen.add(hash(o))
        # small cases keep shrinking cheap; a hanging/crashing implementation (the unrepaired
        # cx_vasprintf formats garbage on the second pass) must not stall the run
        cases = [c for c in vf.chunks(ops, 100)]
        for part in vf.chunks(cases, 2000):
            if ck.compare_cases(hcmd, dcmd, part, label=name, timeout=(60 if name == "fmt" else 600),
                                max_failures=3):
                failed = True
                break

    # second stage for IPv6: text produced by the MODEL's ntop6 must parse back (model and code)
    rc, out, _ = ck.run(dcmd, input_text="\n".join("ntop 6 %s 46" % H(a) for a in texts6) + "\n")
    rt = []
    for a, line in zip(texts6, out.split("\n")):
        w = line.split(" ")
        if len(w) == 3 and w[0] == "dst":
            txt = bytes.fromhex(w[2]).split(b"\x00")[0]
            rt.append(("pton 6 " + H(txt), "1 e=0 " + a.hex()))
    ck.compare_cases(hcmd, dcmd, [[op for op, _ in part] for part in vf.chunks(rt, 500)], label="ntop6-pton6")
    rc, out, _ = ck.run(dcmd, input_text="\n".join(op for op, _ in rt) + "\n")
    bad = [(op, exp, got) for (op, exp), got in zip(rt, out.split("\n")) if got != exp]
    ck.cov["ntop6_pton6_roundtrip"] = {"addresses": len(rt), "mismatch": len(bad)}
    if bad:
        ck.report("obs", {"label": "ntop6-pton6-roundtrip", "ops": [bad[0][0]], "model": [bad[0][2]],
                          "impl": ["expected " + bad[0][1]]}, what="pton6(ntop6(a)) != a")
    total += 2 * len(rt)

    # result classes (model side; the streams are equal when nothing was reported)
    allops = [o for ops in groups.values() for o in ops]
    rc, out, _ = ck.run(dcmd, input_text="\n".join(allops) + "\n")
    cls = {}
    nbad = 0
    for op, o in zip(allops, out.split("\n")):
        f = op.split(" ")[0]
        first = o.split(" ")[0] if o else "?"
        if o == "bad-op":
            nbad += 1
        if f in ("bits", "getline", "strlcpy", "strlcat", "strnlen", "memspn", "memcspn", "mempcpy", "timegm", "strtonum"):
            first = "bad-op" if o == "bad-op" else ("err" if f == "strtonum" and " ok " not in o else "value")
        elif first not in ("null", "bad-op", "-1", "dst", "realloc") and f not in ("fnmatch", "pton"):
            first = "value"
        k = f + ":" + first
        cls[k] = cls.get(k, 0) + 1
    hist["result_classes"] = cls
    ck.cov["histogram"] = hist
    ck.cov["evaluations"] = total
    ck.cov["op_lines_rejected_as_bad_op"] = nbad
    ck.cov["distinct_nontrivial"] = len(seen) - nbad
    ck.cov["traces_validated_against_impl"] = total
    for name in ("copy", "path", "inet", "fmt", "fnmatch", "getline"):
        ck.sample(groups[name][len(groups[name]) // 2])

    # platform differences: the Lean model is the judge of VALUES; every compat/glibc difference must fall
    # into a class keyed to a documented / POSIX-right / POSIX-unspecified condition (checks/c14_plat.py)
    pd = {}
    examples = {}
    compared = {}
    unclassified = []
    oracle = {name: {"known": 0, "violations": 0} for name in c14_plat.ORACLE}
    seen_pd = set()
    n = 0
    if os.path.exists(plog):
        for line in open(plog, errors="replace"):
            f = line.rstrip("\n").split("\t")
            if len(f) < 2:
                continue
            if f[0] == "#compared":
                compared[f[1]] = compared.get(f[1], 0) + int(f[2])
                continue
            n += 1
            key = tuple(f[:4])
            if key in seen_pd:
                continue
            seen_pd.add(key)
            c = classify_plat(f[0], f[1], f[2] if len(f) > 2 else "", f[3] if len(f) > 3 else "")
            if c in c14_plat.ORACLE:
                # known findings K2/K3 live here: the platform is the oracle, every difference is reported;
                # only the exact shapes pinned in known_findings.json print KNOWN-FINDING, the rest VIOLATION
                rep = c14_plat.oracle_report(c, f[1], f[2] if len(f) > 2 else "", f[3] if len(f) > 3 else "")
                if vf.match_known(ck._known, PID, rep) is not None:
                    oracle[c]["known"] += 1
                    ck.report("obs", rep)
                else:
                    oracle[c]["violations"] += 1
                    if oracle[c]["violations"] <= 3:
                        ck.report("obs", rep, what="compat %s differs from the platform function (the oracle for "
                                                   "this family) outside the shape of known finding %s"
                                                   % (f[0], c14_plat.ORACLE[c][0]))
                continue
            pd[c] = pd.get(c, 0) + 1
            if c == "UNCLASSIFIED":
                unclassified.append(f)
            if c not in examples:
                examples[c] = {"op": f[1][:200], "compat": (f[2] if len(f) > 2 else "")[:80],
                               "glibc": (f[3] if len(f) > 3 else "")[:80]}
    ck.cov["platform_calls_compared"] = compared
    ck.cov["platform_differences"] = {"total": n, "distinct": len(seen_pd), "by_class": pd, "examples": examples,
                                      "note": "compat vs glibc on the same arguments; the judge is the Lean model"}
    ck.cov["platform_difference_classes"] = {
        name: {"count": pd.get(name, 0), "kind": kind, "justification": why}
        for name, (kind, why) in c14_plat.CLASSES.items()}
    ck.cov["platform_oracle_families"] = {
        name: {"known_finding": kid, "monitor_class": cls, "differences_matching_the_known_finding": oracle[name]["known"],
               "other_differences_reported": oracle[name]["violations"], "what": why}
        for name, (kid, cls, why) in c14_plat.ORACLE.items()}
    ck.cov["platform_difference_classes"]["UNCLASSIFIED"] = {
        "count": len(unclassified), "kind": "reported",
        "justification": "no class explains the difference: reported (kind int), to be looked at"}
    for f in unclassified[:3]:
        ck.report("int", {"label": "unexplained-platform-difference", "ops": [f[1]],
                          "impl": [f[2] if len(f) > 2 else ""], "platform": [f[3] if len(f) > 3 else ""]},
                  what="compat %s and the platform differ and no documented/POSIX class explains it "
                       "(the Lean model agrees with compat: check the SPEC)" % f[0])
    if not ck.quick():
        ck.leanchecker(PROP_MODULES)


PARTIAL = [
    "fnmatch: nothing compared-only any more — the mirror of the code's loop (wfn) is proved sound and complete "
    "against the declarative semantics (Matches without FNM_PERIOD; position-aware MatchesP, which states the "
    "leading-period rule and the code's `*.` entry rule, for all flag sets); what remains assumed is the model "
    "of iswctype/towupper for ASCII and mbstr_decode (UTF-8) underneath",
    "timegm, getline, mbsnrtowcs, asprintf depend on libc services that are parameters of the models "
    "(mktime, getc, mbrtowc, vsnprintf); their behaviour is assumed as modelled",
    "pton4/pton6: complete accepted grammars proved (pton4_spec, pton6_spec); ntop6: canonical run selection, "
    "length bound and round trip proved, the exact hex/decimal rendering is part of the model (compared)",
]


def replay(ck, path):
    import json
    r = json.load(open(path))
    if r.get("label") in ("platform-oracle", "unexplained-platform-difference"):
        # compat against the platform function on the recorded op
        plog = os.path.join(ck.bdir, "plat-replay.log")
        if os.path.exists(plog):
            os.remove(plog)
        os.environ["C14_PLATLOG"] = plog
        hcmd, _ = build(ck)
        ck.run(hcmd, input_text="#case\n" + "\n".join(r["ops"]) + "\n")
        diffs = [l.rstrip("\n").split("\t") for l in open(plog, errors="replace")
                 if not l.startswith("#")] if os.path.exists(plog) else []
        for f in diffs:
            vf.log("  %s\n      compat  : %s\n      platform: %s" % (f[1][:120], f[2][:120] if len(f) > 2 else "",
                                                                    f[3][:120] if len(f) > 3 else ""))
        if not diffs:
            vf.log("replay: compat and the platform function agree on this input now")
            return 0
        known = []
        for f in diffs:
            c = classify_plat(f[0], f[1], f[2] if len(f) > 2 else "", f[3] if len(f) > 3 else "")
            k = vf.match_known(ck._known, PID, c14_plat.oracle_report(c, f[1], f[2], f[3])) \
                if c in c14_plat.ORACLE and len(f) > 3 else None
            known.append(k)
        if all(k is not None for k in known):
            for k in known:
                vf.log(f"KNOWN-FINDING: property={ck.pid} {k['what']}")
            return 0
        vf.log(f"VIOLATION property={ck.pid} replay={path}")
        return 1
    return vf.generic_replay(ck, path, *build(ck))
