"""C07 — AA-tree is an ordered set that stays balanced.

Proof: lean/UsualProofs/Props/C07.lean (theorems about the model lean/Usual/C07/AATree.lean,
a transcription of usual/aatree.c, for an abstract consistent comparator).
Tie: correspondence run of the model driver (drv_c07) against the real aatree.c
(harness/C07/h.c, compiled from the working tree with ASan+UBSan) on
  * every insertion order x every removal order of n keys (range-hash protocol `perms`,
    bisected to a single pair and expanded to explicit ops on a mismatch),
  * ascending / descending / alternating runs,
  * random histories with ~30 % no-op operations (duplicate insert, absent remove),
comparing after every mutating op: result flag, count, level rules + height bound as read
through the public AANode fields, in-order keys, release-callback log (observable) and the
exact shape with levels (internal).
"""
import os
import math
import time
from concurrent.futures import ThreadPoolExecutor

import vf

PID = "C07"
PROP_MODULES = ["UsualProofs.Props.C07"]
NPROC = 16


def build(ck):
    ck.forbid_scan()
    ck.build_proofs(PROP_MODULES, driver="drv_c07")
    src = [os.path.join(vf.HARNESS, PID, "h.c"), "repo:usual/aatree.c"]
    h = ck.cc(os.path.join(ck.bdir, "h"), src)
    # same harness without sanitizers: only for the n >= 7 range-hash sweeps (n <= 6 and
    # everything else runs under ASan+UBSan)
    ck.fast_harness = [ck.cc(os.path.join(ck.bdir, "h_fast"), src, san=False)]
    return [h], [ck.driver_path("drv_c07")]


# ------------------------------------------------------------------ helpers
def nth_perm(n, idx):
    """idx-th permutation of 1..n in lexicographic order (same as harness and driver)"""
    avail = list(range(1, n + 1))
    out = []
    for m in range(n, 0, -1):
        f = math.factorial(m - 1)
        d, idx = divmod(idx, f)
        out.append(avail.pop(d))
    return out


def perm_case(n, i, j, mode="sign"):
    # same key mapping as harness and driver: multiples of 2^31 under the saturating comparator
    key = (lambda e: (e - 3) * 2147483648) if mode == "sat" else (lambda e: e)
    pre = [] if mode == "sign" else ["cmp " + mode]
    return (pre + ["ins %d" % key(k) for k in nth_perm(n, i)] + ["reins %d" % key(k) for k in range(1, n + 1)] +
            ["find %d" % key(k) for k in range(0, n + 1)] + ["rem %d" % key(k) for k in nth_perm(n, j)])


def run_text(ck, cmd, text, timeout=3000):
    rc, out, err = ck.run(cmd, input_text=text, timeout=timeout)
    return rc, out, err


def same(ck, hcmd, dcmd, text, timeout=3000):
    """fast path: True iff harness and driver print byte-identical output and both exit 0"""
    rc1, o1, e1 = run_text(ck, hcmd, text, timeout)
    rc2, o2, e2 = run_text(ck, dcmd, text, timeout)
    return rc1 == 0 and rc2 == 0 and o1 == o2, (rc1, o1, e1, o2)


def diff_kind(o1, o2, rc1):
    """'obs' | 'int' | None for one-line outputs of the perms protocol"""
    if rc1 != 0:
        return "obs"
    a, b = o1.strip().split("\n"), o2.strip().split("\n")
    kind = None
    for x, y in zip(a, b):
        if x == y:
            continue
        if x.split(" ## ")[0] != y.split(" ## ")[0]:
            return "obs"
        kind = "int"
    if len(a) != len(b):
        return "obs"
    return kind


# ------------------------------------------------------- exhaustive orders
def perms_exhaustive(ck, hcmd, dcmd, n, pairs=None, label=None, mode="sign"):
    """all insertion orders x all removal orders of n keys (or, if `pairs` is given, the
    listed (i, jlo, jhi) blocks), in parallel; returns number of failing blocks"""
    F = math.factorial(n)
    if pairs is None:
        # blocks of insertion orders, each against every removal order
        per = max(1, min(F, (200000 // (F * 2 * n)) or 1))
        blocks = [(i, min(i + per, F), 0, F) for i in range(0, F, per)]
    else:
        blocks = pairs
    # group blocks into jobs of a few lines each
    njobs = max(1, min(len(blocks), NPROC * 4))
    jobs = [blocks[k::njobs] for k in range(njobs)]
    jobs = [j for j in jobs if j]

    pre = "" if mode == "sign" else "cmp %s\n" % mode

    def work(job):
        text = pre + "".join("perms %d %d %d %d %d\n" % (n, a, b, c, d) for (a, b, c, d) in job)
        ok, (rc1, o1, e1, o2) = same(ck, hcmd, dcmd, text)
        return job, (None if ok else diff_kind(o1, o2, rc1))

    bad_obs, bad_int = [], []
    ncases = 0
    with ThreadPoolExecutor(NPROC) as ex:
        for job, kind in ex.map(work, jobs):
            for (a, b, c, d) in job:
                ncases += (b - a) * (d - c)
            if kind == "obs":
                bad_obs.append(job)
            elif kind == "int":
                bad_int.append(job)
    ck.cov["internal_only_mismatching_jobs"] = ck.cov.get("internal_only_mismatching_jobs", 0) + len(bad_int)
    bad = bad_obs[:1]
    if not bad and bad_int and not ck.violations:
        bad = bad_int[:1]          # document one internal-only difference, keep searching
    ck.count(ncases)
    ck.cov["perms_cases"] = ck.cov.get("perms_cases", 0) + ncases
    ck.cov["perms_ops"] = ck.cov.get("perms_ops", 0) + ncases * 2 * n
    ck.cov.setdefault("perms_by_n", {})
    tag = str(n) if mode == "sign" else "%d/%s" % (n, mode)
    ck.cov["perms_by_n"][tag] = ck.cov["perms_by_n"].get(tag, 0) + ncases
    for job in bad:
        locate_perm_failure(ck, hcmd, dcmd, n, job, label or ("perms n=%d cmp=%s" % (n, mode)), mode)
    return len(bad_obs) + len(bad_int)


def locate_perm_failure(ck, hcmd, dcmd, n, job, label, mode="sign"):
    """bisect a failing job down to one (insertion order, removal order) pair, preferring an
    observable difference, then hand the explicit op list to compare_cases (shrink + report)"""
    pre = "" if mode == "sign" else "cmp %s\n" % mode

    def kind_of(blocks):
        text = pre + "".join("perms %d %d %d %d %d\n" % (n, a, b, c, d) for (a, b, c, d) in blocks)
        ok, (rc1, o1, e1, o2) = same(ck, hcmd, dcmd, text)
        return None if ok else diff_kind(o1, o2, rc1)

    want = kind_of(job)
    cur = list(job)
    # first to a single block
    while len(cur) > 1:
        half = cur[:len(cur) // 2]
        k = kind_of(half)
        if k is not None and (k == want or k == "obs"):
            cur, want = half, k
        else:
            rest = cur[len(cur) // 2:]
            k2 = kind_of(rest)
            if k2 is None:
                break
            cur, want = rest, k2
    a, b, c, d = cur[0]
    # then to a single insertion order, then a single removal order
    while b - a > 1:
        m = (a + b) // 2
        k = kind_of([(a, m, c, d)])
        if k is not None and (k == want or k == "obs"):
            b, want = m, k
        else:
            k2 = kind_of([(m, b, c, d)])
            if k2 is None:
                break
            a, want = m, k2
    while d - c > 1:
        m = (c + d) // 2
        k = kind_of([(a, b, c, m)])
        if k is not None and (k == want or k == "obs"):
            d, want = m, k
        else:
            k2 = kind_of([(a, b, m, d)])
            if k2 is None:
                break
            c, want = m, k2
    cases = [perm_case(n, i, j, mode) for i in range(a, b) for j in range(c, d)][:64]
    nf = ck.compare_cases(hcmd, dcmd, cases, label="%s insertion-order=%d removal-order=%d" % (label, a, c),
                          max_failures=1)
    if nf == 0:
        # the explicit expansion agrees although the hashed run did not: report the tie as broken
        ck.report("int", {"label": label, "ops": ["perms %d %d %d %d %d" % (n, a, b, c, d)],
                          "note": "range-hash mismatch not reproduced by explicit ops"})


# ------------------------------------------------------------ op-line cases
def run_cases_parallel(ck, hcmd, dcmd, cases, label, chunk=None):
    """fast byte-compare of chunks in parallel; failing chunks go through compare_cases"""
    if not cases:
        return 0
    if chunk is None:
        chunk = max(1, len(cases) // (NPROC * 2))
    groups = list(vf.chunks(cases, chunk))

    def work(g):
        lines = []
        for c in g:
            lines.append("#case")
            lines.extend(c)
        ok, (rc1, o1, e1, o2) = same(ck, hcmd, dcmd, "\n".join(lines) + "\n")
        return g, (None if ok else diff_kind(o1, o2, rc1)), len(lines)

    bad_obs, bad_int = [], []
    with ThreadPoolExecutor(NPROC) as ex:
        for g, kind, nl in ex.map(work, groups):
            ck.cov["op_lines"] = ck.cov.get("op_lines", 0) + nl
            if kind is None:
                ck.count(len(g))
                for c in g:
                    ck.distinct(tuple(c))
            elif kind == "obs":
                bad_obs.append(g)
            else:
                bad_int.append(g)
                ck.count(len(g))
    ck.cov["internal_only_mismatching_jobs"] = ck.cov.get("internal_only_mismatching_jobs", 0) + len(bad_int)
    nfail = 0
    for g in bad_obs[:2]:
        nfail += ck.compare_cases(hcmd, dcmd, g, label=label, max_failures=2)   # counts, shrinks, reports
    if not bad_obs and bad_int and not ck.violations:
        # document one internal-only difference (smallest group), keep searching for an observable one
        g = min(bad_int, key=lambda g: sum(len(c) for c in g))
        nfail += ck.compare_cases(hcmd, dcmd, g, label=label, max_failures=1)
    return nfail


def run_patterns(N):
    """adversarial orders on N keys: (name, insertion order, removal order)"""
    asc = list(range(1, N + 1))
    desc = asc[::-1]
    alt = []            # 1, N, 2, N-1, ...
    lo, hi = 1, N
    while lo <= hi:
        alt.append(lo)
        if hi != lo:
            alt.append(hi)
        lo += 1
        hi -= 1
    inner = alt[::-1]   # from the middle outwards
    pats = []
    for iname, ins in (("asc", asc), ("desc", desc), ("alt", alt)):
        for rname, rem in (("asc", asc), ("desc", desc), ("alt", alt), ("inner", inner)):
            pats.append(("%s/%s" % (iname, rname), ins, rem))
    return pats


def pattern_case(ins, rem, probe_every):
    ops = []
    for t, k in enumerate(ins):
        ops.append("ins %d" % k)
        if probe_every and t % probe_every == probe_every - 1:
            ops.append("find %d" % k)
    # insert present keys again with their own, linked node objects: all of them for small
    # runs, ~60 spread over the key space (root region, inner nodes, leaves) for large ones
    n = len(ins)
    stepk = 1 if n <= 300 else max(1, n // 60)
    for k in sorted(ins)[::stepk]:
        ops.append("reins %d" % k)
    ops.append("reins %d" % (max(ins) + 1))
    for k in sorted(ins)[::max(1, n // 40)]:
        ops.append("find %d" % k)
    ops.append("find %d" % (min(ins) - 1))
    ops.append("count")
    ops.append("walk pre")
    ops.append("walk post")
    # nested walks on the built tree: every pair of orders, inner walk started at the first,
    # a middle and the last visit of the outer one
    if n <= 2000:
        for oo in ("in", "pre", "post"):
            for io in ("in", "pre", "post"):
                ops.append("nwalk %s %s t0 %s" % (oo, io, ",".join(map(str, sorted({0, n // 2, n - 1})))))
    for t, k in enumerate(rem):
        ops.append("rem %d" % k)
        if probe_every and t % probe_every == probe_every - 1:
            ops.append("find %d" % k)
    ops.append("count")
    return ops


class RefTree:
    """reference contents of one tree, with O(1) random choice and removal"""
    def __init__(self):
        self.present, self.pos = [], {}

    def add(self, k):
        if k not in self.pos:
            self.pos[k] = len(self.present)
            self.present.append(k)

    def drop(self, k):
        i = self.pos.pop(k)
        last = self.present.pop()
        if last != k:
            self.present[i] = last
            self.pos[last] = i

    def clear(self):
        self.present, self.pos = [], {}


NOCB = 2        # tree 2 is created without release callback


def gen_random(rng, nops, krange, stats, stride=1, offset=0, phases=((1.0, 42),), mode="sign", multi=False):
    """random history; ~30 % of the inserts hit a present key and ~30 % of the removes an
    absent one (as far as the current contents allow).  mode: comparator variant of the harness.
    multi: three trees alive at once (tree 2 without release callback), ops interleaved, and a
    present remove on one tree is often followed at once by an absent remove on another."""
    trees = [RefTree(), RefTree(), RefTree()]
    ops = [] if mode == "sign" else ["cmp " + mode]

    def key(i):
        return (i - offset) * stride

    def pick_tree():
        if not multi:
            return 0
        r = rng.below(4)
        return 0 if r < 2 else r - 1

    def emit(t, text):
        ops.append(text if (t == 0 and not multi) else "t%d %s" % (t, text))

    # phases: (fraction of the history, percentage of inserts among the 80 % mutating ops)
    sched = []
    for frac, p_ins in phases:
        sched += [p_ins] * int(nops * frac + 0.5)
    sched = (sched + [phases[-1][1]] * nops)[:nops]
    for p_ins in sched:
        r = rng.below(100)
        t = pick_tree()
        T = trees[t]
        if r < p_ins:
            if T.present and rng.chance(30, 100):
                k = rng.choice(T.present)
            else:
                k = rng.below(krange)
            stats["ins_dup" if k in T.pos else "ins_new"] += 1
            T.add(k)
            emit(t, "ins %d" % key(k))
        elif r < 80:
            if not T.present or rng.chance(30, 100):
                k = rng.below(krange)
            else:
                k = rng.choice(T.present)
            if k in T.pos:
                stats["rem_present"] += 1
                T.drop(k)
                emit(t, "rem %d" % key(k))
                if multi and rng.chance(40, 100):
                    # a no-op remove on ANOTHER tree right after a real one here
                    t2 = (t + 1 + rng.below(2)) % 3
                    k2 = rng.below(krange + 3)
                    if k2 not in trees[t2].pos:
                        stats["rem_absent"] += 1
                        stats["cross_tree_absent_after_present"] += 1
                        emit(t2, "rem %d" % key(k2))
            else:
                stats["rem_absent"] += 1
                emit(t, "rem %d" % key(k))
        elif r < 85:
            # re-insert with the node object that is linked for the key (absent key: nothing)
            if T.present and rng.chance(85, 100):
                k = rng.choice(T.present)
            else:
                k = rng.below(krange)
            stats["reins_present" if k in T.pos else "reins_absent"] += 1
            emit(t, "reins %d" % key(k))
        elif r < 88:
            if T.present and rng.chance(50, 100):
                k = rng.choice(T.present)
            else:
                k = rng.below(krange)
            emit(t, "find %d" % key(k))
            stats["find"] += 1
        elif r < 90:
            # nested walks: the walker of the outer walk runs complete inner walks (same or other tree)
            it = t if (not multi or rng.chance(1, 2)) else rng.below(3)
            n = len(T.present)
            idxs = sorted(set(rng.below(n + 2) for _ in range(1 + rng.below(3))))
            emit(t, "nwalk %s %s t%d %s" % (rng.choice(["in", "pre", "post"]), rng.choice(["in", "pre", "post"]),
                                            it, ",".join(map(str, idxs))))
            stats["nested_walk_same_tree" if it == t else "nested_walk_other_tree"] += 1
        elif r < 96:
            emit(t, "walk " + rng.choice(["in", "pre", "post"]))
            stats["walk"] += 1
        elif r < 99 or nops > 200 or (t == NOCB and T.present):
            # (aatree_destroy on a non-empty tree without callback would call NULL: not exercised)
            emit(t, "count")
            stats["count"] += 1
        else:
            emit(t, "destroy")
            stats["destroy"] += 1
            T.clear()
        stats["max_size"] = max(stats["max_size"], len(T.present))
    for t in ((0, 1, 2) if multi else (0,)):
        emit(t, "walk in")
        if t == NOCB:
            for k in sorted(trees[t].present):
                emit(t, "rem %d" % key(k))
        emit(t, "destroy")
        stats["destroy"] += 1
    stats["mode_" + mode] += 1
    stats["multi_tree_cases"] += 1 if multi else 0
    return ops


def key_plan(rng, mode, krange):
    """(stride, offset) making the keys meaningful for the comparator variant"""
    if mode == "diff":          # |key| < 2^30
        stride = rng.choice([1, 1, 7, (1 << 29) // max(1, krange)])
        return max(1, stride), krange // 2
    if mode == "sat":           # far-apart keys: differences of exactly 2^31 (INT_MIN), 2^31-1 (INT_MAX), more
        return rng.choice([1 << 31, (1 << 31) - 1, 1 << 31, 1 << 30, 3 << 30, 10 ** 15, 1]), krange // 2
    return rng.choice([1, 1, 7, 10 ** 15]), rng.choice([0, 5, 12])


def random_cases(ck, rng, stats, mult=1):
    cases = []
    modes = ["sign", "sign", "diff", "sat", "sat"]
    # many small histories (dense key space: lots of collisions, shapes of height 1-4)
    for _ in range(mult * ck.scale(1500, 20000)):
        mode = rng.choice(modes)
        krange = 4 + rng.below(20)
        stride, offset = key_plan(rng, mode, krange)
        cases.append(gen_random(rng, 10 + rng.below(60), krange, stats, stride=stride, offset=offset,
                                mode=mode, multi=rng.chance(1, 2)))
    # medium
    for _ in range(mult * ck.scale(60, 600)):
        mode = rng.choice(modes)
        krange = 50 + rng.below(300)
        stride, offset = key_plan(rng, mode, krange)
        cases.append(gen_random(rng, 300 + rng.below(500), krange, stats, stride=stride, offset=offset,
                                mode=mode, multi=rng.chance(1, 2)))
    # large
    for idx in range(mult * ck.scale(4, 8)):
        n = ck.scale(2000, 10000 if idx % 2 == 0 else 4000)
        mode = ["sign", "sat", "diff", "sign"][idx % 4]
        stride, offset = key_plan(rng, mode, 2 * n)
        cases.append(gen_random(rng, 3 * n, 2 * n, stats, stride=stride, offset=offset,
                                phases=((0.6, 76), (0.4, 8)), mode=mode, multi=(idx % 2 == 1)))
    return cases


def bigtree_sizes(ck):
    sizes = set()
    for k in range(2, 15):
        for d in range(-2, 3):
            sizes.add((1 << k) + d)
    # sizes at which ascending insertion is 21+ deep (height = 2*level just below a split cascade)
    sizes |= {3069, 3070, 3071} | set(range(4092, 4095)) | set(range(6136, 6143)) | set(range(8176, 8191))
    if not ck.quick():
        sizes |= {3582, 3838, 12286, 14334, 15358, 16382, 20000, 32766, 32767, 65534}
    return sorted(n for n in sizes if n >= 1)


def bigtree_cases(ck, rng):
    """build a big tree in one `bulk` op (no per-op dumps), report its height, destroy it with
    release accounting (number and hash of the released keys = the keys that were in the tree)"""
    cases = []
    for n in bigtree_sizes(ck):
        for kind in ("asc", "desc", "alt", "rnd"):
            b = "bulk %s %d" % (kind, n) + (" %d" % rng.below(1000000) if kind == "rnd" else "")
            v = rng.below(4)
            if v == 0:      # second tree alive, destroy the big one first
                c = ["t1 bulk asc 9", "t0 " + b, "t0 height", "t0 count", "t0 destroy", "t0 count", "t1 count",
                     "t1 destroy"]
            elif v == 1:    # thin it out a little before the destroy
                c = [b, "height"] + ["rem %d" % (1 + rng.below(n)) for _ in range(5)] + ["height", "destroy", "count"]
            else:
                c = [b, "height", "count", "destroy", "count", "height"]
            cases.append(c)
    return cases


HEIGHT_RE = None


def run_bigtrees(ck, hcmd, dcmd, cases, label="big-trees"):
    """like run_cases_parallel, and collects the heights the implementation reports"""
    import re
    rx = re.compile(r"## h=(\d+) n=(\d+) lim=(\d+)")
    groups = list(vf.chunks(cases, max(1, len(cases) // (NPROC * 3))))

    def work(g):
        lines = []
        for c in g:
            lines.append("#case")
            lines.extend(c)
        ok, (rc1, o1, e1, o2) = same(ck, hcmd, dcmd, "\n".join(lines) + "\n")
        hs = [tuple(map(int, m.groups())) for m in rx.finditer(o1 or "")]
        return g, (None if ok else diff_kind(o1, o2, rc1)), len(lines), hs

    bad_obs, bad_int = [], []
    st = ck.cov.setdefault("heights", {"reports": 0, "max_height": 0, "max_height_over_bound": 0.0,
                                       "bound_reached": 0, "bound_reached_max_n": 0, "deeper_than_20": 0})
    with ThreadPoolExecutor(NPROC) as ex:
        for g, kind, nl, hs in ex.map(work, groups):
            ck.cov["op_lines"] = ck.cov.get("op_lines", 0) + nl
            ck.count(len(g))
            for h, n, lim in hs:
                st["reports"] += 1
                st["max_height"] = max(st["max_height"], h)
                if lim:
                    st["max_height_over_bound"] = max(st["max_height_over_bound"], round(h / lim, 3))
                    if h == lim:
                        st["bound_reached"] += 1
                        st["bound_reached_max_n"] = max(st["bound_reached_max_n"], n)
                if h > 20:
                    st["deeper_than_20"] += 1
            if kind is None:
                for c in g:
                    ck.distinct(tuple(c))
            elif kind == "obs":
                bad_obs.append(g)
            else:
                bad_int.append(g)
    ck.cov["internal_only_mismatching_jobs"] = ck.cov.get("internal_only_mismatching_jobs", 0) + len(bad_int)
    for g in bad_obs[:2]:
        ck.compare_cases(hcmd, dcmd, g, label=label, max_failures=2)
    if not bad_obs and bad_int and not ck.violations:
        ck.compare_cases(hcmd, dcmd, min(bad_int, key=lambda g: sum(len(c) for c in g)), label=label, max_failures=1)


def finish_counts(ck):
    ck.cov["distinct_nontrivial"] = ck.cov.get("perms_cases", 0) + len(ck._distinct)


def found_concrete(ck):
    """a concrete failing input (observable difference) has been found: no need to go on"""
    if any(v["kind"] == "obs" for v in ck.violations):
        ck.cov["stopped_after_first_concrete_violation"] = True
        return True
    return False


# ---------------------------------------------------------------------- run
def run(ck):
    hcmd, dcmd = build(ck)
    ck.level = "proof"
    ck.cov["trusted_base"] = [
        "Lean 4.33 kernel", "axioms: propext, Quot.sound, Classical.choice",
        "model lean/Usual/C07/AATree.lean is a hand transcription of usual/aatree.c (pointers -> inductive "
        "tree, NIL sentinel -> constructor nil); tied to the code by the correspondence run only",
        "correspondence harness harness/C07/h.c, driver lean/Driver/C07.lean, generators in checks/C07.py "
        "(self-tested against the mutants in harness/C07/mutants)",
        "gcc, ASan/UBSan, libc malloc",
    ]
    ck.cov["rule"] = (
        "(1) perms: every insertion order x every removal order of the keys 1..n (n<=6 quick, n<=7 thorough, "
        "n=8 sampled blocks; after each insertion order every key is inserted again with its own linked node "
        "object), executed inside harness and driver and compared by hash of all per-op output "
        "lines, each pair is one distinct case; (2) ascending/descending/alternating insertion x "
        "ascending/descending/alternating/inside-out removal runs of N keys; (2b) big trees built by one `bulk` op (n around every 2^k, k<=14, and the sizes at which ascending "
        "insertion is 21+ deep; ascending/descending/alternating/pseudo-random insertion), height reported, then "
        "destroy with release accounting (number + hash of released keys = keys of the tree), the heights seen "
        "are summarised under coverage.heights (the bound 2*log2(n+1) is reached exactly, e.g. ascending "
        "n = 2^k-2); nested walks (the walker of an outer walk runs complete inner walks of the same or another "
        "tree, all 9 order pairs; the model's walks are pure functions, so nesting changes no sequence); "
        "(3) random histories over up to three trees alive at once (one without release callback), under "
        "three comparator variants incl. one returning exactly INT_MIN/INT_MAX for far-apart keys (small dense, "
        "medium, large) with ~30% no-op inserts/removes, re-inserts of a present key with a fresh node AND with "
        "the node object already linked for it, finds, 3 walk orders, count, destroy. A case is "
        "non-trivial when it links at least one node; distinct = distinct op sequence (hashed).")
    ck.assumptions += [
        "aatree_destroy is only called on a tree without release callback when that tree is empty (it calls the "
        "callback unconditionally; fixes/F31 is the optional repair); trees 0/1 have a callback that frees the node",
        "node_cmp is a consistent comparator (strict total order, 0 only for equal keys); harness: integer order "
        "realised three ways (sign only, plain difference, difference saturated to INT_MIN/INT_MAX)",
        "the caller's node carries the key passed as `value` and is not already linked elsewhere",
        "single-threaded use; int count does not overflow (n < 2^31)",
        "pointer-level aliasing beyond the NIL sentinel is not modelled (ASan watches the real pointers)",
    ]
    rng = vf.SplitMix(ck.seed * 1000003 + 7)

    # 0. corpus
    corpus = vf.corpus_cases(PID)
    ck.compare_cases(hcmd, dcmd, corpus, label="corpus")
    ck.cov["corpus_cases"] = len(corpus)

    # 1. exhaustive insertion x removal orders
    nmax = ck.scale(6, 7)
    t0 = time.time()
    for n in range(1, nmax + 1):
        perms_exhaustive(ck, hcmd if n <= 6 else ck.fast_harness, dcmd, n)
        if found_concrete(ck):
            return finish_counts(ck)
    # the same enumeration under the other comparator variants (saturating: keys 2^31 apart, so
    # that the comparator returns exactly INT_MIN / INT_MAX; plain difference)
    for mode, nm in (("sat", ck.scale(5, 6)), ("diff", ck.scale(4, 5))):
        for n in range(1, nm + 1):
            perms_exhaustive(ck, hcmd, dcmd, n, mode=mode)
            if found_concrete(ck):
                return finish_counts(ck)
    ck.cov["exhaustive_subspace"] = "all insertion orders x all removal orders of n keys, n = 1..%d" % nmax
    if not ck.quick():
        # n = 8: every insertion order against 6 removal orders drawn per block, and every
        # removal order against 6 insertion orders
        F = math.factorial(8)
        blocks = []
        for i in range(0, F, 8):
            j = rng.below(F - 6)
            blocks.append((i, min(i + 8, F), j, j + 6))
        for j in range(0, F, 8):
            i = rng.below(F - 6)
            blocks.append((i, i + 6, j, min(j + 8, F)))
        perms_exhaustive(ck, ck.fast_harness, dcmd, 8, pairs=blocks, label="perms n=8 (sampled)")
    ck.cov.setdefault("stage_s", {})["perms"] = round(time.time() - t0, 1)
    for (n, i, j) in ((3, 4, 1), (6, 517, 233)):
        ck.sample({"perms": {"n": n, "insertion_order": i, "removal_order": j}, "ops": perm_case(n, i, j)})

    if found_concrete(ck):
        return finish_counts(ck)

    # 2. adversarial runs
    sizes = ck.scale([1, 2, 3, 7, 8, 15, 16, 31, 33, 64, 100, 255, 500, 2000],
                     [1, 2, 3, 7, 8, 15, 16, 31, 33, 64, 100, 255, 256, 1000, 4095, 10000])
    pcases = []
    t0 = time.time()
    for N in sizes:
        for name, ins, rem in run_patterns(N):
            if N > 5000 and name not in ("asc/asc", "asc/desc", "desc/asc", "desc/alt", "alt/inner", "alt/asc"):
                continue
            pcases.append(pattern_case(ins, rem, 0 if N > 300 else 3))
            if N <= 100:        # far-apart keys under the saturating comparator
                f = lambda k: (k - N // 2) * 2147483648
                pcases.append(["cmp sat"] + pattern_case([f(k) for k in ins], [f(k) for k in rem], 3))
            if 100 < N <= 255:  # plain-difference comparator, |key| < 2^30
                f = lambda k: (k - N // 2) * 4194304
                pcases.append(["cmp diff"] + pattern_case([f(k) for k in ins], [f(k) for k in rem], 3))
    # biggest first so that the pool stays busy
    pcases.sort(key=len, reverse=True)
    run_cases_parallel(ck, hcmd, dcmd, pcases, "runs", chunk=1)
    ck.cov["stage_s"]["runs"] = round(time.time() - t0, 1)
    ck.cov["run_sizes"] = sizes
    ck.cov["run_patterns"] = [p[0] for p in run_patterns(4)]
    ck.sample({"run": "alt/inner N=6", "ops": pattern_case(run_patterns(6)[11][1], run_patterns(6)[11][2], 3)})

    if found_concrete(ck):
        return finish_counts(ck)

    # 2b. big trees: height reports and release accounting of destroy
    t0 = time.time()
    bt = bigtree_cases(ck, rng)
    run_bigtrees(ck, hcmd, dcmd, bt)
    ck.cov["stage_s"]["big_trees"] = round(time.time() - t0, 1)
    near_pow2 = {(1 << k) + d for k in range(2, 15) for d in range(-2, 3)}
    ck.cov["big_tree_sizes"] = "n in 2^k-2..2^k+2 (k=2..14) + %s; asc/desc/alt/rnd insertion each" % \
        [n for n in bigtree_sizes(ck) if n not in near_pow2]
    ck.sample({"big-tree": bt[len(bt) // 2]})
    if found_concrete(ck):
        return finish_counts(ck)

    # 3. random histories
    stats = {k: 0 for k in ("ins_new", "ins_dup", "rem_present", "rem_absent", "reins_present", "reins_absent",
                            "cross_tree_absent_after_present", "nested_walk_same_tree", "nested_walk_other_tree",
                            "mode_sign", "mode_diff", "mode_sat",
                            "multi_tree_cases", "find", "walk", "count",
                            "destroy", "max_size")}
    t0 = time.time()
    rcases = random_cases(ck, rng, stats)
    rcases.sort(key=len, reverse=True)
    big = [c for c in rcases if len(c) > 1500]
    small = [c for c in rcases if len(c) <= 1500]
    run_cases_parallel(ck, hcmd, dcmd, big, "random-large", chunk=1)
    run_cases_parallel(ck, hcmd, dcmd, small, "random")
    ck.cov["stage_s"]["random"] = round(time.time() - t0, 1)
    ck.cov["op_histogram"] = stats
    noop = stats["ins_dup"] + stats["rem_absent"] + stats["reins_present"] + stats["reins_absent"]
    mut = noop + stats["ins_new"] + stats["rem_present"]
    ck.cov["noop_fraction_of_mutating_ops"] = round(noop / max(1, mut), 3)
    ck.sample({"random": small[-1][:40]})

    finish_counts(ck)
    if found_concrete(ck):
        return

    # 4. something broke (a theorem, the build, or an internal-only difference): the property is
    #    no longer shown -> spend the search budget (4x volume, next permutation size) on finding
    #    an observable divergence
    only_int = ck.violations and not any(v["kind"] == "obs" for v in ck.violations)
    if not ck.proof_ok or only_int:
        ck.cov["intensified"] = True
        n = nmax + 1
        F = math.factorial(n)
        step = ck.scale(35, 1)
        blocks = [(i, i + 1, 0, F if n <= 7 else 720) for i in range(0, F, step)]
        perms_exhaustive(ck, hcmd if n <= 6 else ck.fast_harness, dcmd, n, pairs=blocks,
                         label="perms n=%d (intensified)" % n)
        if not found_concrete(ck):
            stats2 = dict.fromkeys(stats, 0)
            more = random_cases(ck, rng, stats2, mult=4)
            more.sort(key=len, reverse=True)
            run_cases_parallel(ck, hcmd, dcmd, [c for c in more if len(c) > 1500], "random-large+", chunk=1)
            run_cases_parallel(ck, hcmd, dcmd, [c for c in more if len(c) <= 1500], "random+")
            ck.cov["op_histogram_intensified"] = stats2
    finish_counts(ck)
    if not ck.quick():
        ck.leanchecker(PROP_MODULES)


def replay(ck, path):
    return vf.generic_replay(ck, path, *build(ck))
