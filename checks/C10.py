"""C10 — a single allocation failure (the k-th, for every k) is reported cleanly, corrupts and
leaks nothing.

Theorems: lean/UsualProofs/Props/C10.lean about the allocation-fault models lean/Usual/C10/*
(allocator state with a set of failing request numbers; every modelled operation performs its
allocations in the code's order and rolls back as the code does).

Tie: FAULT ENUMERATION.  For every generated script (one module, create .. use .. teardown):
run once fault-free to count the allocation requests n, then for EVERY k <= n run it again
with request k failing (plus random double faults), continue the script and tear down.
 * families with a Lean model (cb sp md ht hp sl pg mb slb ct dg hm): the real code (harness
   h.c, allocator fi.h = a CxMem and the --wrap'ped libc entry points on one counter) and the
   model driver drv_c10 read the same op lines; compared per op: did a fault fire, is failure
   reported through the return channel, abstract contents afterwards, number of blocks
   allocated at that moment; at `end`: total requests, faults fired, balance.
 * model-free families (cx pool, JSON, talloc in h.c; regex/mempool, fnmatch/wchar, tls_config,
   cx_sprintf in h2.c — see checks/c10_extra.py): a property monitor on the implementation's own
   output: no crash/sanitizer report; an op that reports an allocation failure leaves the
   contents dump unchanged; continued use equals a fault-free reference run of the same script
   with the failed ops removed; balance 0 after teardown.
The monitor also runs on the modelled families (independent of the model)."""
import os
import re
import vf

PID = "C10"
PROP_MODULES = ["UsualProofs.Props.C10"]
WRAP = ["-Wl,--wrap=malloc,--wrap=calloc,--wrap=realloc,--wrap=free,--wrap=strdup"]
H1_SRCS = ["repo:usual/cbtree.c", "repo:usual/mdict.c", "repo:usual/mbuf.c", "repo:usual/cxalloc.c",
           "repo:usual/slab.c", "repo:usual/string.c", "repo:usual/pgutil.c", "repo:usual/base.c",
           "repo:usual/crypto/digest.c", "repo:usual/crypto/hmac.c", "repo:usual/crypto/sha1.c",
           "repo:usual/crypto/sha256.c", "repo:usual/crypto/sha512.c", "repo:usual/crypto/md5.c",
           "repo:usual/crypto/sha3.c", "repo:usual/crypto/keccak.c"]

try:
    import c10_extra
except ImportError:          # the model-free families are an add-on
    c10_extra = None

MODELLED = ("cb", "sp", "md", "ht", "hp", "sl", "pg", "mb", "slb", "ct", "dg", "hm")
MODEL_BACKED_EXTRA = ("pool-alloc", "pool-realloc", "mp-alloc")    # generators in c10_extra, models from C09


def build(ck):
    ck.forbid_scan()
    ck.build_proofs(PROP_MODULES, driver="drv_c10")
    srcs = [os.path.join(vf.HARNESS, PID, "h.c")] + H1_SRCS
    flags = list(WRAP)
    if c10_extra is not None:
        srcs += c10_extra.H1_EXTRA_SRCS
        flags += c10_extra.H1_EXTRA_FLAGS
    h = ck.cc(os.path.join(ck.bdir, "h"), srcs, flags=["-I" + os.path.join(vf.HARNESS, PID)] + flags)
    bins = {"h": [h]}
    if c10_extra is not None:
        bins.update(c10_extra.build_more(ck, WRAP))
    return bins, [ck.driver_path("drv_c10")]


# ---------------------------------------------------------------------------- generators
# every generator returns the op lines of ONE script: create, use, teardown (no fail/end lines)
ALPHA = [0x01, 0x7F, 0x80, 0xFF, 0x61, 0x62]


def keyset(rng):
    fam = rng.below(4)
    keys = []
    if fam == 0:
        pre = bytes(rng.choice(ALPHA) for _ in range(rng.below(6)))
        keys = [pre + bytes(rng.choice(ALPHA) for _ in range(rng.below(4))) for _ in range(4 + rng.below(6))]
    elif fam == 1:
        k = bytes(rng.choice(ALPHA) for _ in range(4 + rng.below(10)))
        keys = [k[:rng.below(len(k) + 1)] for _ in range(4 + rng.below(6))]
    elif fam == 2:
        keys = [bytes(rng.choice([0x61, 0x62]) for _ in range(rng.below(4))) for _ in range(4 + rng.below(6))]
    else:
        keys = [b"", b"\x80", b"\xff", b"a", b"ab", b"b", b"abc", b"\x7f"] + [rng.bytes(1 + rng.below(3)) for _ in range(2)]
    out = []
    for k in keys:                       # keys never end in a zero byte (C06's precondition)
        k = bytearray(k)
        while k and k[-1] == 0:
            k[-1] = 0x61
        out.append(bytes(k))
    return out


def g_cb(rng, heavy_del=False):
    keys = keyset(rng)
    ops = ["cb new"]
    for _ in range(6 + rng.below(18)):
        r = rng.below(100)
        k = vf.hexs(rng.choice(keys))
        if r < (40 if heavy_del else 60):
            ops.append("cb ins " + k)
        elif r < (80 if heavy_del else 80):
            ops.append("cb del " + k)
        else:
            ops.append("cb get " + k)
    return ops + ["cb free"]


def g_sp(rng):
    keys = keyset(rng)
    ops = ["sp new"]
    slot = 0
    for _ in range(6 + rng.below(18)):
        if rng.below(100) < 60 or slot == 0:
            slot += 1
            ops.append("sp get %d %s" % (slot, vf.hexs(rng.choice(keys))))
        else:
            ops.append("sp dec %d" % (1 + rng.below(slot)))
    return ops + ["sp free"]


URLKEYS = [b"a", b"b", b"ab", b"k1", b"x"]


def url_text(rng, bad=True):
    out = bytearray()
    for _ in range(1 + rng.below(5)):
        if rng.chance(1, 2):
            out += rng.choice(URLKEYS)
        else:
            for _ in range(rng.below(4)):
                r = rng.below(10)
                if r < 6:
                    out.append(rng.choice([0x61, 0x62, 0x41, 0x31, 0x2e, 0x5f, 0x2b]))
                elif r < 9 or not bad:
                    out += b"%" + bytes(rng.choice(b"123456789abcdefABCDEF") for _ in range(2))
                else:
                    out += rng.choice([b"%", b"%4", b"%zz", b"%0g"])
        if rng.chance(2, 3):
            out += b"="
            for _ in range(rng.below(4)):
                out.append(rng.choice([0x61, 0x2b, 0x32]))
        if rng.chance(3, 4):
            out += b"&"
    return bytes(out)


def g_md(rng, mode="mixed"):
    keys = keyset(rng)[:6] + URLKEYS[:2]
    ops = ["md new"]
    for _ in range(4 + rng.below(12)):
        r = rng.below(100)
        k = vf.hexs(rng.choice(keys))
        if mode == "url":
            r = 70 + r % 30 if r < 60 else r % 60
        if r < 50:
            v = "N" if rng.chance(1, 4) else vf.hexs(bytes(rng.choice([0x61, 0x20, 0x25, 0x00, 0xff]) for _ in range(rng.below(5))))
            ops.append("md put %s %s" % (k, v))
        elif r < 70:
            ops.append("md del " + k)
        else:
            ops.append("md url " + vf.hexs(url_text(rng, bad=(mode != "put"))))
    return ops + ["md free"]


def g_ht(rng, mode="grow"):
    size = rng.choice([2, 4, 8]) if mode == "grow" else rng.choice([4, 8, 16])
    ops = ["ht new %d" % size]
    keys = [rng.below(64) for _ in range(4 + rng.below(20))]
    for _ in range(6 + rng.below(24)):
        r = rng.below(100)
        k = rng.choice(keys)
        if r < 60:
            ops.append("ht put %d %d" % (k, 1 + rng.below(1000)))
        elif r < 75:
            ops.append("ht del %d" % k)
        elif r < 85 or mode == "grow":
            ops.append("ht get %d" % k)
        else:
            ops.append("ht copy %d" % rng.choice([2, 4, 8, 16, 32]))
    if mode == "copy":
        ops.append("ht copy %d" % rng.choice([2, 4, 8, 16, 32]))
        ops.append("ht put %d %d" % (rng.below(64), 1 + rng.below(1000)))
    return ops + ["ht free"]


def g_hp(rng, mode="push"):
    ops = ["hp new"]
    n = rng.choice([3, 20, 33, 40, 70]) if mode == "push" else 5 + rng.below(10)
    for i in range(n):
        ops.append("hp push %d" % (1 + rng.below(50)))
        if rng.chance(1, 6):
            ops.append("hp pop")
        if mode == "reserve" and rng.chance(1, 3):
            ops.append("hp reserve %d" % rng.choice([0, 1, 10, 31, 32, 60, 100]))
    for _ in range(rng.below(4)):
        ops.append("hp pop")
    return ops + ["hp free"]


def g_sl(rng):
    ops = ["sl new"]
    for _ in range(3 + rng.below(12)):
        r = rng.below(100)
        if r < 70:
            v = "N" if rng.chance(1, 4) else vf.hexs(bytes(rng.choice([0x61, 0x62, 0x20, 0xff]) for _ in range(rng.below(5))))
            ops.append("sl app " + v)
        else:
            ops.append("sl pop")
    return ops + ["sl free"]


PG_SLACK = [1, 8, 15, 16, 17, 40, 200]


def pg_escaped(rng, slack, quoted):
    """an element whose unquoted value is `slack` bytes shorter than its text: the two quotes
    (when quoted) plus one backslash per escaped character"""
    nesc = slack - 2 if quoted else slack
    if nesc < 0:
        nesc = 0
    val = bytearray()
    txt = bytearray(b'"' if quoted else b"")
    plain = [0x61, 0x62, 0x3a, 0x5f] + ([0x20, 0x2c, 0x7b, 0x7d] if quoted else [])
    for _ in range(nesc):
        if rng.chance(1, 3):                       # some unescaped characters in between
            c = rng.choice(plain)
            val.append(c)
            txt.append(c)
        c = rng.choice([0x22, 0x5c] + ([0x2c, 0x7d, 0x61] if True else []))
        val.append(c)
        txt += bytes([0x5c, c])
    if not val:
        val.append(0x61)
        txt.append(0x61)
    if quoted:
        txt += b'"'
    return bytes(txt), bytes(val)


def pg_elem(rng):
    """one array element: (text, value) with value None for NULL"""
    r = rng.below(14)
    if r < 2:
        return rng.choice([b"NULL", b"null", b"Null"]), None
    if r >= 10:
        # many escapes: quoted (e.g. a JSON document stored in a text[]) or bare with backslashes
        return pg_escaped(rng, rng.choice(PG_SLACK), quoted=(r != 13))
    body = bytes(rng.choice([0x61, 0x62, 0x31, 0x5f]) for _ in range(1 + rng.below(4)))
    if r < 6:
        sp = b" " if rng.chance(1, 4) else b""
        return sp + body + sp, body
    # quoted, with escapes
    val = bytearray()
    txt = bytearray(b'"')
    for _ in range(rng.below(5)):
        c = rng.choice([0x61, 0x20, 0x2c, 0x22, 0x5c, 0x7d, 0x7b])
        val.append(c)
        if c in (0x22, 0x5c) or rng.chance(1, 6):
            txt.append(0x5c)
        txt.append(c)
    txt += b'"'
    return bytes(txt), bytes(val)


def g_pg(rng):
    ops = []
    for _ in range(1 + rng.below(4)):
        elems = [pg_elem(rng) for _ in range(rng.below(6))]
        if rng.chance(1, 4):                      # the text[] holding one JSON document
            elems.insert(rng.below(len(elems) + 1),
                         (b'"{\\"a\\":\\"b\\",\\"c\\":\\"d\\",\\"e\\":\\"f\\"}"', b'{"a":"b","c":"d","e":"f"}'))
        text = b"{" + b",".join(e[0] for e in elems) + b"}"
        if rng.chance(1, 3):
            lo = rng.choice([1, 0, -1, -5])
            text = b"[%d:%d]=" % (lo, lo + max(1, len(elems)) - 1) + text
        vals = ",".join("N" if e[1] is None else vf.hexs(e[1]) for e in elems) if elems else "E"
        ops.append("pg parse %s %s" % (vf.hexs(text), vals))
    return ops


def g_mb(rng):
    ops = ["mb new"]
    for _ in range(2 + rng.below(8)):
        n = rng.choice([0, 1, 5, 60, 127, 128, 129, 200, 300, 600])
        ops.append("mb write " + vf.hexs(bytes([rng.below(256)]) * n))
    return ops + ["mb free"]


def g_slb(rng):
    size = rng.choice([8, 40, 300, 400, 1000, 5000])
    ops = ["slb new %d" % size]
    slot = 0
    live = []
    for _ in range(10 + rng.below(150)):
        if (rng.below(100) < 75 or not live) and slot < 250:
            slot += 1
            live.append(slot)
            ops.append("slb alloc %d" % slot)
        elif live:
            s = live.pop(rng.below(len(live)))
            ops.append("slb free %d" % s)
    return ops + ["slb destroy"]


def g_ct(rng):
    ops = ["ct new"]
    slot = 0
    nsub = 0
    for _ in range(5 + rng.below(20)):
        r = rng.below(100)
        if r < 15 and nsub < 4:
            nsub += 1
            ops.append("ct sub %d" % nsub)
        elif r < 55:
            slot += 1
            where = "T" if nsub == 0 or rng.chance(1, 2) else str(1 + rng.below(nsub))
            ops.append("ct alloc %d %s %d" % (slot, where, 1 + rng.below(300)))
        elif r < 75 and slot:
            ops.append("ct realloc %d %d" % (1 + rng.below(slot), 1 + rng.below(600)))
        elif r < 90 and slot:
            ops.append("ct freeb %d" % (1 + rng.below(slot)))
        elif nsub:
            ops.append("ct dsub %d" % (1 + rng.below(nsub)))
    return ops + ["ct free"]


def g_hm(rng):
    ops = []
    for _ in range(1 + rng.below(3)):
        name = rng.choice(["sha1", "sha256", "sha512", "md5"])
        if rng.chance(1, 2):
            ops += ["dg new " + name, "dg run " + vf.hexs(rng.bytes(rng.below(200))), "dg free"]
        else:
            key = rng.bytes(rng.choice([0, 3, 20, 64, 65, 130, 200]))
            ops += ["hm new %s %s" % (name, vf.hexs(key)), "hm run " + vf.hexs(rng.bytes(rng.below(200))),
                    "hm run " + vf.hexs(rng.bytes(rng.below(20))), "hm free"]
    return ops


FAMILIES = {
    # name: (generator, harness binary)
    "cb-mixed": (lambda r: g_cb(r), "h"),
    "cb-delete": (lambda r: g_cb(r, True), "h"),
    "sp-share": (g_sp, "h"),
    "md-mixed": (lambda r: g_md(r), "h"),
    "md-put": (lambda r: g_md(r, "put"), "h"),
    "md-url": (lambda r: g_md(r, "url"), "h"),
    "ht-grow": (lambda r: g_ht(r), "h"),
    "ht-copy": (lambda r: g_ht(r, "copy"), "h"),
    "hp-push": (lambda r: g_hp(r), "h"),
    "hp-reserve": (lambda r: g_hp(r, "reserve"), "h"),
    "sl-append": (g_sl, "h"),
    "pg-array": (g_pg, "h"),
    "mb-write": (g_mb, "h"),
    "slb-grow": (g_slb, "h"),
    "ct-tree": (g_ct, "h"),
    "hm-ctx": (g_hm, "h"),
}

# ops whose failure is not all-or-nothing by design: pairs decoded before the failing one stay
# (mdict_urldecode delivers what it has read, also on a syntax error); what exactly stays is
# pinned by the model comparison and by theorem mdUrldecodeA_fault_prefix
NON_ATOMIC = {"md url"}


# ------------------------------------------------------------------------------ monitor
TEARDOWN = ("free", "destroy", "done")        # second word of the op that releases a structure
ONESHOT = ("pg", "fn", "mbs", "cxs")           # families whose ops keep nothing
LIVE_RE = re.compile(r" live=(\d+)$")


def split_out(line):
    """'<P>:<ret> <dump> live=<n>' -> (P, ret, dump, live) or None for control lines"""
    if len(line) < 2 or line[1] != ":" or line[0] not in "SFA":
        return None
    m = LIVE_RE.search(line)
    if not m:
        return None
    body = line[2:m.start()]
    ret, _, dump = body.partition(" ")
    return line[0], ret, dump, int(m.group(1))


def monitor(lines, c_lines, non_atomic=NON_ATOMIC, strict_live=True):
    """property monitor on the implementation's own output (independent of the model).
    Yields (line index, message, class)."""
    prev = None           # (dump, live) of the previous op line of this case
    for i, l in enumerate(lines):
        if i >= len(c_lines):
            break
        o = c_lines[i]
        if l == "#case":
            prev = None
            continue
        if o.startswith("CRASH"):
            yield i, "crash / sanitizer report: " + o, "crash"
            continue
        if "CORRUPT" in o or "LOST" in o:
            yield i, "contents damaged: " + o, "corrupt"
        if l == "end":
            m = re.match(r"req=(\d+) fired=(\d+) live=(\d+)$", o)
            if not m:
                yield i, "malformed end line: " + o, "protocol"
            elif m.group(3) != "0":
                # only a script that ends with its teardown (or consists of one-shot ops) can leak;
                # this also keeps the shrinker from dropping the teardown
                last = lines[i - 1].split() if i > 0 else []
                if (len(last) >= 2 and last[1] in TEARDOWN) or (last and last[0] in ONESHOT):
                    yield i, "memory still allocated after teardown: " + o, "leak"
            continue
        s = split_out(o)
        if s is None:
            continue
        p, ret, dump, live = s
        opname = " ".join(l.split()[:2])
        if p == "F" and opname not in non_atomic and prev is not None:
            pdump, plive = prev
            if dump and pdump is not None and dump != pdump:
                yield i, "op reports allocation failure but contents changed: %s -> %s" % (pdump, dump), "not-atomic"
            if strict_live and live != plive:
                yield i, "op reports allocation failure but %d -> %d blocks allocated" % (plive, live), "leak-at-failure"
        prev = (dump if dump else (prev[0] if prev else None), live)


# ------------------------------------------------------------------------------- running
def run_cases(ck, hcmd, cases, timeout=900):
    """run op-line cases through a harness; returns one list of output lines per case.  A crash
    ends the process: the crashing case gets a final 'CRASH ..' line and the rest is re-run."""
    outs = [None] * len(cases)
    start = 0
    while start < len(cases):
        text = []
        for c in cases[start:]:
            text.append("#case")
            text += c
        rc, so, err = ck.run(hcmd, input_text="\n".join(text) + "\n", timeout=timeout)
        ls = so.split("\n")
        if ls and ls[-1] == "":
            ls.pop()
        ci = start - 1
        cur = None
        for l in ls:
            if l == "#case":
                ci += 1
                cur = []
                if ci < len(cases):
                    outs[ci] = cur
            elif cur is not None:
                cur.append(l)
        if rc == 0:
            for j in range(start, len(cases)):
                if outs[j] is None:
                    outs[j] = ["<missing>"]
            break
        ci = max(ci, start)
        if ci >= len(cases):
            break
        if outs[ci] is None:
            outs[ci] = []
        outs[ci].append("CRASH rc=%d %s" % (rc, vf.san_summary(err)))
        start = ci + 1
    return outs


def strip_p(line):
    """drop the S/F/A prefix"""
    return line[2:] if len(line) > 1 and line[1] == ":" and line[0] in "SFA" else line


def strip_live(line):
    return LIVE_RE.sub("", line)


def check_model_free(ck, hcmd, scripts, label, opts, rng, ndouble):
    """fault enumeration for a family without Lean model.  scripts: list of op-line lists."""
    non_atomic = set(opts.get("non_atomic", ()))
    strict_live = opts.get("strict_live", True)
    live_exact = opts.get("live_exact", True)
    stats = ck.cov["families"].setdefault(label, {"scripts": 0, "faults": 0, "fired": 0, "reported": 0,
                                                  "absorbed": 0, "double": 0, "requests": 0})
    base = [["fail"] + s + ["end"] for s in scripts]
    outs0 = par_run_cases(ck, hcmd, base)
    jobs = []          # (script index, fail numbers)
    nbad0 = 0
    for i, o in enumerate(outs0):
        stats["scripts"] += 1
        bad = [(j, m, c) for j, m, c in monitor(["#case"] + base[i], ["#case"] + o, non_atomic, strict_live)]
        if bad or not o or not o[-1].startswith("req="):
            nbad0 += 1
            if nbad0 <= 3:
                report_model_free(ck, hcmd, label, base[i], o, bad[0][1] if bad else "fault-free run incomplete",
                                  bad[0][2] if bad else "crash", opts)
            continue
        n = int(re.match(r"req=(\d+)", o[-1]).group(1))
        stats["requests"] += n
        for k in range(1, n + 1):
            jobs.append((i, (k,)))
        for _ in range(ndouble if n >= 2 else 0):
            a = 1 + rng.below(n)
            b = 1 + rng.below(n)
            if a != b:
                jobs.append((i, (min(a, b), max(a, b))))
                stats["double"] += 1
    cases = [["fail " + " ".join(map(str, ks))] + scripts[i] + ["end"] for i, ks in jobs]
    for c in cases:
        ck.distinct(tuple(c))
    ck.count(len(cases) + len(base))
    ck.cov["op_lines"] = ck.cov.get("op_lines", 0) + sum(len(c) + 1 for c in cases + base)
    outs = par_run_cases(ck, hcmd, cases)
    refs = []
    nviol = 0
    for (i, ks), c, o in zip(jobs, cases, outs):
        stats["faults"] += 1
        fired = 0
        if o and o[-1].startswith("req="):
            fired = int(re.search(r"fired=(\d+)", o[-1]).group(1))
        stats["fired"] += 1 if fired else 0
        bad = [(j, m, cl) for j, m, cl in monitor(["#case"] + c, ["#case"] + o, non_atomic, strict_live)]
        if bad:
            if nviol < 3:
                report_model_free(ck, hcmd, label, c, o, bad[0][1], bad[0][2], opts)
            nviol += 1
            continue
        flines = [j for j, l in enumerate(o) if l.startswith("F:")]
        alines = [j for j, l in enumerate(o) if l.startswith("A:")]
        stats["reported"] += 1 if flines else 0
        stats["absorbed"] += 1 if (alines and not flines) else 0
        if fired and not flines and not alines:
            if nviol < 3:
                report_model_free(ck, hcmd, label, c, o, "an injected failure fired but no op line shows it", "protocol", opts)
            nviol += 1
            continue
        if fired:
            skip = set(j for j in flines if " ".join(c[j].split()[:2]) not in non_atomic)
            partial = set(flines) - skip
            if partial:
                continue            # contents after a partially applied op need a model
            ref = ["fail"] + [("nop" if (j + 1) in skip else l) for j, l in enumerate(scripts[i])] + ["end"]
            refs.append((c, o, ref, skip))
    routs = par_run_cases(ck, hcmd, [r[2] for r in refs])
    for (c, o, ref, skip), ro in zip(refs, routs):
        for j in range(1, len(c) - 1):
            if j in skip:
                continue
            a = strip_p(o[j]) if j < len(o) else "<missing>"
            b = strip_p(ro[j]) if j < len(ro) else "<missing>"
            if not live_exact:
                a, b = strip_live(a), strip_live(b)
            if a != b:
                if nviol < 3:
                    report_model_free(ck, hcmd, label, c, o,
                                      "after the failed op(s) %s continued use differs from the fault-free run "
                                      "without them at line %d: %r vs %r" % (sorted(skip), j, a, b), "diverged", opts)
                nviol += 1
                break
    return nviol


def classify_model_free(ck, hcmd, case, opts):
    """re-run one case; returns (class or None, message, output)"""
    non_atomic = set(opts.get("non_atomic", ()))
    o = run_cases(ck, hcmd, [case], timeout=120)[0]
    bad = list(monitor(["#case"] + case, ["#case"] + o, non_atomic, opts.get("strict_live", True)))
    if bad:
        return bad[0][2], bad[0][1], o
    flines = set(j for j, l in enumerate(o) if l.startswith("F:") and " ".join(case[j].split()[:2]) not in non_atomic)
    if any(l.startswith("F:") for l in o) and not flines:
        return None, "", o
    if flines or any(l.startswith("A:") for l in o):
        ref = ["fail"] + [("nop" if j in flines else l) for j, l in enumerate(case) if 0 < j < len(case) - 1] + ["end"]
        ro = run_cases(ck, hcmd, [ref], timeout=120)[0]
        for j in range(1, len(case) - 1):
            if j in flines:
                continue
            a = strip_p(o[j]) if j < len(o) else "<missing>"
            b = strip_p(ro[j]) if j < len(ro) else "<missing>"
            if not opts.get("live_exact", True):
                a, b = strip_live(a), strip_live(b)
            if a != b:
                return "diverged", "line %d: %r vs fault-free reference %r" % (j, a, b), o
    return None, "", o


def report_model_free(ck, hcmd, label, case, out, msg, cls, opts):
    """shrink (keeping the class) and record a violation found by the monitor"""
    head, body, tail = case[0], case[1:-1], [case[-1]]
    if cls in ("leak", "leak-at-failure") and len(body) > 1:
        # a leak is only a leak with the teardown in place: the last op stays
        body, tail = body[:-1], [body[-1]] + tail

    def still(cand):
        c, _, _ = classify_model_free(ck, hcmd, [head] + list(cand) + tail, opts)
        return c == cls
    small = vf.ddmin(body, still, budget=120) if len(body) > 1 and still(body) else body
    final = [head] + list(small) + tail
    c2, m2, o2 = classify_model_free(ck, hcmd, final, opts)
    ck.report("obs", {"label": label + ":monitor", "ops": final, "class": cls,
                      "monitor": m2 or msg, "impl": o2[-10:], "model_free": True})


def par_run_cases(ck, cmd, cases, chunk=1500, workers=8):
    """run_cases over chunks in parallel (the children are separate processes)"""
    from concurrent.futures import ThreadPoolExecutor
    parts = list(vf.chunks(cases, chunk))
    if len(parts) <= 1:
        return run_cases(ck, cmd, cases)
    with ThreadPoolExecutor(max_workers=workers) as ex:
        res = list(ex.map(lambda c: run_cases(ck, cmd, c), parts))
    return [o for r in res for o in r]


def run_modelled(ck, hcmd, dcmd, name, scripts, rng, ndouble):
    """fault enumeration for a family with Lean model: request count from a fault-free run of the
    implementation, then every k (and random pairs) through implementation AND model.  The two
    output streams are compared here; every case that differs, and every case the monitor
    flags, is handed to ck.compare_cases (shrinking, classification, replay file)."""
    st = ck.cov["families"].setdefault(name, {"scripts": 0, "faults": 0, "fired": 0, "reported": 0,
                                              "absorbed": 0, "double": 0, "requests": 0})
    base = [["fail"] + s + ["end"] for s in scripts]
    outs0 = par_run_cases(ck, hcmd, base)
    cases = []
    for s, o in zip(scripts, outs0):
        st["scripts"] += 1
        if not o or not o[-1].startswith("req="):
            continue
        n = int(re.match(r"req=(\d+)", o[-1]).group(1))
        st["requests"] += n
        for k in range(1, n + 1):
            cases.append(["fail %d" % k] + s + ["end"])
        for _ in range(ndouble if n >= 2 else 0):
            a, b = 1 + rng.below(n), 1 + rng.below(n)
            if a != b:
                cases.append(["fail %d %d" % (min(a, b), max(a, b))] + s + ["end"])
                st["double"] += 1
    st["faults"] += len(cases)
    allc = base + cases
    outs_c = outs0 + par_run_cases(ck, hcmd, cases)
    outs_m = par_run_cases(ck, dcmd, allc)
    for c in allc:
        ck.distinct(tuple(c))
    ck.count(len(allc))
    ck.cov["op_lines"] = ck.cov.get("op_lines", 0) + sum(len(c) + 1 for c in allc)
    suspects = []
    flagged = []
    for i, (c, oc, om) in enumerate(zip(allc, outs_c, outs_m)):
        if i >= len(base) and oc and oc[-1].startswith("req=") and "fired=0" not in oc[-1]:
            st["fired"] += 1
            if any(l.startswith("F:") for l in oc):
                st["reported"] += 1
            elif any(l.startswith("A:") for l in oc):
                st["absorbed"] += 1
        if any(True for _ in monitor(["#case"] + c, ["#case"] + oc)):
            flagged.append(c)            # the property monitor objects (crash, leak, not atomic ..)
        elif oc != om:
            suspects.append(c)           # implementation and model differ
    nf = 0
    # monitor findings first: a leak or crash is the more telling replay than a count mismatch
    suspects = flagged[:4] + suspects[:4]
    if suspects:
        # standard handling (re-run, shrink, classify observable/internal, write replay)
        ev = ck.cov["evaluations"]
        nf = ck.compare_cases(hcmd, dcmd, suspects, label=name, monitor=monitor, max_failures=8)
        ck.cov["evaluations"] = ev
    return nf, cases


def run(ck):
    bins, dcmd = build(ck)
    ck.level = "fault_enumeration"
    ck.cov["families"] = {}
    ck.cov["trusted_base"] = [
        "Lean 4.33.0 kernel; axioms of the property theorems: subset of propext, Quot.sound, Classical.choice (audited this run)",
        "models lean/Usual/C10/{Alloc,Tree,Structs}.lean are tied to the code by fault enumeration: harness/C10/h.c "
        "(allocator layer fi.h: one request counter for the CxMem and the --wrap'ped libc entry points) vs model "
        "driver drv_c10 on the same op lines, generator + monitor in checks/C10.py",
        "cx pool and mempool families: compared with the driver through the C09 models (Usual/C10/CxPool.lean); "
        "JSON, talloc, regcomp: theorems over the C03 / C01+C19 / C09 models (Usual/C10/{Json,TallocA,CxPool}.lean) "
        "with allocation sizes / sequences as parameters, tie = the monitor (no crash, failure => contents "
        "unchanged, continued use = fault-free run without the failed ops, balance 0); fnmatch/wchar, tls_config, "
        "cx_sprintf: monitor only",
        "pointer-level safety is ASan/UBSan's; request sizes are not compared",
    ]
    ck.assumptions += [
        "an allocation failure is a NULL return of cx_alloc/cx_realloc/malloc/calloc/realloc/strdup; memory obtained "
        "inside libc (vasprintf) or OpenSSL is not made to fail",
        "keys of cbtree-based structures do not end in a zero byte (precondition of C06)",
        "mdict_urldecode and pg_parse_array are incremental: pairs completed before the failing one stay (model and "
        "theorem say exactly which); tls_config setters: no crash, no leak, error reported (previous value is not kept)",
    ]
    ck.cov["rule"] = ("a case = one generated script of one module (create, 5..150 ops, teardown) together with the "
                      "set of failing request numbers: every single k in 1..n (n = requests of the fault-free run, "
                      "exhaustive) plus random pairs; a case is non-trivial when distinct; 'fired' counts cases in "
                      "which the injected failure was actually reached")
    # vf.SplitMix(seed) is one fixed splitmix64 sequence entered at offset `seed`: streams of
    # neighbouring seeds would overlap after a few draws, so the seeds are spread 2^32 steps apart
    rng = vf.SplitMix(ck.seed * 4294967311 + 10)
    nscripts = ck.scale(20, 1200)
    ndouble = ck.scale(3, 10)
    hcmd = bins["h"]

    if not ck.quick():
        ck.leanchecker(PROP_MODULES + ["UsualProofs.C10.Script2", "UsualProofs.C10.CxPool", "UsualProofs.C10.Json",
                                       "UsualProofs.C10.TallocA", "UsualProofs.C10.Script", "UsualProofs.C10.Pools",
                                       "UsualProofs.C10.Structs", "UsualProofs.C10.Tree",
                                       "UsualProofs.C10.Alloc"])
    corpus = vf.corpus_cases(PID)
    mcorpus = [c for c in corpus if all((l.split() or ["?"])[0] in MODELLED + ("fail", "end", "nop") for l in c)]
    ck.compare_cases(hcmd, dcmd, mcorpus, label="corpus", monitor=monitor)
    if not ck.proof_ok:
        nscripts *= 4        # a theorem/tie no longer checks: spend the search budget

    total_faults = 0
    for name, (gen, hb) in FAMILIES.items():
        scripts = [gen(rng) for _ in range(nscripts)]
        nf, cases = run_modelled(ck, bins[hb], dcmd, name, scripts, rng, ndouble)
        total_faults += len(cases)
        if cases:
            ck.sample(cases[len(cases) // 2][:14])
    if c10_extra is not None:
        for name, (gen, hb, opts) in c10_extra.FAMILIES.items():
            if hb not in bins:
                continue
            scripts = [gen(rng) for _ in range(nscripts)]
            if name in MODEL_BACKED_EXTRA:
                # cx pool / mempool: the C09 models (concrete LP64 layout) predict every request
                # point, so these families are compared with the model driver like the others
                run_modelled(ck, bins[hb], dcmd, name, scripts, rng, ndouble)
                continue
            check_model_free(ck, bins[hb], scripts, name, opts, rng, ndouble)
            xc = [c for c in corpus if c and any(l.startswith(opts.get("prefix", "\0")) for l in c)]
            for c in xc:
                cls, msg, o = classify_model_free(ck, bins[hb], c, opts)
                if cls:
                    report_model_free(ck, bins[hb], name + ":corpus", c, o, msg, cls, opts)
    fam = ck.cov["families"]
    ck.cov["scripts"] = sum(f["scripts"] for f in fam.values())
    ck.cov["faults_injected"] = sum(f["faults"] for f in fam.values())
    ck.cov["faults_fired"] = sum(f["fired"] for f in fam.values())
    ck.cov["faults_reported_by_failing_op"] = sum(f["reported"] for f in fam.values())
    ck.cov["faults_absorbed"] = sum(f["absorbed"] for f in fam.values())
    ck.cov["double_faults"] = sum(f["double"] for f in fam.values())
    ck.cov["script_families"] = len(fam)
    ck.cov["exhaustive"] = False
    ck.cov["partial"] = [
        "request sizes are not compared (layout-dependent), only count, order and role",
        "JSON, talloc, regcomp: theorem-backed (models of C03, C01/C19, C09 reused) but tied by the monitor only; fnmatch/wchar, tls_config, cx_sprintf: monitor only (no Lean model)",
        "tls_config setters: no crash / no leak / error reported, and after a failed setter every field is unchanged or cleanly unset (set_string frees the old value first, so 'previous value kept' is not claimed)",
    ]


def replay(ck, path):
    import json
    bins, dcmd = build(ck)
    r = json.load(open(path))
    ops = r.get("ops") or []
    if r.get("model_free") and c10_extra is not None:
        fam = None
        for name, (gen, hb, opts) in c10_extra.FAMILIES.items():
            if any(l.startswith(opts.get("prefix", "\0")) for l in ops):
                fam = (hb, opts)
        if fam is None:
            vf.log("replay: cannot find the family of this case")
            return 1
        cls, msg, o = classify_model_free(ck, bins[fam[0]], ops, fam[1])
        for l, x in zip(ops, o + ["<missing>"] * len(ops)):
            vf.log("   %s\n      impl : %s" % (l, x))
        for x in o[len(ops):]:
            vf.log("   impl extra: " + x)
        if cls is None:
            vf.log("replay: the monitor accepts this run now")
            return 0
        vf.log("replay: %s: %s" % (cls, msg))
        vf.log(f"VIOLATION property={ck.pid} replay={path}")
        return 1
    if r.get("label", "").endswith(":monitor") and ops:
        # monitor finding on a modelled family: show both, judge by the monitor
        cl, ml, err = ck.both(bins["h"], dcmd, "#case\n" + "\n".join(ops) + "\n", 300)
        bad = list(monitor(["#case"] + ops, cl))
        for i, op in enumerate(["#case"] + list(ops)):
            vf.log("   %s\n      impl : %s\n      model: %s" % (op, cl[i] if i < len(cl) else "<missing>",
                                                              ml[i] if i < len(ml) else "<missing>"))
        if not bad:
            vf.log("replay: the monitor accepts this run now")
            return 0
        vf.log("replay: %s: %s" % (bad[0][2], bad[0][1]))
        vf.log(f"VIOLATION property={ck.pid} replay={path}")
        return 1
    hb = "h2" if any(l.startswith("mp ") for l in ops) and "h2" in bins else "h"
    return vf.generic_replay(ck, path, bins[hb], dcmd)
