"""C03 — JSON render/parse round trip and builder consistency (usual/json.c).

Theorems: lean/UsualProofs/Props/C03.lean (models lean/Usual/C03/{Value,Rfc,Render,Build}.lean).
Tie: correspondence run of the model driver drv_c03 against harness/C03/h.c (the real builder
API, json_render, json_parse from the working tree) on the same op lines.  Every observable
is obtained through the public API: return values, json_value_size vs. number of elements the
iterators visit, rendered bytes, structural dump of the tree and of the re-parsed tree
(doubles by bit pattern).

The `%.17g` text of every double used is computed here (correctly rounded, Python's dtoa) and
travels on the op line: the model plugs it in as `fmt17`; the harness checks that the libc's
snprintf prints the same text and that strtod reads the rendered token back to the same bits
(these are the named hypotheses `hsyn`/`hf` of the round-trip theorem; the model side checks
`hsyn` — the text is an RFC number token — on every text it is given)."""
import os
import struct
import vf

PID = "C03"
PROP_MODULES = ["UsualProofs.Props.C03"]
REPO_SRCS = ["repo:usual/json.c", "repo:usual/cbtree.c", "repo:usual/cxalloc.c", "repo:usual/cxextra.c",
             "repo:usual/mbuf.c", "repo:usual/utf8.c", "repo:usual/string.c", "repo:usual/base.c"]

MAXINT = (1 << 53) - 1


def build(ck):
    ck.forbid_scan()
    ck.build_proofs(PROP_MODULES, driver="drv_c03")
    h = ck.cc(os.path.join(ck.bdir, "h"), [os.path.join(vf.HARNESS, PID, "h.c")] + REPO_SRCS, libs=["-lm"])
    # Which code is under test?  Repair F38 (json_list_append / json_dict_put refuse a container
    # that is the target itself or one of its ancestors) is a proposed hardening: the model has
    # both behaviours (Build.lean, parameter `cyc`) and every theorem about builder histories is
    # proved for both.  Probe the implementation once and run the matching model.
    rc, out, _ = ck.run([h], input_text="#case\nlist\nappend 0 0\n", timeout=60)
    lines = out.split("\n")
    has_check = len(lines) >= 3 and lines[2].startswith("ret 0")
    ck.cov["attach_cycle_check_F38"] = "present" if has_check else "absent"
    return [h], [ck.driver_path("drv_c03")] + ([] if has_check else ["--no-cycle-check"])


# ------------------------------------------------------------------ value generators
def bits_of(x):
    return struct.unpack(">Q", struct.pack(">d", x))[0]


def float_of(bits):
    return struct.unpack(">d", struct.pack(">Q", bits & ((1 << 64) - 1)))[0]


def fmt17(bits):
    return ("%.17g" % float_of(bits)).encode()


def float_word(bits):
    return "%016x %s" % (bits, vf.hexs(fmt17(bits)))


INT_EDGES = [0, 1, -1, 9, 10, 99, 100, 9999999, 10000000, -9999999, -10000000, 99999999,
             2 ** 31 - 1, 2 ** 31, -2 ** 31, -2 ** 31 - 1, 2 ** 32, 10 ** 15, 10 ** 15 + 1,
             MAXINT - 1, MAXINT, -MAXINT, -MAXINT + 1]
INT_BAD = [MAXINT + 1, -MAXINT - 1, MAXINT + 2, 2 ** 62, -2 ** 62, 2 ** 63 - 1, -2 ** 63]


def gen_int(rng, bad_ok=True):
    r = rng.below(100)
    if r < 35:
        return rng.choice(INT_EDGES)
    if r < 45 and bad_ok:
        return rng.choice(INT_BAD)
    if r < 70:
        return rng.below(2000) - 1000
    n = rng.below(1 << (1 + rng.below(53)))
    return -n if rng.chance(1, 2) else n


def special_doubles():
    out = [0, 1 << 63, 1, (1 << 63) | 1, 0x000FFFFFFFFFFFFF, 0x0010000000000000, 0x0010000000000001,
           0x7FEFFFFFFFFFFFFF, 0xFFEFFFFFFFFFFFFF, 0x3FF0000000000000, 0xBFF0000000000000,
           0x3FB999999999999A, 0x3FD5555555555555, 0x4340000000000000, 0x433FFFFFFFFFFFFF,
           0x4340000000000001, 0x0000000000000002, 0x000FFFFFFFFFFFFE, 0x0008000000000000]
    for k in range(-323, 309, 7):
        out.append(bits_of(float("1e%d" % k)))
    for e in (-1074, -1073, -1023, -1022, -1021, -53, -1, 0, 1, 52, 53, 54, 63, 64, 1023):
        b = bits_of(2.0 ** e)
        out += [b, b + 1, b - 1 if b else b]
    return out


SPECIAL_D = special_doubles()
NONFINITE = [0x7FF0000000000000, 0xFFF0000000000000, 0x7FF8000000000000, 0x7FF0000000000001,
             0xFFF8000000000000, 0x7FFFFFFFFFFFFFFF]


def gen_double(rng, bad_ok=True):
    r = rng.below(100)
    if r < 25:
        return rng.choice(SPECIAL_D)
    if r < 32 and bad_ok:
        return rng.choice(NONFINITE)
    if r < 60:    # every exponent x {min, max, random} mantissa
        e = rng.below(2047)
        m = rng.choice([0, (1 << 52) - 1, rng.below(1 << 52)])
        return (rng.below(2) << 63) | (e << 52) | m
    if r < 70:    # subnormals
        return (rng.below(2) << 63) | rng.below(1 << 52)
    if r < 85:    # short decimals
        return bits_of(float("%d.%d" % (rng.below(1000), rng.below(100)))) | (rng.below(2) << 63)
    if r < 92:    # integers stored as doubles (need the ".0" rule)
        return bits_of(float(rng.below(1 << (1 + rng.below(60))))) | (rng.below(2) << 63)
    x = rng.next()
    if (x >> 52) & 0x7FF == 0x7FF:
        x &= ~(1 << 62)
    return x


def utf8(cp):
    return chr(cp).encode("utf-8", "surrogatepass")


CP_CLASSES = [
    lambda r: 1 + r.below(0x1F),                  # C0 controls (not NUL)
    lambda r: r.choice([0x08, 0x09, 0x0A, 0x0C, 0x0D, 0x0B, 0x1F, 0x01]),
    lambda r: r.choice([0x22, 0x5C, 0x2F]),
    lambda r: r.choice([0x20, 0x21, 0x23, 0x5B, 0x5D, 0x7E, 0x7F, 0x61, 0x30]),
    lambda r: r.choice([0x80, 0x7FF, 0x800, 0xFFF, 0x1000]),
    lambda r: r.choice([0x2027, 0x2028, 0x2029, 0x202A, 0x2000, 0x20A8, 0x2068]),
    lambda r: r.choice([0xD7FF, 0xE000, 0xFFFD, 0xFFFE, 0xFFFF]),
    lambda r: r.choice([0x10000, 0x10FFFF, 0x1F600, 0xFFFFF, 0x100000]),
    lambda r: 0x20 + r.below(0x5F),
    lambda r: r.choice([0xE2, 0xA8, 0xA9, 0x80 + 0x2000, 0x2E28, 0x22A8, 0xE280]),  # look-alikes of E2 80 A8
]

BAD_UTF8 = [b"\x80", b"\xc0\x80", b"\xc1\xbf", b"\xe0\x80\x80", b"\xe0\x9f\xbf", b"\xed\xa0\x80",
            b"\xed\xbf\xbf", b"\xf0\x80\x80\x80", b"\xf0\x8f\xbf\xbf", b"\xf4\x90\x80\x80", b"\xf5\x80\x80\x80",
            b"\xff", b"\xfe", b"\xc2", b"\xe2\x80", b"\xf0\x9f\x98", b"\xe2\x28\xa1", b"\xc2\x20",
            b"\xe2\x80\x28", b"\xf8\x88\x80\x80\x80"]


def gen_string(rng, bad_ok=True, maxlen=12):
    out = b""
    for _ in range(rng.below(maxlen)):
        out += utf8(rng.choice(CP_CLASSES)(rng))
    if bad_ok and rng.chance(1, 8):
        pos = rng.below(len(out) + 1)
        # only cut at the end or beginning so that the surrounding text stays valid
        out = out + rng.choice(BAD_UTF8) if pos else rng.choice(BAD_UTF8) + out
    return out


KEY_POOL = [b"", b"a", b"b", b"ab", b"a\x01", b"\x7f", b"\xc2\x80", b"\xe2\x80\xa8", b"\xe2\x80\xa9",
            b"\"", b"\\", b"k\n", b"\xf0\x9f\x98\x80", b"aa", b"aaa", b"B", b"\xef\xbf\xbf", b"z" * 40]


def gen_key(rng, bad_ok=True):
    if rng.chance(3, 4):
        return rng.choice(KEY_POOL)
    return gen_string(rng, bad_ok, 5)


def scalar_words(rng, bad_ok=True):
    """(kind, argument words) of a random scalar"""
    r = rng.below(100)
    if r < 8:
        return "null", ""
    if r < 16:
        return "bool", " %d" % rng.below(2)
    if r < 42:
        return "int", " %d" % gen_int(rng, bad_ok)
    if r < 70:
        return "float", " " + float_word(gen_double(rng, bad_ok))
    return "str", " " + vf.hexs(gen_string(rng, bad_ok))


# ------------------------------------------------------------------ builder histories
def history_case(rng, nops, cyc_ok):
    """random builder history incl. failing calls; tracks which slots are containers so that
    most ops are meaningful; observation ops sprinkled in and at the end."""
    ops = []
    nslot = 0
    conts = []       # slots holding list/dict
    lists, dicts = [], []
    vals = []        # all non-NULL-looking slots

    def slot_any():
        r = rng.below(100)
        if r < 4 or nslot == 0:
            return "N"
        return str(rng.below(nslot))

    for _ in range(nops):
        r = rng.below(100)
        if r < 22 or nslot == 0:
            k = rng.choice(["list", "dict", "list", "dict", None, None, None])
            if k is None:
                kind, a = scalar_words(rng)
                ops.append(kind + a)
            else:
                ops.append(k)
                (lists if k == "list" else dicts).append(nslot)
                conts.append(nslot)
            nslot += 1
        elif r < 40:
            l = str(rng.choice(lists)) if lists and rng.chance(9, 10) else slot_any()
            ops.append("append %s %s" % (l, slot_any()))
        elif r < 52:
            tgt = rng.choice(conts) if conts and rng.chance(19, 20) else (rng.below(nslot))
            kind, a = scalar_words(rng)
            ops.append("append_%s %d%s" % (kind, tgt, a))
        elif r < 70:
            d = str(rng.choice(dicts)) if dicts and rng.chance(9, 10) else slot_any()
            ops.append("put %s %s %s" % (d, vf.hexs(gen_key(rng)), slot_any()))
        elif r < 84:
            tgt = rng.choice(conts) if conts and rng.chance(19, 20) else (rng.below(nslot))
            kind, a = scalar_words(rng)
            ops.append("put_%s %d %s%s" % (kind, tgt, vf.hexs(gen_key(rng)), a))
        elif r < 90:
            ops.append("size %s" % slot_any())
        else:
            ops.append(rng.choice(["render", "dump", "rt"]) + " %d" % rng.below(nslot))
    for s in range(nslot):
        ops.append("size %d" % s)
    for s in (conts[:6] if conts else list(range(min(nslot, 3)))):
        ops += ["render %d" % s] + (ctx_flow(rng, s) if rng.chance(1, 3) else ["rt %d" % s])
    return ops


# ------------------------------------------------------------------ value trees (as histories)
def tree_ops(rng, depth, width, st, scalars=None):
    """ops building a random tree bottom-up through the API; returns the root slot"""
    def new(line):
        st["ops"].append(line)
        st["n"] += 1
        return st["n"] - 1
    r = rng.below(100)
    if depth <= 0 or r < 35:
        kind, a = scalars(rng) if scalars else scalar_words(rng, bad_ok=False)
        return new(kind + a)
    if r < 68:
        me = new("list")
        for _ in range(rng.below(width + 1)):
            if rng.chance(1, 3):
                kind, a = scalar_words(rng, bad_ok=False)
                st["ops"].append("append_%s %d%s" % (kind, me, a))
            else:
                c = tree_ops(rng, depth - 1, width, st, scalars)
                st["ops"].append("append %d %d" % (me, c))
        return me
    me = new("dict")
    for _ in range(rng.below(width + 1)):
        k = vf.hexs(gen_key(rng, bad_ok=False))
        if rng.chance(1, 3):
            kind, a = scalar_words(rng, bad_ok=False)
            st["ops"].append("put_%s %d %s%s" % (kind, me, k, a))
        else:
            c = tree_ops(rng, depth - 1, width, st, scalars)
            st["ops"].append("put %d %s %d" % (me, k, c))
    return me


POISON_FAIL = [b"[1, 2", b'{"a": [true,', b"[[[[", b'{"a":{"b":[', b'[{"k":', b"[", b"[" * 5, b"[" * 64, b"[" * 600,
               b'{"a":' * 40, b"[tru]", b"[1, nul]", b'{"a" 1}', b"[1 2", b'["\xc0\x80"]', b'{"k":"\xed\xa0\x80"',
               b'["\xff', b'["\\ud800"', b'[{"a":1,"a":2}]', b'{"a":[1,{"b":tru', b"[[1],[2],[", b'{"a":{"a":{"a":1,"a":2}}}',
               b"[1]]", b'{"x":[1,2]} x']
POISON_OK = [b"[1,2]", b"{}", b"7", b'"s"', b"[" * 600 + b"]" * 600, b'{"a":{"b":[null]}}', b" [ [ ] , { } ] ", b"null"]


def ctx_flow(rng, slot):
    """context-history dimension of the round trip: the rendered document is re-parsed (a) in a
    fresh context, (b) in the context the tree lives in, (c) after 1-3 FAILED parses on the
    re-parse context or on the tree's own context (containers left open at several depths, bad
    tokens, ill-formed UTF-8, duplicate names, trailing garbage), (d) after successful parses of
    other documents.  json_parse's result must not depend on any of that."""
    ops = ["dump %d" % slot]
    r = rng.below(10)
    if r < 2:
        ops.append("rtf %d" % slot)
    elif r < 4:
        ops.append("rts %d" % slot)
    else:
        for _ in range(1 + rng.below(3)):
            which = rng.choice(["0", "2", "2"])
            doc = rng.choice(POISON_FAIL) if rng.chance(3, 4) else rng.choice(POISON_OK)
            ops.append("poison %s %s" % (which, vf.hexs(doc)))
        ops.append(rng.choice(["rt", "rt", "rts", "rtf"]) + " %d" % slot)
        if rng.chance(1, 2):
            ops.append(rng.choice(["rt", "rts"]) + " %d" % slot)
    return ops


def ctx_sweep_cases():
    """every failing / succeeding document once, before a re-parse in each of the three contexts, and
    before a json_parse of a second document in the same context"""
    cases = []
    for doc in POISON_FAIL + POISON_OK:
        h = vf.hexs(doc)
        cases.append(["list", "append_int 0 1", "dict", "put 2 6b 0", "dump 2",
                      "poison 2 " + h, "rt 2", "poison 0 " + h, "rts 2", "rtf 2", "rt 2",
                      "parse 5b312c7b2261223a5b5d7d5d -", "dump 3", "rt 3", "rts 3"])
        cases.append(["parse %s -" % h, "parse 7b2261223a5b747275652c6e756c6c5d7d -", "size 1", "dump 1", "rts 1", "rt 1"])
        cases.append(["parse %s -" % h, "parse 37 -", "dump 1", "parse 5b5d -", "dump 2", "rts 2"])
    return cases


def tree_case(rng, depth, width):
    st = {"ops": [], "n": 0}
    root = tree_ops(rng, depth, width, st)
    return st["ops"] + ["size %d" % root, "render %d" % root] + ctx_flow(rng, root)


def deep_case(rng, depth):
    """a chain of `depth` nested containers (innermost first), a scalar at the bottom"""
    ops = []
    kind, a = scalar_words(rng, bad_ok=False)
    ops.append(kind + a)
    cur = 0
    for i in range(depth):
        if rng.chance(1, 2):
            ops += ["list", "append %d %d" % (i + 1, cur)]
        else:
            ops += ["dict", "put %d %s %d" % (i + 1, vf.hexs(rng.choice(KEY_POOL)), cur)]
        cur = i + 1
    return ops + ["size %d" % cur, "render %d" % cur, "rt %d" % cur]


def scalar_sweep_cases(rng, which):
    """systematic scalars: every boundary int / special double / code-point class alone and in a list"""
    cases = []
    if which == "int":
        for i in INT_EDGES + INT_BAD + [10 ** k for k in range(16)] + [10 ** k - 1 for k in range(1, 16)] + \
                [-(10 ** k) for k in range(16)]:
            cases.append(["int %d" % i, "render 0", "rt 0", "list", "append_int 1 %d" % i, "append 1 0", "render 1", "rt 1"])
    elif which == "float":
        for b in SPECIAL_D + NONFINITE:
            w = float_word(b)
            cases.append(["float " + w, "render 0", "rt 0", "dict", "put_float 1 61 " + w, "put 1 62 0", "render 1", "rt 1"])
        for e in range(2047):
            for m in (0, (1 << 52) - 1, rng.below(1 << 52)):
                b = (rng.below(2) << 63) | (e << 52) | m
                cases.append(["float " + float_word(b), "render 0", "rt 0"])
    else:
        cps = list(range(1, 0x80)) + [0x80, 0xFF, 0x100, 0x7FF, 0x800, 0x2027, 0x2028, 0x2029, 0x202A, 0xD7FF,
                                      0xE000, 0xFFFD, 0xFFFE, 0xFFFF, 0x10000, 0x10FFFF]
        for cp in cps:
            s = utf8(cp)
            for t in (s, b"a" + s, s + b"b", s + s):
                h = vf.hexs(t)
                cases.append(["str " + h, "size 0", "render 0", "rt 0", "dict", "put 1 %s 0" % h, "render 1", "rt 1"])
        for bad in BAD_UTF8 + [utf8(0xD800), utf8(0xDFFF)]:
            for t in (bad, b"a" + bad, bad + b"a"):
                h = vf.hexs(t)
                cases.append(["str " + h, "list", "append 1 0", "append_str 1 " + h, "dict", "put_null 2 " + h,
                              "put_str 2 61 " + h, "size 1", "size 2", "render 1", "render 2"])
    return cases


# ------------------------------------------------------------------ documents (trees from json_parse)
def ser_string(rng, s):
    """serialise bytes (valid UTF-8) as a JSON string literal with random escape spellings"""
    out = bytearray(b'"')
    txt = s.decode("utf-8")
    for ch in txt:
        cp = ord(ch)
        r = rng.below(10)
        if cp in (0x22, 0x5C):
            out += b"\\" + bytes([cp]) if r < 7 else b"\\u%04x" % cp
        elif cp < 0x20:
            short = {8: b"\\b", 9: b"\\t", 10: b"\\n", 12: b"\\f", 13: b"\\r"}
            if cp in short and r < 6:
                out += short[cp]
            else:
                out += (b"\\u%04X" if r & 1 else b"\\u%04x") % cp
        elif r < 2 and cp < 0x10000:
            out += (b"\\u%04X" if r & 1 else b"\\u%04x") % cp
        elif r < 3 and cp >= 0x10000:
            v = cp - 0x10000
            out += b"\\u%04x\\u%04X" % (0xD800 + (v >> 10), 0xDC00 + (v & 0x3FF))
        elif cp == 0x2F and r < 5:
            out += b"\\/"
        else:
            out += ch.encode("utf-8")
    return bytes(out + b'"')


WS = [b"", b"", b"", b" ", b"\n", b"\t", b"\r", b"  ", b" \n "]


def ser_doc(rng, depth, tab):
    """random RFC 8259 document inside the domain both the reference and json.c accept;
    number tokens of float class are recorded in `tab` (token -> bits, Python's float())"""
    w = lambda: rng.choice(WS)
    r = rng.below(100)
    if depth <= 0 or r < 40:
        k = rng.below(7)
        if k == 0:
            return rng.choice([b"null", b"true", b"false"])
        if k <= 2:
            i = gen_int(rng, bad_ok=False)
            return b"%d" % i if i or rng.chance(1, 2) else b"-0"
        if k <= 4:
            b = gen_double(rng, bad_ok=False)
            x = float_of(b)
            tok = rng.choice(["%.17g", "%.17e", "%r", "%.20g", "%.17E"])
            t = (tok % x) if tok != "%r" else repr(x)
            if "inf" in t or "nan" in t:
                return b"0"
            if "." not in t and "e" not in t and "E" not in t:
                t += ".0"
            t = t.replace("e+", rng.choice(["e+", "e", "E"]))
            tab[t.encode()] = bits_of(float(t))
            return t.encode()
        return ser_string(rng, gen_string(rng, bad_ok=False))
    if r < 70:
        n = rng.below(4)
        return b"[" + w() + (w() + b"," + w()).join(ser_doc(rng, depth - 1, tab) for _ in range(n)) + w() + b"]"
    keys = []
    for _ in range(rng.below(4)):
        k = gen_key(rng, bad_ok=False)
        if k not in keys:
            keys.append(k)
    return b"{" + w() + (w() + b"," + w()).join(
        ser_string(rng, k) + w() + b":" + w() + ser_doc(rng, depth - 1, tab) for k in keys) + w() + b"}"


BAD_DOCS = [b"", b"[", b"[1", b"[1,", b"{\"a\":1,\"a\":2}", b"{\"a\":1,\"b\":2,\"a\":3}", b"\"\\ud800\"", b"\"\\udc00\"",
            b"\"\\ud800\\u0041\"", b"[1 2]", b"{\"a\" 1}", b"{1:2}", b"nul", b"tru", b"[1]]", b"1 1", b"\"abc",
            b"\"\\x\"", b"\"\\u12g4\"", b"-", b"1e", b"+1", b".5", b"[,1]", b"{,}", b"\"\xc0\x80\"", b"\"\xed\xa0\x80\"",
            b"9007199254740992", b"-9007199254740992", b"1e999", b"-1e999"]


def tabword(tab):
    return ";".join("%s=%016x" % (vf.hexs(t), b) for t, b in sorted(tab.items())) or "-"


def parse_case(rng, depth):
    tab = {}
    doc = rng.choice(WS) + ser_doc(rng, depth, tab) + rng.choice(WS)
    ops = ["parse %s %s" % (vf.hexs(doc), tabword(tab)), "size 0", "dump 0"]
    # the floats of the document need their %.17g text before anything is rendered
    for b in sorted(set(tab.values())):
        ops.append("float " + float_word(b))
    nf = len(set(tab.values()))
    ops += ["render 0", "rt 0"]
    # a parsed tree can be extended but not attached anywhere
    kind, a = scalar_words(rng, bad_ok=True)
    k = vf.hexs(gen_key(rng))
    ops += ["list", "append %d 0" % (nf + 1), "append_%s 0%s" % (kind, a), "put_%s 0 %s%s" % (kind, k, a),
            "put_%s 0 %s%s" % (kind, k, a), "size 0", "render 0"] + ctx_flow(rng, 0)
    return ops


KEY_LIMIT = 1 << 20


def _esc_len(k):
    """length of the literal json_render writes for the name k (without the quotes)"""
    n = 0
    i = 0
    while i < len(k):
        b = k[i]
        if b in (0x22, 0x5C) or b in (8, 9, 10, 12, 13):
            n += 2
        elif b < 0x20:
            n += 6
        elif k[i:i + 3] in (b"\xe2\x80\xa8", b"\xe2\x80\xa9"):
            n += 6
            i += 2
        else:
            n += 1
        i += 1
    return n


def _json_lit(k):
    """a JSON string literal for the name k using the escapes json_render uses"""
    out = bytearray(b'"')
    i = 0
    short = {8: b"\\b", 9: b"\\t", 10: b"\\n", 12: b"\\f", 13: b"\\r", 0x22: b'\\"', 0x5C: b"\\\\"}
    while i < len(k):
        b = k[i]
        if b in short:
            out += short[b]
        elif b < 0x20:
            out += b"\\u%04x" % b
        elif k[i:i + 3] in (b"\xe2\x80\xa8", b"\xe2\x80\xa9"):
            out += b"\\u202%d" % (8 + (k[i + 2] - 0xA8))
            i += 2
        else:
            out.append(b)
        i += 1
    return bytes(out + b'"')


def big_key_cases(rng, full):
    """JSON_MAX_KEY (1 MiB) is a limit on the DECODED name.  (a) plain names of 2^20-1, 2^20, 2^20+1
    bytes; (b) names made of bytes json_render escapes, whose decoded length stays within the limit
    while the rendered literal crosses it (and the exact-fit neighbours) - each through json_dict_put
    and through json_parse of a document, then render, dump and re-parse."""
    L = KEY_LIMIT
    names = [("plain-1", b"a" * (L - 1)), ("plain=", b"a" * L), ("plain+1", b"a" * (L + 1))]
    esc = [
        ("ctl-6x", b"\x01" * 174763),            # 6 bytes each: 1048578 > L
        ("ctl-6x-fit", b"\x01" * 174762 + b"aaaa"),  # literal exactly L
        ("bs", b"\\" * 524289),                   # 2 bytes each: 1048578 > L
        ("bs-fit", b"\\" * 524288),               # literal exactly L
        ("quote", b'"' * 524289),
        ("nl", b"\n" * 524289),
        ("ls", b"\xe2\x80\xa8" * 174763),         # decoded 524289, literal 1048578
        ("ps-fit", b"\xe2\x80\xa9" * 174762 + b"abcd"),
        ("quote-max", b'"' * L),                   # decoded exactly L, literal 2 L
        ("quote-over", b'"' * (L + 1)),            # decoded over the limit: refused
    ]
    mix = bytearray()
    mixlen = 0
    while mixlen <= L + 64:
        piece = rng.choice([b"\x02", b"\x1f", b'"', b"\\", b"\t", b"\xe2\x80\xa8", b"z", b"\xc3\xa9"])
        cnt = 1 + rng.below(400)
        mix += piece * cnt
        mixlen += _esc_len(piece) * cnt
    esc.append(("mixed", bytes(mix)))
    if not full:
        names = [names[1], names[2]]
        esc = [esc[0], esc[2], esc[-1]]
    cases = []
    for i, (tag, k) in enumerate(names + esc):
        h = vf.hexs(k)
        via_put = ["dict", "put_int 0 %s 7" % h, "size 0", "dump 0", "rt 0", "render 0",
                   "put_null 0 %s" % h, "size 0"]
        doc = b"{ " + _json_lit(k) + b" : [ ] }"
        via_parse = ["parse %s -" % vf.hexs(doc), "size 0", "dump 0", "rt 0", "render 0"]
        if full or i % 2 == 0:
            cases.append(via_put)
        if full or i % 2 == 1:
            cases.append(via_parse)
    return cases


def wide_cases(rng, full):
    """many EMPTY containers in one tree (nothing to do with depth): a flat list of 1000-3000 empty
    lists/dicts, and a list of records each carrying an empty list and an empty dict, wrapped so that
    the deepest container sits at nesting depth 2, 11, 500, 512."""
    cases = []
    for wrappers in (0, 9, 498, 510):
        for flavour in ("flat", "records", "dict"):
            ops = []
            n = 0

            def new(line):
                nonlocal n
                ops.append(line)
                n += 1
                return n - 1
            count = 1000 + rng.below(2001) if (full or wrappers in (0, 510)) else 1100
            if flavour == "flat":
                top = new("list")
                for _ in range(count):
                    c = new(rng.choice(["list", "dict"]))
                    ops.append("append %d %d" % (top, c))
            elif flavour == "dict":
                top = new("dict")
                for j in range(count):
                    c = new(rng.choice(["list", "dict"]))
                    ops.append("put %d %s %d" % (top, vf.hexs(b"k%d" % j), c))
            else:
                top = new("list")
                for j in range(count // 2):
                    r = new("dict")
                    t = new("list")
                    a = new("dict")
                    ops += ["put_int %d 6964 %d" % (r, j), "put %d 74616773 %d" % (r, t),
                            "put %d 6174747273 %d" % (r, a), "append %d %d" % (top, r)]
            if flavour == "records" and wrappers == 510:
                wrappers_here = 509      # records add one level
            else:
                wrappers_here = wrappers
            cur = top
            for _ in range(wrappers_here):
                if rng.chance(1, 2):
                    w = new("list")
                    ops.append("append %d %d" % (w, cur))
                else:
                    w = new("dict")
                    ops.append("put %d 77 %d" % (w, cur))
                cur = w
            ops += ["size %d" % top, "render %d" % cur, "dump %d" % cur, "rt %d" % cur]
            cases.append(ops)
    return cases


def bad_doc_cases():
    return [["parse %s -" % vf.hexs(d), "size 0"] for d in BAD_DOCS]


# ------------------------------------------------------------------ monitor (independent of the model)
def size_monitor(lines, c_lines):
    """json_value_size must equal the number of elements the iterator visits — on the
    implementation's own output, after every call, also after refused insertions."""
    for i, l in enumerate(c_lines):
        if i >= len(lines):
            break
        if "sz=" not in l:
            continue
        try:
            parts = dict(p.split("=") for p in l.split() if "=" in p and p[0] in "si")
            sz, it = parts.get("sz"), parts.get("it")
        except ValueError:
            continue
        if it is not None and it != "-" and sz != it:
            yield i, "json_value_size = %s but iteration visits %s elements after `%s`" % (sz, it, lines[i]), "size-iter"
        if any(m in l for m in ("FMT17-MISMATCH", "STRTOD-MISMATCH")):
            yield i, "libc hypothesis of the round trip fails: " + l, "libc-float"


OBSERVERS = ("size", "render", "dump", "rt", "rtf", "rts", "poison")


def rt_monitor(lines, c_lines):
    """round trip on the implementation's own output, independent of the model and of the
    context's history: after `dump s`, every `rt s` / `rtf s` / `rts s` (render, json_parse in the
    re-parse / a fresh / the tree's own context, dump) must print the same tree until a builder or
    parse call intervenes - whatever was parsed (and failed) in those contexts in between."""
    last = {}
    for i in range(min(len(lines), len(c_lines))):
        w = lines[i].split(" ", 2)
        op = w[0]
        if op == "#case" or op not in OBSERVERS:
            last = {}
        elif op == "dump" and c_lines[i].startswith("v "):
            last[w[1]] = c_lines[i][2:]
        elif op in ("rt", "rtf", "rts") and w[1] in last:
            if c_lines[i] != "rt " + last[w[1]]:
                yield i, "re-parsed tree differs from the tree rendered (%s): %s vs %s" % (
                    op, last[w[1]][:200], c_lines[i][:200]), "roundtrip"


def monitor(lines, c_lines):
    yield from size_monitor(lines, c_lines)
    yield from rt_monitor(lines, c_lines)


# ------------------------------------------------------------------ run
def run(ck):
    hcmd, dcmd = build(ck)
    ck.level = "proof"
    if not ck.quick():
        ck.leanchecker(PROP_MODULES + ["UsualProofs.C03." + m for m in
                                       ("Num", "Str", "RoundTrip", "BuildInv", "ParseWf", "Utf8Link", "EndToEnd", "Forest", "Load")])
    ck.cov["trusted_base"] = [
        "Lean 4.33.0 kernel; axioms of the property theorems: subset of propext, Quot.sound, Classical.choice (audited this run)",
        "model lean/Usual/C03/{Render,Build}.lean is tied to usual/json.c (builder API, json_render, json_parse) by the "
        "differential run of drv_c03 vs harness/C03/h.c (generator + canonicalisation in checks/C03.py)",
        "reference lean/Usual/C03/Rfc.lean (RFC 8259 / RFC 3629 read by eye) is the judge of what a JSON document and its value are",
        "hypotheses hsyn/hf of render_parse_roundtrip (snprintf %.17g prints an RFC number token; strtod reads it back "
        "bit-identically) are properties of the libc: checked on every double the run uses, not proved",
        "dict = crit-bit tree: the model embeds the C06 model Usual.C06.insert/walk (tied to cbtree.c by check C06)",
    ]
    ck.assumptions += ["C locale (radix character '.') for dtostr_dot/strtod_dot",
                       "cx_alloc never fails here (allocation failure is property C10)",
                       "strings given to the builder are NUL-terminated C strings (no embedded NUL possible)",
                       "container arguments of json_list_append_*/json_dict_put_* are non-NULL (NULL is dereferenced by get_context)",
                       "value structures are trees: appending a container to itself or a descendant (the API allows it) "
                       "gives a cycle on which json_render does not terminate; size/iteration/attachment are still checked on cycles"]
    ck.cov["rule"] = ("cases = #case-separated op histories: (a) systematic scalars (all int boundaries, special doubles, "
                      "every exponent x {min,max,random} mantissa, every code-point class incl. U+2028/2029 and ill-formed UTF-8), "
                      "(b) random value trees built through the API then rendered, dumped and re-parsed, (c) chains nested up to "
                      "depth 512, (d) random builder histories with NULL arguments, duplicate keys, re-attachment, cycles, invalid "
                      "strings, out-of-range ints, NaN/Inf, (e) documents parsed by json_parse then extended; a case is non-trivial "
                      "when it is distinct and contains a builder or parse call")
    rng = vf.SplitMix(ck.seed)
    hist = {}
    nontriv = lambda c: any(l.split(" ", 1)[0] not in OBSERVERS for l in c)

    def enough():
        # several concrete failing inputs are already minimised and recorded: stop searching
        return len([v for v in ck.violations if v.get("kind") == "obs"]) >= 8

    def go(cases, label, chunk=1500):
        if enough():
            ck.cov.setdefault("skipped_after_violations", []).append(label)
            return
        for c in cases:
            for l in c:
                op = l.split()[0]
                hist[op] = hist.get(op, 0) + 1
        import time as _t
        t0 = _t.time()
        for ch in vf.chunks(cases, chunk):
            if enough():
                break
            ck.compare_cases(hcmd, dcmd, ch, label=label, nontrivial=nontriv, monitor=monitor, timeout=240)
        ph = ck.cov.setdefault("phase_s", {})
        ph[label] = round(ph.get(label, 0) + _t.time() - t0, 2)

    go(vf.corpus_cases(PID), "corpus")
    intensify = not ck.proof_ok
    mult = 4 if intensify else 1
    go(scalar_sweep_cases(rng, "int"), "sweep-int")
    go(scalar_sweep_cases(rng, "float"), "sweep-float")
    go(scalar_sweep_cases(rng, "str"), "sweep-str")
    go(bad_doc_cases(), "bad-docs")
    cs = ctx_sweep_cases()
    go(cs, "context-history")
    ck.cov["context_history"] = {"sweep_cases": len(cs), "failing_docs": len(POISON_FAIL), "succeeding_docs": len(POISON_OK),
                                 "frame_condition": "monitored on the implementation's own output: after `dump s`, every re-parse "
                                 "of s (fresh context / tree's context / re-parse context, after failed and successful parses "
                                 "in them) prints the same tree; the model's parser is a pure function of the document"}
    bk = big_key_cases(rng, not ck.quick())
    go(bk, "big-key", chunk=4)
    ck.cov["big_key_family"] = {"cases": len(bk), "tier_note": "full family (3 plain + 11 escaped names, each through "
                                "json_dict_put and through json_parse) in the thorough tier; quick runs a reduced one "
                                "(2 plain + 3 escaped, alternating put / parse) to stay within its time budget"}
    wc = wide_cases(rng, not ck.quick())
    go(wc, "wide-empty", chunk=4)
    ck.cov["wide_empty_family"] = {"cases": len(wc), "empties_per_tree": "1000..3000", "depths": [2, 11, 500, 512]}
    n = ck.scale(6000, 200000) * mult
    trees = [tree_case(rng, 1 + rng.below(6), 1 + rng.below(5)) for _ in range(n)]
    go(trees, "trees")
    deep = [deep_case(rng, d) for d in ([1, 2, 3, 64, 511, 512] + [rng.below(513) for _ in range(ck.scale(6, 60))])]
    go(deep, "deep", chunk=10)
    hists = [history_case(rng, 4 + rng.below(ck.scale(40, 80)), True) for _ in range(n)]
    go(hists, "histories")
    docs = [parse_case(rng, rng.below(5)) for _ in range(n // 2)]
    go(docs, "parsed")
    for c in (trees[0], hists[0], docs[0]):
        ck.sample(c[:10])
    ck.cov["op_histogram"] = hist
    ck.cov["max_depth"] = 512


def replay(ck, path):
    hcmd, dcmd = build(ck)
    return vf.generic_replay(ck, path, hcmd, dcmd)
