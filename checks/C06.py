"""C06 — crit-bit tree, strpool and mdict behave as a sorted map of byte strings.

Theorems: lean/UsualProofs/Props/C06.lean (model lean/Usual/C06/*).  Tie: correspondence run of
the model driver drv_c06 against harness/C06/h.c (which #includes the working tree's
usual/cbtree.c and links strpool.c, mdict.c, mbuf.c, cxalloc.c) on the same op lines, with the
node structure of the tree as internal projection."""
import os
import itertools
import sys
import vf

sys.path.insert(0, os.path.join(vf.VERIF, "extract"))
import c2lean  # noqa: E402

PID = "C06"
PROP_MODULES = ["UsualProofs.Props.C06"]
REPO_SRCS = ["repo:usual/strpool.c", "repo:usual/mdict.c", "repo:usual/mbuf.c",
             "repo:usual/cxalloc.c", "repo:usual/base.c"]


def build(ck):
    ck.forbid_scan()
    # T-tie: get_bit / find_crit_bit / fls re-translated into lean/Usual/Gen/C06T.lean, bridge re-checked
    ck.build_proofs(PROP_MODULES + c2lean.ttie(ck, vf, PID), driver="drv_c06")
    h = ck.cc(os.path.join(ck.bdir, "h"), [os.path.join(vf.HARNESS, PID, "h.c")] + REPO_SRCS)
    return [h], [ck.driver_path("drv_c06")]


# ------------------------------------------------------------------ generators
ALPHA = [0x01, 0x7F, 0x80, 0xFF, 0x61, 0x62]


def fix_tail(k):
    """keys never end in a zero byte (the property's precondition)"""
    k = bytearray(k)
    while k and k[-1] == 0:
        k[-1] = 0x61
    return bytes(k)


def key_family(rng):
    fam = rng.below(7)
    keys = []
    if fam == 0:      # shared prefix, differing tails
        pre = bytes(rng.choice(ALPHA) for _ in range(rng.below(12)))
        for _ in range(3 + rng.below(8)):
            keys.append(pre + bytes(rng.choice(ALPHA) for _ in range(rng.below(4))))
    elif fam == 1:    # prefixes of one long key (k and k ++ x)
        k = bytes(rng.choice(ALPHA + [0]) for _ in range(4 + rng.below(20)))
        for _ in range(3 + rng.below(8)):
            keys.append(k[:rng.below(len(k) + 1)])
    elif fam == 2:    # single-bit differences at every bit of bytes 0..3
        base = bytearray(rng.choice(ALPHA) for _ in range(4 + rng.below(3)))
        keys.append(bytes(base))
        for _ in range(3 + rng.below(8)):
            b = bytearray(base)
            bit = rng.below(32)
            b[bit // 8] ^= 0x80 >> (bit % 8)
            keys.append(bytes(b))
    elif fam == 3:    # random short over small alphabet
        for _ in range(3 + rng.below(9)):
            keys.append(bytes(rng.choice([0x61, 0x62]) for _ in range(rng.below(4))))
    elif fam == 4:    # lengths up to 64, random bytes
        for _ in range(3 + rng.below(8)):
            keys.append(rng.bytes(rng.below(65)))
    elif fam == 5:    # inner zero bytes (padding look-alikes that are NOT at the end)
        for _ in range(3 + rng.below(8)):
            n = 1 + rng.below(5)
            keys.append(bytes(rng.choice([0, 0, 0x80, 0x61]) for _ in range(n)) + b"\x61")
    else:             # mixture incl. empty key and high-bit bytes
        keys = [b"", b"\x80", b"\xff", b"\xff\xff", b"a", b"ab", b"b", b"\x7f", b"\x01"]
        rngkeys = [rng.bytes(1 + rng.below(3)) for _ in range(3)]
        keys += rngkeys
    keys = [fix_tail(k) for k in keys]
    if rng.chance(1, 3):
        keys.append(b"")
    return keys


def cb_case(rng, maxops):
    keys = key_family(rng)
    # caller-side freedom the library must not depend on: what the free callback returns, and whether
    # cbtree_delete is handed a separate key buffer or the key stored inside the object (`delown`;
    # the harness's callback scrubs and releases that memory)
    ops = ["freeret 0"] if rng.below(4) == 0 else []
    for _ in range(1 + rng.below(maxops)):
        r = rng.below(100)
        kb = rng.choice(keys)
        k = vf.hexs(kb)
        if r < 40:
            ops.append("ins " + k)
        elif r < 60:
            ops.append(("delown " if r % 2 else "del ") + k)
        elif r < 72:
            ops.append("get " + k)
        elif r < 80:
            # prefix of a (possibly stored) key, handed over through the stored object's own buffer;
            # the prefix must itself be a legal key (no trailing zero byte)
            cuts = [i for i in range(len(kb) + 1) if i == 0 or kb[i - 1] != 0]
            ops.append(("getpfx " if r % 2 else "delpfx ") + k + " %d" % rng.choice(cuts))
        elif r < 90:
            ops.append("walk 0")
        elif r < 95:
            ops.append("walk %d" % (1 + rng.below(4)))
        else:
            ops.append("destroy")
    ops += ["walk 0", "destroy"]
    return ops


def sp_case(rng, maxops):
    keys = key_family(rng)
    ops = []
    live = {}     # id -> refcnt   (mirrors what handles exist; ids in creation order)
    bykey = {}
    nid = 0
    for _ in range(1 + rng.below(maxops)):
        r = rng.below(100)
        if r < 50 or not live:
            k = rng.choice(keys)
            ops.append("sget " + vf.hexs(k))
            if k in bykey:
                live[bykey[k]] += 1
            else:
                nid += 1
                bykey[k] = nid
                live[nid] = 1
        elif r < 60:
            i = rng.choice(sorted(live))
            ops.append("sinc %d" % i)
            live[i] += 1
        elif r < 90:
            i = rng.choice(sorted(live))
            ops.append("sdec %d" % i)
            live[i] -= 1
            if live[i] == 0:
                del live[i]
                for k in [k for k, v in bykey.items() if v == i]:
                    del bykey[k]
        else:
            ops.append("stotal")
    ops += ["stotal", "sfree"]
    return ops


URLCH = [0x61, 0x7a, 0x41, 0x30, 0x39, 0x20, 0x2b, 0x25, 0x26, 0x3d, 0x2e, 0x5f, 0x2d, 0x00, 0x80, 0xff, 0x7e]


def url_text(rng):
    out = bytearray()
    for _ in range(rng.below(6)):
        for _ in range(rng.below(4)):
            r = rng.below(10)
            if r < 6:
                out.append(rng.choice([0x61, 0x62, 0x41, 0x31, 0x2e, 0x5f, 0x2b]))
            elif r < 9:
                out += b"%" + bytes(rng.choice(b"0123456789abcdefABCDEF") for _ in range(2))
            else:
                out += rng.choice([b"%", b"%4", b"%zz", b"%0g", b"~", b"\xff"])
        if rng.chance(2, 3):
            out += b"="
            for _ in range(rng.below(4)):
                out.append(rng.choice([0x61, 0x2b, 0x32]))
        if rng.chance(3, 4):
            out += b"&"
    return bytes(out)


def md_case(rng, maxops):
    keys = key_family(rng)[:8]
    ops = []
    for _ in range(1 + rng.below(maxops)):
        r = rng.below(100)
        k = vf.hexs(rng.choice(keys))
        if r < 35:
            if rng.chance(1, 5):
                v = "nil"
            else:
                v = vf.hexs(bytes(rng.choice(URLCH) for _ in range(rng.below(5))))
            ops.append("mput %s %s" % (k, v))
        elif r < 50:
            ops.append("mget " + k)
        elif r < 62:
            ops.append("mdel " + k)
        elif r < 70:
            ops.append("mwalk")
        elif r < 78:
            ops.append("menc")
        elif r < 90:
            ops.append("mdec " + vf.hexs(url_text(rng)))
        else:
            ops += ["mwalk", "mrt"]
    ops += ["mwalk", "mrt", "mfree"]
    return ops


def deep_case(rng, kind):
    """degenerate shapes: a crit-bit chain n internal nodes deep (n beyond any word-size bound an explicit
    stack or a depth counter might assume), through cbtree / mdict / strpool, with walks and deletes"""
    n = rng.choice([63, 64, 65, 66, 67, 100, 129, 130, 200])
    if rng.below(2):
        keys = [b"a" * i + b"b" for i in range(n)]        # chain along child[0]
    else:
        keys = [b"a" * (i + 1) for i in range(n)]         # chain along child[1] (prefixes)
    order = list(keys)
    r = rng.below(3)
    if r == 1: order.reverse()
    elif r == 2:
        for i in range(len(order) - 1, 0, -1):
            j = rng.below(i + 1)
            order[i], order[j] = order[j], order[i]
    probe = [keys[0], keys[-1], keys[n // 2], b"a" * (n + 3), b"c"]
    if kind == "cb":
        ops = ["ins " + vf.hexs(k) for k in order] + ["walk 0", "walk %d" % (n - 1)]
        ops += ["get " + vf.hexs(k) for k in probe]
        ops += [("delown " if i % 2 else "del ") + vf.hexs(k) for i, k in enumerate(keys[::3])]
        ops += ["walk 0", "destroy"]
    elif kind == "md":
        ops = ["mput %s %s" % (vf.hexs(k), vf.hexs(bytes([0x30 + i % 10]))) for i, k in enumerate(order)]
        ops += ["mwalk", "menc", "mrt"] + ["mget " + vf.hexs(k) for k in probe]
        ops += ["mdel " + vf.hexs(k) for k in keys[::3]] + ["mwalk", "mrt", "mfree"]
    else:
        ops = ["sget " + vf.hexs(k) for k in order] + ["stotal"]
        ops += ["sget " + vf.hexs(k) for k in probe[:3]] + ["stotal"]
        ops += ["sdec %d" % (i + 1) for i in range(0, n, 3)] + ["stotal", "sfree"]
    return ops


def exhaustive_cb(nkeys, length):
    keys = [b"", b"a", b"ab", b"b", b"\x80", b"a\x80"][:nkeys]
    opsets = []
    for k in keys:
        h = vf.hexs(k)
        opsets += ["ins " + h, "del " + h, "get " + h]
    i = 0
    for n in range(1, length + 1):
        for combo in itertools.product(opsets, repeat=n):
            i += 1
            ops = [o.replace("del ", "delown ") for o in combo] if i % 2 else list(combo)
            yield (["freeret 0"] if i % 4 >= 2 else []) + ops + ["walk 0", "destroy"]


def rt_monitor(lines, c_lines):
    """property monitor on the implementation's own output, independent of the model:
    `mrt` (url-encode, decode into a fresh dict, compare) must say `same`; after a destroy
    nothing may stay allocated.  Yields (line, message, class)."""
    last_walk = None
    for i, l in enumerate(lines):
        if i >= len(c_lines):
            break
        if l == "mwalk":
            last_walk = c_lines[i]
        elif l == "#case" or l.split()[0] in ("mput", "mdel", "mdec", "mfree"):
            last_walk = None
        if l == "mrt" and c_lines[i] != "same":
            cls = "urlrt:K1" if last_walk == "-=nil" else "urlrt"
            yield i, "url-encoding then decoding does not reproduce the dict {%s}: %s" % (last_walk, c_lines[i]), cls
        if l in ("mfree", "sfree", "destroy") and not c_lines[i].endswith("live=0"):
            yield i, "memory still allocated after destroy: " + c_lines[i], "leak"


def run(ck):
    hcmd, dcmd = build(ck)
    ck.level = "proof"
    ck.cov["trusted_base"] = [
        "Lean 4.33.0 kernel; axioms of the property theorems: subset of propext, Quot.sound, Classical.choice (audited this run)",
        "model lean/Usual/C06/{CBTree,Pools}.lean is tied to usual/cbtree.c, strpool.c, mdict.c by the "
        "differential run of drv_c06 vs harness/C06/h.c (generator + canonicalisation in checks/C06.py)",
        "object identity is modelled by sequential ids; pointer-level safety is ASan/UBSan's, allocator balance is the tracking CxMem's",
    ]
    ck.assumptions += ["keys do not end in a zero byte (the property's precondition)",
                       "libc isalnum in the C locale for mdict_urlencode",
                       "cx_alloc never fails here (allocation failure is property C10)"]
    ck.cov["rule"] = ("cases = op histories (#case-separated) over adversarial key families (shared prefixes, "
                      "prefixes of one key, single-bit differences, empty key, lengths 0..64, high-bit and inner-zero "
                      "bytes) for cbtree / strpool / mdict, plus all cbtree histories up to a length bound over a "
                      "small key set; a case is non-trivial when it is distinct and contains at least one mutating op")
    rng = vf.SplitMix(ck.seed)
    nontriv = lambda c: any(l.split()[0] in ("ins", "del", "delown", "delpfx", "sget", "sdec", "mput", "mdel", "mdec") for l in c)
    hist = {}

    def go(cases, label):
        for c in cases:
            for l in c:
                op = l.split()[0]
                hist[op] = hist.get(op, 0) + 1
        for ch in vf.chunks(cases, 3000):
            ck.compare_cases(hcmd, dcmd, ch, label=label, nontrivial=nontriv, monitor=rt_monitor)

    go(vf.corpus_cases(PID), "corpus")
    intensify = (not ck.proof_ok)
    mult = 4 if intensify else 1
    # bounded-exhaustive cbtree histories
    ex = list(exhaustive_cb(*(ck.scale((4, 3), (5, 4)))))
    go(ex, "exhaustive-cbtree")
    ck.cov["exhaustive_histories"] = len(ex)
    deep = [deep_case(rng, kind) for kind in ("cb", "md", "sp") for _ in range(ck.scale(4, 30))]
    go(deep, "deep-chains")
    n = ck.scale(4000, 150000) * mult
    cb = [cb_case(rng, ck.scale(60, 200)) for _ in range(n)]
    go(cb, "random-cbtree")
    sp = [sp_case(rng, 60) for _ in range(n // 2)]
    go(sp, "random-strpool")
    md = [md_case(rng, 50) for _ in range(n // 2)]
    go(md, "random-mdict")
    for c in (cb[0], sp[0], md[0]):
        ck.sample(c[:12])
    ck.cov["op_histogram"] = hist


def replay(ck, path):
    hcmd, dcmd = build(ck)
    return vf.generic_replay(ck, path, hcmd, dcmd)
