"""C11 — UTF-8 codec (usual/utf8.c): accepts exactly well-formed UTF-8, round-trips every scalar.

Both ties are used and re-checked on every run:

 (T) extract/c2lean.py regenerates lean/Usual/Gen/C11.lean from the *current* utf8.c (clang's
     typed AST -> BitVec terms) and UsualProofs/Bridge/C11.lean re-proves Gen.f = Model.f for the
     five leaf functions.  A refusal of the translator, a Gen file that no longer compiles or a
     bridge lemma that no longer checks = "tie broken": recorded in ck.broken, the search below
     is widened to the thorough volume, and a counterexample printed by bv_decide is replayed
     on the real code first.
 (C) exhaustive correspondence: harness/C11/h.c (real code, ASan+UBSan, exact-size heap
     buffers) and the model driver drv_c11 hash the results of whole index ranges (all byte
     windows x every end position, all code points x every room); on a mismatch the range is
     bisected down to one input, which becomes the replay (a direct op line).
"""
import concurrent.futures
import os
import re
import sys

import vf

sys.path.insert(0, os.path.join(vf.VERIF, "extract"))
import c2lean  # noqa: E402

PID = "C11"
PROP_MODULES = ["UsualProofs.Props.C11", "UsualProofs.Bridge.C11"]
GEN_REL = "lean/Usual/Gen/C11.lean"
GEN_PATH = os.path.join(vf.VERIF, GEN_REL)
B3SET = [0x00, 0x7F, 0x80, 0x8F, 0x90, 0xBF, 0xC0, 0xFF]
NPROC = max(2, min(16, os.cpu_count() or 2))
VARIANTS = [("signed", ("-fsigned-char",)), ("unsigned", ("-funsigned-char",))]
MODEL_CACHE = {}      # op lines -> model output (the model is run once, compared with every build)


# ------------------------------------------------------------------------------ build
def regenerate(ck):
    """T-tie step 1: translate utf8.c of vf.REPO; returns True when the Gen file on disk is the
    translation of the current source"""
    try:
        txt = c2lean.utf8_module(vf.REPO)
    except c2lean.Refused as e:
        ck.broken.append("T-tie: extract/c2lean.py refuses usual/utf8.c (left the C subset): %s" % e)
        ck.proof_ok = False
        ck.cov["translator"] = "refused: %s" % e
        restore_gen(ck)
        return False
    ck.cov["translator"] = "ok (5 functions)"
    ck.cov["gen_changed"] = vf.write_if_changed(GEN_PATH, txt)
    return True


def restore_gen(ck):
    old = vf.git_committed(GEN_REL)
    if old is not None:
        vf.write_if_changed(GEN_PATH, old)
        ck.cov["gen_restored_from"] = "git HEAD"
    else:
        ck.cov["gen_restored_from"] = "(not committed yet: file on disk kept)"


def build(ck):
    ck.forbid_scan()
    fresh = regenerate(ck)
    # second T-tie module: the utf8_validate_string loop (lean/Usual/Gen/C11T.lean, Bridge/C11T.lean)
    ok = ck.build_proofs(PROP_MODULES + c2lean.ttie(ck, vf, PID), driver="drv_c11")
    if not fresh:
        # the bridge lemmas were checked against a stale Gen file: they say nothing about the
        # current source, so they do not count as discharged
        nb = len(vf.theorems_in(vf.module_path("UsualProofs.Bridge.C11")))
        ck.cov["discharged"] = min(ck.cov.get("discharged", 0), max(0, ck.cov.get("obligations", 0) - nb))
        ck.cov["bridge_checked_against"] = "stale Gen file (translator refused the current source)"
    if not ok and fresh:
        gok, gout = ck.lake(["Usual.Gen.C11"])
        if not gok:
            ck.broken.append("T-tie: the Lean file generated from usual/utf8.c does not compile "
                             "(the source left the translated subset)")
            restore_gen(ck)
            ck.lake(["Usual.Gen.C11"])
    # the harness and the library source are built twice: plain char signed (x86 default) and
    # unsigned (-funsigned-char = the native ABI of ARM/AArch64/PowerPC/s390).  h.c includes the
    # working tree's <usual/utf8.h> (-I REPO), so the prototypes in force are the current ones.
    hs = {}
    for name, flags in VARIANTS:
        hs[name] = [ck.cc(os.path.join(ck.bdir, "h-" + name),
                          [os.path.join(vf.HARNESS, PID, "h.c"), "repo:usual/utf8.c"], flags=flags)]
    return hs, [ck.driver_path("drv_c11")]


# ------------------------------------------------------------------- running both sides
def run_side(ck, cmd, ops, is_impl, timeout):
    if not is_impl:
        key = "\n".join(ops)
        if key not in MODEL_CACHE:
            MODEL_CACHE[key] = run_side1(ck, cmd, ops, is_impl, timeout)
        return list(MODEL_CACHE[key])
    return run_side1(ck, cmd, ops, is_impl, timeout)


def run_side1(ck, cmd, ops, is_impl, timeout):
    rc, out, err = ck.run(cmd, input_text="\n".join(ops) + "\n", timeout=timeout)
    lines = (out or "").split("\n")
    if lines and lines[-1] == "":
        lines.pop()
    if rc != 0:
        lines.append(("CRASH rc=%d %s" % (rc, vf.san_summary(err))) if is_impl
                     else ("MODEL-CRASH rc=%d %s" % (rc, (err or "")[-200:])))
    return lines


def run_jobs(ck, hcmd, dcmd, jobs, timeout=3000):
    """jobs: list of op-line lists.  Runs harness and driver on every job, NPROC processes at a
    time.  Returns list of (impl_lines, model_lines)."""
    res = [[None, None] for _ in jobs]
    with concurrent.futures.ThreadPoolExecutor(max_workers=NPROC) as ex:
        futs = {}
        for j, ops in enumerate(jobs):
            futs[ex.submit(run_side, ck, dcmd, ops, False, timeout)] = (j, 1)   # model is slower: first
        for j, ops in enumerate(jobs):
            futs[ex.submit(run_side, ck, hcmd, ops, True, timeout)] = (j, 0)
        for f in concurrent.futures.as_completed(futs):
            j, side = futs[f]
            res[j][side] = f.result()
    return res


def both(ck, hcmd, dcmd, ops, timeout=600):
    r = run_jobs(ck, hcmd, dcmd, [ops], timeout)[0]
    return r[0], r[1]


def differs(ck, hcmd, dcmd, op):
    a, b = both(ck, hcmd, dcmd, [op])
    return a != b


# --------------------------------------------------------------------- range protocol
def rng_op(kind, lo, hi):
    """kind: ('win', f, avail) | ('winq', f) | ('put',) | ('seq',)"""
    if kind[0] == "win":
        return "win %s %d %d %d" % (kind[1], kind[2], lo, hi)
    if kind[0] == "winq":
        return "winq %s %d %d" % (kind[1], lo, hi)
    return "%s %d %d" % (kind[0], lo, hi)


def direct_ops(kind, i):
    """the single input with index i of a range kind, as direct op lines"""
    if kind[0] == "win":
        a = kind[2]
        bs = bytes((i >> (8 * (a - 1 - k))) & 0xFF for k in range(a))
        return ["%s %s" % ("vseq" if kind[1] == "v" else "getc", bs.hex())]
    if kind[0] == "winq":
        w = i >> 3
        bs = bytes([(w >> 16) & 0xFF, (w >> 8) & 0xFF, w & 0xFF, B3SET[i & 7]])
        return ["%s %s" % ("vseq" if kind[1] == "v" else "getc", bs.hex())]
    if kind[0] == "put":
        return ["charsize %x" % i] + ["putc %x %d" % (i, room) for room in range(5)]
    if kind[0] == "rt":
        return ["rtc %x" % i]
    if kind[0] == "seqc":
        return ["seqsizec %02x" % i]
    return ["seqsize %02x" % i]


def bisect(ck, hcmd, dcmd, kind, lo, hi):
    """smallest-effort search of one index in [lo,hi) on which the two sides differ"""
    steps = 0
    while hi - lo > 1:
        mid = (lo + hi) // 2
        steps += 1
        if differs(ck, hcmd, dcmd, rng_op(kind, lo, mid)):
            hi = mid
        else:
            lo = mid
    ck.cov["bisect_steps"] = ck.cov.get("bisect_steps", 0) + steps
    return lo


def report_direct(ck, hcmd, dcmd, ops, label, extra=None):
    """run direct ops one by one; report those on which implementation and model differ.
    returns number reported"""
    n = 0
    seen = ck.__dict__.setdefault("_c11_reported", set())
    variant = getattr(ck, "_c11_variant", "signed")
    for op in ops:
        if (variant, op) in seen:
            n += 1
            continue
        a, b = both(ck, hcmd, dcmd, [op])
        if a != b:
            seen.add((variant, op))
            r = {"label": label, "ops": [op], "impl": a, "model": b, "variant": variant,
                 "build": "harness + usual/utf8.c compiled with " + dict(VARIANTS)[variant][0]}
            if extra:
                r.update(extra)
            ck.report("obs", r, what="utf8.c departs from the proved model on this input")
            n += 1
    return n


def range_plan(which):
    """list of (kind, lo, hi) chunks; chunk sizes keep a job around a second of model time.
    which: 'base' (everything but 4-byte windows), 'quick4' (2^24 x 8 boundary fourth bytes),
    'full4' (all 2^32 four-byte windows)"""
    plan = []

    def split(kind, total, chunk):
        for lo in range(0, total, chunk):
            plan.append((kind, lo, min(total, lo + chunk)))
    if which == "base":
        split(("seq",), 256, 256)
        split(("seqc",), 256, 256)
        split(("rt",), 0x110400, 1 << 18)
        for f in "vg":
            split(("win", f, 1), 1 << 8, 1 << 8)
            split(("win", f, 2), 1 << 16, 1 << 16)
        split(("win", "v", 3), 1 << 24, 1 << 23)
        split(("win", "g", 3), 1 << 24, 1 << 21)
        split(("put",), 0x110400, 1 << 17)
        # code points far above the table as well (the argument is a 32-bit unsigned)
        for base in (0x7FFFFF00, 0x80000000 - 0x100, 0xFFFFFF00):
            plan.append((("put",), base, base + 0x100))
    elif which == "full4":
        split(("win", "v", 4), 1 << 32, 1 << 27)
        split(("win", "g", 4), 1 << 32, 1 << 24)
    else:
        split(("winq", "v"), 1 << 27, 1 << 25)
        split(("winq", "g"), 1 << 27, 1 << 22)
    return plan


def evals_of(kind, n):
    return n * {"put": 6, "rt": 2, "seqc": 3}.get(kind[0], 1)


def run_ranges(ck, hcmd, dcmd, plan, max_report=3):
    # biggest jobs first so the pool drains evenly
    order = sorted(range(len(plan)), key=lambda k: -(plan[k][2] - plan[k][1]) * (8 if plan[k][0][1:2] == ("g",) else 1))
    jobs = [[rng_op(*plan[k])] for k in order]
    res = run_jobs(ck, hcmd, dcmd, jobs)
    sfx = "" if getattr(ck, "_c11_variant", "signed") == "signed" else "_unsigned_char_build"
    hist = ck.cov.setdefault("range_inputs" + sfx, {})
    acc = ck.cov.setdefault("range_accepting" + sfx, {})
    bad = []
    for k, (a, b) in zip(order, res):
        kind, lo, hi = plan[k]
        name = " ".join(str(x) for x in kind)
        hist[name] = hist.get(name, 0) + (hi - lo)
        ck.count(evals_of(kind, hi - lo))
        if a == b and len(a) == 1 and re.fullmatch(r"[0-9a-f]{16} \d+", a[0]):
            acc[name] = acc.get(name, 0) + int(a[0].split()[1])
        else:
            bad.append((kind, lo, hi, a, b))
    ck.cov["range_jobs"] = ck.cov.get("range_jobs", 0) + len(plan)
    ck.cov["range_mismatches"] = ck.cov.get("range_mismatches", 0) + len(bad)
    bad.sort(key=lambda x: (x[2] - x[1]))
    nrep = 0
    if any(v["kind"] == "obs" for v in ck.violations):
        max_report = 1          # a concrete failing input is known already: one more is enough
    for kind, lo, hi, a, b in bad[:max_report]:
        i = bisect(ck, hcmd, dcmd, kind, lo, hi)
        n = report_direct(ck, hcmd, dcmd, direct_ops(kind, i), "range %s, index %d" % (rng_op(kind, lo, hi), i),
                          {"range_impl": a, "range_model": b})
        if n == 0:
            # the range differs but the single input does not: the transport itself is off
            ck.report("int", {"label": "range-hash mismatch not reproduced by the direct op",
                              "ops": [rng_op(kind, i, i + 1)] + direct_ops(kind, i),
                              "impl": a, "model": b})
        nrep += n
    return len(bad)


# ------------------------------------------------------------------------- string cases
def enc(c):
    """UTF-8 bytes by the textbook bit layout, no validity checks (used to build bad forms too)"""
    if c < 0x80:
        return bytes([c])
    if c < 0x800:
        return bytes([0xC0 | (c >> 6), 0x80 | (c & 0x3F)])
    if c < 0x10000:
        return bytes([0xE0 | (c >> 12), 0x80 | ((c >> 6) & 0x3F), 0x80 | (c & 0x3F)])
    return bytes([0xF0 | ((c >> 18) & 7), 0x80 | ((c >> 12) & 0x3F), 0x80 | ((c >> 6) & 0x3F), 0x80 | (c & 0x3F)])


def overlong(c, n):
    if n == 2:
        return bytes([0xC0 | (c >> 6), 0x80 | (c & 0x3F)])
    if n == 3:
        return bytes([0xE0 | (c >> 12), 0x80 | ((c >> 6) & 0x3F), 0x80 | (c & 0x3F)])
    return bytes([0xF0 | (c >> 18), 0x80 | ((c >> 12) & 0x3F), 0x80 | ((c >> 6) & 0x3F), 0x80 | (c & 0x3F)])


BOUNDARY_CP = [1, 0x7F, 0x80, 0x7FF, 0x800, 0xFFF, 0x1000, 0xCFFF, 0xD000, 0xD7FF, 0xE000, 0xFFFD,
               0xFFFF, 0x10000, 0x3FFFF, 0x40000, 0xFFFFF, 0x100000, 0x10FFFF]


def rand_scalar(rng):
    k = rng.below(10)
    if k == 0:
        return rng.choice(BOUNDARY_CP)
    if k < 4:
        return 1 + rng.below(0x7F)
    if k < 6:
        return 0x80 + rng.below(0x780)
    if k < 8:
        c = 0x800 + rng.below(0xF800)
        return c if not (0xD800 <= c <= 0xDFFF) else 0xE000 + (c & 0xFF)
    return 0x10000 + rng.below(0x100000)


def gen_string(rng):
    """(kind, bytes): valid concatenations and single-fault mutations of them"""
    n = rng.below(9)
    parts = [enc(rand_scalar(rng)) for _ in range(n)]
    kind = rng.below(12)
    if kind <= 2 or not parts:
        return "valid", b"".join(parts)
    pos = rng.below(len(parts))
    if kind == 3:
        parts[pos] = b"\x00"
        return "nul", b"".join(parts)
    if kind == 4:
        s = b"".join(parts)
        return "truncated", s[:max(0, len(s) - 1 - rng.below(3))]
    if kind == 5:
        parts[pos] = enc(0xD800 + rng.below(0x800))
        return "surrogate", b"".join(parts)
    if kind == 6:
        parts[pos] = rng.choice([overlong(rng.below(0x80), 2), overlong(rng.below(0x800), 3),
                                 overlong(rng.below(0x10000), 4)])
        return "overlong", b"".join(parts)
    if kind == 7:
        parts[pos] = overlong(0x110000 + rng.below(0xF0000), 4)
        return "above-10ffff", b"".join(parts)
    if kind == 8:
        parts.insert(pos, bytes([0x80 + rng.below(0x40)]))
        return "stray-tail", b"".join(parts)
    if kind == 9:
        parts[pos] = bytes([rng.choice([0xC0, 0xC1, 0xF5, 0xF8, 0xFC, 0xFE, 0xFF])]) + parts[pos][1:]
        return "bad-lead", b"".join(parts)
    s = bytearray(b"".join(parts))
    if s:
        s[rng.below(len(s))] = rng.below(256)
    return "byte-flip", bytes(s)


def shrink_bytes(ck, hcmd, dcmd, opname, data):
    """ddmin over the bytes of one vstr/vseq/getc argument"""
    cur = bytearray(data)
    n = 2
    runs = 0
    while len(cur) >= 2 and runs < 200:
        chunk = max(1, len(cur) // n)
        reduced = False
        for s in range(0, len(cur), chunk):
            cand = cur[:s] + cur[s + chunk:]
            runs += 1
            if differs(ck, hcmd, dcmd, "%s %s" % (opname, vf.hexs(bytes(cand)))):
                cur = cand
                n = max(n - 1, 2)
                reduced = True
                break
        if not reduced:
            if chunk == 1:
                break
            n = min(len(cur), n * 2)
    return bytes(cur)


def run_direct_batch(ck, hcmd, dcmd, ops, label, max_report=3):
    """all ops through both sides in NPROC slices; differing ops are shrunk (vstr) and reported.
    returns (number of differing ops, model output lines)"""
    if not ops:
        return 0, []
    per = max(1, (len(ops) + NPROC // 2 - 1) // (NPROC // 2))
    slices = [ops[i:i + per] for i in range(0, len(ops), per)]
    res = run_jobs(ck, hcmd, dcmd, slices)
    ck.count(len(ops))
    ndiff = 0
    model_out = []
    reported = 0
    for sl, (a, b) in zip(slices, res):
        model_out += b[:len(sl)]
        if a == b:
            continue
        for i, op in enumerate(sl):
            x = a[i] if i < len(a) else "<missing>"
            y = b[i] if i < len(b) else "<missing>"
            if x == y:
                continue
            ndiff += 1
            if reported >= max_report:
                continue
            w = op.split()
            if w[0] == "vstr" and w[1] != "-":
                small = shrink_bytes(ck, hcmd, dcmd, "vstr", bytes.fromhex(w[1]))
                op = "vstr " + vf.hexs(small)
            reported += report_direct(ck, hcmd, dcmd, [op], label)
            if x.startswith("CRASH"):
                break
    return ndiff, model_out


# -------------------------------------------------------- bv_decide counterexamples (T-tie)
def bv_counterexamples(lake_out):
    """assignments printed by bv_decide when a bridge lemma is false -> list of dicts
    name -> (value, width).  Boolean atoms (the `avail` comparisons) are ignored: every end
    position is tried on replay."""
    out = []
    cur = None
    for line in (lake_out or "").split("\n"):
        if "counterexample" in line:
            cur = {}
            out.append(cur)
            continue
        m = re.match(r"^\s*([A-Za-z_][A-Za-z0-9_]*) = (0x[0-9a-fA-F]+|\d+)#(\d+)\s*$", line)
        if m and cur is not None:
            cur[m.group(1)] = (int(m.group(2), 0), int(m.group(3)))
        elif re.match(r"^(error|warning|info|trace|✖|✔|⚠)", line):
            cur = None
    return [c for c in out if c]


def cex_ops(c):
    ops = []
    if "b0" in c:
        bs = bytes(c.get("b%d" % k, (0, 8))[0] & 0xFF for k in range(4))
        for n in range(1, 5):
            ops += ["vseq " + bs[:n].hex(), "getc " + bs[:n].hex()]
    if "c" in c:
        v = c["c"][0] & 0xFFFFFFFF
        ops += ["charsize %x" % v] + ["putc %x %d" % (v, room) for room in range(5)]
    if "b" in c:
        ops += ["seqsize %02x" % (c["b"][0] & 0xFF)]
    return ops


# -------------------------------------------------------------------------------- run
def run(ck):
    """scratch copies (VERIF_REPO=/tmp/...; used for mutants and not-yet-committed fixes) must
    not leave their translation behind in the shared tree: the Gen file is put back afterwards"""
    keep = None
    if os.path.realpath(vf.REPO) != "/repo" and os.path.exists(GEN_PATH):
        keep = open(GEN_PATH, encoding="utf-8").read()
    try:
        run1(ck)
    finally:
        if keep is not None:
            vf.write_if_changed(GEN_PATH, keep)


def run1(ck):
    hs, dcmd = build(ck)
    ck.level = "proof"
    ck.cov["trusted_base"] = [
        "Lean 4.33 kernel; property theorems (UsualProofs/Props/C11.lean) use only propext, Quot.sound, Classical.choice",
        "bridge lemmas Gen.f = Model.f (UsualProofs/Bridge/C11.lean) additionally use bv_decide "
        "(one _native.bv_decide axiom per call: LRAT checker + CaDiCaL certificate), counted in bv_decide_axioms",
        "extract/c2lean.py: clang-14 typed JSON AST -> BitVec terms (C subset: loop-free integer code, "
        "one source byte pointer with an end pointer, stores through one output pointer); refuses anything else",
        "harness/C11/h.c + drv_c11 + the range-hash/bisection logic in checks/C11.py (exact-size heap buffers under ASan+UBSan)",
        "specification: Unicode Table 3-7 / 3-6 as transcribed in lean/Usual/C11/Spec.lean",
        "the translator reads the AST of the default (signed plain char) configuration; the unsigned-char "
        "configuration is covered by the correspondence run only",
    ]
    ck.assumptions += ["callers pass at least one readable byte (srcend > src): both readers read p[0] unconditionally",
                       "the C compiler (gcc -O1, ASan/UBSan instrumented build) implements the C semantics clang's AST was read with",
                       "pointer arithmetic `p + k > end` is evaluated as on a flat address space (as the code assumes)"]
    ck.cov["char_signedness_variants"] = [v for v, _ in VARIANTS]
    ck.cov["rule"] = (
        "evaluations = calls compared between utf8.c and the model, on EACH of two builds of harness + utf8.c "
        "(plain char signed / -funsigned-char): every 1/2/3-byte window at end "
        "position 1/2/3, every 4-byte window (thorough, or whenever a proof/tie is broken) or "
        "b0 b1 b2 x {00,7F,80,8F,90,BF,C0,FF} (quick) for utf8_validate_seq and utf8_get_char; "
        "utf8_char_size + utf8_put_char with room 0..4 for every code point 0..0x1103FF and 768 values near "
        "2^31/2^32; put_char-then-get_char in C for every code point 0..0x1103FF; utf8_seq_size on all 256 bytes, "
        "by value and the way a caller does it through the header with char / signed char / unsigned char "
        "arguments; utf8_validate_string on generated strings (valid "
        "concatenations and single-fault mutations: NUL, truncation, surrogate, overlong, >10FFFF, stray tail, "
        "bad lead, byte flip); corpus ops.  distinct_nontrivial = inputs (counted once, on the signed-char build) on "
        "which the code took an accepting / "
        "storing path as counted by the harness itself (validator result != 0, decoder result >= 0, put_char "
        "stored >= 1 byte, round trip exact, seq_size != 0) + distinct accepted strings; every enumerated input is distinct by construction.")
    deep_any = False
    for name, _ in VARIANTS:
        ck._c11_variant = name
        deep_any = explore(ck, hs[name], dcmd, name) or deep_any
    ck._c11_variant = "signed"
    ck.cov["search_volume"] = ("all 1-3 byte windows + all 2^32 four-byte windows" if deep_any else
                               "all 1-3 byte windows + 2^24 x 8 boundary fourth bytes") + ", on both builds"
    # the finite spaces named in the property (2^32 windows x 4 end positions, all code points x
    # room 0..4, 256 lead bytes) were enumerated completely; strings are sampled
    ck.cov["exhaustive"] = bool(deep_any)
    ck.cov["partial"] = []
    acc = sum(ck.cov.get("range_accepting", {}).values())
    ck.cov["distinct_nontrivial"] = acc + len(ck._distinct)
    if ck.tier == "thorough":
        ck.leanchecker(["UsualProofs.Props.C11"])


def explore(ck, hcmd, dcmd, variant):
    """everything the correspondence does, against one build of the code; returns True when all
    2^32 four-byte windows were enumerated"""
    thorough = ck.tier == "thorough"
    primary = variant == "signed"

    # 0. counterexamples handed over by bv_decide when a bridge lemma broke
    if not ck.proof_ok:
        cexs = bv_counterexamples(getattr(ck, "lake_out", ""))
        ck.cov["bv_decide_counterexamples"] = [{k: "0x%x#%d" % v for k, v in c.items()} for c in cexs[:4]]
        seen = set()
        for c in cexs[:6]:
            ops = [o for o in cex_ops(c) if o not in seen]
            seen.update(ops)
            ck.count(len(ops))
            if report_direct(ck, hcmd, dcmd, ops, "counterexample printed by bv_decide for a bridge lemma") \
                    and len(ck.violations) >= 3:
                break

    # 1. corpus (minimised past failures + hand-made boundary cases), one op per line
    corpus = [op for case in vf.corpus_cases(PID) for op in case]
    run_direct_batch(ck, hcmd, dcmd, corpus, "corpus")
    ck.cov["corpus_ops"] = len(corpus)

    # 2. exhaustive ranges
    def concrete():
        return any(v["kind"] == "obs" for v in ck.violations)
    run_ranges(ck, hcmd, dcmd, range_plan("base") + range_plan("full4" if thorough else "quick4"))
    deep = thorough
    if not thorough and not concrete() and (not ck.proof_ok or ck.violations):
        # a theorem / the T-tie no longer checks (or only the transport disagreed) and nothing
        # concrete was found so far: search all 2^32 four-byte windows as well
        run_ranges(ck, hcmd, dcmd, range_plan("full4"))
        deep = True

    # 3. strings
    # vf.SplitMix states of consecutive seeds are one draw apart: spread them first
    rng = vf.SplitMix((ck.seed * 0x2545F4914F6CDD1D + 0xC11) & ((1 << 64) - 1))
    nstr = ck.scale(6000, 200000) if (thorough or not deep) else 60000
    kinds = {}
    ops = []
    for _ in range(nstr):
        k, s = gen_string(rng)
        kinds[k] = kinds.get(k, 0) + 1
        ops.append("vstr " + vf.hexs(s))
    nd, mout = run_direct_batch(ck, hcmd, dcmd, ops, "generated string")
    if primary:
        ck.cov["string_cases"] = {"total": nstr, "by_construction": kinds,
                                  "model_accepts": sum(1 for x in mout if x == "1"),
                                  "model_rejects": sum(1 for x in mout if x == "0")}
        for op, r in zip(ops, mout):
            if r == "1":
                ck.distinct(op)
    samples = ["win v 3 0 16777216", "vseq e0a080", "getc eda080", "putc 10ffff 4", "seqsizec c3",
               ops[0] if ops else "vstr -"] if primary else ["win v 3 0 16777216", "seqsizec c3"]
    for s in samples:
        a, b = both(ck, hcmd, dcmd, [s])
        ck.sample("[%s char] %s -> impl %s | model %s" % (variant, s, a[0] if a else "?", b[0] if b else "?"), limit=8)
    return deep


def replay(ck, path):
    import json
    hs, dcmd = build(ck)
    try:
        variant = json.load(open(path)).get("variant", "signed")
    except Exception:
        variant = "signed"
    vf.log("replay on the %s-char build" % variant)
    return vf.generic_replay(ck, path, hs.get(variant, hs["signed"]), dcmd)
