"""C16 — non-cryptographic hashes are pure, bounded and equal the published algorithms.

Stages (all on every run):
  1. regenerate lean/Usual/Gen/C16Crc.lean from the crc_tab[] initialiser in the *current*
     usual/hashing/crc32.c; `crc_table_ok` (decide +kernel) is then re-proved on it,
  2. build UsualProofs.Props.C16 + drv_c16, audit axioms,
  3. compile harness/C16/h.c against the working-tree hashing sources (ASan+UBSan),
  4. stream (data, key) cases through harness and Lean driver and diff.

The harness evaluates every op at 32 placements of the same bytes (16 start offsets from a
left PROT_NONE page, 16 end offsets from a right PROT_NONE page; slack between buffer and
guard page is ASan-poisoned and filled with fresh garbage) and additionally compares with an
independent from-the-publication C implementation; its observable line is the single value
or IMPURE/REFDIFF.  See harness/C16/h.c.
"""
import hashlib
import os
import re
import concurrent.futures as cf
import sys
import vf

sys.path.insert(0, os.path.join(vf.VERIF, "extract"))
import c2lean  # noqa: E402

PID = "C16"
PROP_MODULES = ["UsualProofs.Props.C16"]
GEN = os.path.join(vf.LEAN, "Usual", "Gen", "C16Crc.lean")
HASH_SRCS = ["crc32", "lookup3", "siphash", "xxhash", "memhash"]


# ------------------------------------------------------------------ extraction (T-tie)
def extract_crc_tab(ck):
    """crc_tab[256] initialiser of crc32.c -> Lean Array UInt32 literal"""
    src = open(vf.repo_file("usual/hashing/crc32.c"), encoding="latin-1").read()
    src_nc = re.sub(r"/\*.*?\*/", " ", src, flags=re.S)
    src_nc = re.sub(r"//[^\n]*", " ", src_nc)
    m = re.search(r"\bcrc_tab\s*\[\s*(\d*)\s*\]\s*=\s*\{([^}]*)\}", src_nc)
    vals = None
    if m:
        toks = [t.strip() for t in m.group(2).split(",") if t.strip()]
        try:
            vals = [int(re.sub(r"[uUlL]+$", "", t), 0) for t in toks]
        except ValueError:
            vals = None
    if vals is None or any(v < 0 or v >= 1 << 32 for v in vals):
        ck.broken.append("extract: cannot read crc_tab[] initialiser from crc32.c")
        ck.proof_ok = False
        return False
    ck.cov["crc_tab_entries_extracted"] = len(vals)
    rows = []
    for i in range(0, len(vals), 8):
        rows.append("  " + ", ".join("0x%08X" % v for v in vals[i:i + 8]))
    txt = ("/-! GENERATED on every run by checks/C16.py from the `crc_tab[]` initialiser of\n"
           "usual/hashing/crc32.c (working tree).  Do not edit. -/\n"
           "namespace Usual.Gen.C16Crc\n\n"
           "/-- `static const uint32_t crc_tab[256]` -/\n"
           "def crcTab : Array UInt32 := #[\n" + ",\n".join(rows) + "\n]\n\n"
           "end Usual.Gen.C16Crc\n")
    vf.write_if_changed(GEN, txt)
    return True


GEN_CONSTS = os.path.join(vf.LEAN, "Usual", "Gen", "C16Consts.lean")


def _src(rel):
    t = open(vf.repo_file(rel), encoding="latin-1").read()
    t = re.sub(r"/\*.*?\*/", " ", t, flags=re.S)
    return re.sub(r"//[^\n]*", " ", t)


def _macro_body(src, name):
    """text of a multi-line #define (continuation lines joined)"""
    m = re.search(r"#define\s+" + name + r"\b[^\n]*\\\n((?:[^\n]*\\\n)*[^\n]*)", src)
    return m.group(0).replace("\\\n", "\n") if m else ""


def extract_consts(ck):
    """rotation tables, primes and other constants of spooky.c / siphash.c / xxhash.c / lookup3.c ->
    lean/Usual/Gen/C16Consts.lean; `*_constants_ok` in Props/C16.lean re-prove on every run that they
    are the published ones (the tables of the specifications)."""
    c = {}
    problems = []
    try:
        sp = _src("usual/hashing/spooky.c")
        m = re.search(r"sc_const\s*=\s*(0x[0-9a-fA-F]+)", sp)
        c["spookyConst"] = int(m.group(1), 16) if m else 0
        env = {}
        for nm, ex in re.findall(r"#define\s+(sc_\w+)\s+([^\n]+)", sp):
            ex = ex.strip()
            if re.fullmatch(r"[\w\s()*+]+", ex):
                try:
                    env[nm] = int(eval(ex, {"__builtins__": {}}, dict(env)))
                except Exception:
                    pass
        c["spookyNumVars"] = env.get("sc_numVars", 0)
        c["spookyBlockSize"] = env.get("sc_blockSize", 0)
        c["spookyBufSize"] = env.get("sc_bufSize", 0)
        for mac, key in (("Mix", "spookyMixRot"), ("EndPartial", "spookyEndPartialRot"),
                         ("ShortMix", "spookyShortMixRot"), ("ShortEnd", "spookyShortEndRot")):
            c[key] = [int(x) for x in re.findall(r"rol64\(\s*\w+\s*,\s*(\d+)\s*\)", _macro_body(sp, mac))]

        si = _src("usual/hashing/siphash.c")
        byvar = [[], [], [], []]
        for v, v2, k in re.findall(r"v(\d)\s*=\s*rol64\(\s*v(\d)\s*,\s*(\d+)\s*\)", _macro_body(si, "SIP_ROUND1")):
            if v == v2 and int(v) < 4:
                byvar[int(v)].append(int(k))
        c["sipRotByVar"] = byvar
        c["sipInit"] = [int(x, 16) for x in re.findall(r"UINT64_C\(\s*(0x[0-9a-fA-F]+)\s*\)", si)]
        body = si[si.find("uint64_t siphash24("):]
        cs = set(re.findall(r"sip_compress\((\d+)\)", body))
        ds = set(re.findall(r"sip_finalize\((\d+)\)", body))
        c["sipC"] = int(cs.pop()) if len(cs) == 1 else 0
        c["sipD"] = int(ds.pop()) if len(ds) == 1 else 0
        m = re.search(r"v2\s*\^=\s*(0x[0-9a-fA-F]+)", si)
        c["sipFinalXor"] = int(m.group(1), 16) if m else 0

        xx = _src("usual/hashing/xxhash.c")
        pr = dict((int(n), int(v)) for n, v in re.findall(r"#define\s+PRIME32_(\d)\s+(\d+)U", xx))
        c["xxhPrimes"] = [pr.get(i, 0) for i in range(1, 6)]
        c["xxhRot"] = [int(x) for x in re.findall(r"rol32\(\s*\w+\s*,\s*(\d+)\s*\)", xx)]
        c["xxhShift"] = [int(x) for x in re.findall(r"h32\s*>>\s*(\d+)", xx)]

        l3 = _src("usual/hashing/lookup3.c")
        c["l3MixRot"] = [int(x) for x in re.findall(r"rot\(\s*\w+\s*,\s*(\d+)\s*\)", _macro_body(l3, "mix"))]
        c["l3FinalRot"] = [int(x) for x in re.findall(r"rot\(\s*\w+\s*,\s*(\d+)\s*\)", _macro_body(l3, "final"))]
        m = re.search(r"=\s*(0x[0-9a-fA-F]+)\s*\+\s*len", l3)
        c["l3Init"] = int(m.group(1), 16) if m else 0
    except Exception as e:          # unreadable source: the tie is broken, say so
        problems.append("extract: %r" % (e,))
    order = ["spookyConst", "spookyNumVars", "spookyBlockSize", "spookyBufSize", "spookyMixRot",
             "spookyEndPartialRot", "spookyShortMixRot", "spookyShortEndRot", "sipRotByVar", "sipInit", "sipC",
             "sipD", "sipFinalXor", "xxhPrimes", "xxhRot", "xxhShift", "l3MixRot", "l3FinalRot", "l3Init"]

    def lean(v):
        if isinstance(v, list):
            return "[" + ", ".join(lean(x) for x in v) + "]"
        return str(v)

    def typ(v):
        if isinstance(v, list) and v and isinstance(v[0], list):
            return "List (List Nat)"
        return "List Nat" if isinstance(v, list) else "Nat"
    txt = ("/-! GENERATED on every run by checks/C16.py from usual/hashing/{spooky,siphash,xxhash,lookup3}.c\n"
           "(working tree): rotation amounts in source order, primes, initialisation constants, sizes.\n"
           "Do not edit. -/\nnamespace Usual.Gen.C16Consts\n\n")
    for k in order:
        v = c.get(k, 0)
        t = "List (List Nat)" if k == "sipRotByVar" else ("Nat" if not isinstance(v, list) else "List Nat")
        txt += "def %s : %s := %s\n" % (k, t, lean(v))
    txt += "\nend Usual.Gen.C16Consts\n"
    vf.write_if_changed(GEN_CONSTS, txt)
    ck.cov["constants_extracted"] = sum(len(v) if isinstance(v, list) else 1 for v in c.values())
    if problems:
        ck.broken += problems
        ck.proof_ok = False
    return c


# ------------------------------------------------------------------------- build
def build(ck):
    ck.forbid_scan()
    extract_crc_tab(ck)
    extract_consts(ck)
    # T-tie: siphash/lookup3 round macros + crc32 re-translated (Gen/C16T.lean), Bridge/C16T.lean re-checked
    ck.build_proofs(PROP_MODULES + c2lean.ttie(ck, vf, PID), driver="drv_c16")
    hdir = os.path.join(vf.HARNESS, PID)
    # /repo's configuration (x86: WORDS_UNALIGNED_ACCESS_OK) makes spooky.c read uint64_t
    # through unaligned pointers on purpose; only that object is built without the UBSan
    # alignment check, everything else keeps the full sanitizer set.
    ua = ck.cc(os.path.join(ck.bdir, "spooky_ua.o"), ["repo:usual/hashing/spooky.c"],
               flags=["-c", "-fno-sanitize=alignment"])
    h = ck.cc(os.path.join(ck.bdir, "h"),
              [os.path.join(hdir, "h.c"), os.path.join(hdir, "spooky_noua.c"),
               os.path.join(hdir, "memhash_narrow.c"), ua] +
              ["repo:usual/hashing/%s.c" % s for s in HASH_SRCS])
    return [h], [ck.driver_path("drv_c16")]


# --------------------------------------------------------------------- generators
CONTENT_KINDS = ["random", "zero", "ff", "incr", "incr128", "onebit", "alt55aa", "lowentropy"]


def content(rng, kind, n):
    if kind == "random":
        return bytes(rng.next() >> 11 & 0xff for _ in range(n)) if n <= 2048 else \
            b"".join((rng.next()).to_bytes(8, "little") for _ in range(n // 8 + 1))[:n]
    if kind == "zero":
        return bytes(n)
    if kind == "ff":
        return b"\xff" * n
    if kind == "incr":
        return bytes(i & 0xff for i in range(n))
    if kind == "incr128":
        return bytes((i + 128) & 0xff for i in range(n))
    if kind == "onebit":
        b = bytearray(n)
        if n:
            b[rng.below(n)] = 1 << rng.below(8)
        return bytes(b)
    if kind == "alt55aa":
        return bytes(0x55 if i % 2 == 0 else 0xAA for i in range(n))
    if kind == "lowentropy":
        return bytes(rng.choice((0x00, 0x01, 0x80, 0xff)) for _ in range(n))
    raise ValueError(kind)


SPECIAL64 = [0, 1, (1 << 64) - 1, 1 << 63, 0xdeadbeefdeadbeef, 0x0706050403020100, 0x0f0e0d0c0b0a0908,
             0xffffffff, 1 << 32]
SPECIAL32 = [0, 1, 0xffffffff, 0x80000000, 0xdeadbeef, 0x9E3779B1]


def key64(rng):
    return rng.choice(SPECIAL64) if rng.chance(1, 6) else rng.next()


def key32(rng):
    return rng.choice(SPECIAL32) if rng.chance(1, 6) else rng.next() & 0xffffffff


def keyed_ops(rng, n):
    return ["crc %x" % key32(rng),
            "crcinc %d %x" % (rng.below(n + 1), 0 if rng.chance(1, 2) else key32(rng)),
            "sip %x %x" % (key64(rng), key64(rng)),
            "spooky %x %x" % (key64(rng), key64(rng)),
            "xxh %x" % key32(rng),
            "mem %x" % key32(rng),
            "mem32 %x" % key32(rng)]


def gen_case(rng, n, kind, nkeys):
    """one buffer + nkeys keyed evaluations of every function.  The first key set is measured,
    then `touch` makes the harness call all other entry points of the library (memhash,
    memhash_string, siphash24_secure, every hash with other arguments), then the same key set is
    measured again and the remaining key sets follow: purity includes independence of what
    was called before."""
    data = content(rng, kind, n)
    first = keyed_ops(rng, n)
    ops = ["data " + vf.hexs(data), "l3"] + first + ["touch", "l3"] + first
    for _ in range(nkeys - 1):
        ops += keyed_ops(rng, n)
        if rng.chance(1, 4):
            ops.append("touch")
    return ops


def lengths(ck, thorough):
    if thorough:
        return list(range(0, 1101)) + [2047, 2048, 2049, 4095, 4096, 4097, 8191, 8192, 8193,
                                       65535, 65536, 65537]
    return list(range(0, 301)) + [383, 384, 385, 1023, 1024, 4095, 4096, 65537]


# published vectors (tests, not proofs): (ops, expected output lines)
def golden():
    g = []
    g.append((["data 313233343536373839", "crc 0"], ["ok 9", "cbf43926"]))             # CRC-32 check value
    fs = b"Four score and seven years ago"                                               # lookup3.c driver5
    g.append((["data " + fs.hex(), "l3"], ["ok 30", "ce7226e617770551"]))
    g.append((["data -", "l3"], ["ok 0", "deadbeefdeadbeef"]))
    sip = ["726fdb47dd0e0e31", "74f839c593dc67fd", "0d6c8009d9a94f5a", "85676696d7fb7e2d",      # SipHash paper /
           "cf2794e0277187b7", "18765564cd99a68d", "cbc9466e58fee3ce", "ab0200f58b01d137",      # reference vectors
           "93f5f5799a932462", "9e0082df0ba9e4b0", "7a5dbbc594ddb9f3", "f4b32f46226bada7",
           "751e8fbc860ee5fb", "14ea5627c0843d90", "f723ca908e7af2ee", "a129ca6149be45e5"]
    for n, v in enumerate(sip):
        g.append((["data " + vf.hexs(bytes(range(n))), "sip 0706050403020100 f0e0d0c0b0a0908"],
                  ["ok %d" % n, v]))
    g.append((["data -", "xxh 0"], ["ok 0", "02cc5d05"]))                                # XXH32 known values
    g.append((["data 61", "xxh 0"], ["ok 1", "550d7456"]))
    g.append((["data 616263", "xxh 0"], ["ok 3", "32d153ff"]))
    nb = b"Nobody inspects the spammish repetition"
    g.append((["data " + nb.hex(), "xxh 0"], ["ok 39", "e2293b2f"]))
    spooky32 = [0x6bf50919, 0x70de1d26, 0xa2b37298, 0x35bc5fbf, 0x8223b279, 0x5bcb315e, 0x53fe88a1,   # SpookyV2
                0xf9f1a233, 0xee193982, 0x54f86f29, 0xc8772d36, 0x9ed60886, 0x5f23d1da, 0x1ed9f474,   # TestResults
                0xf2ef0c89, 0x83ec01f9, 0xf274736c, 0x7e9ac0df, 0xc7aed250, 0xb1015811, 0xe23470f5,   # buf[i]=i+128
                0x48ac20c4, 0xe2ab3cd5, 0x608f8363, 0xd0639e68, 0xc4e8e7ab, 0x863c7c5b, 0x4ea63579,   # Hash32(buf,i,0)
                0x99ae8622, 0x170c658b, 0x149ba493, 0x027bca7c, 0xe5cfc8b6, 0xce01d9d7, 0x11103330,
                0x5d1f5ed4, 0xca720ecb, 0xef408aec, 0x733b90ec, 0x855737a6, 0x9856c65f, 0x647411f7,
                0x50777c74, 0xf0f1a8b7, 0x9d7e55a5, 0xc68dd371, 0xfc1af2cc, 0x75728d0a, 0x390e5fdc,
                0xf389b84c, 0xfb0ccf23, 0xc95bad0e, 0x5b1cb85a, 0x6bdae14f, 0x6deb4626, 0x93047034,
                0x6f3266c6, 0xf529c3bd, 0x396322e7, 0x3777d042, 0x1cd6a5a2, 0x197b402e, 0xc28d0d2b,
                0x09c1afb4]
    for n, v in enumerate(spooky32):
        # Hash32(msg, n, seed) = low 32 bits of hash1 with hash1 = hash2 = seed; memhash_seed
        # uses hash2 = 0, which coincides for seed 0
        g.append((["data " + vf.hexs(bytes((i + 128) & 0xff for i in range(n))), "mem 0"],
                  ["ok %d" % n, "%08x" % v]))
    return g


# --------------------------------------------------------------------- comparison
def par_compare(ck, hcmd, dcmd, cases, label, chunk=24, workers=None):
    """compare many cases, chunks in parallel; failing chunks are re-run through
    ck.compare_cases (shrinks, classifies, records)"""
    workers = workers or min(16, os.cpu_count() or 4)
    chs = list(vf.chunks(cases, chunk))

    def one(ch):
        lines, owner = [], []
        for ci, c in enumerate(ch):
            lines.append("#case")
            owner.append((ci, None))
            for l in c:
                lines.append(l)
                owner.append((ci, l))
        cl, ml, _ = ck.both(hcmd, dcmd, "\n".join(lines) + "\n", 1800)
        d = ck.first_diff(cl, ml)
        return d, len(lines), (owner[min(d[0], len(owner) - 1)] if d else None)

    # submit the most expensive chunks first, but *report* failures smallest-first so that the
    # replay is the smallest failing buffer of the run
    order = sorted(range(len(chs)), key=lambda i: -sum(len(c[0]) for c in chs[i]))
    res = [None] * len(chs)
    with cf.ThreadPoolExecutor(max_workers=workers) as ex:
        futs = {i: ex.submit(one, chs[i]) for i in order}
        for i, f in futs.items():
            res[i] = f.result()
    nfail = 0
    for ch, (d, nlines, where) in zip(chs, res):
        if d is None:
            ck.cov["op_lines"] = ck.cov.get("op_lines", 0) + nlines
            ck.cov["cases"] = ck.cov.get("cases", 0) + len(ch)
            for c in ch:
                if not c[0].startswith("data "):        # the malformed-protocol corpus case
                    ck.cov["protocol_robustness_lines"] = ck.cov.get("protocol_robustness_lines", 0) + len(c)
                    continue
                dkey = hashlib.blake2b(c[0].encode(), digest_size=12).hexdigest()
                touched = 0
                for op in c[1:]:
                    k = op.split(" ")[0]
                    if k == "touch":
                        ck.cov["touch_ops"] = ck.cov.get("touch_ops", 0) + 1
                        touched = 1
                        continue
                    ck.count(1)
                    ck.distinct((dkey, op, touched))
                    ck.cov["after_touch"] = ck.cov.get("after_touch", 0) + touched
                    ck.cov["by_function"][k] = ck.cov["by_function"].get(k, 0) + 1
            continue
        if nfail >= 2:
            continue
        nfail += 1
        ci, opline = where
        case = ch[ci]
        # ops are independent given the buffer: the minimal case is [data, failing op]
        k = None
        cands = [[case[0], opline], [case[0], "touch", opline]] if opline and opline != case[0] else []
        for cand in cands + [list(case)]:
            k = ck.fails(hcmd, dcmd, cand)
            if k is not None:
                break
        if k is None:
            # depends on what earlier cases of the chunk did in the same process
            ck.compare_cases(hcmd, dcmd, ch[:ci + 1], label=label, max_failures=1)
            continue
        ck.count(1)
        cl, ml, err = ck.both(hcmd, dcmd, "#case\n" + "\n".join(cand) + "\n", 300)
        ck.report(k, {"label": label, "ops": cand, "impl": cl[-6:], "model": ml[-6:],
                      "stderr": vf.san_summary(err)})
    return nfail


def run(ck):
    hcmd, dcmd = build(ck)
    ck.level = "proof"
    ck.cov["by_function"] = {}
    ck.cov["trusted_base"] = [
        "Lean 4.33 kernel; axioms propext, Quot.sound, Classical.choice only",
        "regeneration of crc_tab[] and of the rotation/prime/init constants of spooky.c, siphash.c, xxhash.c, "
        "lookup3.c by regexes in checks/C16.py (crc_table_ok and *_constants_ok are re-proved on them)",
        "models lean/Usual/C16/{Crc32,Lookup3,SipHash,Spooky,XXHash,MemHash}.lean are hand transcriptions of the C "
        "files, tied to the code by the differential run; they are PROVED equal to specifications written from the "
        "publications (SipHashPaper, Lookup3Pub, XXH32Spec, SpookyV2 — these import nothing from the models); "
        "that those specifications render the publications faithfully is by reading (pinned by published vectors)",
        "harness/C16/h.c (placements, guard pages, ASan poisoning, comparison) and the from-the-publication "
        "references in harness/C16/refs.h; gcc ASan/UBSan instrumentation",
        "published test vectors typed into checks/C16.py:golden() and Props/C16.lean (tests)"]
    ck.cov["rule"] = (
        "for every length in the tier's set (quick: 0..300 + 383..385,1023,1024,4095,4096,65537; thorough: "
        "0..1100 + 2047..2049,4095..4097,8191..8193,65535..65537) several buffers (random + rotating structured kinds: zero, ff, incr, "
        "incr128, onebit, alt55aa, lowentropy); per buffer one l3 op and, per key set, one crc/crcinc/sip/"
        "spooky/xxh/mem/mem32 op with random or boundary keys (quick 3 buffers x 4 key sets, thorough 8 buffers x 16 key sets per length; 2 x 2 above 4096 bytes). "
        "evaluations = hash op lines compared (model vs implementation); each is executed by the harness at "
        "32 placements (start offsets 0..15 from a left PROT_NONE page, end offsets 0..15 from a right one, "
        "slack poisoned + refilled with garbage) and compared with an independent reference. "
        "In every case the first key set is measured, then a `touch` op makes the harness call memhash, "
        "memhash_string, siphash24_secure and every hash with other arguments, then the same ops are measured "
        "again (more touches are interleaved at random): values must not depend on the call history. "
        "distinct_nontrivial = distinct (buffer, op line, before/after first touch) triples; all are non-trivial (each reaches a hash "
        "evaluation; bad-op lines are not generated); length 0 is kept as a boundary class")
    ck.assumptions += [
        "little-endian 64-bit host: the byte order clauses (lookup3/xxhash/spooky read host-endian words) and "
        "a genuine 32-bit build cannot be made here; the XXH32 branch of memhash_seed is exercised by compiling "
        "memhash.c a second time with sizeof forced to 4 (harness/C16/memhash_narrow.c, op mem32)",
        "spooky.c is compiled as /repo configures it (direct unaligned uint64_t reads, UBSan alignment check "
        "off for that object only) and a second time as a strict-alignment host would (memcpy variant)",
        "'equals the published algorithm' is proved for all five against Lean specifications written from the "
        "publications in their own notation (index form, rotation tables, constants from the papers); the "
        "specifications themselves are trusted as renderings of the publications (published vectors are tests)"]
    ck.cov["partial"] = [
        "C-side purity and boundedness (no read outside [data,data+len), independence of address/alignment/"
        "surroundings/call history) are observed by the guard-page/ASan run at 32 placements with interleaved "
        "touch ops, not proved; left-edge ASan poisoning is exact only for 8-aligned starts (L0/L8 and the "
        "matching R placements)",
        "the models' statement structure (which variable is combined with which, which prime multiplies where) is "
        "a hand transcription of the C text tied to it by the differential run; what is regenerated from the "
        "sources and proved equal to the specifications' tables on every run are the constants (crc_tab, rotation "
        "amounts, primes, init constants, sizes)",
        "cross-endian clause not exercisable on this host"]

    stats = os.path.join(ck.bdir, "ncalls.%d" % os.getpid())
    if os.path.exists(stats):
        os.remove(stats)
    os.environ["C16_STATS"] = stats

    # harness self-test: reads outside a placed buffer must be fatal
    rc, out, err = ck.run(hcmd + ["--selftest"], timeout=120)
    ck.cov["harness_selftest"] = (out or "").strip()
    if rc != 0:
        ck.broken.append("harness self-test: an out-of-bounds read was not fatal: " + (out or "") + err[-200:])
        ck.proof_ok = False
    rc, out, _ = ck.run(hcmd + ["--info"], timeout=60)
    ck.cov["harness_info"] = (out or "").strip()

    # published vectors first (tests)
    ngold = 0
    for ops, want in golden():
        cl, ml, err = ck.both(hcmd, dcmd, "#case\n" + "\n".join(ops) + "\n", 120)
        ngold += 1
        if cl[1:] != want or ml[1:] != want:
            kind = "obs" if cl[1:] != want else "int"
            ck.report(kind, {"label": "published-vector", "ops": ops, "impl": cl, "model": ml,
                             "expected": want, "stderr": vf.san_summary(err)})
            if kind == "int":
                ck.broken.append("model disagrees with a published vector: " + " / ".join(ops)[:120])
    ck.cov["published_vectors_checked"] = ngold

    rng = vf.SplitMix(ck.seed * 1000003 + 16)
    par_compare(ck, hcmd, dcmd, vf.corpus_cases(PID), "corpus", chunk=4)

    # a theorem / the table tie no longer checks, or only the model disagrees with a published
    # vector, and no concrete failing input of the implementation is known yet: search harder
    have_obs = any(v["kind"] == "obs" for v in ck.violations)
    intensify = ((not ck.proof_ok) or bool(ck.violations)) and not have_obs
    thorough = (not ck.quick()) or intensify
    nbuf = 8 if thorough else 3
    nkeys = 16 if thorough else 4
    cases = []
    for i, n in enumerate(lengths(ck, thorough)):
        kinds = ["random"] + [CONTENT_KINDS[1 + (i * (nbuf - 1) + j) % (len(CONTENT_KINDS) - 1)]
                              for j in range(nbuf - 1)]
        big = n > 4096
        for kind in kinds[:2] if big else kinds:
            cases.append(gen_case(rng, n, kind, 2 if big else nkeys))
    for c in (cases[13 * nbuf], cases[len(cases) // 3], cases[len(cases) // 2 + 1]):
        ck.sample([l if len(l) < 160 else l[:150] + "…(%d chars)" % len(l) for l in c[:8]])
    par_compare(ck, hcmd, dcmd, cases, "lengths")

    try:
        calls = sum(int(x) for x in open(stats).read().split())
        os.remove(stats)
    except (OSError, ValueError):
        calls = 0
    ck.cov["hash_calls_at_guarded_placements"] = calls
    ck.cov["lengths_covered"] = len(lengths(ck, thorough))
    ck.cov["traces_validated_against_impl"] = ck.cov["evaluations"]
    if not ck.quick():
        ck.leanchecker(PROP_MODULES)


def replay(ck, path):
    return vf.generic_replay(ck, path, *build(ck))
