"""C20 — compat getaddrinfo_a (usual/netdb.c, threaded path) completes every request exactly
once under any schedule.

Theorems: lean/UsualProofs/Props/C20.lean about the transition system lean/Usual/C20/Gaia.lean
(all interleavings, by an inductive invariant).  Tie = TRACE VALIDATION: harness/C20/h.c links the
working tree's netdb.c, compiled against a derived config.h (HAVE_GETADDRINFO_A removed,
HAVE_PTHREAD defined), with --wrap'ed pthread/getaddrinfo/malloc/free that log events and inject
randomised yields; drv_c20 replays every trace through the model's executable step function
(`Usual.C20.stepFn`, proved sound for `Step`) and the property monitors.  A ThreadSanitizer build
runs the same scenarios (finds races, does not prove their absence).  The pinned test
test/test_netdb.c is also built against the forced-compat configuration and run."""
import os
import re
import subprocess
import concurrent.futures as cf
import vf

PID = "C20"
PROP_MODULES = ["UsualProofs.Props.C20"]
WRAPS = ["pthread_mutex_lock", "pthread_mutex_unlock", "pthread_cond_wait", "pthread_cond_signal",
         "pthread_create", "pthread_kill", "getaddrinfo", "malloc", "free"]
NHOST = 34
HOSTCH = "0123456789abcdefghijklmnopqrstuvwxyz"
NPROC = 16


def derive_config(ck):
    """config.h of the configuration configure produces where libc lacks getaddrinfo_a"""
    src = open(os.path.join(vf.REPO, "usual", "config.h")).read()
    out, n1 = re.subn(r"^#define HAVE_GETADDRINFO_A 1$", "/* #undef HAVE_GETADDRINFO_A (C20: forced compat) */",
                      src, flags=re.M)
    out, n2 = re.subn(r"^/\* #undef HAVE_PTHREAD \*/$", "#define HAVE_PTHREAD 1", out, flags=re.M)
    if "#define HAVE_PTHREAD 1" not in out or re.search(r"^#define HAVE_GETADDRINFO_A", out, flags=re.M):
        raise RuntimeError("cannot derive the forced-compat config.h from %s" % vf.REPO)
    d = os.path.join(ck.bdir, "cfg", "usual")
    os.makedirs(d, exist_ok=True)
    vf.write_if_changed(os.path.join(d, "config.h"), out)
    return os.path.join(ck.bdir, "cfg")


def build(ck):
    ck.forbid_scan()
    ck.build_proofs(PROP_MODULES, driver="drv_c20")
    cfg = derive_config(ck)
    wrap = ["-Wl," + ",".join("--wrap=" + w for w in WRAPS)]
    src = [os.path.join(vf.HARNESS, PID, "h.c"), "repo:usual/netdb.c"]
    # the derived config directory must come first on the include path
    inc = ["-I" + cfg, "-I" + vf.REPO]
    h = ck.cc(os.path.join(ck.bdir, "h"), src, flags=inc + wrap, libs=["-lpthread"], include_repo=False)
    ht = ck.cc(os.path.join(ck.bdir, "h_tsan"), src, san=False, include_repo=False,
               flags=inc + ["-O1", "-fsanitize=thread", "-fno-omit-frame-pointer", "-DC20_TSAN"] + wrap,
               libs=["-lpthread"])
    # the pinned test of the module, against the forced-compat build
    tn = os.path.join(ck.bdir, "tn_main.c")
    vf.write_if_changed(tn, '#include "test_common.h"\n'
                        'struct testgroup_t groups[] = { { "netdb/", netdb_tests }, END_OF_GROUPS };\n'
                        'const char *tdata(const char *fn){ return fn; }\n'
                        'int main(int argc, const char *argv[]) { return tinytest_main(argc, argv, groups); }\n')
    t = ck.cc(os.path.join(ck.bdir, "tn"), [tn, "repo:test/test_netdb.c", "repo:test/tinytest.c", "repo:usual/netdb.c"],
              flags=inc + ["-I" + os.path.join(vf.REPO, "test")], libs=["-lpthread"], include_repo=False)
    return h, ht, t, ck.driver_path("drv_c20")


# ------------------------------------------------------------------ scenarios
def gen_batch(rng, t, big):
    mode = "W" if rng.chance(1, 5) else "N"
    sev = rng.choice("n0STTSBBAA")
    r = rng.below(10)
    if r < 3:
        n = rng.choice([1, 2, 3])
    elif r < 5:
        n = rng.choice([15, 16]) if big else rng.choice([4, 5])
    else:
        n = 1 + rng.below(16 if big else 6)
    hosts = "".join(HOSTCH[rng.below(NHOST)] for _ in range(n))
    b = "%d%s%s%d:%s" % (t, mode, sev, rng.below(2), hosts)
    if rng.chance(1, 2):
        # initialisation of the caller's struct gaicb outside the API fields
        b += "~" + rng.choice("zfacdee")
    if mode == "N" and sev in "TA" and rng.chance(1, 3):
        # chained look-up: the callback itself submits a follow-up GAI_NOWAIT batch
        b += "+" + rng.choice("n0TT") + "".join(HOSTCH[rng.below(NHOST)] for _ in range(1 + rng.below(4)))
    return b


def gen_scn(rng, idx):
    nthr = 1 + rng.below(4)
    pert = rng.choice([0, 1, 1, 2, 2, 3])
    big = rng.chance(1, 3)
    nb = nthr + rng.below(2 * nthr + 1)
    per = {t: 0 for t in range(1, nthr + 1)}
    bs = []
    for t in range(1, nthr + 1):        # every thread submits at least once
        bs.append(gen_batch(rng, t, big))
        per[t] += 1
    while len(bs) < nb:
        t = 1 + rng.below(nthr)
        if per[t] >= 6:
            break
        bs.append(gen_batch(rng, t, big))
        per[t] += 1
    # interleave order of the list does not matter across threads (each thread keeps its order)
    return "scn %d %d %s" % (rng.next() % 1000000007, pert, " ".join(bs))


def gen_stream(rng):
    """long streaming scenario: hundreds of same-size batches per thread, 2-4 in flight"""
    nthr = 1 + rng.below(2)
    toks = []
    for t in range(1, nthr + 1):
        n = rng.choice([1, 1, 2, 3])
        sev = rng.choice("AATSB0")
        hosts = "".join(HOSTCH[rng.below(NHOST)] for _ in range(n))
        toks.append("w%d=%d" % (t, 2 + rng.below(3)))
        toks.append("%dN%s0:%s%s*%d" % (t, sev, hosts, rng.choice(["", "", "~z", "~a", "~c", "~e"]), 120 + rng.below(200)))
    return "scn %d %d %s" % (rng.next() % 1000000007, rng.choice([0, 0, 1]), " ".join(toks))


def is_stream(line):
    return "*" in line


def batches_of(line):
    return [b for b in line.split()[3:] if not b.startswith("w")]


def bsize(b):
    return len(re.split(r"[~+*]", b)[0]) - 5


def scn_shape(line):
    bs = batches_of(line)
    return (len({b[0] for b in bs}), tuple(sorted((b[1], b[2], bsize(b), b.partition("+")[2][:1], b.partition("*")[2]) for b in bs)))


def nontrivial(line):
    bs = batches_of(line)
    return any(b[1] == "N" and bsize(b) >= 2 for b in bs)


# ------------------------------------------------------------------ running
def split_traces(text):
    """[(scenario line, [trace lines])]"""
    out, cur = [], None
    for l in text.split("\n"):
        if l.startswith("trace "):
            cur = (l[6:], [])
            out.append(cur)
        elif l == "end":
            cur = None
        elif cur is not None and l:
            cur[1].append(l)
    return out


def run_chunk(args):
    hbin, drv, lines, env, tmo = args
    e = dict(os.environ)
    e.update(env)
    try:
        p = subprocess.run([hbin], input=("\n".join(lines) + "\n").encode(), stdout=subprocess.PIPE,
                           stderr=subprocess.PIPE, env=e, timeout=tmo)
        out, err = p.stdout.decode(errors="replace"), p.stderr.decode(errors="replace")
    except subprocess.TimeoutExpired as ex:
        out = (ex.stdout or b"").decode(errors="replace")
        err = "HARNESS-TIMEOUT"
    d = subprocess.run([drv], input=out.encode(), stdout=subprocess.PIPE, stderr=subprocess.PIPE)
    verdicts = [l for l in d.stdout.decode(errors="replace").split("\n") if l]
    return split_traces(out), verdicts, err


def run_scenarios(ck, hbin, drv, lines, env, label, stats, tsan=False):
    """returns list of failures (scenario, verdict, trace, stderr excerpt).  A first slice of the
    scenarios is run alone: when it already yields several rejected traces the rest is skipped
    (a broken implementation makes most scenarios hang for their full deadline)."""
    first = lines[:96]
    fails = run_scenarios1(ck, hbin, drv, first, env, label, stats, tsan)
    if len([f for f in fails if kind_of(f[1]) == 'obs']) >= 6 or len(lines) <= len(first):
        if len(lines) > len(first):
            stats["skipped_after_early_failures"] = len(lines) - len(first)
        return fails
    return fails + run_scenarios1(ck, hbin, drv, lines[len(first):], env, label, stats, tsan)


def run_scenarios1(ck, hbin, drv, lines, env, label, stats, tsan=False):
    if not lines:
        return []
    n = max(1, min(NPROC, len(lines) // 4 or 1))
    chunks = [lines[i::n] for i in range(n)]
    fails = []
    with cf.ThreadPoolExecutor(max_workers=n) as ex:
        for ch, (traces, verdicts, err) in zip(chunks, ex.map(run_chunk, [(hbin, drv, c, env, 60 + 20 * len(c)) for c in chunks])):
            races = err.count("WARNING: ThreadSanitizer") if tsan else 0
            stats["tsan_reports"] = stats.get("tsan_reports", 0) + races
            for i, scn in enumerate(ch):
                tr = traces[i] if i < len(traces) else (scn, ["<no output>"])
                v = verdicts[i] if i < len(verdicts) else "reject obs 0 harness produced no trace (%s)" % vf.san_summary(err)
                stats["traces"] = stats.get("traces", 0) + 1
                stats["events"] = stats.get("events", 0) + len(tr[1])
                if v.startswith("ok "):
                    m = re.match(r"ok steps=(\d+) events=(\d+) spurious=(\d+)", v)
                    stats["model_steps"] = stats.get("model_steps", 0) + int(m.group(1))
                    stats["spurious_wakeups_assumed"] = stats.get("spurious_wakeups_assumed", 0) + int(m.group(3))
                    stats["accepted"] = stats.get("accepted", 0) + 1
                else:
                    fails.append((scn, v, tr[1], err_excerpt(err)))
            if tsan and races:
                fails.append((ch[0], "reject obs 0 ThreadSanitizer report", [], err_excerpt(err)))
    return fails


def err_excerpt(err):
    keep = [l for l in err.split("\n") if re.search(r"ERROR: |WARNING: ThreadSanitizer|SUMMARY|runtime error|#[0-3] ", l)]
    return [re.sub(r"0x[0-9a-f]+", "0x..", l.strip())[:160] for l in keep[:14]]


def kind_of(verdict):
    """'obs': a property monitor failed (concrete violation); 'int': only the model could not
    follow the trace (tie broken, property not shown violated)"""
    m = re.match(r"reject (obs|int) ", verdict)
    return m.group(1) if m else "obs"


def classify(verdict):
    m = re.match(r"reject (?:obs |int )?\d+ (.*)", verdict)
    msg = m.group(1) if m else verdict
    msg = re.sub(r"\d+", "#", msg)
    return kind_of(verdict) + ":" + msg[:80]


def shrink_scn(ck, hbin, drv, scn, env, cls, tries=3):
    """drop batches / shorten batches while the same class of rejection is still observed"""
    def fails(line):
        for _ in range(tries):
            tr, vs, err = run_chunk((hbin, drv, [line], env, 60))
            if vs and not vs[0].startswith("ok ") and classify(vs[0]) == cls:
                return (vs[0], tr[0][1] if tr else [], err_excerpt(err))
        return None
    w = scn.split()
    head, bs = w[:3], w[3:]
    best = None
    changed = True
    budget = 40
    if "TIMEOUT" in cls or "hard-timeout" in cls or "timed out" in cls:      # every attempt costs the full deadline
        budget, tries = 10, 1
    while changed and budget > 0:
        changed = False
        for i in range(len(bs)):
            cand = bs[:i] + bs[i + 1:]
            if not cand:
                continue
            budget -= 1
            r = fails(" ".join(head + cand))
            if r:
                bs, best, changed = cand, r, True
                break
        if changed:
            continue
        for i, b in enumerate(bs):
            if b.startswith("w"):
                continue
            if "*" in b:
                base, _, c = b.partition("*")
                if int(c) <= 1:
                    continue
                nb = base + ("*%d" % (int(c) // 2) if int(c) // 2 > 1 else "")
            elif "+" in b:
                nb = b.partition("+")[0]
            elif bsize(b) > 1:
                nb = b[:5] + b[5:5 + max(1, bsize(b) // 2)] + b[5 + bsize(b):]
            else:
                continue
            if True:
                budget -= 1
                r = fails(" ".join(head + bs[:i] + [nb] + bs[i + 1:]))
                if r:
                    bs = bs[:i] + [nb] + bs[i + 1:]
                    best, changed = r, True
                    break
    return " ".join(head + bs), best


def confirmed(ck, hbin, drv, env, f, stats):
    """A rejected trace that shows a model mismatch is evidence by itself.  A TIMEOUT is only a
    symptom (the machine is shared and may be overloaded): it counts when the same scenario
    fails to complete again in at least one of 4 serial re-runs."""
    if "TIMEOUT" not in f[1] and "hard-timeout" not in f[1]:
        return True
    for _ in range(4):
        tr, vs, err = run_chunk((hbin, drv, [f[0]], env, 60))
        if vs and not vs[0].startswith("ok "):
            return True
    stats["unconfirmed_timeouts"] = stats.get("unconfirmed_timeouts", 0) + 1
    return False


def report_fail(ck, hbin, drv, env, label, f, shrink=True):
    scn, verdict, trace, err = f
    cls = classify(verdict)
    small, best = (scn, None)
    if shrink:
        small, best = shrink_scn(ck, hbin, drv, scn, env, cls)
    if best:
        verdict, trace, err = best
    ck.report(kind_of(verdict), {"label": label, "ops": [small], "class": cls, "verdict": verdict,
                      "trace": trace[-400:], "stderr": err,
                      "note": "schedules are not deterministic: --replay re-validates the recorded trace and re-runs "
                              "the scenario 20 times"})


def run(ck):
    hbin, htsan, tn, drv = build(ck)
    ck.level = "proof"
    ck.cov["trusted_base"] = [
        "Lean 4.33.0 kernel; axioms of the property theorems: subset of propext, Quot.sound, Classical.choice (audited this run)",
        "the model lean/Usual/C20/Gaia.lean (statement-level transition system of the repaired netdb.c) is tied to the C code by "
        "TRACE VALIDATION over SAMPLED schedules only: harness/C20/h.c (--wrap'ed pthread_mutex_lock/unlock, pthread_cond_wait/"
        "signal, pthread_create, pthread_kill, getaddrinfo, malloc, free; seeded yields/delays) + drv_c20 "
        "(Usual.C20.feed; every model step through stepFn, proved sound w.r.t. Step)",
        "derived config.h (HAVE_GETADDRINFO_A removed, HAVE_PTHREAD defined), first on the include path",
        "C memory model, the kernel's signal delivery and the real scheduler are outside Lean: ThreadSanitizer/AddressSanitizer "
        "runs find races, they do not prove absence; gai_error() is a plain load by API design (as in glibc)",
        "event log order = real order only for events taken under the same lock or by the same thread; snapshots are "
        "taken atomically w.r.t. the log (CAS on the log index)",
    ]
    ck.assumptions += ["numeric hosts only (AI_NUMERICHOST), libc getaddrinfo is deterministic for them (oracle = direct call in the same process)",
                       "pthread mutex/cond semantics (mutual exclusion, atomic release-and-wait, wake-ups possibly spurious)",
                       "each gaicb is submitted once (fresh request objects per batch)",
                       "allocation failure paths (EAI_MEMORY) are property C10's, not exercised here"]
    ck.cov["monitored_frame_conditions"] = [
        "the calling thread's signal mask (non-trivial: SIGUSR2, SIGRTMIN+14 and the signos of its blocked+sigtimedwait "
        "batches blocked) is identical before and after EVERY getaddrinfo_a call, including the first GAI_NOWAIT call of each "
        "fresh process (the one that creates the resolver context) and calls made from callbacks; not part of the Lean model"]
    ck.cov["monitored_frame_conditions"].append(
        "the result of a request depends on its API fields ar_name/ar_service/ar_request alone: the caller's struct gaicb is "
        "handed in zeroed, filled with 0xff / 0xa5 bytes, as a value copy of an in-flight request (_state == EAI_INPROGRESS), "
        "as a value copy of a completed request, or as the very objects of an earlier completed batch (resubmission); "
        "not part of the Lean model (items are fresh per batch there)")
    ck.cov["rule"] = ("a case = one scenario (1..4 submitter threads started together, 1..6 getaddrinfo_a calls each, batches of "
                      "1..16 numeric-host requests, GAI_WAIT/GAI_NOWAIT, sevp NULL/SIGEV_NONE/SIGEV_SIGNAL (handler, or blocked + sigtimedwait)/SIGEV_THREAD, callbacks that submit a follow-up batch, "
                      "perturbation level 0..3) executed once under a seeded perturbed schedule in a fresh process and its event "
                      "trace validated against the model; distinct = distinct scenario shape (threads, multiset of (mode, sev, size)); "
                      "non-trivial = contains a GAI_NOWAIT batch of >= 2 items")
    env = {"ASAN_OPTIONS": "detect_leaks=0:abort_on_error=0", "UBSAN_OPTIONS": "print_stacktrace=1",
           "TSAN_OPTIONS": "halt_on_error=0:report_signal_unsafe=0:exitcode=66"}
    stats, tstats = {}, {}

    # 0. the module's own test against the forced-compat build
    rc, so, se = ck.run([tn, "--no-fork"], timeout=60, env=env)
    ck.cov["forced_compat_test_netdb"] = "pass" if rc == 0 and "1 tests ok" in (so or "") else "FAIL rc=%s %s" % (rc, vf.san_summary(se))
    if rc != 0:
        ck.report("obs", {"label": "test_netdb(forced compat)", "ops": ["test/test_netdb.c"], "class": "test_netdb",
                          "impl": (so or "")[-400:], "stderr": vf.san_summary(se)})

    rng = vf.SplitMix(ck.seed)
    corpus = [c[0] for c in vf.corpus_cases(PID) if c]
    nq = ck.scale(1500, 30000)
    if not ck.proof_ok:
        nq *= 3
    scns = corpus + [gen_scn(rng, i) for i in range(nq)]
    # long streaming scenarios (hundreds of same-size batches, 2-4 in flight per thread): freed
    # requests get recycled by the allocator many times over
    streams = [gen_stream(rng) for _ in range(ck.scale(40, 600))]
    shapes = set()
    for s in scns:
        if nontrivial(s):
            shapes.add(scn_shape(s))
            ck.distinct(scn_shape(s))
    ck.count(len(scns))
    hist = {"threads": {}, "mode_sev": {}, "size": {}}
    hist["streaming_scenarios"] = len(streams)
    hist["streaming_batches"] = sum(int(b.partition("*")[2]) for s in streams for b in batches_of(s))
    for s in scns:
        bs = batches_of(s)
        k = str(len({b[0] for b in bs}))
        hist["threads"][k] = hist["threads"].get(k, 0) + 1
        for b in bs:
            hist["mode_sev"][b[1:3]] = hist["mode_sev"].get(b[1:3], 0) + 1
            hist["size"][str(bsize(b))] = hist["size"].get(str(bsize(b)), 0) + 1
            if "+" in b:
                hist["chained"] = hist.get("chained", 0) + 1
    ck.cov["scenario_histogram"] = hist

    # 1. ASan/UBSan build, trace validation
    ck.count(len(streams))
    for s in streams:
        ck.distinct(scn_shape(s))
    fails = run_scenarios(ck, hbin, drv, scns + streams, env, "asan", stats)
    seen = set()
    nrej = 0

    def handle(fs, hb, label, st, shrink, limit):
        """report one failure per class (at most `limit`), confirming time-outs first"""
        n = 0
        for f in fs:
            c = classify(f[1])
            if c in seen:
                n += 1
                continue
            if len(seen) >= limit:
                n += 1
                continue
            if not confirmed(ck, hb, drv, env, f, st):
                continue
            n += 1
            seen.add(c)
            report_fail(ck, hb, drv, env, label, f, shrink=shrink)
        return n
    # concrete violations first, then (at most two classes of) model-only rejections
    fails.sort(key=lambda f: 0 if kind_of(f[1]) == "obs" else 1)
    nrej += handle(fails, hbin, "trace-validation", stats, True, 3)
    if ck.violations and not any(v["kind"] == "obs" for v in ck.violations):
        # the model cannot follow the implementation but every property monitor held: the tie is
        # broken, no violation shown.  Intensify the search for a trace on which a monitor fails.
        extra = [gen_scn(rng, i) for i in range(ck.scale(6000, 30000))]
        ck.count(len(extra))
        f2 = [f for f in run_scenarios1(ck, hbin, drv, extra, env, "asan-intensified", stats) if kind_of(f[1]) == "obs"]
        stats["intensified_scenarios"] = len(extra)
        nrej += handle(f2, hbin, "trace-validation(intensified)", stats, True, len(seen) + 2)
    # 2. TSan build on a share of the scenarios
    nt = ck.scale(300, 5000)
    tscn = scns[:len(corpus)] + scns[len(corpus)::max(1, len(scns) // nt)][:nt]
    tf = []
    if not any(v["kind"] == "obs" for v in ck.violations):
        tf = run_scenarios(ck, htsan, drv, tscn, env, "tsan", tstats, tsan=True)
        tf.sort(key=lambda f: 0 if kind_of(f[1]) == "obs" else 1)
        nrej += handle(tf, htsan, "tsan", tstats, False, len(seen) + 2)
    else:
        tstats["skipped"] = "trace validation already failed on the ASan build"
    ck.count(len(tscn))

    ck.cov["traces_validated_against_impl"] = stats.get("accepted", 0) + tstats.get("accepted", 0)
    ck.cov["trace_stats_asan"] = stats
    ck.cov["trace_stats_tsan"] = tstats
    ck.cov["tsan_reports"] = tstats.get("tsan_reports", 0)
    ck.cov["rejected_traces"] = nrej
    rc = {}
    for f in fails + tf:
        rc[classify(f[1])] = rc.get(classify(f[1]), 0) + 1
    ck.cov["reject_classes"] = rc
    ck.cov["level_note"] = ("level 'proof' refers to the theorems about the model (all interleavings); the connection to "
                            "netdb.c is trace validation over %d sampled schedules in this run, not a proof about the C code"
                            % ck.cov["traces_validated_against_impl"])
    for s in scns[len(corpus):len(corpus) + 3]:
        ck.sample(s)
    if scns:
        tr, vs, _ = run_chunk((hbin, drv, [scns[-1]], env, 60))
        if tr:
            ck.sample({"scenario": tr[0][0], "verdict": vs[0] if vs else "?", "trace_head": tr[0][1][14:44]})


def replay(ck, path):
    import json
    hbin, htsan, tn, drv = build(ck)
    r = json.load(open(path))
    env = {"ASAN_OPTIONS": "detect_leaks=0:abort_on_error=0", "TSAN_OPTIONS": "halt_on_error=0:exitcode=66"}
    ops = r.get("ops")
    if not ops:
        vf.log(json.dumps(r, indent=1)[:2000])
        return 1
    rc = 0
    if r.get("trace"):
        text = "trace %s\n%s\nend\n" % (ops[0], "\n".join(r["trace"]))
        d = subprocess.run([drv], input=text.encode(), stdout=subprocess.PIPE)
        v = d.stdout.decode().strip()
        vf.log("recorded trace (%d events): %s" % (len(r["trace"]), v))
        m = re.match(r"reject (?:obs |int )?(\d+)", v)
        if m:
            i = int(m.group(1)) + NHOST
            for l in r["trace"][max(0, i - 6):i + 1]:
                vf.log("      " + l)
    hb = htsan if r.get("label") == "tsan" else hbin
    bad = 0
    for k in range(20):
        tr, vs, err = run_chunk((hb, drv, [ops[0]], env, 60))
        ok = vs and vs[0].startswith("ok ") and "ThreadSanitizer" not in err
        if not ok:
            bad += 1
            if bad == 1:
                vf.log("re-run %d: %s" % (k, vs[0] if vs else "no verdict"))
                for l in err_excerpt(err)[:8]:
                    vf.log("      " + l)
    vf.log("re-ran the scenario 20 times: %d rejected" % bad)
    if bad:
        vf.log(f"VIOLATION property={ck.pid} replay={path}")
        rc = 1
    else:
        vf.log("replay: all re-runs are accepted by the model now")
    return rc
