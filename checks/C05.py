"""C05 — cryptographic primitives equal their standards for every input and chunking.

Proof side : lean/UsualProofs/Props/C05.lean (chunking/reset/HMAC/sponge/ChaCha theorems about
             the models in lean/Usual/C05), known-answer tests in UsualProofs/C05/Vectors.lean.
Tie        : (T) every constant table of the models is regenerated from the C sources on each
             run (extract/c05_tables.py -> lean/Usual/Gen/C05Tables.lean) and compared with the
             pinned copy; (C) model driver drv_c05 and harness/C05/h.c (three builds: default,
             -DKECCAK_SMALL, -DKECCAK_32BIT) run on the same op lines; third opinion: Python
             hashlib/hmac + an independent ChaCha20 transcription (checks/c05_ref.py).
"""
import os
import sys
import hashlib
from concurrent.futures import ThreadPoolExecutor

import vf

sys.path.insert(0, os.path.join(vf.VERIF, "extract"))
import c05_tables  # noqa: E402
import c05_keccak  # noqa: E402
import c2lean  # noqa: E402

PID = "C05"
PROP_MODULES = ["UsualProofs.Props.C05", "UsualProofs.Bridge.C05"]
EXTRA_MODULES = ["UsualProofs.C05.Vectors"]
GEN_REL = "lean/Usual/Gen/C05Tables.lean"
GEN_KECCAK_REL = "lean/Usual/Gen/C05Keccak.lean"
MAX_REPORTED = 4

CRYPTO_SRCS = ["repo:usual/crypto/md5.c", "repo:usual/crypto/sha1.c", "repo:usual/crypto/sha256.c",
               "repo:usual/crypto/sha512.c", "repo:usual/crypto/sha3.c", "repo:usual/crypto/hmac.c",
               "repo:usual/crypto/digest.c", "repo:usual/crypto/chacha.c",
               "repo:usual/crypto/keccak_prng.c", "repo:usual/cxalloc.c"]

# name -> (block length, result length)
DIGESTS = {
    "md5": (64, 16), "sha1": (64, 20), "sha224": (64, 28), "sha256": (64, 32),
    "sha384": (128, 48), "sha512": (128, 64),
    "sha3_224": (144, 28), "sha3_256": (136, 32), "sha3_384": (104, 48), "sha3_512": (72, 64),
    "shake128": (168, 32), "shake256": (136, 64),
}
KECCAK_DIGESTS = [n for n in DIGESTS if n.startswith("sha3_") or n.startswith("shake")]
MD_DIGESTS = [n for n in DIGESTS if n not in KECCAK_DIGESTS]


# ------------------------------------------------------------------------------- build
OWN_LEAN = ("lean/Usual/C05/", "lean/Usual/Gen/C05", "lean/Usual/Common.lean", "lean/UsualProofs/C05/",
            "lean/UsualProofs/Props/C05.lean", "lean/Driver/C05.lean")


def build(ck):
    # forbidden constructs: a hit inside the import closure of the C05 modules voids the proofs;
    # hits in other properties' files (somebody else's work in progress) are recorded, not charged
    nb = len(ck.broken)
    ok_before = ck.proof_ok
    hits = ck.forbid_scan()
    own = [h for h in hits if h.startswith(OWN_LEAN)]
    if hits and not own:
        del ck.broken[nb:]
        ck.proof_ok = ok_before
    ck.cov["forbidden_scan_hits"] = len(own)
    ck.cov["forbidden_scan_hits_outside_C05"] = len(hits) - len(own)
    # T-tie: regenerate the constant tables from the working tree
    try:
        text = c05_tables.generate(vf.REPO)
        vf.write_if_changed(os.path.join(vf.VERIF, GEN_REL), text)
        pinned = vf.git_committed(GEN_REL)
        ck.cov["tables_regenerated"] = True
        ck.cov["tables_equal_pinned"] = (pinned is None) or (pinned == text)
        if pinned is not None and pinned != text:
            ck.proof_ok = False
            ck.broken.append("constant tables extracted from usual/crypto differ from the pinned "
                             "copy of " + GEN_REL + " (a round constant / initial value / "
                             "parameter in the C source changed)")
    except Exception as e:  # extraction refused: the tie is broken
        ck.proof_ok = False
        ck.cov["tables_regenerated"] = False
        ck.broken.append("table extraction failed: %r" % (e,))
    # T-tie: translate the unrolled keccak_f bodies (default 64-bit and KECCAK_32BIT) and the 32-bit lane
    # interleaving networks statement by statement; UsualProofs/Bridge/C05.lean + C05/KeccakPaths.lean
    # re-prove on this text that they are the FIPS 202 round / permutation
    try:
        ktext = c05_keccak.generate(vf.REPO)
        vf.write_if_changed(os.path.join(vf.VERIF, GEN_KECCAK_REL), ktext)
        kpinned = vf.git_committed(GEN_KECCAK_REL)
        ck.cov["keccak_translation_regenerated"] = True
        ck.cov["keccak_translation_equal_pinned"] = (kpinned is None) or (kpinned == ktext)
        # informational only: a changed translation is judged by the bridge proofs that are re-run on it
        # (a change that keeps every round the FIPS 202 round is harmless, any other one fails them)
    except Exception as e:
        ck.proof_ok = False
        ck.cov["keccak_translation_regenerated"] = False
        ck.broken.append("translation of the unrolled keccak_f code refused: %r" % (e,))
    # T-tie for chacha_mix: lean/Usual/Gen/C05T.lean re-translated, UsualProofs/Bridge/C05T.lean re-checked
    ck.build_proofs(PROP_MODULES + c2lean.ttie(ck, vf, PID), extra_modules=EXTRA_MODULES, driver="drv_c05")
    hsrc = os.path.join(vf.HARNESS, PID, "h.c")

    def comp(args):
        name, flags = args
        return ck.cc(os.path.join(ck.bdir, name), [hsrc] + CRYPTO_SRCS, flags=flags)
    def comp_fast(_):
        # the long-message family hashes gigabytes: same harness, optimised and without sanitizers
        return ck.cc(os.path.join(ck.bdir, "hlong"), [hsrc] + CRYPTO_SRCS, san=False)
    with ThreadPoolExecutor(4) as ex:
        fl = ex.submit(comp_fast, None)
        hs = list(ex.map(comp, [("h64", []), ("hsmall", ["-DKECCAK_SMALL"]), ("h32", ["-DKECCAK_32BIT"])]))
        ck.c05_hlong = [fl.result()]
    return [[h] for h in hs], [ck.driver_path("drv_c05")]


# ------------------------------------------------------------------------------- generators
def qk(ck):
    """quick volume? (a run whose proofs / table tie are broken searches at thorough volume)"""
    return ck.quick() and not getattr(ck, "c05_intense", False)


def sc(ck, q, t):
    return q if qk(ck) else t


def split_at(msg, cuts):
    cuts = sorted(set(c for c in cuts if 0 <= c <= len(msg)))
    out, prev = [], 0
    for c in cuts + [len(msg)]:
        out.append(msg[prev:c])
        prev = c
    return out


def digest_case(name, chunks, prefix="d"):
    whole = b"".join(chunks)
    ops = ["d.new " + name]
    ops += ["d.upd " + vf.hexs(c) for c in chunks]
    ops += ["d.fin", "d.reset", "d.upd " + vf.hexs(whole), "d.fin"]
    return ops


def gen_digest_cases(ck, rng, names):
    """every message length 0..2B+17 (quick) / 0..2B+40 (thorough) with: all 2-splits for short
    messages, splits at the block edges, random k-splits; thorough adds the lengths up to 2100
    whose residue is near a block or padding edge.  Each case re-hashes after reset."""
    cases = []
    for name in names:
        B, _ = DIGESTS[name]
        lb = 16 if B == 128 else 8                 # length-field bytes (irrelevant but harmless for sha3)
        N = sc(ck, 2 * B + 17, 2 * B + 40)
        nrand = sc(ck, 3, 64)
        small = sc(ck, 20, 48)
        for L in range(0, N + 1):
            msg = rng.bytes(L)
            cutsets = []
            if L <= small:
                cutsets += [[i] for i in range(0, L + 1)]
            for b in (0, 1, B - 1, B, B + 1, 2 * B - 1, 2 * B, 2 * B + 1, L - 1, L):
                if 0 <= b <= L:
                    cutsets.append([b])
            cutsets.append([B - 1, B + 1])
            cutsets.append([1, B, 2 * B])
            for _ in range(nrand):
                k = 1 + rng.below(6)
                cutsets.append([rng.below(L + 1) for _ in range(k)])
            seen = set()
            for cs in cutsets:
                key = tuple(sorted(set(c for c in cs if 0 <= c <= L)))
                if key in seen:
                    continue
                seen.add(key)
                cases.append(digest_case(name, split_at(msg, cs)))
        if not qk(ck):
            edge = {0, 1, 2, B - 1, B - 2, (B - lb) % B, (B - lb - 1) % B, (B - lb + 1) % B}
            for L in range(N + 1, 2101):
                if L % B not in edge and L % 7 != 3:
                    continue
                msg = rng.bytes(L)
                for cs in ([], [B * (1 + rng.below(L // B))], [rng.below(L + 1) for _ in range(3)],
                           [rng.below(L + 1) for _ in range(8)]):
                    chunks = split_at(msg, cs)
                    cases.append(["d.new " + name] + ["d.upd " + vf.hexs(c) for c in chunks] + ["d.fin"])
    return cases


def gen_history_cases(ck, rng, names):
    """contexts with an arbitrary past: reset right after new, after some updates without a
    final, after a final, twice in a row, ...; then a complete message whose digest / MAC is compared.
    This is the quantifier of md_reset_fresh / hmac_reset_fresh ("whatever it held before")."""
    cases = []
    for name in names:
        B, _ = DIGESTS[name]

        def ln():
            return rng.choice([0, 1, 3, B - 1, B, B + 1, rng.below(2 * B + 9), rng.below(24)])
        for pre in ("h", "d"):
            for i in range(sc(ck, 36, 400)):
                if pre == "h":
                    kl = rng.choice([0, 1, 4, B - 1, B, B + 1, 2 * B + 1, rng.below(2 * B + 2)])
                    ops = ["h.new %s %s" % (name, vf.hexs(rng.bytes(kl)))]
                else:
                    ops = ["d.new " + name]
                done = False
                # the fixed shapes first, then random histories
                shape = i % 9
                if shape == 0:
                    hist = ["reset"]
                elif shape == 1:
                    hist = ["upd", "reset"]
                elif shape == 2:
                    hist = ["upd", "upd", "reset", "reset"]
                elif shape == 3:
                    hist = ["upd", "fin", "reset", "reset"]
                elif shape == 4:
                    hist = ["reset", "upd", "fin", "reset", "upd", "reset"]
                else:
                    hist = [rng.choice(["upd", "upd", "reset", "reset", "fin"]) for _ in range(1 + rng.below(8))]
                for h in hist:
                    if h == "upd":
                        if done:
                            ops.append(pre + ".reset")
                            done = False
                        ops.append(pre + ".upd " + vf.hexs(rng.bytes(ln())))
                    elif h == "fin":
                        if done:
                            ops.append(pre + ".reset")
                        ops.append(pre + ".fin")
                        done = True
                    else:
                        ops.append(pre + ".reset")
                        done = False
                # now a complete message on whatever the context has become
                if done or rng.chance(1, 2):
                    ops.append(pre + ".reset")
                    fresh = True
                else:
                    fresh = hist[-1] == "reset"
                msg = rng.bytes(ln())
                ops += [pre + ".upd " + vf.hexs(c) for c in split_at(msg, [rng.below(len(msg) + 1) for _ in range(rng.below(3))])]
                ops.append(pre + ".fin")
                # and once more after the ordinary final -> reset
                ops += [pre + ".reset", pre + ".upd " + vf.hexs(msg), pre + ".fin"]
                cases.append(ops)
    return cases


def gen_hmac_cases(ck, rng, names):
    cases = []
    for name in names:
        B, R = DIGESTS[name]
        reps = sc(ck, 1, 4)
        for kl in range(0, 2 * B + 2):
            for _ in range(reps):
                key = rng.bytes(kl)
                ml = rng.choice([0, 1, B - 1, B, B + 1, rng.below(2 * B + 20), rng.below(40)])
                msg = rng.bytes(ml)
                chunks = split_at(msg, [rng.below(ml + 1) for _ in range(rng.below(4))])
                ops = ["h.new %s %s" % (name, vf.hexs(key))]
                ops += ["h.upd " + vf.hexs(c) for c in chunks]
                ops += ["h.fin", "h.reset", "h.upd " + vf.hexs(msg), "h.fin"]
                cases.append(ops)
    return cases


def gen_shake_cases(ck, rng):
    cases = []
    for name in KECCAK_DIGESTS:
        r, _ = DIGESTS[name]
        n = sc(ck, 40, 700)
        for i in range(n):
            ml = rng.choice([0, 1, r - 1, r, r + 1, 2 * r - 1, 2 * r, rng.below(2 * r + 17), rng.below(30)])
            msg = rng.bytes(ml)
            ops = ["sh.new " + name]
            ops += ["sh.upd " + vf.hexs(c) for c in split_at(msg, [rng.below(ml + 1) for _ in range(rng.below(4))])]
            if rng.chance(1, 6):
                ops.append("sh.fin")
            for _ in range(1 + rng.below(5)):
                ops.append("sh.ext %d" % rng.choice([0, 1, 7, 8, 9, r - 1, r, r + 1, 2 * r, 2 * r + 3,
                                                     rng.below(2 * r + 9), rng.below(20)]))
            if rng.chance(1, 8):
                ops.append("sh.fin")
            if rng.chance(1, 5):       # reset (sha3_*_reset) of a used context, then a complete hash
                m2 = rng.bytes(rng.below(2 * r + 5))
                ops += ["sh.new " + rng.choice([name, name, rng.choice(KECCAK_DIGESTS)]), "sh.upd " + vf.hexs(m2), "sh.fin",
                        "sh.ext %d" % rng.below(r + 9)]
            if rng.chance(1, 10):      # absorbing after extraction: the code allows it, the model mirrors it
                ops.append("sh.upd " + vf.hexs(rng.bytes(rng.below(20))))
                ops.append("sh.ext %d" % rng.below(40))
            cases.append(ops)
    return cases


def gen_sponge_cases(ck, rng):
    cases = []
    caps = list(range(8, 1600, 8))
    # rejected capacities
    cases.append(["k.init 0", "k.abs 00", "k.init 7", "k.init 1600", "k.init 1593", "k.init 12", "k.init 1592", "k.dump"])
    per_cap = sc(ck, 3, 40)
    for cap in caps:
        r = (1600 - cap) // 8

        def ln():
            return rng.choice([0, 1, 2, 7, 8, 9, 15, 16, 17, r - 1, r, r + 1, 2 * r, 2 * r + 1,
                               rng.below(2 * r + 10), rng.below(r + 1), rng.below(12)])
        # structured: sponge hash with every op kind once
        m = rng.bytes(ln())
        cases.append(["k.init %d" % cap, "k.abs " + vf.hexs(m), "k.pad 06", "k.sqz %d" % r, "k.sqz 1", "k.dump"])
        for i in range(per_cap):
            ops = ["k.init %d" % cap]
            for _ in range(2 + rng.below(9)):
                x = rng.below(100)
                if x < 28:
                    ops.append("k.abs " + vf.hexs(rng.bytes(ln())))
                elif x < 46:
                    ops.append("k.sqz %d" % ln())
                elif x < 56:
                    ops.append("k.sqx " + vf.hexs(rng.bytes(ln())))
                elif x < 68:
                    ops.append("k.enc " + vf.hexs(rng.bytes(ln())))
                elif x < 80:
                    ops.append("k.dec " + vf.hexs(rng.bytes(ln())))
                elif x < 88:
                    ops.append("k.pad " + vf.hexs(rng.bytes(rng.choice([0, 1, 1, 1, 2, 3, r, r + 1, rng.below(r + 3)]))))
                elif x < 90:
                    ops.append("k.init %d" % rng.choice([cap, cap, rng.choice(caps)]))   # re-initialised mid-history
                elif x < 92:
                    ops.append("k.rew")
                elif x < 96:
                    ops.append("k.fgt")
                else:
                    ops.append("k.dump")
            ops.append("k.dump")
            cases.append(ops)
    # prng
    for i in range(sc(ck, 60, 1500)):
        cap = rng.choice([256, 512, 576, 1024, 8, 1592, rng.choice(caps)])
        ops = ["p.init %d" % cap]
        if rng.chance(1, 10):
            ops = ["p.init %d" % rng.choice([0, 4, 1600, 13])] + ops
        for _ in range(1 + rng.below(7)):
            if rng.chance(1, 2):
                ops.append("p.add " + vf.hexs(rng.bytes(rng.choice([0, 1, 8, 31, 32, rng.below(250)]))))
            else:
                ops.append("p.ext %d" % rng.choice([0, 1, 8, 16, 32, rng.below(300)]))
        cases.append(ops)
    return cases


def gen_duplex_boundary_cases(ck, rng):
    """encrypt / decrypt whose total length is exactly k x rate, in 2- and 3-splits, IMMEDIATELY followed by
    an operation that relies on `pos < rbytes` (1-byte pad, rewind, forget) and then by squeezing, so that a
    context left at the end of a block in a different internal form shows in the squeezed bytes; for every
    capacity.  (Internal-only differences - pos, state dump - stay behind ` ## `.)"""
    cases = []
    for cap in range(8, 1600, 8):
        r = (1600 - cap) // 8
        for op in ("k.enc", "k.dec", "k.sqx", "k.abs"):
            for k in (1, 2):
                total = k * r
                if qk(ck):
                    cuts = [[], [1], [r - 1] if r > 1 else [], [rng.below(total + 1)], [rng.below(total + 1), rng.below(total + 1)]]
                    if k == 2:
                        cuts += [[r], [r + 1]]
                    if op in ("k.sqx", "k.abs"):
                        cuts = cuts[:2]
                else:
                    cuts = [[]] + [[i] for i in range(0, total + 1, 1 if k == 1 else 3)] + \
                           [[rng.below(total + 1), rng.below(total + 1)] for _ in range(4)]
                    if op in ("k.sqx", "k.abs"):
                        cuts = cuts[:1] + cuts[1::7]
                seen = set()
                for cs in cuts:
                    key = tuple(sorted(set(cs)))
                    if key in seen:
                        continue
                    seen.add(key)
                    data = rng.bytes(total)
                    pre = ["k.init %d" % cap]
                    if rng.chance(1, 2):
                        pre.append("k.abs " + vf.hexs(rng.bytes(r)))      # a full block first: state is not all-zero
                    body = [op + " " + vf.hexs(c) for c in split_at(data, cs) if len(c) or not cs]
                    follow = rng.choice([
                        ["k.pad %02x" % rng.choice([1, 6, 0x1f]), "k.sqz %d" % rng.choice([1, 16, r, r + 1])],
                        ["k.pad %02x" % rng.choice([1, 6, 0x1f]), "k.sqz %d" % rng.choice([16, 32])],
                        ["k.rew", "k.sqz %d" % rng.choice([8, r, r + 3])],
                        ["k.fgt", "k.sqz %d" % rng.choice([8, r + 1]), "k.sqz 3"],
                        ["k.rew", "k.enc " + vf.hexs(rng.bytes(9)), "k.pad 01", "k.sqz 16"],
                        ["k.fgt", "k.abs " + vf.hexs(rng.bytes(5)), "k.pad 01", "k.sqz 16"],
                    ]) if not qk(ck) else None
                    if follow is None:
                        follow = [["k.pad 01", "k.sqz 16"], ["k.rew", "k.sqz %d" % (r + 1)], ["k.fgt", "k.sqz %d" % (r + 1)],
                                  ["k.pad 1f", "k.sqz %d" % r]][len(cases) % 4]
                    cases.append(pre + body + follow + ["k.dump"])
    return cases


LONG_ORACLE = "search/monitor oracle: hashlib (OpenSSL); not part of any theorem"


def gen_long_cases(ck, rng):
    """messages whose BIT count crosses 2^32 (2^29 bytes and more): one op per case, the harness feeds a
    periodic message in 1 MiB updates; compared with hashlib (search oracle), not with the Lean model
    (a list-based model cannot hash 512 MiB in the time budget)"""
    P29, P30 = 1 << 29, 1 << 30
    cases = []
    for name in ("md5", "sha1", "sha224", "sha256"):
        for L in (P29 - 1, P29, P29 + 1, P29 + 55 + 64 * rng.below(100), P30 + 5):
            cases.append(["d.long %s %d %d" % (name, L, rng.below(256))])
    for name in ("sha384", "sha512"):
        for L in (P29, P29 + 111 + 128 * rng.below(100), P30 + 5):
            cases.append(["d.long %s %d %d" % (name, L, rng.below(256))])
    cases.append(["d.long sha3_256 %d %d" % (P29 + 1 + rng.below(1000), rng.below(256))])
    # short control lengths through the same op (so that the op itself is exercised in every run of it)
    for name in ("md5", "sha1", "sha256", "sha512", "sha3_256"):
        cases.append(["d.long %s %d %d" % (name, 3 * 1048576 + 77, rng.below(256))])
    return cases


def gen_perm_cases(ck, rng):
    states = [bytes(200), bytes([0xff]) * 200, bytes(range(200)), bytes([0xaa, 0x55] * 100)]
    nbits = sc(ck, 64, 1600)
    step = 1600 // nbits
    for i in range(0, 1600, step):
        b = bytearray(200)
        b[i // 8] = 1 << (i % 8)
        states.append(bytes(b))
    for lane in range(25):
        b = bytearray(200)
        b[8 * lane:8 * lane + 8] = b"\xff" * 8
        states.append(bytes(b))
    for i in range(sc(ck, 200, 20000)):
        states.append(rng.bytes(200))
    return [["k.perm " + s.hex() for s in ch] for ch in vf.chunks(states, 10)]


def gen_chacha_cases(ck, rng):
    cases = []
    edge = [0, 1, 2, 0xfffffffe, 0xffffffff]
    lens = [0, 1, 2, 10, 30, 40, 63, 64, 65, 127, 128, 129, 191, 192, 193]

    def ln():
        return rng.choice(lens + [rng.below(200), rng.below(20), rng.below(70)])
    n = sc(ck, 500, 12000)
    for i in range(n):
        ops = []
        if rng.chance(1, 5):
            ops.append("c.key128 " + vf.hexs(rng.bytes(16)))
        else:
            ops.append("c.key256 " + vf.hexs(rng.bytes(32)))
        lo = rng.choice(edge) if rng.chance(2, 3) else rng.below(1 << 32)
        hi = rng.choice(edge) if rng.chance(2, 3) else rng.below(1 << 32)
        ops.append("c.nonce %d %d %s" % (lo, hi, vf.hexs(rng.bytes(8))))
        for _ in range(1 + rng.below(7)):
            x = rng.below(100)
            if x < 45:
                ops.append("c.xor " + vf.hexs(rng.bytes(ln())))
            elif x < 90:
                ops.append("c.ks %d" % ln())
            elif x < 96:
                ops.append("c.nonce %d %d null" % (rng.choice(edge), rng.choice(edge)))
            else:
                ops.append("c.key256 " + vf.hexs(rng.bytes(32)))
        cases.append(ops)
    # the F9 shape for every (first, second) split around the block edge
    key, iv = rng.bytes(32), rng.bytes(8)
    for a in (1, 10, 63, 64, 65):
        for b in (1, 30, 64, 100):
            pt = rng.bytes(a + b)
            cases.append(["c.key256 " + key.hex(), "c.nonce 4294967295 4294967295 " + iv.hex(),
                          "c.xor " + vf.hexs(pt[:a]), "c.xor " + vf.hexs(pt[a:]),
                          "c.nonce 4294967295 4294967295 null", "c.xor " + vf.hexs(pt)])
    return cases


def gen_ref_cases(ck, rng):
    """cases for the third opinion (hashlib / independent chacha): known-answer style"""
    cases = []
    # the standards' classic vectors
    abc = b"abc"
    m448 = b"abcdbcdecdefdefgefghfghighijhijkijkljklmklmnlmnomnopnopq"
    m896 = (b"abcdefghbcdefghicdefghijdefghijkefghijklfghijklmghijklmnhijklmno"
            b"ijklmnopjklmnopqklmnopqrlmnopqrsmnopqrstnopqrstu")
    for name in DIGESTS:
        for m in (b"", abc, m448, m896, b"a" * 1000):
            cases.append(digest_case(name, [m]))
    for name in DIGESTS:
        B, _ = DIGESTS[name]
        for L in sorted(set([0, 1, B - 9, B - 8, B - 1, B, B + 1, 2 * B - 17, 2 * B - 16, 2 * B, 2 * B + 17] +
                            [rng.below(3 * B) for _ in range(sc(ck, 6, 60))])):
            if L < 0:
                continue
            msg = rng.bytes(L)
            cases.append(digest_case(name, split_at(msg, [rng.below(L + 1), rng.below(L + 1)])))
        for kl in sorted(set([0, 1, B - 1, B, B + 1, 2 * B + 1] + [rng.below(2 * B + 2) for _ in range(sc(ck, 4, 40))])):
            key = rng.bytes(kl)
            msg = rng.bytes(rng.below(2 * B))
            cases.append(["h.new %s %s" % (name, vf.hexs(key)), "h.upd " + vf.hexs(msg[:5]),
                          "h.upd " + vf.hexs(msg[5:]), "h.fin", "h.reset", "h.upd " + vf.hexs(msg), "h.fin"])
    # RFC 2202 / 4231 case 1
    cases.append(["h.new md5 " + "0b" * 16, "h.upd 4869205468657265", "h.fin"])
    cases.append(["h.new sha1 " + "0b" * 20, "h.upd 4869205468657265", "h.fin"])
    cases.append(["h.new sha256 " + "0b" * 20, "h.upd 4869205468657265", "h.fin"])
    cases.append(["h.new sha512 " + "aa" * 131, "h.upd " + b"Test Using Larger Than Block-Size Key - Hash Key First".hex(), "h.fin"])
    # chacha: zero key vectors and random
    cases.append(["c.key256 " + "00" * 32, "c.nonce 0 0 " + "00" * 8, "c.ks 64", "c.ks 64"])
    cases.append(["c.key256 " + "00" * 31 + "01", "c.nonce 0 0 " + "00" * 8, "c.ks 64"])
    cases.append(["c.key256 " + "00" * 32, "c.nonce 0 0 " + "00" * 7 + "01", "c.ks 64"])
    edge = [0, 1, 0xfffffffe, 0xffffffff]
    for i in range(sc(ck, 60, 1500)):
        ops = ["c.key256 " + rng.bytes(32).hex() if rng.chance(4, 5) else "c.key128 " + rng.bytes(16).hex(),
               "c.nonce %d %d %s" % (rng.choice(edge), rng.choice(edge), rng.bytes(8).hex())]
        for _ in range(1 + rng.below(4)):
            if rng.chance(1, 2):
                ops.append("c.ks %d" % rng.choice([1, 10, 63, 64, 65, 130, rng.below(200)]))
            else:
                ops.append("c.xor " + vf.hexs(rng.bytes(rng.choice([1, 10, 30, 63, 64, 65, rng.below(200)]))))
        cases.append(ops)
    return cases


# ------------------------------------------------------------------------------- running
def par_compare(ck, hcmd, dcmd, cases, label, shard=None, timeout=900):
    """run shards of cases in parallel through harness and driver; failing shards are handed to
    ck.compare_cases (shrinks, classifies, writes the replay)"""
    if not cases:
        return 0
    ncpu = min(16, os.cpu_count() or 4)
    if shard is None:
        shard = max(20, min(2000, (len(cases) + ncpu * 2 - 1) // (ncpu * 2)))
    shards = list(vf.chunks(cases, shard))

    def one(sh):
        lines = []
        for c in sh:
            lines.append("#case")
            lines += c
        cl, ml, _ = ck.both(hcmd, dcmd, "\n".join(lines) + "\n", timeout)
        return len(lines), ck.first_diff(cl, ml)
    with ThreadPoolExecutor(ncpu) as ex:
        res = list(ex.map(one, shards))
    nfail = 0
    for sh, (nl, d) in zip(shards, res):
        if d is None:
            for c in sh:
                ck.distinct(tuple(c))
            ck.count(len(sh))
            ck.cov["op_lines"] = ck.cov.get("op_lines", 0) + nl
        elif len([v for v in ck.violations if v["kind"] == "obs"]) < MAX_REPORTED:
            # shrink + classify + write the replay (a few are enough; the rest is only counted)
            nfail += ck.compare_cases(hcmd, dcmd, sh, label=label, timeout=timeout, max_failures=2)
        else:
            nfail += 1
            ck.count(len(sh))
            ck.cov["failing_shards_not_minimised"] = ck.cov.get("failing_shards_not_minimised", 0) + 1
    hist = ck.cov.setdefault("cases_by_stream", {})
    hist[label] = hist.get(label, 0) + len(cases)
    return nfail


def op_histogram(ck, cases):
    h = ck.cov.setdefault("op_histogram", {})
    nbytes = 0
    for c in cases:
        for l in c:
            w = l.split(" ")
            h[w[0]] = h.get(w[0], 0) + 1
            if len(w) > 1 and w[0] not in ("k.perm",):
                last = w[-1]
                if len(last) > 1 and all(ch in "0123456789abcdef" for ch in last) and not last.isdigit():
                    nbytes += len(last) // 2
    ck.cov["message_bytes"] = ck.cov.get("message_bytes", 0) + nbytes


def run(ck):
    hcmds, dcmd = build(ck)
    h64, hsmall, h32 = hcmds
    ref = [sys.executable, os.path.join(vf.VERIF, "checks", "c05_ref.py")]
    ck.level = "proof"
    ck.cov["trusted_base"] = [
        "Lean 4.33 kernel", "axioms: propext, Quot.sound, Classical.choice",
        "extract/c05_tables.py (regex extraction of constant tables from usual/crypto/*.c)",
        "extract/c05_keccak.py (statement-by-statement translation of the unrolled keccak_f bodies and of the "
        "32-bit xor_lane/extract networks: C expression grammar ^ & | ~ << >> rolN, refuses anything else)",
        "bv_decide (LRAT-checked SAT certificates, one axiom per call, counted in bv_decide_axioms) for the "
        "bit-level facts about the 32-bit interleaving network only (UsualProofs/Bridge/C05.lean); the per-round "
        "and whole-permutation equalities are kernel-only",
        "correspondence harness harness/C05/h.c (3 builds) + generators in checks/C05.py",
        "transcription of RFC 1321 / FIPS 180-4 / FIPS 202 / ChaCha20 round functions into "
        "lean/Usual/C05 (pinned by the standards' vectors in UsualProofs/C05/Vectors.lean)",
        "third opinion only: Python hashlib/hmac (OpenSSL) and checks/c05_ref.py ChaCha20",
        "long-message family (>= 2^29 bytes): " + LONG_ORACLE,
    ]
    ck.cov["partial"] = [
        "compression functions of MD5/SHA-1/SHA-2 and the ChaCha block function equal the standards by transcription "
        "+ known-answer vectors + hashlib cross-check, not by theorem (their constant tables ARE checked against the "
        "standards' definitions: K/H as fractional roots of primes, MD5 T = floor(2^32|sin i|) by a rational "
        "enclosure whose analytic premise - alternating series enclose their limit - is not formalised)",
        "Keccak: the three code paths are proved equal to the FIPS 202 step mappings as transcribed in "
        "Usual/C05/KeccakSpec.lean (keccak_paths_equal); that this transcription is FIPS 202 is pinned by the "
        "rho/pi/RC table checks and the SHA-3 vectors; the KECCAK_SMALL path is a hand-written mirror of its loops, "
        "the two unrolled paths are machine-translated from the C text; the loop skeleton `for (i = 0; i < 24; i += 4)` "
        "is matched textually by the translator, not translated",
        "the sponge bookkeeping of the 32-bit build on interleaved words is covered by keccak32_lane_access + "
        "correspondence, there is no separate state32-level sponge model",
        "no out-of-bounds access: ASan + exact-size buffers in the harness, not a theorem",
        "MD digests: messages of 2^61 bytes or more are outside the theorem (64-bit bit counter in the code)",
    ]
    ck.cov["rule"] = ("every message length 0..N per digest (quick N=2B+17, thorough N up to 2100) x "
                      "{all 2-splits for short messages, splits at 0,1,B-1,B,B+1,2B-1,2B,2B+1, random k-splits}, "
                      "each case also re-hashes the message after reset; HMAC key lengths 0..2B+1; digest and HMAC contexts "
                      "with arbitrary histories (reset after new / after updates without final / after final / twice) "
                      "followed by a complete message; "
                      "all 199 Keccak capacities with random op sequences on three builds; ChaCha counters "
                      "around 2^32-1 and 2^64-1; distinct = distinct op sequence")
    ck.assumptions += ["libc malloc/memcpy", "C compiler (gcc, -O1, ASan+UBSan)",
                       "little-endian host for the harness builds"]
    rng = vf.SplitMix(ck.seed)

    corpus = vf.corpus_cases(PID)
    ck.compare_cases(h64, dcmd, corpus, label="corpus")
    ck.compare_cases(hsmall, dcmd, corpus, label="corpus-small")
    ck.compare_cases(h32, dcmd, corpus, label="corpus-32bit")
    ck.compare_cases(h64, ref, [c for c in corpus if ref_supported(c)], label="corpus-reference")

    ck.c05_intense = not ck.proof_ok
    ck.cov["search_intensified"] = ck.c05_intense

    md = gen_digest_cases(ck, rng, MD_DIGESTS)
    kd = gen_digest_cases(ck, rng, KECCAK_DIGESTS)
    hm_md = gen_hmac_cases(ck, rng, MD_DIGESTS)
    hm_k = gen_hmac_cases(ck, rng, KECCAK_DIGESTS)
    shk = gen_shake_cases(ck, rng)
    hist_md = gen_history_cases(ck, rng, MD_DIGESTS)
    hist_k = gen_history_cases(ck, rng, KECCAK_DIGESTS)
    spg = gen_sponge_cases(ck, rng)
    prm = gen_perm_cases(ck, rng)
    cha = gen_chacha_cases(ck, rng)
    refc = gen_ref_cases(ck, rng)
    for cs in (md, kd, hm_md, hm_k, shk, spg, prm, cha, hist_md, hist_k):
        op_histogram(ck, cs)

    dup = gen_duplex_boundary_cases(ck, rng)
    op_histogram(ck, dup)
    par_compare(ck, h64, dcmd, dup, "sponge-block-boundary-64bit")
    par_compare(ck, hsmall, dcmd, dup, "sponge-block-boundary-small")
    par_compare(ck, h32, dcmd, dup, "sponge-block-boundary-32bit")
    # long messages (bit count >= 2^32), compared with hashlib as search/monitor oracle (not part of a theorem):
    #  * quick tier, ALWAYS: a reduced set - 2^29 + 65 bytes for each Merkle-Damgard digest that has its own
    #    length encoding (MD5, SHA-1, SHA-256, SHA-512; SHA-224/384 share the code) - started here in the
    #    background and collected at the end of the run, so that it overlaps the other streams;
    #  * thorough tier, and quick tier when a C05 bridge / proof / table tie no longer checks: the full set.
    ck.cov["long_message_oracle"] = LONG_ORACLE
    ck.cov["long_message_family_run"] = "full" if not qk(ck) else "reduced (2^29+65 bytes x md5, sha1, sha256, sha512)"
    long_pending = None
    if qk(ck):
        longq = [["d.long %s %d %d" % (name, (1 << 29) + 65, rng.below(256))] for name in ("md5", "sha1", "sha256", "sha512")]
        op_histogram(ck, longq)
        long_pool = ThreadPoolExecutor(len(longq))
        long_pending = [(c, long_pool.submit(ck.both, ck.c05_hlong, ref, "#case\n" + c[0] + "\n", 3000)) for c in longq]
        ck.cov["long_message_bytes"] = sum(int(c[0].split()[2]) for c in longq)
    else:
        longc = gen_long_cases(ck, rng)
        op_histogram(ck, longc)
        par_compare(ck, ck.c05_hlong, ref, longc, "long-messages-reference-hashlib", shard=1, timeout=3000)
        ck.cov["long_message_bytes"] = sum(int(c[0].split()[2]) for c in longc)
    par_compare(ck, h64, dcmd, md, "md-digests")
    par_compare(ck, h64, dcmd, hm_md, "hmac-md")
    par_compare(ck, h64, dcmd, hist_md, "reset-histories-md")
    par_compare(ck, h64, ref, hist_md[::2] + hist_k[::2], "reset-histories-reference-hashlib")
    par_compare(ck, h64, dcmd, cha, "chacha")
    keccak_all = kd + hm_k + hist_k + shk + spg + prm
    par_compare(ck, h64, dcmd, keccak_all, "keccak-64bit")
    # the other two code paths: everything at quick volume; at thorough volume every sponge / prng /
    # permutation case and half of the (much more numerous) digest and HMAC cases
    k_other = keccak_all if qk(ck) else (kd[::2] + hm_k[::2] + hist_k + shk + spg + prm)
    par_compare(ck, hsmall, dcmd, k_other, "keccak-small")
    par_compare(ck, h32, dcmd, k_other, "keccak-32bit")
    par_compare(ck, h64, ref, refc, "reference-hashlib")
    par_compare(ck, hsmall, ref, [c for c in refc if any(k in c[0] for k in ("sha3", "shake"))], "reference-hashlib-small")
    par_compare(ck, h32, ref, [c for c in refc if any(k in c[0] for k in ("sha3", "shake"))], "reference-hashlib-32bit")

    if long_pending is not None:
        for c, fut in long_pending:
            cl, ml, _ = fut.result()
            if ck.first_diff(cl, ml) is None:
                ck.count(1)
                ck.distinct(tuple(c))
                ck.cov["op_lines"] = ck.cov.get("op_lines", 0) + 2
            else:
                ck.compare_cases(ck.c05_hlong, ref, [c], label="long-messages-reference-hashlib", timeout=3000)
        hist = ck.cov.setdefault("cases_by_stream", {})
        hist["long-messages-reference-hashlib"] = hist.get("long-messages-reference-hashlib", 0) + len(long_pending)
    for s in (md[len(md) // 3], hm_md[7], spg[11], cha[3], kd[5]):
        ck.sample(" ; ".join(x if len(x) < 90 else x[:87] + "..." for x in s)[:400])
    if not ck.quick():
        ck.leanchecker(PROP_MODULES)


def ref_supported(case):
    return all(l.split(" ")[0] in ("d.new", "d.upd", "d.fin", "d.reset", "h.new", "h.upd", "h.fin", "h.reset",
                                   "c.key256", "c.key128", "c.nonce", "c.ks", "c.xor") for l in case)


def replay(ck, path):
    hcmds, dcmd = build(ck)
    import json
    r = json.load(open(path))
    label = r.get("label", "")
    h = hcmds[0]
    if "small" in label:
        h = hcmds[1]
    if "32bit" in label:
        h = hcmds[2]
    if "long-messages" in label:
        h = ck.c05_hlong
    d = dcmd
    if "reference" in label:
        d = [sys.executable, os.path.join(vf.VERIF, "checks", "c05_ref.py")]
    return vf.generic_replay(ck, path, h, d)
