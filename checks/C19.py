"""C19 — talloc memory limit is a hard cap whose accounting never drifts.

Theorems: lean/UsualProofs/Props/C19.lean about the same executable model as C01
(lean/Usual/C01/Talloc.lean: TLimit chunk {lmax, lcur}, USE/HAS flags, apply_memlimit,
memlimit_walk, move_memlimit, talloc_set_memlimit).  Tie: the C01 harness and driver on
histories of the memlimit profile: 1-3 nested limited contexts + an unlimited sibling, request
sizes chosen around the remaining headroom, realloc by +-1 across alignment boundaries, steal
in/out, references and promotion, set/clear limit, refusing destructors, injected allocator
failures; after every step the largest admissible allocation under each limited context, a deep
child and the sibling is probed on the real library by bisection (observable) and cur/max of
every TLimit chunk are compared (internal)."""
import os
import vf
import C01 as base

PID = "C19"
PROP_MODULES = ["UsualProofs.Props.C19"]


def build(ck):
    return base.build(ck, PROP_MODULES)


def run(ck):
    hcmd, dcmd = build(ck)
    ck.level = "proof"
    ck.cov["trusted_base"] = base.TRUSTED
    ck.assumptions += base.ASSUME + ["limits below 2^62 (max_size is stored as ssize_t)"]
    ck.cov["rule"] = (
        "case = one history of the memlimit profile of the model-guided generator (setup: top, unlimited sibling, "
        "1-3 nested contexts, optional pre-existing child, limits from {400..20000}; then 1-40 ops: allocations with "
        "sizes adm, adm+1, adm-7, adm+8, adm/2.. around the current largest admissible size, realloc +-1 / to the "
        "8-byte boundary / to the headroom, steal in/out, free, free_children, reference, unlink (promotion), "
        "set/clear limit, refusing destructors, injected allocator failures), with bisection probes of the largest "
        "admissible allocation after every step; distinct = distinct history with at least one mutating call")
    stats = base.Stats()
    base.go(ck, hcmd, dcmd, vf.corpus_cases(PID), "corpus", stats)
    intensify = not ck.proof_ok
    mult = 4 if intensify else 1
    n = ck.scale(8000, 300000) * mult
    done = 0
    part = 0
    while done < n:
        k = min(10000, n - done)
        cases = base.gen_cases(ck, ck.seed * 1000 + part, k, "c19")
        base.go(ck, hcmd, dcmd, cases, "random-memlimit", stats)
        if part == 0:
            for c in cases[:2]:
                ck.sample(c[:24])
        done += k
        part += 1
        if len([v for v in ck.violations if v["kind"] == "obs"]) >= 3:
            break
    ck.cov["op_histogram"] = stats.ops
    ck.cov["histories_with"] = stats.kinds
    ck.cov["outcome_distribution"] = dict(sorted(stats.outcomes.items()))
    ck.cov["probes"] = stats.ops.get("probe", 0)
    ck.cov["partial"] = PARTIAL


PARTIAL = [
    "cur_eq_charge / no_drift / moved_in_charge_released / limit_zero_lifts hold for states reached by every "
    "operation (talloc_disable_null_tracking included) with arguments that are live user objects and keep the holder "
    "graph acyclic (Reach); no ghost-flag hypothesis remains (fuel_suffices, no_stuck proved)",
]


def replay(ck, path):
    hcmd, dcmd = build(ck)
    return vf.generic_replay(ck, path, hcmd, dcmd)
