"""C17 — TLS: policy decides session setup exactly; data intact under any schedule.

Proof: lean/UsualProofs/Props/C17.lean about the model lean/Usual/C17/{Config,Tls}.lean
       (tls_config record + setters + tls_config_equal; tls_ssl_error and the
       handshake/read/write/close wrappers over a scripted SSL object; OpenSSL's version-range
       rules; the policy decision; an abstract duplex channel).
Tie  : correspondence.  harness/C17/h.c runs the real code of the working tree:
       * `hs`  — complete sessions between two non-blocking endpoints over an AF_UNIX socketpair with
                 shrunk socket buffers, both stepped in one process by a seeded scheduler; certificates
                 are made in memory (signed by test/ssl/ca{1,2}_root.key);
       * `inj` — the wrappers called on hand-set connection states with the SSL_* entry points
                 replaced (-Wl,--wrap) by scripted results;
       * `cfg` — setter sequences on two configs, tls_config_equal, field dump.
       The model driver drv_c17 answers the same op lines (name coverage comes from the C08 model).
Level: "other" — the chain/record/version decisions are taken inside OpenSSL and schedules are
       sampled; the theorems are the proved core, the matrix run is the tie.
"""
import json
import os
import re
import shutil
import tempfile
import time
from concurrent.futures import ThreadPoolExecutor

import vf

PID = "C17"
PROP_MODULES = ["UsualProofs.Props.C17"]

TLS_SRCS = ["repo:usual/tls/tls.c", "repo:usual/tls/tls_peer.c", "repo:usual/tls/tls_client.c",
            "repo:usual/tls/tls_server.c", "repo:usual/tls/tls_config.c",
            "repo:usual/tls/tls_conninfo.c", "repo:usual/tls/tls_util.c",
            "repo:usual/tls/tls_ocsp.c", "repo:usual/tls/tls_compat.c", "repo:usual/tls/tls_cert.c",
            "repo:usual/tls/tls_verify.c",
            "repo:usual/string.c", "repo:usual/cxalloc.c", "repo:usual/mbuf.c"]
WRAP = "-Wl,--wrap=SSL_get_error,--wrap=ERR_peek_error,--wrap=SSL_read,--wrap=SSL_write," \
       "--wrap=SSL_shutdown,--wrap=SSL_connect,--wrap=SSL_accept"


def tls_flags():
    """TLS_CPPFLAGS / TLS_LDFLAGS / TLS_LIBS of the configured tree (config.mak)"""
    cpp, ld, libs = [], [], ["-lssl", "-lcrypto"]
    try:
        txt = open(vf.repo_file("config.mak")).read()
        for key, dst in (("TLS_CPPFLAGS", cpp), ("TLS_LDFLAGS", ld), ("TLS_LIBS", None)):
            m = re.search(r"^%s[ \t]*=[ \t]*(.*)$" % key, txt, re.M)
            if m:
                if dst is None:
                    if m.group(1).split():
                        libs = m.group(1).split()
                else:
                    dst += m.group(1).split()
    except OSError:
        pass
    return cpp, ld, libs


def config_h(name, default=None):
    try:
        txt = open(vf.repo_file("usual/config.h")).read()
    except OSError:
        return default
    m = re.search(r'^#define\s+%s\s+(.*)$' % name, txt, re.M)
    return m.group(1).strip() if m else default


def build(ck):
    if os.environ.get("C17_BDIR"):          # lets several scratch trees (mutants) be checked side by side
        ck.bdir = os.environ["C17_BDIR"]
        os.makedirs(ck.bdir, exist_ok=True)
    ck.forbid_scan()
    ck.build_proofs(PROP_MODULES, driver="drv_c17")
    cpp, ld, libs = tls_flags()
    ssldir = vf.repo_file("test/ssl")
    h = ck.cc(os.path.join(ck.bdir, "h"), [os.path.join(vf.HARNESS, PID, "h.c")] + TLS_SRCS,
              flags=list(cpp) + list(ld) + ['-DC17_SSLDIR="%s"' % ssldir, WRAP], libs=libs)
    return h, [ck.driver_path("drv_c17")]


# ---------------------------------------------------------------------- running

# a validity window with time_t -1 (1969-12-31 23:59:59) as notBefore or notAfter: known finding K4
MINUS_ONE = re.compile(r":w-1_|:w-?\d+_-1:")


class Runner:
    """runs harness (own tmpdir + stats file per invocation) and driver on op lines"""

    def __init__(self, ck, h, dcmd):
        self.ck, self.h, self.dcmd = ck, h, dcmd
        self.root = tempfile.mkdtemp(prefix="c17-", dir=ck.bdir)
        self.n = 0
        self.stats = {}
        self.hist = {}

    def hcmd(self):
        self.n += 1
        d = os.path.join(self.root, "t%d" % self.n)
        os.makedirs(d, exist_ok=True)
        return [self.h, d, os.path.join(d, "stats.json")]

    def harness_only(self, lines):
        cmd = self.hcmd()
        rc, out, err = self.ck.run(cmd, input_text="\n".join(lines) + "\n", timeout=600)
        if rc != 0:
            raise RuntimeError("harness failed during probing: rc=%s %s" % (rc, vf.san_summary(err)))
        return out.split("\n")

    def add_stats(self, cmd):
        try:
            st = json.load(open(cmd[2]))
        except (OSError, ValueError):
            return
        for k, v in st.items():
            self.stats[k] = self.stats.get(k, 0) + v

    def tally(self, lines):
        for l in lines:
            if l == "#case":
                continue
            if l.startswith("est="):
                w = l.split()
                k = " ".join(x for x in w if x.split("=")[0] in ("est", "ver", "eof", "close", "cut"))
            elif l.startswith("eq="):
                k = l.split(" ## ")[0]
            elif l.startswith("rv="):
                k = "inj " + l.split(" ## ")[0] + " " + l.split("err=")[-1]
            else:
                k = l[:40]
            self.hist[k] = self.hist.get(k, 0) + 1

    def known_minus_one(self, cases, label):
        """K4: a validity date of exactly time_t -1.  Each such case runs on its own; a difference is reported
        with class validity:time_t-minus-1 so that ONLY the known shape (refused, model established) is routed
        to the known finding -- any other difference on these cases is a violation like everywhere else."""
        ck = self.ck
        nfail = 0
        for c in cases:
            cmd = self.hcmd()
            cl, ml, err = ck.both(cmd, self.dcmd, "#case\n" + "\n".join(c) + "\n", 300)
            self.add_stats(cmd)
            ck.count(1)
            ck.distinct(tuple(c))
            ck.cov["minus_one_date_cases"] = ck.cov.get("minus_one_date_cases", 0) + 1
            if ck.first_diff(cl, ml) is None:
                self.tally(cl)
                continue
            est = lambda ls: 1 if any(l.startswith("est=1") for l in ls) else 0
            if ck.report("obs", {"label": label + ":time_t-1", "class": "validity:time_t-minus-1", "ops": list(c),
                                 "impl": cl[1:], "model": ml[1:], "minus_one_date": True,
                                 "impl_est": est(cl), "model_est": est(ml), "stderr": vf.san_summary(err)}):
                nfail += 1
            else:
                ck.cov["known_K4_hits"] = ck.cov.get("known_K4_hits", 0) + 1
        return nfail

    def par_compare(self, cases, label, chunk=200, workers=8, nontrivial=None):
        ck = self.ck
        t0 = time.time()
        m1 = [c for c in cases if len(c) == 1 and MINUS_ONE.search(c[0])]
        extra_fail = 0
        if m1:
            cases = [c for c in cases if not (len(c) == 1 and MINUS_ONE.search(c[0]))]
            extra_fail = self.known_minus_one(m1, label)
        chunks = list(vf.chunks(cases, chunk))

        def one(ch):
            lines = []
            for c in ch:
                lines.append("#case")
                lines += c
            cmd = self.hcmd()
            cl, ml, _ = ck.both(cmd, self.dcmd, "\n".join(lines) + "\n", 1800)
            return ck.first_diff(cl, ml) is None, cl, cmd
        with ThreadPoolExecutor(workers) as ex:
            res = list(ex.map(one, chunks))
        nfail = 0
        for ch, (ok, cl, cmd) in zip(chunks, res):
            self.add_stats(cmd)
            if ok:
                ck.count(len(ch))
                ck.cov["op_lines"] = ck.cov.get("op_lines", 0) + sum(len(c) + 1 for c in ch)
                for c in ch:
                    if nontrivial is None or nontrivial(c):
                        ck.distinct(tuple(c))
                self.tally(cl)
            elif len(ck.violations) < 6:
                before = len(ck.violations) + len(ck.known_hits)
                n1 = ck.compare_cases(self.hcmd(), self.dcmd, ch, label=label, nontrivial=nontrivial,
                                      max_failures=2)
                nfail += n1
                if n1 == 0 and len(ck.violations) + len(ck.known_hits) == before:
                    # the chunk differed once and agrees on the re-run: non-deterministic behaviour of
                    # the implementation (or of the harness) -- keep the first output and say so
                    d = ck.first_diff(cl, [])
                    ck.cov["unreproducible_chunks"] = ck.cov.get("unreproducible_chunks", 0) + 1
                    ck.report("int", {"label": label + ":unreproducible", "ops": [],
                                      "first_run_impl_tail": cl[-6:]},
                              what="a chunk of cases differed from the model once and agreed when re-run")
                    nfail += 1
            else:
                nfail += 1
                ck.count(len(ch))
                ck.cov["failing_chunks_not_minimised"] = ck.cov.get("failing_chunks_not_minimised", 0) + 1
        ck.cov.setdefault("phase_s", {})[label] = round(time.time() - t0, 2)
        ck.cov.setdefault("phase_cases", {})[label] = len(cases) + len(m1)
        return nfail + extra_fail

    def close(self):
        shutil.rmtree(self.root, ignore_errors=True)


# ---------------------------------------------------------------------- generators

def hx(b):
    if isinstance(b, str):
        b = b.encode()
    return vf.hexs(b)


CN = "server.com"
SANS_STD = ["d" + hx("server.com"), "d" + hx("*.wild.com"), "i7f000001"]
NAMESETS = {
    "std": (CN, SANS_STD),
    "cnonly": (CN, []),
    "evilfirst": (CN, ["d" + hx(b"server.com\0.evil.org"), "d" + hx("server.com")]),
    "goodfirst": (CN, ["d" + hx("server.com"), "d" + hx(b"x\0y")]),
    "nocn": (None, ["d" + hx("server.com")]),
}
HOSTS = {
    "match": "server.com", "case": "SERVER.Com", "nomatch": "other.com", "wild": "a.wild.com",
    "wilddeep": "a.b.wild.com", "wildbare": "wild.com", "ip": "127.0.0.1", "ipno": "127.0.0.2",
    "none": None,
}
CORE_HOSTS = ["match", "nomatch", "wild"]


NOW = (int(time.time()) // 86400) * 86400          # the model's "now": start of today (UTC)
DAY = 86400
WIN = {"v": (NOW - 30 * DAY, NOW + 365 * DAY), "e": (NOW - 60 * DAY, NOW - 30 * DAY),
       "f": (NOW + 30 * DAY, NOW + 60 * DAY)}
NB_SET = [-631152000, -2, 0, 1, NOW - DAY]           # 1950-01-01, 1969-12-31 23:59:58, epoch, epoch+1, yesterday
NA_SET = [-315619200, -86400, 2147483647, 2147483648, 2840140800, 253402300799]
#          1960-01-01, 1969-12-31, 2038-01-19 03:14:07 / :08, 2060-01-01, 9999-12-31 23:59:59 (GeneralizedTime)


def certdesc(ca, t, kind, cn, sans):
    if t in WIN:                                    # every generated certificate carries an explicit window
        t = "w%d_%d" % WIN[t]
    return "%d:%s:%s:%s:%s" % (ca, t, kind, "~" if cn is None else hx(cn), ",".join(sans) if sans else "-")


def server_cert(kind, cca, names="std"):
    cn, sans = NAMESETS[names]
    other = 3 - cca
    ca, t, k = {"trusted": (cca, "v", "s"), "untrusted": (other, "v", "s"), "expired": (cca, "e", "s"),
                "future": (cca, "f", "s"), "selfsigned": (0, "v", "s"), "purpose": (cca, "v", "c"),
                "untrusted-expired": (other, "e", "s")}[kind]
    return certdesc(ca, t, k, cn, sans)


def client_cert(kind, sca):
    if kind == "none":
        return "none"
    other = 3 - sca
    ca, t, k = {"trusted": (sca, "v", "c"), "untrusted": (other, "v", "c"), "expired": (sca, "e", "c"),
                "future": (sca, "f", "c"), "selfsigned": (0, "v", "c"), "purpose": (sca, "v", "s")}[kind]
    return certdesc(ca, t, k, "client", [])


class Env:
    def __init__(self, perm, pton):
        self.perm = perm      # {0: mask, 1: mask}
        self.pton = pton


def random_A(rng):
    """a first configuration for the reconfigure family (everything may differ from the one that counts)"""
    masks = list(range(0, 32, 2))
    return {"acca": 1 + rng.below(2), "asca": 1 + rng.below(2), "asvc": rng.below(3), "avc": rng.below(2),
            "avn": rng.below(2), "avt": rng.below(2), "asvt": rng.below(2),
            "acp": rng.choice([24, 24, 8, 16, rng.choice(masks)]), "asp": rng.choice([24, 24, 8, 16, rng.choice(masks)]),
            "aciph": rng.below(3), "adepth": rng.choice([-1, 0, 1, 6]), "akp": rng.below(2)}


def hs_line(env, rng, **kw):
    """one `hs` op line; unspecified parameters are drawn at random"""
    p = {}
    p["ciph"] = kw.get("ciph", rng.below(2))
    p["cp"] = kw.get("cp", 24)
    p["sp"] = kw.get("sp", 24)
    for k in ("vc", "vn", "vt", "svt"):
        p[k] = kw.get(k, 1)
    p["svc"] = kw.get("svc", 0)
    p["cca"] = kw.get("cca", 1 + rng.below(2))
    p["sca"] = kw.get("sca", 1 + rng.below(2))
    for k in ("kpm", "first"):
        p[k] = kw.get(k, rng.below(2))
    for k in ("cam", "sam"):                    # CA through ca_file / ca_mem / ca_path
        p[k] = kw.get(k, rng.below(3))
    p["cut"] = kw.get("cut", 0)
    p["bias"] = kw.get("bias", rng.choice([8, 64, 128, 128, 192, 248]))
    p["burst"] = kw.get("burst", rng.choice([1, 1, 2, 4, 16, 64]))
    p["buf"] = kw.get("buf", rng.choice([1, 1, 4096, 16384, 0]))
    p["n"] = kw.get("n", rng.below(3000))
    p["chunk"] = kw.get("chunk", rng.choice([1, 7, 300, 4096, 16384, 16385, 40000, 65536]))
    p["seed"] = rng.next()
    p["noise"] = kw.get("noise", rng.choice([0, 0, 0, 4, 40, 128]))
    rc = kw.get("rc", rng.choice([0, 0, 0, 1, 2]))
    extra = []
    if rc:
        a = kw.get("A") or random_A(rng)
        extra = ["rc=%d" % rc] + ["%s=%d" % (k, a[k]) for k in sorted(a)]
    if "depth" in kw:
        extra.append("depth=%d" % kw["depth"])
    # source of every keypair half, independently: server cert, server key, client cert, client key (0 mem, 1 file)
    for k in ("scs", "sks", "ccs", "cks"):
        extra.append("%s=%d" % (k, kw.get(k, rng.below(2))))
    extra.append("now=%d" % NOW)
    if "scert_desc" in kw:
        scert = kw["scert_desc"](p["cca"])
    else:
        scert = server_cert(kw.get("scert", "trusted"), p["cca"], kw.get("names", "std"))
    ccert = client_cert(kw.get("ccert", "none"), p["sca"])
    if "swin" in kw:
        scert = certdesc(p["cca"], "w%d_%d" % kw["swin"], "s", CN, SANS_STD)
    if "cwin" in kw:
        ccert = certdesc(p["sca"], "w%d_%d" % kw["cwin"], "c", "client", [])
    host = kw["host_raw"] if "host_raw" in kw else HOSTS[kw.get("host", "match")]
    words = ["hs"] + ["%s=%d" % (k, p[k]) for k in
                      ("ciph", "cp", "sp", "vc", "vn", "vt", "svc", "svt", "cca", "sca", "cam", "sam", "kpm",
                       "first", "cut", "bias", "burst", "buf", "n", "chunk", "seed", "noise")]
    words += extra
    words += ["perm=%d" % env.perm[p["ciph"]], "pton=" + env.pton, "scert=" + scert, "ccert=" + ccert,
              "host=" + ("~" if host is None else hx(host))]
    return " ".join(words)


def policy_matrix(env, rng):
    """the complete matrix of the property's quantifier"""
    out = []
    for vc in (0, 1):
        for vn in (0, 1):
            for vt in (0, 1):
                for sc in ("trusted", "untrusted", "expired"):
                    for host in CORE_HOSTS:
                        for svc in (0, 1, 2):
                            for cc in ("none", "trusted", "untrusted"):
                                out.append([hs_line(env, rng, ciph=0, vc=vc, vn=vn, vt=vt, scert=sc, host=host,
                                                    svc=svc, ccert=cc, svt=1, n=rng.below(600))])
    return out


def protocol_matrix(env, rng):
    """every pair of protocol subsets, with and without @SECLEVEL=0"""
    out = []
    for ciph in (0, 1):
        for cp in range(0, 32, 2):
            for sp in range(0, 32, 2):
                out.append([hs_line(env, rng, ciph=ciph, cp=cp, sp=sp, vc=rng.below(2), vn=rng.below(2),
                                    vt=rng.below(2), n=rng.below(200))])
    return out


def reconfigure_family(env, rng):
    """the same contexts configured with A, then with B: A is chosen so that anything that survived from it would
    change the outcome under B (other CA trusted, time checks off, stricter/looser verify_client, other protocol
    set, a cipher list the certificate cannot serve, another keypair)"""
    out = []
    for rc in (1, 2):
        for svc in (0, 1, 2):
            for cc in ("none", "trusted", "untrusted", "expired"):
                for sc in ("trusted", "untrusted", "expired"):
                    for variant in range(3):
                        sca, cca = 1 + rng.below(2), 1 + rng.below(2)
                        a = random_A(rng)
                        if variant == 0:        # A trusts exactly what B does not, and does not check dates
                            a.update(asca=3 - sca, acca=3 - cca, asvt=0, avt=0, asvc=rng.choice([1, 2]), avc=1)
                        elif variant == 1:      # A verifies nothing / B everything it is told to
                            a.update(asvc=0, avc=0, avn=0, asca=3 - sca, acca=3 - cca)
                        else:                   # A narrows protocols and ciphers
                            a.update(aciph=2, acp=8, asp=8, akp=1)
                        vers = rng.choice([8, 16, 24, 24])
                        out.append([hs_line(env, rng, ciph=0, cp=vers, sp=rng.choice([vers, 24]), vc=1,
                                            vn=rng.below(2), vt=rng.below(2), svt=rng.below(2), svc=svc, ccert=cc,
                                            scert=sc, sca=sca, cca=cca, host="match", rc=rc, A=a,
                                            n=rng.below(300), noise=rng.choice([0, 0, 20]),
                                            depth=rng.choice([-1, 0, 1, 6]))])
    return out


def source_family(env, rng):
    """every combination of sources: CA file/mem/path on each side x (cert, key) file/mem for server and client"""
    out = []
    for cam in range(3):
        for sam in range(3):
            for bits in range(16):
                out.append([hs_line(env, rng, ciph=0, cp=24, sp=24, vc=1, vn=1, vt=1, svt=1, svc=rng.choice([1, 2]),
                                    scert="trusted", ccert="trusted", host="match", cam=cam, sam=sam,
                                    scs=bits & 1, sks=(bits >> 1) & 1, ccs=(bits >> 2) & 1, cks=(bits >> 3) & 1,
                                    n=rng.below(200), rc=rng.choice([0, 0, 1, 2]))])
    return out


IP_HOSTS = {"127.0.0.1": bytes([127, 0, 0, 1]), "::1": bytes(15) + b"\x01", "192.168.1.1": bytes([192, 168, 1, 1])}
IP_WILD = {"127.0.0.1": "*.0.0.1", "::1": "*.0.0.1", "192.168.1.1": "*.168.1.1"}


def ip_family(env, rng):
    """IP-literal server names against CN / SAN shapes; coverage is decided by the C08 model (an IP literal is
    covered by an iPAddress SAN with the same octets or, without any match in the SANs, by a CN that is the very
    same string -- never by a wildcard)"""
    out = []
    for host, octets in IP_HOSTS.items():
        other = bytes([octets[0] ^ 1]) + octets[1:]
        shapes = [
            (host, []),                                                   # CN = the literal
            (IP_WILD[host], []),                                          # wildcard CN with matching tail
            (host.upper() if ":" in host else host + ".", []),            # near miss
            (IP_WILD[host], ["i" + vf.hexs(octets)]),                     # iPAddress SAN match
            (IP_WILD[host], ["i" + vf.hexs(other)]),                      # iPAddress SAN mismatch + wildcard CN
            (IP_WILD[host], ["d" + hx("server.com")]),                    # dNSName SAN, CN fallback to the wildcard
            (host, ["d" + hx("server.com")]),                             # dNSName SAN, CN fallback to the literal
            ("server.com", ["d" + hx(IP_WILD[host])]),                    # wildcard dNSName SAN
            (None, ["i" + vf.hexs(octets), "d" + hx("server.com")]),
        ]
        for cn, sans in shapes:
            for vn in (0, 1):
                for vc in (0, 1):
                    out.append([hs_line(env, rng, ciph=0, cp=24, sp=rng.choice([8, 24]), vc=vc, vn=vn, vt=1, svc=0,
                                        ccert="none", host_raw=host, n=rng.below(100), noise=0,
                                        scert_desc=(lambda cca, cn=cn, sans=sans: certdesc(cca, "v", "s", cn, sans)))])
    return out


def window_family(env, rng):
    """validity windows incl. dates before 1970 and after 2038, for the server certificate (seen by a verifying
    client) and for the client certificate (seen by a verify_client server), verify_time on and off"""
    out = []
    for nb in NB_SET:
        for na in NA_SET:
            for vt in (0, 1):
                out.append([hs_line(env, rng, ciph=0, cp=24, sp=rng.choice([8, 24]), vc=1, vn=1, vt=vt, svc=0,
                                    ccert="none", host="match", swin=(nb, na), n=rng.below(100))])
                out.append([hs_line(env, rng, ciph=0, cp=24, sp=rng.choice([8, 24]), vc=1, vn=1, vt=1, svt=vt,
                                    svc=rng.choice([1, 2]), host="match", scert="trusted", cwin=(nb, na),
                                    n=rng.below(100))])
    # the one-second corner of known finding K4 (routed on its own, see Runner.known_minus_one)
    out.append([hs_line(env, rng, ciph=0, cp=24, sp=24, vc=1, vn=1, vt=1, svc=0, ccert="none", host="match",
                        swin=(-1, 2840140800), n=rng.below(100), noise=0, rc=0)])
    out.append([hs_line(env, rng, ciph=0, cp=24, sp=24, vc=1, vn=1, vt=1, svt=0, svc=1, host="match",
                        scert="trusted", cwin=(-631152000, -1), n=rng.below(100), noise=0, rc=0)])
    return out


SC_ALL = ["trusted", "untrusted", "expired", "future", "selfsigned", "purpose", "untrusted-expired"]
CC_ALL = ["none", "trusted", "untrusted", "expired", "future", "selfsigned", "purpose"]


def random_session(env, rng):
    names = rng.choice(["std", "std", "std", "cnonly", "evilfirst", "goodfirst", "nocn"])
    ciph = rng.below(2)
    masks = list(range(0, 32, 2))
    if rng.chance(1, 2):
        cp, sp = 24, 24
    else:
        cp, sp = rng.choice(masks), rng.choice(masks)
    return [hs_line(env, rng, ciph=ciph, cp=cp, sp=sp, vc=rng.below(2), vn=rng.below(2), vt=rng.below(2),
                    svt=rng.below(2), svc=rng.below(3), scert=rng.choice(SC_ALL), ccert=rng.choice(CC_ALL),
                    host=rng.choice(list(HOSTS)), names=names,
                    cut=rng.choice([0, 0, 0, 1, 2, 3, 4]))]


def data_session(env, rng, nmax):
    """established sessions moving real volume under hostile scheduling / tiny buffers"""
    ciph = rng.below(2)
    vers = [m for m in (2, 4, 8, 16) if env.perm[ciph] & m]
    v = rng.choice(vers)
    n = rng.choice([1, 100, 16384, 16385, 65536, nmax // 4, nmax // 2, nmax])
    n = max(1, min(n, nmax))
    return [hs_line(env, rng, ciph=ciph, cp=v, sp=v | rng.choice(vers), vc=1, vn=1, vt=1, svc=rng.below(3),
                    ccert="trusted", scert="trusted", host=rng.choice(["match", "wild", "case"]),
                    n=n, chunk=1 + rng.below(65536) if rng.chance(1, 2) else rng.choice([1, 64, 16384, 65536]),
                    buf=rng.choice([1, 1, 1, 2500, 8192, 0]), bias=rng.choice([4, 32, 128, 224, 252]),
                    burst=rng.choice([1, 1, 3, 64]), cut=rng.choice([0, 0, 0, 0, 1, 2, 3, 4]),
                    noise=rng.choice([0, 0, 1, 3, 10]))]


# ---- inj

ERRS = ["none", "zero", "wr", "ww", "sys", "ssl", "wc", "wa", "wx", "other"]
RETS = [-2, -1, 0, 1, 5]


def inj_cases(rng, full):
    out = []
    triples = [(r, e, q) for r in RETS for e in ERRS for q in (0, 1)]
    for fn in ("read", "write", "close", "handshake", "hswrite", "hsread"):
        for role in "cs":
            for flags in range(16):
                hc, ab, ef, vn = flags & 1, (flags >> 1) & 1, (flags >> 2) & 1, (flags >> 3) & 1
                ts = triples if full else [rng.choice(triples) for _ in range(12)]
                for (r, e, q) in ts:
                    r2, e2, q2 = rng.choice(triples)
                    r3, e3, q3 = rng.choice(triples)
                    ln = rng.choice(["0", "1", "10", "64", "big"])
                    sock = rng.choice(["none", "none", "ok", "notconn", "bad"])
                    out.append(["inj %s role=%s hc=%d ab=%d ef=%d vn=%d len=%s sock=%s %d:%s:%d %d:%s:%d %d:%s:%d"
                                % (fn, role, hc, ab, ef, vn, ln, sock, r, e, q, r2, e2, q2, r3, e3, q3)])
    return out


# ---- cfg

STRS = [None, "a", "b", "/etc/ssl/ca.pem", "x" * 40, "A"]
MEMS = ["~0", "~3", "~5", "-", hx("abc"), hx("abd"), hx("abcde"), hx(bytes(range(1, 200))), hx(b"\0\0\0")]
CIPHERS = [None, "secure", "SECURE", "default", "Normal", "fast", "HIGH", "DEFAULT:@SECLEVEL=0",
           "ECDHE-ECDSA-AES256-GCM-SHA384", "BOGUS-XYZ", "securex", "!ALL"]
DHES = [None, "none", "NONE", "auto", "Auto", "2048", "x"]
CURVES = [None, "none", "auto", "AUTO", "prime256v1", "secp384r1", "bogus", "P-256", "secp521r1"]
PROTOSTRS = ["all", "tlsv1.2", "tlsv1.2,tlsv1.3", "all,!tlsv1.0", "!tlsv1.3", "default", "secure",
             " tlsv1.1:tlsv1.2", "\tTLSv1.2", "tlsv1", "bogus", ",", "tlsv1.2,", "!all", "tlsv1.2 ",
             "tlsv1.0:tlsv1.1:tlsv1.2:tlsv1.3", "all:!tlsv1.1,!tlsv1.2", "!tlsv1.0,tlsv1.0", "ALL", "! tlsv1.2",
             "tlsv1.3,!tlsv1", "default,tlsv1.1"]
PROTOS = [0, 2, 4, 8, 16, 24, 30, 0xffffffff, 1, 32, 26]
DEPTHS = [-1, 0, 1, 6, 100, 2147483647, -2147483648]


def s_(v):
    return "~" if v is None else hx(v)


class CfgGen:
    def __init__(self, ca0, cipher_ok, curve_nid):
        self.ca0, self.cipher_ok, self.curve_nid = ca0, cipher_ok, curve_nid

    def setter(self, rng, kind=None):
        kinds = ["cafile", "capath", "camem", "certfile", "certmem", "keyfile", "keymem", "kpfile", "kpmem",
                 "ciphers", "dhe", "ecdhe", "ocspfile", "ocspmem", "proto", "depth", "parseproto", "prefc",
                 "prefs", "nocert", "noname", "notime", "verify", "vclient", "vclientopt", "clear"]
        k = kind or rng.choice(kinds)
        if k in ("cafile", "capath", "certfile", "keyfile", "ocspfile"):
            return "%s:%s" % (k, s_(rng.choice(STRS)))
        if k in ("camem", "certmem", "keymem", "ocspmem"):
            return "%s:%s" % (k, rng.choice(MEMS))
        if k == "kpfile":
            return "kpfile:%s:%s" % (s_(rng.choice(STRS)), s_(rng.choice(STRS)))
        if k == "kpmem":
            return "kpmem:%s:%s" % (rng.choice(MEMS), rng.choice(MEMS))
        if k == "ciphers":
            c = rng.choice(CIPHERS)
            return "ciphers:%s:%d" % (s_(c), 1 if c is None else self.cipher_ok[c])
        if k == "dhe":
            return "dhe:%s" % s_(rng.choice(DHES))
        if k == "ecdhe":
            c = rng.choice(CURVES)
            return "ecdhe:%s:%d" % (s_(c), 0 if c is None else self.curve_nid[c])
        if k == "proto":
            return "proto:%d" % rng.choice(PROTOS)
        if k == "depth":
            return "depth:%d" % rng.choice(DEPTHS)
        if k == "parseproto":
            return "parseproto:%s" % hx(rng.choice(PROTOSTRS))
        return k

    def case(self, rng):
        a = [self.setter(rng) for _ in range(rng.below(7))]
        r = rng.below(10)
        b = list(a)
        if r < 3:
            pass                                        # identical sequences
        elif r < 5 and b:                               # one call with another argument / another call
            i = rng.below(len(b))
            b[i] = self.setter(rng, b[i].split(":")[0])
        elif r < 6 and b:
            del b[rng.below(len(b))]
        elif r < 7:
            b.insert(rng.below(len(b) + 1), self.setter(rng))
        elif r < 8 and len(b) > 1:                      # reorder
            i, j = rng.below(len(b)), rng.below(len(b))
            b[i], b[j] = b[j], b[i]
        else:
            b = [self.setter(rng) for _ in range(rng.below(7))]
        return ["cfg ca0:%s %s | %s" % (hx(self.ca0), " ".join(a), " ".join(b))]

    def mem_pairs(self):
        """every pair of memory shapes in every memory-valued field (the F34 boundary)"""
        out = []
        for k in ("camem", "certmem", "keymem", "ocspmem"):
            for m1 in MEMS:
                for m2 in MEMS:
                    out.append(["cfg ca0:%s %s:%s | %s:%s" % (hx(self.ca0), k, m1, k, m2)])
        return out


# ---------------------------------------------------------------------- probing

def probe(run, ca0):
    """what the linked OpenSSL answers here: permitted protocol versions per cipher setting, validity
    of the cipher strings and curve names used by the cfg generator.  These feed the model."""
    env0 = Env({0: 0, 1: 0}, "g")
    rng = vf.SplitMix(17)
    lines = []
    for ciph in (0, 1):
        for v in (2, 4, 8, 16):
            lines.append(hs_line(env0, rng, ciph=ciph, cp=v, sp=v, vc=0, vn=0, n=1, cut=0, buf=0, noise=0, rc=0, cam=0, sam=0, scs=0, sks=0, ccs=0, cks=0))
    for c in CIPHERS:
        if c is not None:
            lines.append("cfg ca0:%s ciphers:%s:1 |" % (hx(ca0), hx(c)))
    for c in CURVES:
        if c is not None:
            lines.append("cfg ca0:%s ecdhe:%s:1 |" % (hx(ca0), hx(c)))
    out = run.harness_only(lines)
    perm = {0: 0, 1: 0}
    i = 0
    for ciph in (0, 1):
        for v in (2, 4, 8, 16):
            if out[i].startswith("est=1"):
                perm[ciph] |= v
            i += 1
    cipher_ok, curve_nid = {}, {}
    for c in CIPHERS:
        if c is not None:
            m = re.search(r"rv=(-?\d+)\|", out[i])
            cipher_ok[c] = 1 if (m and m.group(1) == "0") else 0
            i += 1
    for c in CURVES:
        if c is not None:
            m = re.search(r"rv=(-?\d+)\|", out[i])
            e = re.search(r"A\{.*? ec=(-?\d+) ", out[i])
            curve_nid[c] = int(e.group(1)) if (m and m.group(1) == "0" and e) else 0
            if c.lower() in ("none", "auto"):
                curve_nid[c] = 0
            i += 1
    return perm, cipher_ok, curve_nid


def subst(lines, env, ca0):
    out = []
    for l in lines:
        l = l.replace("@CA0", hx(ca0)).replace("@PTON", env.pton)
        if " ciph=1 " in l:
            l = l.replace("@PERM", str(env.perm[1]))
        else:
            l = l.replace("@PERM", str(env.perm[0]))
        out.append(l)
    return out


# ---------------------------------------------------------------------- main

def setup(ck):
    h, dcmd = build(ck)
    run = Runner(ck, h, dcmd)
    ca0 = (config_h("USUAL_TLS_CA_FILE", '"/etc/ssl/certs/ca-certificates.crt"') or "").strip('"')
    pton = "g" if config_h("HAVE_INET_PTON") else "c"
    perm, cipher_ok, curve_nid = probe(run, ca0)
    return run, Env(perm, pton), ca0, cipher_ok, curve_nid


def run(ck):
    run_, env, ca0, cipher_ok, curve_nid = setup(ck)
    try:
        return run_checked(ck, run_, env, ca0, cipher_ok, curve_nid)
    finally:
        run_.close()


def run_checked(ck, run, env, ca0, cipher_ok, curve_nid):
    ck.level = "other"
    ck.cov["explanation"] = (
        "Proved core + measured tie. Proved (Lean kernel, every run): tls_config_equal is true iff every configurable "
        "field is equal (keypair lists by induction) and every tls_config_* setter is exactly its list of field "
        "assignments; tls_ssl_error and the tls_handshake/read/write/close wrappers return only {n>0,0,-1,WANT_POLLIN,"
        "WANT_POLLOUT} for EVERY answer of the SSL object in EVERY connection state, 0 only for an orderly-end answer, "
        "a bare transport EOF is remembered and turns every later tls_close into -1; the version negotiated is the "
        "maximum of the two effective version sets (client: OpenSSL's lowest contiguous run; all 4096 set triples "
        "checked by the kernel) with OpenSSL's single anti-downgrade exception characterised; the policy decision is "
        "stated outright; the abstract duplex channel delivers a prefix of what was written under EVERY schedule. "
        "NOT proved (by nature): that OpenSSL's chain verification, record layer and negotiation behave as the model's "
        "parameters say, and that the kernel's socket schedules are covered -- those are compared with the real stack "
        "on the COMPLETE policy matrix of the property (648 combinations), ALL 2x256 pairs of protocol subsets, "
        "sampled cross products, seeded schedules with shrunk socket buffers, and scripted SSL answers.")
    ck.cov["partial"] = [
        "session decision: proved for the model's decision function given trusted/timeValid/nameCovered; that OpenSSL "
        "computes those as assumed is compared on the full matrix, not proved",
        "any schedule: proved for the abstract channel; real schedules are sampled (seeded scheduler, bias/burst/"
        "buffer/chunk parameters)",
        "negotiated version: proved for the transcription of OpenSSL's rules; the transcription is compared with the "
        "linked OpenSSL on all 512 (cipher setting, client set, server set) triples"]
    ck.cov["trusted_base"] = [
        "Lean 4.33 kernel", "axioms: propext, Quot.sound, Classical.choice",
        "correspondence harness harness/C17/h.c + generator/probe in checks/C17.py",
        "C08 model Usual.C08.checkName for `name covered` (its own theorems and tie are property C08)",
        "OpenSSL (linked: %s): X509 chain/purpose/time verification, record layer, version negotiation"
        % (config_h("USUAL_LIBSSL_FOR_TLS") and "libssl of the configured tree"),
        "kernel AF_UNIX stream sockets (SO_SNDBUF/SO_RCVBUF, poll)"]
    ck.cov["rule"] = (
        "hs case = one complete session (configs, certificates made in memory, handshake, 1-byte ping-pong, n bytes "
        "each way in random chunks <= 64 KiB, orderly close or transport cut) under a seeded schedule, with "
        "unrelated rejected library calls (bogus cipher list / curve / key file / CA file / PEM on scratch objects, "
        "leaving OpenSSL's error queue dirty) interleaved at rate noise/256 per step; "
        "in 2 of 5 sessions (and in the whole reconfigure family: 2 x 3 x 4 x 3 x 3 cases) the same client and "
        "server contexts are first configured with another configuration A (rc=1), or configured with A, used for "
        "a session attempt, closed and tls_reset (rc=2), before the configuration that counts; "
        "every session draws the source of each item independently: CA through ca_file / ca_mem / ca_path on each "
        "side, server certificate, server key, client certificate, client key each from memory or from a file (all "
        "3 x 3 x 16 combinations in the `sources` family) -- FRAME CONDITION: the decision model has no source input, "
        "so the outcome must not depend on it; IP-literal server names (127.0.0.1, ::1, 192.168.1.1) x 9 CN/SAN "
        "shapes x verify_name x verify_cert with the C08 model as name oracle; "
        "every generated certificate carries an explicit validity window (epoch seconds, the model gets `now`); the "
        "validity-windows family crosses notBefore in {1950, 1969-12-31 23:59:58, 0, 1, yesterday} with notAfter in "
        "{1960, 1969-12-31, 2^31-1, 2^31, 2060, 9999-12-31} x verify_time for server and client certificates, and the "
        "times reported by tls_peer_cert_notbefore/notafter are compared (pt=); "
        "an endpoint whose handshake was refused keeps calling tls_write/tls_read 4 more times (after=crossed if "
        "anything is accepted or delivered); "
        "inj case = one wrapper call (or tls_handshake followed by one I/O call) on a hand-set state with 3 scripted "
        "SSL answers; cfg case = two setter "
        "sequences + tls_config_equal both ways. distinct_nontrivial = distinct op lines (hs: every session runs "
        "the real handshake; inj: every line reaches the wrapper; cfg: lines with at least one setter)")
    ck.assumptions += [
        "fixes F17/F18 (C08), F34 (tls_mem_equal) and F29 (buflen rv) applied to the tree under test",
        "dates are checked as part of chain verification, i.e. only when verify_cert / verify_client is on",
        "established = both tls_handshake returned 0 and one byte went each way (TLS 1.3 reports a rejected client "
        "certificate only on the client's first read)",
        "transport cut = shutdown(fd, SHUT_RDWR) by the peer after the data phase",
        "OpenSSL permits per cipher setting: default=%d, DEFAULT:@SECLEVEL=0=%d (TLS_PROTOCOL_* masks, probed)"
        % (env.perm[0], env.perm[1]),
        "tls_get_conninfo does not fail (allocation failure is property C10)",
        "a validity date of exactly 1969-12-31 23:59:59 (time_t -1) is known finding K4 (timegm()'s error value is "
        "in-band in tls_get_peer_cert_times / tls_asn1_parse_time): such cases run on every tier and only the known "
        "shape (refused where the model establishes) is tolerated",
        "frame condition: where a CA / certificate / key comes from (file, memory, hashed directory) is not an input "
        "of the decision model"]
    ck.cov["openssl_permitted_masks"] = {"default": env.perm[0], "seclevel0": env.perm[1]}
    ck.cov["platform_inet_pton_mode"] = env.pton
    rng = vf.SplitMix(ck.seed * 1000003 + 17)
    cg = CfgGen(ca0, cipher_ok, curve_nid)
    nfail = 0
    hard = not ck.proof_ok

    def nt_cfg(c):
        return len(c[0].split()) > 3

    corpus = [subst(c, env, ca0) for c in vf.corpus_cases(PID)]
    nfail += run.par_compare(corpus, "corpus", chunk=50)

    # (ii) wrappers on scripted SSL answers
    inj = inj_cases(rng, full=not ck.quick() or hard)
    nfail += run.par_compare(inj, "inj", chunk=2000)
    ck.sample(inj[len(inj) // 3][0])

    # (i) setters / equality
    cfgs = cg.mem_pairs() + [cg.case(rng) for _ in range(ck.scale(6000, 150000) * (4 if hard else 1))]
    nfail += run.par_compare(cfgs, "cfg", chunk=3000, nontrivial=nt_cfg)
    ck.sample(cfgs[-1][0][:300])

    # (iii)+(iv) complete matrices
    pm = policy_matrix(env, rng)
    nfail += run.par_compare(pm, "policy-matrix", chunk=60, workers=12)
    ck.cov["policy_matrix_cases"] = len(pm)
    ck.sample(pm[len(pm) // 2][0])
    prm = protocol_matrix(env, rng)
    nfail += run.par_compare(prm, "protocol-matrix", chunk=60, workers=12)
    ck.cov["protocol_matrix_cases"] = len(prm)
    ck.sample(prm[300][0])

    # sources: CA file/mem/path x certificate/key file/mem per item (frame condition: never changes the outcome)
    sf = source_family(env, rng)
    nfail += run.par_compare(sf, "sources", chunk=24, workers=12)
    ck.cov["source_family_cases"] = len(sf)
    ck.sample(sf[37][0])

    # IP-literal server names x CN / SAN shapes, verdict of the C08 model as name oracle
    ipf = ip_family(env, rng)
    nfail += run.par_compare(ipf, "ip-names", chunk=18, workers=12)
    ck.cov["ip_name_family_cases"] = len(ipf)
    ck.sample(ipf[5][0])

    # validity windows (before 1970, after 2038, GeneralizedTime) x verify_time, both certificate roles;
    # the times reported by tls_peer_cert_notbefore/notafter are compared as well (pt=)
    wf = window_family(env, rng)
    nfail += run.par_compare(wf, "validity-windows", chunk=20, workers=12)
    ck.cov["validity_window_family_cases"] = len(wf)
    ck.sample(wf[3][0])

    # reconfigure family: the outcome is that of the LAST configuration alone
    rf = reconfigure_family(env, rng)
    nfail += run.par_compare(rf, "reconfigure", chunk=40, workers=12)
    ck.cov["reconfigure_family_cases"] = len(rf)
    ck.sample(rf[len(rf) // 3][0])

    # sampled cross product incl. the extra certificate kinds, hosts, name sets, cuts
    rs = [random_session(env, rng) for _ in range(ck.scale(600, 24000) * (4 if hard else 1))]
    nfail += run.par_compare(rs, "random-session", chunk=60, workers=12)
    ck.sample(rs[0][0])

    # (v) volume under hostile schedules
    nmax = ck.scale(300000, 1500000)
    ds = [data_session(env, rng, nmax) for _ in range(ck.scale(60, 1000) * (4 if hard else 1))]
    nfail += run.par_compare(ds, "data", chunk=ck.scale(6, 20), workers=12)
    ck.sample(ds[0][0])

    ck.cov["harness_counters"] = run.stats
    top = sorted(run.hist.items(), key=lambda kv: -kv[1])
    ck.cov["result_histogram"] = dict(top[:60])
    ck.cov["traces_validated_against_impl"] = ck.cov["evaluations"]
    ck.cov["exhaustive"] = False
    if not ck.quick():
        ck.leanchecker(PROP_MODULES)
    return nfail


def replay(ck, path):
    run_, env, ca0, _, _ = setup(ck)
    try:
        return vf.generic_replay(ck, path, run_.hcmd(), run_.dcmd)
    finally:
        run_.close()
